package main

// Part 5 — sibling instances of ONE compiled module. Owner E5 defines a funcref table and a mutable global; module S
// is compiled once and instantiated three times (names "S1", "S2" and anonymously), each importing E5's table and
// global and each with PRIVATE state (global pg, memory byte 8, global hops) plus a per-instance tag set by the host.
// S installs its own functions into the shared table; any instance then reaches whatever a sibling installed through
// call_indirect, return_call_indirect, and return_call of an imported owner function that forwards through the table
// (with call_indirect or return_call_indirect). The callee must act on ITS OWN instance's private state: the returned
// value carries the callee's tag, and after every step every instance's private state is read on both engines.
// Runs with the tail-call feature enabled.

import (
	"fmt"
	"strings"

	"github.com/tetratelabs/wazero"
	"github.com/tetratelabs/wazero/api"
	"github.com/tetratelabs/wazero/experimental"
	"github.com/tetratelabs/wazero/verif/wb"
)

const (
	p5TabSize = 3
	p5Addr    = 8
)

var p5Insts = []string{"S1", "S2", "S3"} // S3 is instantiated anonymously
var p5Forms = []string{"ci", "rci", "rc_imp", "rc_impt"}

func p5RuntimeConfig(engine string) wazero.RuntimeConfig {
	return runtimeConfig(engine).WithCoreFeatures(features | experimental.CoreFeaturesTailCall)
}

func buildP5(which string) []byte {
	m := &wb.Module{}
	tyOp := m.Type(tI32, tI32)
	if which == "E5" {
		m.Tables = []wb.Table{{Elem: wb.FuncRef, Lim: wb.Limits{Min: p5TabSize, Max: p5TabSize, HasMax: true}}}
		sg := m.AddGlobal(wb.I32, true, wb.CI32(0))
		m.Exports = append(m.Exports, wb.Export{Name: "tab", Kind: wb.KindTable}, wb.Export{Name: "sg", Kind: wb.KindGlobal, Idx: sg})
		// fwd(slot,x): call_indirect ; fwdt(slot,x): return_call_indirect
		m.ExportFunc("fwd", m.AddFunc(t2I32, tI32, nil, (&wb.Asm{}).LocalGet(1).LocalGet(0).CallIndirect(tyOp, 0).B))
		m.ExportFunc("fwdt", m.AddFunc(t2I32, tI32, nil, (&wb.Asm{}).LocalGet(1).LocalGet(0).ReturnCallIndirect(tyOp, 0).B))
		m.ExportFunc("tnull", m.AddFunc(tI32, tI32, nil, (&wb.Asm{}).LocalGet(0).TableGet(0).RefIsNull().B))
		m.ExportFunc("sgget", m.AddFunc(nil, tI32, nil, (&wb.Asm{}).GlobalGet(sg).B))
		return m.Encode()
	}
	fwd := m.ImportFunc("E5", "fwd", t2I32, tI32)
	fwdt := m.ImportFunc("E5", "fwdt", t2I32, tI32)
	m.Imports = append(m.Imports,
		wb.Import{Module: "E5", Name: "tab", Kind: wb.KindTable, Table: wb.Table{Elem: wb.FuncRef, Lim: wb.Limits{Min: p5TabSize, Max: p5TabSize, HasMax: true}}},
		wb.Import{Module: "E5", Name: "sg", Kind: wb.KindGlobal, GlobalType: wb.I32, GlobalMut: true})
	const gSG = 0
	m.Mem = &wb.Limits{Min: 1}
	gTag := m.AddGlobal(wb.I32, true, wb.CI32(0))
	gPG := m.AddGlobal(wb.I32, true, wb.CI32(0))
	gHops := m.AddGlobal(wb.I32, true, wb.CI32(0))
	// mark(x): pg = x; mem[8] = x; sg = x; return tag*1000 + x
	mark := m.AddFunc(tI32, tI32, nil, (&wb.Asm{}).
		LocalGet(0).GlobalSet(gPG).
		I32Const(p5Addr).LocalGet(0).Mem(0x3a, 0, 0).
		LocalGet(0).GlobalSet(gSG).
		GlobalGet(gTag).I32Const(1000).Op(0x6c).LocalGet(0).Op(0x6a).B)
	// hop(x): hops++; return_call_indirect slot 0 (x)
	hop := m.AddFunc(tI32, tI32, nil, (&wb.Asm{}).
		GlobalGet(gHops).I32Const(1).Op(0x6a).GlobalSet(gHops).
		LocalGet(0).I32Const(0).ReturnCallIndirect(tyOp, 0).B)
	m.ExportFunc("mark", mark)
	m.ExportFunc("hop", hop)
	m.ExportFunc("settag", m.AddFunc(tI32, nil, nil, (&wb.Asm{}).LocalGet(0).GlobalSet(gTag).B))
	m.ExportFunc("install_mark", m.AddFunc(tI32, nil, nil, (&wb.Asm{}).LocalGet(0).RefFunc(mark).TableSet(0).B))
	m.ExportFunc("install_hop", m.AddFunc(tI32, nil, nil, (&wb.Asm{}).LocalGet(0).RefFunc(hop).TableSet(0).B))
	m.ExportFunc("ci", m.AddFunc(t2I32, tI32, nil, (&wb.Asm{}).LocalGet(1).LocalGet(0).CallIndirect(tyOp, 0).B))
	m.ExportFunc("rci", m.AddFunc(t2I32, tI32, nil, (&wb.Asm{}).LocalGet(1).LocalGet(0).ReturnCallIndirect(tyOp, 0).B))
	m.ExportFunc("rc_imp", m.AddFunc(t2I32, tI32, nil, (&wb.Asm{}).LocalGet(0).LocalGet(1).ReturnCall(fwd).B))
	m.ExportFunc("rc_impt", m.AddFunc(t2I32, tI32, nil, (&wb.Asm{}).LocalGet(0).LocalGet(1).ReturnCall(fwdt).B))
	m.ExportFunc("pgget", m.AddFunc(nil, tI32, nil, (&wb.Asm{}).GlobalGet(gPG).B))
	m.ExportFunc("hopsget", m.AddFunc(nil, tI32, nil, (&wb.Asm{}).GlobalGet(gHops).B))
	m.ExportFunc("tagget", m.AddFunc(nil, tI32, nil, (&wb.Asm{}).GlobalGet(gTag).B))
	m.ExportFunc("sgget", m.AddFunc(nil, tI32, nil, (&wb.Asm{}).GlobalGet(gSG).B))
	m.ExportFunc("mload", m.AddFunc(nil, tI32, nil, (&wb.Asm{}).I32Const(p5Addr).Mem(0x2d, 0, 0).B))
	return m.Encode()
}

// ---------------------------------------------------------------- alphabet and model

type p5Step struct {
	Inst string
	Kind string // install_mark | install_hop | one of p5Forms
	Slot uint32
}

func (s p5Step) String() string { return fmt.Sprintf("%s.%s@%d", s.Inst, s.Kind, s.Slot) }

func p5Alphabet() (a []p5Step) {
	for _, x := range p5Insts {
		a = append(a, p5Step{x, "install_mark", 0}, p5Step{x, "install_hop", 1})
	}
	for _, x := range p5Insts {
		for _, f := range p5Forms {
			for s := uint32(0); s < 2; s++ {
				a = append(a, p5Step{x, f, s})
			}
		}
	}
	return
}

type p5Inst struct{ pg, mem, hops uint32 }

type p5Model struct {
	tab  [p5TabSize]string // "", "S1.mark", "S2.hop", ...
	sg   uint32
	inst map[string]*p5Inst
}

func newP5Model() *p5Model {
	m := &p5Model{inst: map[string]*p5Inst{}}
	for _, x := range p5Insts {
		m.inst[x] = &p5Inst{}
	}
	return m
}

func p5Tag(inst string) uint32 { return uint32(inst[1] - '0') }

func (m *p5Model) key() string {
	var b strings.Builder
	fmt.Fprintf(&b, "%v|sg%d", m.tab, m.sg)
	for _, x := range p5Insts {
		i := m.inst[x]
		fmt.Fprintf(&b, "|%d,%d,%d", i.pg, i.mem, i.hops)
	}
	return b.String()
}

// exec: the function referenced by a table slot runs against the instance that installed it, whatever call form
// reached it and whoever the caller is.
func (m *p5Model) exec(slot uint32, x uint32) string {
	ref := m.tab[slot]
	if ref == "" {
		return "trap:table"
	}
	own := m.inst[owner(ref)]
	if strings.HasSuffix(ref, ".hop") {
		own.hops++
		return m.exec(0, x) // slot 0 never holds a hop
	}
	own.pg, own.mem, m.sg = x, x, x
	return "ok:" + u(uint64(p5Tag(owner(ref))*1000+x))
}

func (m *p5Model) apply(s p5Step, x uint32) string {
	switch s.Kind {
	case "install_mark":
		m.tab[s.Slot] = s.Inst + ".mark"
		return "ok"
	case "install_hop":
		m.tab[s.Slot] = s.Inst + ".hop"
		return "ok"
	}
	return m.exec(s.Slot, x)
}

// ---------------------------------------------------------------- execution

type p5Env struct {
	rts      map[string]wazero.Runtime
	compiled map[string]wazero.CompiledModule
}

func newP5Env() *p5Env {
	e := &p5Env{rts: map[string]wazero.Runtime{}, compiled: map[string]wazero.CompiledModule{}}
	for _, en := range engineNames {
		e.rts[en] = wazero.NewRuntimeWithConfig(bg, p5RuntimeConfig(en))
	}
	return e
}

func (e *p5Env) close() {
	for _, rt := range e.rts {
		rt.Close(bg)
	}
}

func (e *p5Env) newWorld(engine string) (*bworld, string) {
	w := &bworld{engine: engine, mods: map[string]api.Module{}, fns: map[string]api.Function{}, broken: map[string]string{}}
	for _, which := range []string{"E5", "S"} {
		if e.compiled[engine+which] == nil {
			cm, err := e.rts[engine].CompileModule(bg, buildP5(which))
			if err != nil {
				return nil, which + ": compile: " + err.Error()
			}
			e.compiled[engine+which] = cm
		}
	}
	inst := func(key, which, name string) string {
		mod, err := e.rts[engine].InstantiateModule(bg, e.compiled[engine+which], modCfg.WithName(name))
		if err != nil {
			w.close5()
			return key + ": instantiate: " + err.Error()
		}
		w.mods[key] = mod
		return ""
	}
	if s := inst("E5", "E5", "E5"); s != "" {
		return nil, s
	}
	for _, x := range p5Insts {
		name := x
		if x == "S3" {
			name = "" // anonymous sibling
		}
		if s := inst(x, "S", name); s != "" {
			return nil, s
		}
		if r := w.call(x, "settag", uint64(p5Tag(x))); r != "ok" {
			w.close5()
			return nil, x + ".settag: " + r
		}
	}
	return w, ""
}

func (w *bworld) close5() {
	for _, s := range []string{"S3", "S2", "S1", "E5"} {
		if m := w.mods[s]; m != nil {
			m.Close(bg)
		}
	}
}

type p5Viol struct {
	Sig    string   `json:"sig"`
	What   string   `json:"what"`
	Word   []string `json:"word"`
	Engine string   `json:"engine"`
}

func (e *p5Env) runWord5(alpha []p5Step, word []int, st *p2Stats, trace func(string)) (vs []p5Viol) {
	names := make([]string, len(word))
	for i, k := range word {
		names[i] = alpha[k].String()
	}
	report := func(sig, what, engine string) {
		vs = append(vs, p5Viol{Sig: sig, What: what, Word: names, Engine: engine})
	}
	m := newP5Model()
	var ws []*bworld
	defer func() {
		for _, w := range ws {
			w.close5()
		}
	}()
	for _, en := range engineNames {
		w, errs := e.newWorld(en)
		if w == nil {
			report("p5:setup:graph-not-instantiable", fmt.Sprintf("[%s] %s", en, errs), en)
			return
		}
		ws = append(ws, w)
	}
	st.Words++
	compare := func(stepName string, upto int) bool {
		ok := true
		for _, w := range ws {
			check := func(label, mod, fn string, want uint32, args ...uint64) bool {
				st.Reads++
				if got := w.call(mod, fn, args...); got != "ok:"+u(uint64(want)) {
					report("p5:"+stepName+":obs:"+digits.ReplaceAllString(label, "#")+"/spec:ok:#",
						fmt.Sprintf("[%s] after %v: read %s = %s, the model says %d (a function runs against the instance that owns it, whatever call form reached it)", w.engine, names[:upto], label, got, want), w.engine)
					return false
				}
				return true
			}
			good := true
			for i := uint32(0); i < p5TabSize && good; i++ {
				isNull := uint32(0)
				if m.tab[i] == "" {
					isNull = 1
				}
				good = check(fmt.Sprintf("E5.tnull@%d", i), "E5", "tnull", isNull, uint64(i))
			}
			good = good && check("E5.sgget", "E5", "sgget", m.sg)
			for _, x := range p5Insts {
				if !good {
					break
				}
				i := m.inst[x]
				good = check(x+".tagget", x, "tagget", p5Tag(x)) && check(x+".pgget", x, "pgget", i.pg) && check(x+".mload", x, "mload", i.mem) &&
					check(x+".hopsget", x, "hopsget", i.hops) && check(x+".sgget", x, "sgget", m.sg)
			}
			if !good {
				ok = false
			}
		}
		st.EngineCompares++
		if trace != nil {
			trace("  model: " + m.key())
		}
		return ok
	}
	if !compare("init", 0) {
		return
	}
	st.States[h64("p5#"+m.key())] = struct{}{}
	for i, k := range word {
		s := alpha[k]
		x := uint32(k + 1)
		before := m.key()
		want := m.apply(s, x)
		st.Steps++
		st.Trans[h64("p5#"+before+"#"+s.String())] = struct{}{}
		st.Outcomes["p5:"+s.Kind+"="+sigVal(want)]++
		for _, w := range ws {
			var got string
			if strings.HasPrefix(s.Kind, "install") {
				got = w.call(s.Inst, s.Kind, uint64(s.Slot))
			} else {
				got = w.call(s.Inst, s.Kind, uint64(s.Slot), uint64(x))
			}
			if trace != nil {
				trace(fmt.Sprintf("step %d %s [%s]: %s (model: %s)", i, s, w.engine, got, want))
			}
			if got != want {
				report("p5:"+s.Kind+":result:"+sigVal(got)+"/spec:"+sigVal(want),
					fmt.Sprintf("[%s] word %v: step %d returned %s, the specification says %s (result = 1000*tag of the instance whose function ran + argument)", w.engine, names[:i+1], i, got, want), w.engine)
			}
		}
		if !compare(s.Kind, i+1) {
			return
		}
		st.States[h64("p5#"+m.key())] = struct{}{}
	}
	return
}
