package main

// Part 2 — reference model: one boring Go object per shared extern, and the operation alphabet.
// Every operation has a model side (pure, on *model) and an implementation side (calls into the real
// instances of one engine); both return a canonical result string.

import (
	"fmt"
	"strconv"
	"strings"

	"github.com/tetratelabs/wazero/api"
)

type model struct {
	cfg   gcfg
	alive map[string]bool
	pages uint32
	mem   map[uint32]byte
	tab   []string // "" = null, else "<owner>.<fn>": E.id I.growfn K.kid ...
	g     uint32
	v     [2]uint64
}

func newModel(c gcfg) *model {
	m := &model{cfg: c, alive: map[string]bool{}, pages: memMin, mem: map[uint32]byte{}, tab: make([]string, tabMin), v: [2]uint64{1, 2}}
	for _, s := range c.sides() {
		m.alive[s] = true
	}
	return m
}

func (m *model) key() string {
	var b strings.Builder
	for _, s := range m.cfg.sides() {
		if m.alive[s] {
			b.WriteString(s)
		} else {
			b.WriteByte('-')
		}
	}
	fmt.Fprintf(&b, "|p%d|%02x,%02x,%02x|%s|g%d|v%x,%x", m.pages, m.mem[addrLo], m.mem[addrLo2], m.mem[addrHi], strings.Join(m.tab, ","), m.g, m.v[0], m.v[1])
	return b.String()
}

func (m *model) store(a uint32, v byte) string {
	if uint64(a) >= uint64(m.pages)*65536 {
		return "trap:oob-mem"
	}
	m.mem[a] = v
	return "ok"
}

func (m *model) load(a uint32) string {
	if uint64(a) >= uint64(m.pages)*65536 {
		return "trap:oob-mem"
	}
	return fmt.Sprintf("ok:%d", m.mem[a])
}

func (m *model) grow(d uint32) uint32 {
	if m.pages+d > memMax {
		return 0xffffffff
	}
	old := m.pages
	m.pages += d
	return old
}

func (m *model) tgrow(n uint32, ref string) uint32 {
	if uint32(len(m.tab))+n > tabMax {
		return 0xffffffff
	}
	old := uint32(len(m.tab))
	for i := uint32(0); i < n; i++ {
		m.tab = append(m.tab, ref)
	}
	return old
}

func (m *model) tset(i uint32, ref string) string {
	if i >= uint32(len(m.tab)) {
		return "trap:table"
	}
	m.tab[i] = ref
	return "ok"
}

func owner(ref string) string {
	if i := strings.IndexByte(ref, '.'); i > 0 {
		return ref[:i]
	}
	return ""
}

// ownerCallable: may the check call the function referenced by ref? Functions of closed instances are
// not called (what a closed module's functions do is outside this property; C09 covers it). K instances are
// never closed during a word; a K whose instantiation failed stays callable through the table (spec).
func (m *model) ownerCallable(ref string) bool {
	o := owner(ref)
	return o == "" || o == "K" || m.alive[o]
}

// tcall models call_indirect with type ()->i32.
func (m *model) tcall(i uint32) string {
	if i >= uint32(len(m.tab)) || m.tab[i] == "" {
		return "trap:table"
	}
	switch ref := m.tab[i]; {
	case strings.HasSuffix(ref, ".id"):
		return fmt.Sprintf("ok:%d", sideID[owner(ref)])
	case ref == "K.kid":
		return fmt.Sprintf("ok:%d", kID)
	default:
		return "trap:sig"
	}
}

// ---------------------------------------------------------------- observation

// A probe is one read of one shared object through one side (guest accessor) or through the host API.
type probe struct {
	Label string
	Side  string
	Fn    string // guest accessor; "" for host reads
	Arg   uint64
	NArgs int
	Host  int // 1 mem.Size, 2 mem.ReadByte(Arg), 3 g.Get
	Want  string
}

var probeAddrs = []uint32{addrLo, addrLo2, addrHi}

func u(v uint64) string { return strconv.FormatUint(v, 10) }

func label(side, what string, arg uint64, hasArg bool) string {
	k := side + "." + what
	if hasArg {
		k += "@" + u(arg)
	}
	return k
}

// observe lists every read of every shared object through every live side and through the host API of E
// and I, with the value the model predicts. Null table slots are read with table.get/ref.is_null, non-null
// slots are called (identity of the function), the first slot beyond the table must trap.
func (m *model) observe() (o []probe) {
	for _, s := range m.cfg.sides() {
		if !m.alive[s] {
			continue
		}
		o = append(o, probe{Label: s + ".size", Side: s, Fn: "size", Want: "ok:" + u(uint64(m.pages))})
		for _, a := range probeAddrs {
			o = append(o, probe{Label: label(s, "load", uint64(a), true), Side: s, Fn: "load", Arg: uint64(a), NArgs: 1, Want: m.load(a)})
		}
		o = append(o, probe{Label: s + ".gget", Side: s, Fn: "gget", Want: "ok:" + u(uint64(m.g))})
		o = append(o, probe{Label: s + ".vget", Side: s, Fn: "vget", Want: "ok:" + u(m.v[0]) + "," + u(m.v[1])})
		o = append(o, probe{Label: s + ".tsize", Side: s, Fn: "tsize", Want: "ok:" + u(uint64(len(m.tab)))})
		for i := uint32(0); i < tabMax; i++ {
			switch {
			case i > uint32(len(m.tab)):
			case i == uint32(len(m.tab)):
				o = append(o, probe{Label: label(s, "tnull", uint64(i), true), Side: s, Fn: "tnull", Arg: uint64(i), NArgs: 1, Want: "trap:table"})
			case m.tab[i] == "":
				o = append(o, probe{Label: label(s, "tnull", uint64(i), true), Side: s, Fn: "tnull", Arg: uint64(i), NArgs: 1, Want: "ok:1"})
			case m.ownerCallable(m.tab[i]):
				o = append(o, probe{Label: label(s, "tcall", uint64(i), true), Side: s, Fn: "tcall", Arg: uint64(i), NArgs: 1, Want: m.tcall(i)})
			default: // function of a closed instance: only its non-nullness is read
				o = append(o, probe{Label: label(s, "tnull", uint64(i), true), Side: s, Fn: "tnull", Arg: uint64(i), NArgs: 1, Want: "ok:0"})
			}
		}
	}
	for _, s := range []string{"E", "I"} {
		if !m.alive[s] {
			continue
		}
		o = append(o, probe{Label: "host" + s + ".mem.Size", Side: s, Host: 1, Want: u(uint64(m.pages) * 65536)})
		for _, a := range probeAddrs {
			val := "oob"
			if uint64(a) < uint64(m.pages)*65536 {
				val = u(uint64(m.mem[a]))
			}
			o = append(o, probe{Label: label("host"+s, "mem.ReadByte", uint64(a), true), Side: s, Host: 2, Arg: uint64(a), Want: val})
		}
		o = append(o, probe{Label: "host" + s + ".g.Get", Side: s, Host: 3, Want: u(uint64(m.g))})
	}
	return
}

// read performs one probe on the implementation.
func (w *world) read(p *probe) string {
	switch p.Host {
	case 0:
		if p.NArgs == 1 {
			return w.callS(p.Side, p.Fn, p.Arg)
		}
		return w.callS(p.Side, p.Fn)
	case 1:
		mod := w.mods[p.Side]
		mem := mod.ExportedMemory("mem")
		if mod.Memory() != mem {
			return "Module.Memory() is not the exported memory"
		}
		return u(uint64(mem.Size()))
	case 2:
		if b, ok := w.mods[p.Side].ExportedMemory("mem").ReadByte(uint32(p.Arg)); ok {
			return u(uint64(b))
		}
		return "oob"
	default:
		return u(w.mods[p.Side].ExportedGlobal("g").Get())
	}
}

// ---------------------------------------------------------------- operations

type opDef struct {
	Name       string
	Applicable func(m *model) bool
	Model      func(m *model) string
	Impl       func(w *world, m *model) string // m is the model state BEFORE the op (read-only; used for skip decisions only)
	Kmut       string                          // non-empty for the invalid-module operations
}

func aliveAll(sides ...string) func(m *model) bool {
	return func(m *model) bool {
		for _, s := range sides {
			if !m.alive[s] {
				return false
			}
		}
		return true
	}
}

func okU32(v uint32) string { return fmt.Sprintf("ok:%d", v) }

// importsFrom: the instance whose functions side X calls through its function imports.
func fnProvider(side string) []string {
	switch side {
	case "I":
		return []string{"I", "E"}
	case "J":
		return []string{"J", "I"} // J imports I's own accessor functions
	}
	return []string{side}
}

func buildOps(c gcfg) []opDef {
	var ops []opDef
	nextB := byte(0x20)
	newByte := func() byte { nextB++; return nextB }
	nextG := uint32(0)
	newG := func() uint32 { nextG++; return nextG }
	nextV := uint64(0)
	newV := func() [2]uint64 { nextV++; lo := nextV * 0x0101010101010101; return [2]uint64{lo, ^lo} }

	for _, s := range c.sides() {
		s := s
		al := aliveAll(s)
		for _, a := range []uint32{addrLo, addrHi} {
			a, b := a, newByte()
			nm := "lo"
			if a == addrHi {
				nm = "hi"
			}
			ops = append(ops, opDef{Name: s + ".store." + nm, Applicable: al,
				Model: func(m *model) string { return m.store(a, b) },
				Impl:  func(w *world, _ *model) string { return w.callS(s, "store", uint64(a), uint64(b)) }})
		}
		ops = append(ops, opDef{Name: s + ".grow", Applicable: al,
			Model: func(m *model) string { return okU32(m.grow(1)) },
			Impl:  func(w *world, _ *model) string { return w.callS(s, "grow", 1) }})
		gv := newG()
		ops = append(ops, opDef{Name: s + ".gset", Applicable: al,
			Model: func(m *model) string { m.g = gv; return "ok" },
			Impl:  func(w *world, _ *model) string { return w.callS(s, "gset", uint64(gv)) }})
		vv := newV()
		ops = append(ops, opDef{Name: s + ".vset", Applicable: al,
			Model: func(m *model) string { m.v = vv; return "ok" },
			Impl:  func(w *world, _ *model) string { return w.callS(s, "vset", vv[0], vv[1]) }})
		for _, i := range []uint32{0, 2} {
			i := i
			ops = append(ops, opDef{Name: fmt.Sprintf("%s.tset.own@%d", s, i), Applicable: al,
				Model: func(m *model) string { return m.tset(i, s+".id") },
				Impl:  func(w *world, _ *model) string { return w.callS(s, "tset", uint64(i), 1) }})
		}
		ops = append(ops, opDef{Name: s + ".tgrow.own", Applicable: al,
			Model: func(m *model) string { return okU32(m.tgrow(1, s+".id")) },
			Impl:  func(w *world, _ *model) string { return w.callS(s, "tgrow", 1, 1) }})
	}

	// host API on the exporter's objects
	{
		b := newByte()
		ops = append(ops, opDef{Name: "host.mem.WriteByte.lo", Applicable: aliveAll("E"),
			Model: func(m *model) string { m.mem[addrLo] = b; return "true" },
			Impl: func(w *world, _ *model) string {
				return fmt.Sprint(w.mods["E"].ExportedMemory("mem").WriteByte(addrLo, b))
			}})
		ops = append(ops, opDef{Name: "host.mem.Grow", Applicable: aliveAll("E"),
			Model: func(m *model) string {
				r := m.grow(1)
				if r == 0xffffffff {
					return "0,false"
				}
				return fmt.Sprintf("%d,true", r)
			},
			Impl: func(w *world, _ *model) string {
				r, ok := w.mods["E"].ExportedMemory("mem").Grow(1)
				return fmt.Sprintf("%d,%v", r, ok)
			}})
		gv := newG()
		ops = append(ops, opDef{Name: "host.g.Set", Applicable: aliveAll("E"),
			Model: func(m *model) string { m.g = gv; return "ok" },
			Impl: func(w *world, _ *model) string {
				w.mods["E"].ExportedGlobal("g").(api.MutableGlobal).Set(uint64(gv))
				return "ok"
			}})
	}

	ops = append(ops, opDef{Name: "E.tset.null@0", Applicable: aliveAll("E"),
		Model: func(m *model) string { return m.tset(0, "") },
		Impl:  func(w *world, _ *model) string { return w.callS("E", "tset", 0, 0) }})
	ops = append(ops, opDef{Name: "I.tset.growfn@1", Applicable: aliveAll("I"),
		Model: func(m *model) string { return m.tset(1, "I.growfn") },
		Impl:  func(w *world, _ *model) string { return w.callS("I", "tset", 1, 2) }})

	// E.ci_across: E stores, calls table[1] with type (i32)->i32 (the importer's growfn grows E's memory while E's
	// frame is live), stores into the new page, returns memory.size
	{
		b1, b2 := newByte(), newByte()
		ops = append(ops, opDef{Name: "E.ci_across",
			Applicable: func(m *model) bool { return m.alive["E"] && m.ownerCallable(m.tab[1]) },
			Model: func(m *model) string {
				m.store(addrLo, b1)
				switch ref := m.tab[1]; {
				case ref == "":
					return "trap:table"
				case strings.HasSuffix(ref, ".growfn"):
					m.grow(1)
				default:
					return "trap:sig"
				}
				if r := m.store(addrHi, b2); r != "ok" {
					return r
				}
				return okU32(m.pages)
			},
			Impl: func(w *world, _ *model) string {
				return w.callS("E", "ci_across", addrLo, uint64(b1), 1, addrHi, uint64(b2))
			}})
	}
	// importer-side compound functions: the importer's frame is live while the exporter-side function mutates
	for _, s := range c.sides()[1:] {
		s := s
		al := aliveAll(fnProvider(s)...)
		if s == "J" {
			al = aliveAll("J", "I") // I's accessors act on E's objects directly; E need not be alive
		}
		b := newByte()
		ops = append(ops, opDef{Name: s + ".rw_across", Applicable: al,
			Model: func(m *model) string {
				old := m.mem[addrLo]
				m.mem[addrLo] = b
				return okU32(uint32(old)<<8 | uint32(b))
			},
			Impl: func(w *world, _ *model) string { return w.callS(s, "rw_across", addrLo, uint64(b)) }})
		gv := newG()
		ops = append(ops, opDef{Name: s + ".g_across", Applicable: al,
			Model: func(m *model) string {
				old := m.g
				m.g = gv
				return fmt.Sprintf("ok:%d", uint64(old)<<32|uint64(gv))
			},
			Impl: func(w *world, _ *model) string { return w.callS(s, "g_across", uint64(gv)) }})
		b1, b2 := newByte(), newByte()
		ops = append(ops, opDef{Name: s + ".grow_across", Applicable: al,
			Model: func(m *model) string {
				m.store(addrLo, b1)
				m.grow(1)
				if r := m.store(addrHi, b2); r != "ok" {
					return r
				}
				return okU32(m.pages)
			},
			Impl: func(w *world, _ *model) string {
				return w.callS(s, "grow_across", addrLo, uint64(b1), addrHi, uint64(b2))
			}})
		ops = append(ops, opDef{Name: s + ".t_across", Applicable: al,
			Model: func(m *model) string {
				s0 := uint32(len(m.tab))
				m.tgrow(1, "")
				return okU32(s0<<8 | uint32(len(m.tab)))
			},
			Impl: func(w *world, _ *model) string { return w.callS(s, "t_across") }})
	}

	// instantiate another importer after the mutations so far
	inst := func(kind string, mf func(m *model) string) {
		ops = append(ops, opDef{Name: "inst." + kind, Applicable: func(*model) bool { return true },
			Model: func(m *model) string {
				if !m.alive["E"] {
					return "fail:link" // the name E is no longer registered
				}
				return mf(m)
			},
			Impl: func(w *world, _ *model) string { _, r := w.instK(kind); return r }})
	}
	inst("Kdata", func(m *model) string {
		m.mem[cVal], m.mem[cVal+1] = dataB1, dataB2
		if m.pages < 2 {
			return "fail:oob-data" // the first segment stays written
		}
		m.mem[addrHi] = dataB3
		return "ok"
	})
	inst("Kelem", func(m *model) string {
		m.tab[c2Val] = "K.kid"
		if len(m.tab) < 3 {
			return "fail:oob-elem" // the first segment stays written
		}
		m.tab[2] = "K.kid"
		return "ok"
	})
	inst("Keldata", func(m *model) string {
		m.tab[1] = "K.kid" // element segments are applied before data segments
		if m.pages < 2 {
			return "fail:oob-data"
		}
		m.mem[addrHi] = dataB3
		return "ok"
	})
	inst("Keloobdata", func(m *model) string {
		if len(m.tab) < 4 {
			return "fail:oob-elem" // and the data segment is never reached
		}
		m.tab[3] = "K.kid"
		m.mem[addrLo2] = eloobByte
		return "ok"
	})
	inst("Kelemnull", func(m *model) string {
		m.tab[0] = ""
		return "ok"
	})
	inst("Kstart", func(m *model) string {
		m.mem[addrLo2] = startByte
		m.g = startG
		m.tab[0] = "K.kid"
		return "fail:start-trap"
	})
	inst("KminM", func(m *model) string {
		if m.pages < 2 {
			return "fail:link"
		}
		return "ok"
	})
	inst("KminT", func(m *model) string {
		if len(m.tab) < 3 {
			return "fail:link"
		}
		return "ok"
	})
	ops = append(ops, opDef{Name: "inst.Kcap", Applicable: func(*model) bool { return true },
		Model: func(m *model) string {
			if !m.alive["E"] {
				return "fail:link"
			}
			m.mem[addrLo2] = cVal
			m.tab[1] = "E.id"
			m.tab[0] = "K.kid"
			return fmt.Sprintf("ok:k1=%d", cVal)
		},
		Impl: func(w *world, _ *model) string {
			k, r := w.instK("Kcap")
			if k == nil {
				return r
			}
			res, err := k.ExportedFunction("k1").Call(bg)
			if err != nil {
				return "k1:" + canonErr(err)
			}
			return fmt.Sprintf("ok:k1=%d", res[0])
		}})
	for _, site := range []string{"g", "d", "e"} {
		site := site
		ops = append(ops, opDef{Name: "inst.Kmut." + site, Kmut: site, Applicable: func(*model) bool { return true },
			Model: func(m *model) string { return "rejected:invalid-module" },
			Impl:  func(w *world, m *model) string { return w.kmut(site, m) }})
	}

	for _, s := range c.sides() {
		s := s
		ops = append(ops, opDef{Name: "close." + s, Applicable: aliveAll(s),
			Model: func(m *model) string { m.alive[s] = false; return "ok" },
			Impl: func(w *world, _ *model) string {
				if err := w.mods[s].Close(bg); err != nil {
					return "err:" + err.Error()
				}
				return "ok"
			}})
	}
	return ops
}
