package main

import (
	"context"
	"errors"
	"fmt"
	"strings"

	"github.com/tetratelabs/wazero"
	"github.com/tetratelabs/wazero/api"
	"github.com/tetratelabs/wazero/experimental"
	"github.com/tetratelabs/wazero/internal/wasmruntime"
	"github.com/tetratelabs/wazero/sys"
	"github.com/tetratelabs/wazero/verif/wb"
)

// All runtimes of this check use the same feature set: WebAssembly 2.0 plus threads (shared memories).
const features = api.CoreFeaturesV2 | experimental.CoreFeaturesThreads

var engineNames = []string{"compiler", "interpreter"}

func runtimeConfig(engine string) wazero.RuntimeConfig {
	var rc wazero.RuntimeConfig
	if engine == "compiler" {
		rc = wazero.NewRuntimeConfigCompiler()
	} else {
		rc = wazero.NewRuntimeConfigInterpreter()
	}
	return rc.WithCoreFeatures(features)
}

var bg = context.Background()

type zeroReader struct{}

func (zeroReader) Read(b []byte) (int, error) { clear(b); return len(b), nil }

// modCfg: the default ModuleConfig seeds a math/rand source on every instantiation (22% of a word's cost);
// the modules of this check import nothing from the host, so a constant source is equivalent.
var modCfg = wazero.NewModuleConfig().WithRandSource(zeroReader{})

// canonErr maps an error of a guest call to a canonical class. Error texts are excluded from the
// comparison (DESIGN 1.6); trap kinds are identified by wazero's sentinel errors.
func canonErr(err error) string {
	var ee *sys.ExitError
	switch {
	case err == nil:
		return "ok"
	case errors.Is(err, wasmruntime.ErrRuntimeOutOfBoundsMemoryAccess):
		return "trap:oob-mem"
	case errors.Is(err, wasmruntime.ErrRuntimeInvalidTableAccess):
		return "trap:table"
	case errors.Is(err, wasmruntime.ErrRuntimeIndirectCallTypeMismatch):
		return "trap:sig"
	case errors.Is(err, wasmruntime.ErrRuntimeUnreachable):
		return "trap:unreachable"
	case errors.Is(err, wasmruntime.ErrRuntimeExpectedSharedMemory):
		return "trap:unshared"
	case errors.As(err, &ee):
		return fmt.Sprintf("exit:%d", ee.ExitCode())
	}
	return "err:" + err.Error()
}

// canonInstErr classifies an instantiation error. The classes are the ones the specification
// distinguishes: link error (import resolution), trap while applying an active segment, trap in start.
func canonInstErr(err error) string {
	if err == nil {
		return "ok"
	}
	t := err.Error()
	switch {
	case errors.Is(err, wasmruntime.ErrRuntimeUnreachable):
		return "fail:start-trap"
	case strings.HasPrefix(t, "import ") || strings.Contains(t, "not instantiated") || strings.Contains(t, "is not exported in module") || (strings.HasPrefix(t, "export ") && strings.Contains(t, " in module ")):
		return "fail:link"
	case strings.Contains(t, "data[") && strings.Contains(t, "out of bounds memory access"):
		return "fail:oob-data"
	case strings.Contains(t, "element[") || strings.Contains(t, "out of bounds table access"):
		return "fail:oob-elem"
	}
	return "fail:other:" + t
}

func valTypeName(t byte) string {
	switch t {
	case wb.I32:
		return "i32"
	case wb.I64:
		return "i64"
	case wb.F32:
		return "f32"
	case wb.F64:
		return "f64"
	case wb.V128:
		return "v128"
	case wb.FuncRef:
		return "funcref"
	case wb.ExternRef:
		return "externref"
	}
	return fmt.Sprintf("0x%x", t)
}

func typesName(ts []byte) string {
	var s []string
	for _, t := range ts {
		s = append(s, valTypeName(t))
	}
	return strings.Join(s, ",")
}

// zero pushes the zero value of a type.
func zero(a *wb.Asm, t byte) *wb.Asm {
	switch t {
	case wb.I32:
		return a.I32Const(0)
	case wb.I64:
		return a.I64Const(0)
	case wb.F32:
		return a.F32Const(0)
	case wb.F64:
		return a.F64Const(0)
	case wb.V128:
		return a.V128Const(0, 0)
	case wb.FuncRef, wb.ExternRef:
		return a.RefNull(t)
	}
	panic("zero: type")
}
