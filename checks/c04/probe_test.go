package main

import (
	"fmt"
	"testing"

	"github.com/tetratelabs/wazero"
	"github.com/tetratelabs/wazero/verif/wb"
)

func TestProbe6(t *testing.T) {
	for _, en := range engineNames {
		rt := wazero.NewRuntimeWithConfig(bg, runtimeConfig(en))
		a := &wb.Module{}
		a.Mem = &wb.Limits{Min: 1}
		a.Tables = []wb.Table{{Elem: wb.FuncRef, Lim: wb.Limits{Min: 4}}}
		g := a.AddGlobal(wb.I32, true, wb.CI32(1))
		ty := a.Type(nil, tI32)
		a.Exports = append(a.Exports, wb.Export{Name: "mem", Kind: wb.KindMemory}, wb.Export{Name: "tab", Kind: wb.KindTable}, wb.Export{Name: "g", Kind: wb.KindGlobal, Idx: g})
		a.ExportFunc("tcall", a.AddFunc(tI32, tI32, nil, (&wb.Asm{}).LocalGet(0).CallIndirect(ty, 0).B))
		a.ExportFunc("gget", a.AddFunc(nil, tI32, nil, (&wb.Asm{}).GlobalGet(g).B))
		A, err := rt.InstantiateWithConfig(bg, a.Encode(), modCfg.WithName("A"))
		if err != nil {
			t.Fatal(err)
		}
		// (1) B: elem writes own functions into A's table, then OOB data
		b := &wb.Module{}
		b.Imports = []wb.Import{{Module: "A", Name: "tab", Kind: wb.KindTable, Table: wb.Table{Elem: wb.FuncRef, Lim: wb.Limits{Min: 4}}},
			{Module: "A", Name: "mem", Kind: wb.KindMemory, Mem: wb.Limits{Min: 1}},
			{Module: "A", Name: "g", Kind: wb.KindGlobal, GlobalType: wb.I32, GlobalMut: true}}
		own := b.AddGlobal(wb.I32, true, wb.CI32(42))
		f0 := b.AddFunc(nil, tI32, nil, (&wb.Asm{}).GlobalGet(own).B)
		f1 := b.AddFunc(nil, tI32, nil, (&wb.Asm{}).I32Const(5).B)
		b.Elems = []wb.Elem{{Offset: wb.CI32(0), Funcs: []uint32{f0, f1}}}
		b.Datas = []wb.Data{{Offset: wb.CI32(65536), Bytes: []byte{1}}}
		_, err = rt.InstantiateWithConfig(bg, b.Encode(), modCfg.WithName("B"))
		fmt.Printf("[%s] (1) B inst err=%v\n", en, err)
		for i := uint64(0); i < 2; i++ {
			r, err := A.ExportedFunction("tcall").Call(bg, i)
			fmt.Printf("[%s] (1) A.tcall(%d) = %v %v (want 42, 5)\n", en, i, r, err)
		}
		// (2) aliased global
		c := &wb.Module{}
		c.Imports = []wb.Import{{Module: "A", Name: "g", Kind: wb.KindGlobal, GlobalType: wb.I32, GlobalMut: true},
			{Module: "A", Name: "g", Kind: wb.KindGlobal, GlobalType: wb.I32, GlobalMut: true}}
		c.ExportFunc("alias", c.AddFunc(nil, tI32, nil, (&wb.Asm{}).GlobalGet(1).Drop().I32Const(7).GlobalSet(0).GlobalGet(1).B))
		C, err := rt.InstantiateWithConfig(bg, c.Encode(), modCfg.WithName("C"))
		if err != nil {
			t.Fatal(err)
		}
		r, err := C.ExportedFunction("alias").Call(bg)
		fmt.Printf("[%s] (2) alias = %v %v (want 7)\n", en, r, err)
		rt.Close(bg)
	}
}
