package main

// Part 1 — import matching, exhaustive over a finite type universe.
//
// An exporter E exports one object of every extern kind and type of the universe; an importer I
// declares ONE import with a type of the universe (plus a probe function that reads the imported
// object). Instantiating I must succeed exactly when the WebAssembly import-matching relation
// (reference implementation: specMatch, below) holds between the CURRENT external type of the
// exported object (limits.min = current size) and the declared import type.

import (
	"fmt"
	"sort"
	"strings"

	"github.com/tetratelabs/wazero"
	"github.com/tetratelabs/wazero/api"
	"github.com/tetratelabs/wazero/verif/wb"
)

// ---------------------------------------------------------------- type universe

type extType struct {
	Kind    byte      `json:"kind"`
	Params  []byte    `json:"params,omitempty"`
	Results []byte    `json:"results,omitempty"`
	Elem    byte      `json:"elem,omitempty"`
	Lim     wb.Limits `json:"lim"`
	Val     byte      `json:"val,omitempty"`
	Mut     bool      `json:"mut,omitempty"`
}

func limString(l wb.Limits) string {
	s := fmt.Sprintf("%d", l.Min)
	if l.HasMax {
		s += fmt.Sprintf("..%d", l.Max)
	}
	if l.Shared {
		s += " shared"
	}
	return s
}

func (t extType) String() string {
	switch t.Kind {
	case wb.KindFunc:
		return "func(" + typesName(t.Params) + ")->(" + typesName(t.Results) + ")"
	case wb.KindTable:
		return "table " + limString(t.Lim) + " " + valTypeName(t.Elem)
	case wb.KindMemory:
		return "memory " + limString(t.Lim)
	default:
		m := "const"
		if t.Mut {
			m = "var"
		}
		return "global " + m + " " + valTypeName(t.Val)
	}
}

var kindNames = []string{"func", "table", "memory", "global"}

// ---------------------------------------------------------------- the specification's relation

// limitsMatch: {n1,m1?} matches {n2,m2?} iff n1 >= n2 and (m2 absent or (m1 present and m1 <= m2)).
func limitsMatch(ex, im wb.Limits) (reasons []string) {
	if ex.Min < im.Min {
		reasons = append(reasons, "min")
	}
	if im.HasMax {
		if !ex.HasMax {
			reasons = append(reasons, "nomax")
		} else if ex.Max > im.Max {
			reasons = append(reasons, "max")
		}
	}
	return
}

// specMatch returns the reasons why external type ex (export) does NOT match im (import); empty = match.
// WebAssembly 2.0 §3.4.x (import subtyping) + threads proposal (shared flags must be equal).
func specMatch(ex, im extType) (reasons []string) {
	if ex.Kind != im.Kind {
		return []string{"kind"}
	}
	switch ex.Kind {
	case wb.KindFunc:
		if string(ex.Params) != string(im.Params) || string(ex.Results) != string(im.Results) {
			reasons = append(reasons, "sig")
		}
	case wb.KindTable:
		if ex.Elem != im.Elem {
			reasons = append(reasons, "reftype")
		}
		reasons = append(reasons, limitsMatch(ex.Lim, im.Lim)...)
	case wb.KindMemory:
		reasons = append(reasons, limitsMatch(ex.Lim, im.Lim)...)
		if ex.Lim.Shared != im.Lim.Shared {
			reasons = append(reasons, "shared")
		}
	case wb.KindGlobal:
		if ex.Val != im.Val {
			reasons = append(reasons, "valtype")
		}
		if ex.Mut != im.Mut {
			reasons = append(reasons, "mut")
		}
	}
	return
}

// ---------------------------------------------------------------- universe construction

var sigs = []wb.FuncType{
	{},
	{Params: []byte{wb.I32}},
	{Results: []byte{wb.I32}},
	{Params: []byte{wb.I32}, Results: []byte{wb.I32}},
	{Params: []byte{wb.I64}, Results: []byte{wb.I32}},
	{Params: []byte{wb.I32}, Results: []byte{wb.I64}},
	{Params: []byte{wb.I32, wb.I32}, Results: []byte{wb.I32}},
	{Params: []byte{wb.I32}, Results: []byte{wb.I32, wb.I32}},
	{Params: []byte{wb.F32}, Results: []byte{wb.F32}},
	{Params: []byte{wb.F64}, Results: []byte{wb.F64}},
	{Params: []byte{wb.V128}, Results: []byte{wb.V128}},
	{Params: []byte{wb.FuncRef}},
	{Params: []byte{wb.ExternRef}},
	{Params: []byte{wb.I32, wb.I64}},
	{Params: []byte{wb.I64, wb.I32}},
}

var globalValTypes = []byte{wb.I32, wb.I64, wb.F32, wb.F64, wb.V128, wb.FuncRef, wb.ExternRef}

// limits of exported objects: min in 0..2, max in {none,1,2,3} (thorough: one more of each)
func exportLimits(x uint32) (ls []wb.Limits) {
	for min := uint32(0); min <= 2+x; min++ {
		ls = append(ls, wb.Limits{Min: min})
		for max := uint32(1); max <= 3+x; max++ {
			if max >= min {
				ls = append(ls, wb.Limits{Min: min, Max: max, HasMax: true})
			}
		}
	}
	return
}

// limits declared by importers: min in 0..3, max in {none,1,2,3,4} (thorough: one more of each)
func importLimits(x uint32) (ls []wb.Limits) {
	for min := uint32(0); min <= 3+x; min++ {
		ls = append(ls, wb.Limits{Min: min})
		for max := uint32(1); max <= 4+x; max++ {
			if max >= min {
				ls = append(ls, wb.Limits{Min: min, Max: max, HasMax: true})
			}
		}
	}
	return
}

// withShared adds the shared variants (a shared memory must declare a maximum).
func withShared(ls []wb.Limits) (out []wb.Limits) {
	out = append(out, ls...)
	for _, l := range ls {
		if l.HasMax {
			l.Shared = true
			out = append(out, l)
		}
	}
	return
}

type universe struct {
	expMems   []wb.Limits // one exporter variant per entry
	expTables []extType   // all in every exporter
	expGlobs  []extType
	expFuncs  []extType
	impMems   []extType
	impTables []extType
	impGlobs  []extType
	impFuncs  []extType
}

func newUniverse(tier string) *universe {
	u := &universe{}
	x := uint32(0)
	if tier == "thorough" {
		x = 1
	}
	u.expMems = withShared(exportLimits(x))
	for _, e := range []byte{wb.FuncRef, wb.ExternRef} {
		for _, l := range exportLimits(x) {
			u.expTables = append(u.expTables, extType{Kind: wb.KindTable, Elem: e, Lim: l})
		}
		for _, l := range importLimits(x) {
			u.impTables = append(u.impTables, extType{Kind: wb.KindTable, Elem: e, Lim: l})
		}
	}
	for _, l := range withShared(importLimits(x)) {
		u.impMems = append(u.impMems, extType{Kind: wb.KindMemory, Lim: l})
	}
	for _, vt := range globalValTypes {
		for _, mut := range []bool{false, true} {
			g := extType{Kind: wb.KindGlobal, Val: vt, Mut: mut}
			u.expGlobs = append(u.expGlobs, g)
			u.impGlobs = append(u.impGlobs, g)
		}
	}
	for _, s := range sigs {
		f := extType{Kind: wb.KindFunc, Params: s.Params, Results: s.Results}
		u.expFuncs = append(u.expFuncs, f)
		u.impFuncs = append(u.impFuncs, f)
	}
	return u
}

// ---------------------------------------------------------------- module builders

// global constant with a value unique per export index k.
func globalInit(vt byte, k int, f0 uint32) (init []byte, probe uint64) {
	switch vt {
	case wb.I32:
		return wb.CI32(int32(1000 + k)), uint64(1000 + k)
	case wb.I64:
		return wb.CI64(int64(1)<<40 + int64(k)), uint64(1)<<40 + uint64(k)
	case wb.F32:
		return wb.CF32(0x3f800000 + uint32(k)), uint64(0x3f800000 + uint32(k))
	case wb.F64:
		return wb.CF64(0x3ff0000000000000 + uint64(k)), 0x3ff0000000000000 + uint64(k)
	case wb.V128:
		return wb.CV128(uint64(7000+k), 99), uint64(7000+k) ^ 99
	case wb.FuncRef:
		return wb.CRefFunc(f0), 0 // ref.is_null == 0
	default:
		return wb.CRefNull(wb.ExternRef), 1
	}
}

// buildExporter1 builds exporter variant v: memory expMems[v] exported as "m", every table as "t<j>", every
// global as "g<k>", every function as "f<k>" (function k sets global `last` to k+1), "last" reads it, "pregrow"
// grows the memory and every table by one (where the maximum allows).
func (u *universe) buildExporter1(v int) []byte {
	m := &wb.Module{}
	mem := u.expMems[v]
	m.Mem = &mem
	last := m.AddGlobal(wb.I32, true, wb.CI32(0))
	for k, f := range u.expFuncs {
		a := (&wb.Asm{}).I32Const(int32(k + 1)).GlobalSet(last)
		for _, r := range f.Results {
			zero(a, r)
		}
		m.ExportFunc(fmt.Sprintf("f%d", k), m.AddFunc(f.Params, f.Results, nil, a.B))
	}
	m.ExportFunc("last", m.AddFunc(nil, []byte{wb.I32}, nil, (&wb.Asm{}).GlobalGet(last).B))
	for k, g := range u.expGlobs {
		init, _ := globalInit(g.Val, k, 0)
		gi := m.AddGlobal(g.Val, g.Mut, init)
		m.Exports = append(m.Exports, wb.Export{Name: fmt.Sprintf("g%d", k), Kind: wb.KindGlobal, Idx: gi})
	}
	grow := &wb.Asm{}
	for j, t := range u.expTables {
		m.Tables = append(m.Tables, wb.Table{Elem: t.Elem, Lim: t.Lim})
		m.Exports = append(m.Exports, wb.Export{Name: fmt.Sprintf("t%d", j), Kind: wb.KindTable, Idx: uint32(j)})
		if t.Elem == wb.FuncRef && t.Lim.Min > 0 {
			m.Elems = append(m.Elems, wb.Elem{TableIdx: uint32(j), Offset: wb.CI32(0), Funcs: []uint32{0}})
		}
		grow.RefNull(t.Elem).I32Const(1).TableGrow(uint32(j)).Drop()
	}
	grow.I32Const(1).MemoryGrow().Drop()
	m.ExportFunc("pregrow", m.AddFunc(nil, nil, nil, grow.B))
	m.Exports = append(m.Exports, wb.Export{Name: "m", Kind: wb.KindMemory, Idx: 0})
	if mem.Min > 0 {
		m.Datas = append(m.Datas, wb.Data{Offset: wb.CI32(3), Bytes: []byte{byte(v + 1)}})
	}
	return m.Encode()
}

// buildImporter1 builds a module importing "E".<name> with declared type t and exporting "probe" () -> i64.
func buildImporter1(name string, t extType) []byte { return buildImporterFrom("E", name, t) }

func buildImporterFrom(from, name string, t extType) []byte {
	m := &wb.Module{}
	a := &wb.Asm{}
	switch t.Kind {
	case wb.KindFunc:
		f := m.ImportFunc(from, name, t.Params, t.Results)
		for _, p := range t.Params {
			zero(a, p)
		}
		a.Call(f)
		for range t.Results {
			a.Drop()
		}
		a.I64Const(0)
	case wb.KindTable:
		m.Imports = append(m.Imports, wb.Import{Module: from, Name: name, Kind: wb.KindTable, Table: wb.Table{Elem: t.Elem, Lim: t.Lim}})
		// (size<<8) | (size>0 ? is_null(table[0]) : 0xff)
		a.TableSize(0).Op(0xad).I64Const(8).Op(0x86)
		a.TableSize(0).If(wb.I64).I32Const(0).TableGet(0).RefIsNull().Op(0xad).Else().I64Const(0xff).End()
		a.Op(0x84)
	case wb.KindMemory:
		m.Imports = append(m.Imports, wb.Import{Module: from, Name: name, Kind: wb.KindMemory, Mem: t.Lim})
		a.MemorySize().Op(0xad).I64Const(8).Op(0x86)
		a.MemorySize().If(wb.I64).I32Const(3).Mem(0x31, 0, 0).Else().I64Const(0xff).End()
		a.Op(0x84)
	case wb.KindGlobal:
		m.Imports = append(m.Imports, wb.Import{Module: from, Name: name, Kind: wb.KindGlobal, GlobalType: t.Val, GlobalMut: t.Mut})
		a.GlobalGet(0)
		switch t.Val {
		case wb.I32:
			a.Op(0xad)
		case wb.I64:
		case wb.F32:
			a.Op(0xbc).Op(0xad)
		case wb.F64:
			a.Op(0xbd)
		case wb.V128:
			a.Simd(0x1d).Op(0).GlobalGet(0).Simd(0x1d).Op(1).Op(0x85)
		default:
			a.RefIsNull().Op(0xad)
		}
	}
	m.ExportFunc("probe", m.AddFunc(nil, []byte{wb.I64}, nil, a.B))
	return m.Encode()
}

// ---------------------------------------------------------------- cases

// p1Case is one (export, import) pair. Export is identified by exporter variant, pregrow flag and export name.
type p1Case struct {
	Variant int     `json:"variant"` // exporter variant (memory limits index)
	Pregrow bool    `json:"pregrow"` // exporter grew its memory and tables by one before the import
	Name    string  `json:"name"`    // export name in E ("m", "t3", "g5", "f2", or "missing")
	Import  extType `json:"import"`  // declared import type
}

// exportType returns the declared type of export `name` of variant v, ok=false for unknown names.
func (u *universe) exportType(v int, name string) (extType, bool) {
	var k int
	switch {
	case name == "m":
		return extType{Kind: wb.KindMemory, Lim: u.expMems[v]}, true
	case len(name) > 1 && name[0] == 't':
		fmt.Sscanf(name[1:], "%d", &k)
		return u.expTables[k], true
	case len(name) > 1 && name[0] == 'g':
		fmt.Sscanf(name[1:], "%d", &k)
		return u.expGlobs[k], true
	case len(name) > 1 && name[0] == 'f':
		fmt.Sscanf(name[1:], "%d", &k)
		return u.expFuncs[k], true
	}
	return extType{}, false
}

// currentType is the external type of the object at import time: limits.min is the current size.
func currentType(t extType, pregrow bool) extType {
	if pregrow && (t.Kind == wb.KindMemory || t.Kind == wb.KindTable) {
		if !t.Lim.HasMax || t.Lim.Min+1 <= t.Lim.Max {
			t.Lim.Min++
		}
	}
	return t
}

// shards: one per (variant, pregrow). Memory pairs for every shard; table pairs for variant 0 (both
// pregrow values); globals, functions, cross-kind and missing-name pairs for (variant 0, no pregrow).
func (u *universe) shardCases(v int, pregrow bool) (cs []p1Case) {
	for _, im := range u.impMems {
		cs = append(cs, p1Case{v, pregrow, "m", im})
	}
	if v != 0 {
		return
	}
	for j := range u.expTables {
		for _, im := range u.impTables {
			cs = append(cs, p1Case{v, pregrow, fmt.Sprintf("t%d", j), im})
		}
	}
	if pregrow {
		return
	}
	for k := range u.expGlobs {
		for _, im := range u.impGlobs {
			cs = append(cs, p1Case{v, pregrow, fmt.Sprintf("g%d", k), im})
		}
	}
	for k := range u.expFuncs {
		for _, im := range u.impFuncs {
			cs = append(cs, p1Case{v, pregrow, fmt.Sprintf("f%d", k), im})
		}
	}
	// wrong kind / unknown name: one representative import type per kind against one export of every kind
	reps := []extType{u.impFuncs[0], u.impTables[0], u.impMems[0], u.impGlobs[0]}
	for _, name := range []string{"f0", "t0", "m", "g0", "missing"} {
		for _, im := range reps {
			ex, ok := u.exportType(v, name)
			if ok && ex.Kind == im.Kind {
				continue
			}
			cs = append(cs, p1Case{v, pregrow, name, im})
		}
	}
	return
}

type p1Shard struct {
	Variant int
	Pregrow bool
}

func (u *universe) shards() (ss []p1Shard) {
	for v := range u.expMems {
		ss = append(ss, p1Shard{v, false}, p1Shard{v, true})
	}
	return
}

// ---------------------------------------------------------------- execution

type p1Result struct {
	Accepted bool
	Err      string
	Probe    string // "" when not accepted
}

// expectedProbe computes what the probe must return for an accepted import (read of the one shared object).
func (u *universe) expectedProbe(c p1Case) string {
	ex, _ := u.exportType(c.Variant, c.Name)
	cur := currentType(ex, c.Pregrow)
	switch ex.Kind {
	case wb.KindFunc:
		var k int
		fmt.Sscanf(c.Name[1:], "%d", &k)
		return fmt.Sprintf("last=%d", k+1)
	case wb.KindTable:
		x := uint64(0xff)
		if cur.Lim.Min > 0 {
			x = 1
			if ex.Elem == wb.FuncRef && ex.Lim.Min > 0 {
				x = 0
			}
		}
		return fmt.Sprintf("%#x", uint64(cur.Lim.Min)<<8|x)
	case wb.KindMemory:
		x := uint64(0xff)
		if cur.Lim.Min > 0 {
			x = 0
			if ex.Lim.Min > 0 {
				x = uint64(byte(c.Variant + 1))
			}
		}
		return fmt.Sprintf("%#x", uint64(cur.Lim.Min)<<8|x)
	default:
		var k int
		fmt.Sscanf(c.Name[1:], "%d", &k)
		_, p := globalInit(ex.Val, k, 0)
		return fmt.Sprintf("%#x", p)
	}
}

type p1Env struct {
	u   *universe
	rts map[string]wazero.Runtime
	exp map[string]map[int]wazero.CompiledModule
}

func newP1Env(u *universe) *p1Env {
	e := &p1Env{u: u, rts: map[string]wazero.Runtime{}, exp: map[string]map[int]wazero.CompiledModule{}}
	for _, en := range engineNames {
		e.rts[en] = wazero.NewRuntimeWithConfig(bg, runtimeConfig(en))
		e.exp[en] = map[int]wazero.CompiledModule{}
	}
	return e
}

func (e *p1Env) close() {
	for _, rt := range e.rts {
		rt.Close(bg)
	}
}

// runShard instantiates the exporter variant once per engine and tries every importer of the shard against it.
func (e *p1Env) runShard(s p1Shard, each func(c p1Case, engine string, r p1Result)) {
	e.runShardWith(s, engineNames, func() []p1Case { return e.u.shardCases(s.Variant, s.Pregrow) }, each)
}

func (e *p1Env) runShardWith(s p1Shard, engines []string, casesFn func() []p1Case, each func(c p1Case, engine string, r p1Result)) {
	cases := casesFn()
	for _, en := range engines {
		rt := e.rts[en]
		cm := e.exp[en][s.Variant]
		if cm == nil {
			var err error
			cm, err = rt.CompileModule(bg, e.u.buildExporter1(s.Variant))
			if err != nil {
				panic(fmt.Sprintf("harness: exporter variant %d rejected by %s: %v", s.Variant, en, err))
			}
			e.exp[en][s.Variant] = cm
		}
		E, err := rt.InstantiateModule(bg, cm, modCfg.WithName("E"))
		if err != nil {
			panic(fmt.Sprintf("harness: exporter variant %d not instantiable on %s: %v", s.Variant, en, err))
		}
		if s.Pregrow {
			if _, err := E.ExportedFunction("pregrow").Call(bg); err != nil {
				panic(fmt.Sprintf("harness: pregrow: %v", err))
			}
		}
		last := E.ExportedFunction("last")
		for _, c := range cases {
			each(c, en, runP1Case(rt, E, last, c))
		}
		E.Close(bg)
	}
}

func runP1Case(rt wazero.Runtime, E api.Module, last api.Function, c p1Case) (r p1Result) {
	return runImporterCase(rt, last, buildImporter1(c.Name, c.Import), c.Import.Kind == wb.KindFunc)
}

// runImporterCase compiles and instantiates one importer; if accepted it uses the import through `probe`
// (for function imports the exporter's marker global is read afterwards through `last`).
func runImporterCase(rt wazero.Runtime, last api.Function, bin []byte, isFunc bool) (r p1Result) {
	cm, err := rt.CompileModule(bg, bin)
	if err != nil {
		// every importer is valid by construction: a compile error is reported as a rejection with a marker
		return p1Result{Err: "compile: " + err.Error()}
	}
	defer cm.Close(bg)
	I, err := rt.InstantiateModule(bg, cm, modCfg.WithName(""))
	if err != nil {
		return p1Result{Err: err.Error()}
	}
	defer I.Close(bg)
	r.Accepted = true
	res, err := I.ExportedFunction("probe").Call(bg)
	if err != nil {
		r.Probe = "probe-error: " + canonErr(err)
		return
	}
	if isFunc {
		l, err := last.Call(bg)
		if err != nil {
			r.Probe = "last-error: " + canonErr(err)
			return
		}
		r.Probe = fmt.Sprintf("last=%d", l[0])
		return
	}
	r.Probe = fmt.Sprintf("%#x", res[0])
	return
}

// p1Judge compares one result with the specification. Returns "" or (signature, description).
func (u *universe) p1Judge(c p1Case, engine string, r p1Result) (outcome, sig, what string) {
	ex, known := u.exportType(c.Variant, c.Name)
	var reasons []string
	if !known {
		reasons = []string{"unknown-name"}
	} else {
		reasons = specMatch(currentType(ex, c.Pregrow), c.Import)
	}
	kind := kindNames[c.Import.Kind]
	want := len(reasons) == 0
	after := ""
	if c.Pregrow {
		after = ":after-grow"
	}
	exs := "(no such export)"
	if known {
		exs = ex.String()
		if c.Pregrow {
			exs += " grown by 1 => current " + currentType(ex, true).String()
		}
	}
	desc := fmt.Sprintf("[%s] export %q = %s, import declared as %s", engine, c.Name, exs, c.Import)
	sort.Strings(reasons)
	switch {
	case strings.HasPrefix(r.Err, "compile: "):
		return "importer-rejected-at-compile", "match:" + kind + ":valid-importer-rejected-at-compile", desc + ": " + r.Err
	case r.Accepted && !want:
		rs := strings.Join(reasons, "+")
		sig = "match:" + kind + ":accepted-but-spec-rejects:" + rs + after
		if kind == "memory" && rs == "shared" {
			sig = "match:memory:shared-flag-ignored"
		}
		return "accepted-wrongly", sig, desc + ": instantiation succeeded, the specification rejects it (" + rs + ")"
	case !r.Accepted && want:
		return "rejected-wrongly", "match:" + kind + ":rejected-but-spec-accepts" + after, desc + ": instantiation failed (" + r.Err + "), the specification accepts it"
	case !r.Accepted:
		if cl := canonInstErr(fmt.Errorf("%s", r.Err)); cl != "fail:link" {
			return "rejected-not-link-error", "match:" + kind + ":rejection-is-not-a-link-error", desc + ": " + r.Err
		}
		return "rejected:" + kind + ":" + strings.Join(reasons, "+"), "", ""
	}
	if exp := u.expectedProbe(c); r.Probe != exp {
		return "linked-to-wrong-object", "match:" + kind + ":accepted-import-reads-wrong-object" + after, desc + fmt.Sprintf(": probe through the importer = %s, the exported object holds %s", r.Probe, exp)
	}
	return "accepted:" + kind, "", ""
}
