package main

import (
	"context"
	"errors"
	"fmt"
	"os"
	"strconv"
	"strings"
	"sync"
	"syscall"
	"time"

	"github.com/tetratelabs/wazero"
	"github.com/tetratelabs/wazero/api"
	"github.com/tetratelabs/wazero/experimental"
	"github.com/tetratelabs/wazero/internal/wasmruntime"
	"github.com/tetratelabs/wazero/sys"
)

var (
	engines = []string{"compiler", "interpreter"}
	// baseCauses run for every shape. ctxCauses are the remaining ways the standard library lets the
	// context passed to the call become done (or, for WithoutCancel, NOT become done); they run for a
	// representative subset of shapes in quick and for every named shape in thorough.
	baseCauses = []string{"cancel", "deadline", "close", "close7"}
	ctxCauses  = []string{
		"cancel-cause-custom",         // WithCancelCause, cancel(custom error)
		"cancel-cause-wraps-deadline", // WithCancelCause, cancel(error wrapping context.DeadlineExceeded): Err() is still Canceled
		"cancel-cause-wraps-canceled", // WithCancelCause, cancel(error wrapping context.Canceled)
		"timeout-cause",               // WithTimeoutCause(1s, error wrapping context.Canceled): Err() is DeadlineExceeded
		"deadline-cause",              // WithDeadlineCause(now+1s, custom error)
		"parent-withvalue",            // the parent of WithValue(parent) is cancelled
		"parent-withcancel",           // the parent of WithCancel(parent) is cancelled
		causeWithoutCancel,            // the parent of WithoutCancel(parent) is cancelled: must NOT stop the call
		"custom-ctx-canceled",         // own context.Context implementation: Done closes, Err() == context.Canceled
		"custom-ctx-deadline",         // own implementation, Err() == context.DeadlineExceeded
		"afterfunc",                   // WithCancel context with a context.AfterFunc registered
	}
	causes = append(append([]string{}, baseCauses...), ctxCauses...)
	// moments: -1 = the cause is fired before the call; k>=0 = at tick k, i.e. after k completed iterations.
	moments = []int{-1, 1, 3}
)

// causeWithoutCancel: the context passed to the call is context.WithoutCancel(parent). Cancelling the
// parent must not close the module; 20 ms later the harness checks that it did not and ends the case
// with CloseWithExitCode(7) from another goroutine, so the expected exit code is 7. "Before the call"
// means the parent is cancelled before the call and the check + close happen at tick 1.
const causeWithoutCancel = "parent-withoutcancel"

func isCtxCause(c string) bool { return c != "close" && c != "close7" }

// timer driven causes: nothing is fired, the chosen tick waits until the deadline has passed.
func isTimerCause(c string) bool {
	return c == "deadline" || c == "timeout-cause" || c == "deadline-cause"
}

// deadlineAhead is how far in the future the deadline of a "deadline" case lies when the call
// starts. Ticks 0..3 happen microseconds after the call starts; the chosen tick then simply
// blocks until the deadline has passed and the module is observed closed.
const deadlineAhead = time.Second

// closeWait bounds the wait for IsClosed() after the cause was fired (takes microseconds when the
// watcher goroutine works).
const closeWait = 20 * time.Second

type caseSpec struct {
	Shape   string `json:"shape"`
	Engine  string `json:"engine"`
	Cause   string `json:"cause"`
	Moment  int    `json:"moment"`
	Conc    string `json:"conc,omitempty"`    // concurrency scenario (conc.go): "<order>/<context arrangement>"
	Env     string `json:"env,omitempty"`     // shared-cache environment (envdim.go): "<cache>/<position>/<action of the OFF runtime>"
	Hist    string `json:"hist,omitempty"`    // call history on one api.Function (hist.go)
	Prewarm bool   `json:"prewarm,omitempty"` // same binaries compiled first by a runtime WITHOUT close-on-context-done sharing the compilation cache
}

func (c caseSpec) String() string {
	m := "before-call"
	if c.Moment >= 0 {
		m = fmt.Sprintf("after-iteration-%d", c.Moment)
	}
	s := fmt.Sprintf("%s/%s/%s/%s", c.Shape, c.Engine, c.Cause, m)
	if c.Prewarm {
		s += "/prewarmed-cache"
	}
	if c.Conc != "" {
		s += "/concurrent:" + c.Conc
	}
	if c.Env != "" {
		s += "/shared-cache:" + c.Env
	}
	if c.Hist != "" {
		s = fmt.Sprintf("%s/%s/history[%s]", c.Shape, c.Engine, c.Hist)
	}
	return s
}

// expectedCode: the exit code follows ctx.Err() - whatever the cause recorded in the context is.
func expectedCode(cause string) uint32 {
	switch cause {
	case "cancel", "cancel-cause-custom", "cancel-cause-wraps-deadline", "cancel-cause-wraps-canceled",
		"parent-withvalue", "parent-withcancel", "custom-ctx-canceled", "afterfunc":
		return sys.ExitCodeContextCanceled
	case "deadline", "timeout-cause", "deadline-cause", "custom-ctx-deadline":
		return sys.ExitCodeDeadlineExceeded
	case "close":
		return 0
	case "close7", causeWithoutCancel:
		return 7
	}
	panic("cause " + cause)
}

var errCustomCause = errors.New("c07: budget used up")

type ctxKey struct{}

// manualCtx is a context.Context that is not built from the context package's own types.
type manualCtx struct {
	mu   sync.Mutex
	done chan struct{}
	err  error
}

func (m *manualCtx) Deadline() (time.Time, bool) { return time.Time{}, false }
func (m *manualCtx) Done() <-chan struct{}       { return m.done }
func (m *manualCtx) Value(any) any               { return nil }
func (m *manualCtx) Err() error {
	m.mu.Lock()
	defer m.mu.Unlock()
	return m.err
}

func (m *manualCtx) finish(err error) {
	m.mu.Lock()
	defer m.mu.Unlock()
	if m.err == nil {
		m.err = err
		close(m.done)
	}
}

// mkCtx builds the context of the call under test. r.fireCtx makes it done (no-op for timer driven
// causes); r.cancel releases it afterwards. before: the context must already be done when it is returned
// to the caller's fire (timers get a deadline in the past).
func (r *caseRun) mkCtx(before bool) context.Context {
	bg := context.Background()
	r.fireCtx, r.cancel = func() {}, func() {}
	at := time.Now().Add(deadlineAhead)
	d := deadlineAhead
	if before {
		at, d = time.Now().Add(-time.Second), -time.Second
	}
	switch r.spec.Cause {
	case "cancel":
		ctx, c := context.WithCancel(bg)
		r.fireCtx, r.cancel = c, c
		return ctx
	case "cancel-cause-custom", "cancel-cause-wraps-deadline", "cancel-cause-wraps-canceled":
		cause := errCustomCause
		switch r.spec.Cause {
		case "cancel-cause-wraps-deadline":
			cause = fmt.Errorf("giving up: %w", context.DeadlineExceeded)
		case "cancel-cause-wraps-canceled":
			cause = fmt.Errorf("user pressed stop: %w", context.Canceled)
		}
		ctx, c := context.WithCancelCause(bg)
		r.fireCtx, r.cancel = func() { c(cause) }, func() { c(nil) }
		return ctx
	case "deadline":
		ctx, c := context.WithDeadline(bg, at)
		r.cancel = c
		return ctx
	case "timeout-cause":
		ctx, c := context.WithTimeoutCause(bg, d, fmt.Errorf("too slow: %w", context.Canceled))
		r.cancel = c
		return ctx
	case "deadline-cause":
		ctx, c := context.WithDeadlineCause(bg, at, errCustomCause)
		r.cancel = c
		return ctx
	case "parent-withvalue":
		p, c := context.WithCancel(bg)
		r.fireCtx, r.cancel = c, c
		return context.WithValue(p, ctxKey{}, 1)
	case "parent-withcancel":
		p, c := context.WithCancel(bg)
		ctx, c2 := context.WithCancel(p)
		r.fireCtx, r.cancel = c, func() { c2(); c() }
		return ctx
	case causeWithoutCancel:
		p, c := context.WithCancel(context.WithValue(bg, ctxKey{}, 1))
		r.fireCtx, r.cancel = c, c
		return context.WithoutCancel(p)
	case "custom-ctx-canceled", "custom-ctx-deadline":
		m := &manualCtx{done: make(chan struct{})}
		e := context.Canceled
		if r.spec.Cause == "custom-ctx-deadline" {
			e = context.DeadlineExceeded
		}
		r.fireCtx = func() { m.finish(e) }
		return m
	case "afterfunc":
		ctx, c := context.WithCancel(bg)
		stop := context.AfterFunc(ctx, func() {})
		r.fireCtx, r.cancel = c, func() { stop(); c() }
		return ctx
	}
	return bg // close / close7
}

var errNeverClosed = errors.New("c07: module not closed after the cause was fired")

type caseRun struct {
	spec    caseSpec
	sh      *shape
	idx     int
	t0      time.Time
	mu      sync.Mutex
	target  api.Module
	cancel  context.CancelFunc
	fireCtx func()
	leaked  bool // the module closed although only the parent of a WithoutCancel context was cancelled
	fired   bool
	ticks   []uint32
	armed   time.Duration
	wd      *time.Timer
	// atFirstTick, if set, runs once inside the guest's first tick (the call under test is in flight)
	atFirstTick func()
}

func newCaseRun(idx int, spec caseSpec, sh *shape) *caseRun {
	return &caseRun{spec: spec, sh: sh, idx: idx, t0: time.Now(), cancel: func() {}}
}

func marker(format string, a ...any) { fmt.Fprintf(os.Stderr, "C07 "+format+"\n", a...) }

// hangAfter: a call that has not returned this long after the cause was in place (module observed
// closed, or context already done / module already closed before the call) is a hang. The child
// measures it from that moment and reports by marker + exit(3); the supervisor's much longer
// per-case watchdog is only the fallback for a wedged Go runtime.
const hangAfter = 21 * time.Second

// lowPriorityOnceArmed (tail phase): many cases that are expected to spin forever run at once. Once
// a case is armed its process drops to the lowest priority, so that processes still starting up and
// arming are not starved by the spinning ones. A conforming engine needs one guest iteration after
// arming, i.e. microseconds of CPU, which the lowest priority still provides within seconds.
var lowPriorityOnceArmed = false

// replaying: the case runs in the foreground process of `replay`; a hang ends it with exit 1.
var replaying = false

func setNice(n int) {
	ents, _ := os.ReadDir("/proc/self/task")
	for _, e := range ents {
		if tid, err := strconv.Atoi(e.Name()); err == nil {
			_ = syscall.Setpriority(syscall.PRIO_PROCESS, tid, n)
		}
	}
}

// arm marks the moment from which the call is expected to return promptly.
func (r *caseRun) arm(kind string) {
	r.armed = time.Since(r.t0)
	marker("%s i=%d t=%.3f", kind, r.idx, r.armed.Seconds())
	if lowPriorityOnceArmed {
		setNice(19)
	}
	idx, t0 := r.idx, r.t0
	r.wd = time.AfterFunc(hangAfter, func() {
		marker("SELFHANG i=%d t=%.3f", idx, time.Since(t0).Seconds())
		if replaying {
			fmt.Printf("  the call has not returned %.0f s after the cause was in place: HANG\n", hangAfter.Seconds())
			os.Exit(1)
		}
		os.Exit(3)
	})
}

func (r *caseRun) disarm() {
	if r.wd != nil {
		r.wd.Stop()
	}
	if lowPriorityOnceArmed {
		setNice(0)
	}
}

// fire puts the cause in place. inGuest: called from the chosen tick (the guest is inside its cycle).
func (r *caseRun) fire(inGuest bool) {
	switch r.spec.Cause {
	case "close":
		t := r.target
		go t.Close(context.Background())
	case "close7":
		t := r.target
		go t.CloseWithExitCode(context.Background(), 7)
	case causeWithoutCancel:
		r.fireCtx() // cancels the parent (idempotent)
		if inGuest {
			time.Sleep(20 * time.Millisecond)
			if r.target.IsClosed() {
				r.leaked = true
			}
			t := r.target
			go t.CloseWithExitCode(context.Background(), 7)
		}
	default:
		r.fireCtx() // timer driven causes: nothing to do, the deadline passes by itself
	}
}

// tickAt is the tick at which the harness acts; beforeCall reports whether the call is expected to
// return promptly right from its start.
func (r *caseRun) tickAt() int {
	if r.spec.Moment < 0 && r.spec.Cause == causeWithoutCancel {
		return 1
	}
	return r.spec.Moment
}
func (r *caseRun) beforeCall() bool { return r.spec.Moment < 0 && r.spec.Cause != causeWithoutCancel }

// tick is env.tick: at the chosen iteration it fires the cause, waits until the module is observed
// closed, and returns into the guest.
func (r *caseRun) tick(ctx context.Context, mod api.Module, stack []uint64) {
	i := uint32(stack[0])
	r.ticks = append(r.ticks, i)
	if r.target == nil {
		r.target = mod // start shapes: the instantiating module is only reachable from here
	}
	if f := r.atFirstTick; f != nil {
		r.atFirstTick = nil
		f()
	}
	if r.fired || r.tickAt() < 0 || int(i) != r.tickAt() {
		return
	}
	r.fired = true
	r.fire(true)
	lim := time.Now().Add(closeWait)
	for n := 0; !r.target.IsClosed(); n++ {
		if time.Now().After(lim) {
			panic(errNeverClosed)
		}
		if n < 200 {
			time.Sleep(20 * time.Microsecond)
		} else {
			time.Sleep(time.Millisecond)
		}
	}
	r.arm("ARMED")
}

func runtimeConfig(engine string) wazero.RuntimeConfig {
	var c wazero.RuntimeConfig
	if engine == "compiler" {
		c = wazero.NewRuntimeConfigCompiler()
	} else {
		c = wazero.NewRuntimeConfigInterpreter()
	}
	return c.WithCoreFeatures(api.CoreFeaturesV2 | experimental.CoreFeaturesTailCall)
}

// runCase executes one case and returns "<outcome>|<detail>". It does not return if the engine hangs.
func runCase(idx int, spec caseSpec, sh *shape) string {
	if spec.Conc != "" {
		return runConcCase(idx, spec, sh)
	}
	if spec.Hist != "" {
		return runHistCase(idx, spec, sh)
	}
	if spec.Env != "" {
		return runEnvCase(idx, spec, sh)
	}
	bg := context.Background()
	r := &caseRun{spec: spec, sh: sh, idx: idx, t0: time.Now()} // markers carry the time since the case started
	cfg := runtimeConfig(spec.Engine).WithCloseOnContextDone(true)
	if spec.Prewarm {
		cache := wazero.NewCompilationCache()
		defer cache.Close(bg)
		rt0 := wazero.NewRuntimeWithConfig(bg, runtimeConfig(spec.Engine).WithCloseOnContextDone(false).WithCompilationCache(cache))
		defer rt0.Close(bg)
		for _, m := range sh.Mods {
			if _, err := rt0.CompileModule(bg, m.Bin); err != nil {
				return "harness|prewarm compile: " + err.Error()
			}
		}
		cfg = cfg.WithCompilationCache(cache)
	}
	rt := wazero.NewRuntimeWithConfig(bg, cfg)
	defer rt.Close(bg)

	hb := rt.NewHostModuleBuilder("env")
	hb.NewFunctionBuilder().WithGoModuleFunction(api.GoModuleFunc(r.tick), []api.ValueType{api.ValueTypeI32}, nil).Export("tick")
	hb.NewFunctionBuilder().WithGoModuleFunction(api.GoModuleFunc(func(ctx context.Context, mod api.Module, _ []uint64) {
		// cycle entered from a host callback: a fresh api.Function, same context; the error is propagated the
		// way host functions propagate exits (panic with the error value).
		if _, err := mod.ExportedFunction(sh.Reenter).Call(ctx); err != nil {
			panic(err)
		}
	}), nil, nil).Export("enter")
	if _, err := hb.Instantiate(bg); err != nil {
		return "harness|env: " + err.Error()
	}

	var compiled []wazero.CompiledModule
	for _, m := range sh.Mods {
		c, err := rt.CompileModule(bg, m.Bin)
		if err != nil {
			return fmt.Sprintf("harness|compile %s/%s: %v", sh.ID, m.Name, err)
		}
		compiled = append(compiled, c)
	}
	last := len(sh.Mods) - 1
	for i := 0; i < last; i++ {
		if _, err := rt.InstantiateModule(bg, compiled[i], wazero.NewModuleConfig().WithName(sh.Mods[i].Name)); err != nil {
			return fmt.Sprintf("harness|instantiate %s/%s: %v", sh.ID, sh.Mods[i].Name, err)
		}
	}
	entryCfg := wazero.NewModuleConfig().WithName(sh.Mods[last].Name)

	// the context of the call under test is built right before the call (timers start then)
	var ctx context.Context
	r.cancel = func() {}
	var err error
	var mod api.Module
	if sh.Start != "" {
		if spec.Moment < 0 {
			if spec.Cause == "close" || spec.Cause == "close7" {
				return "harness|not applicable"
			}
		}
		ctx = r.mkCtx(spec.Moment < 0)
		if spec.Moment < 0 {
			r.fire(false)
		}
		r.calling()
		mod, err = rt.InstantiateModule(ctx, compiled[last], entryCfg)
		if mod != nil && r.target == nil {
			r.target = mod
		}
	} else {
		mod, err = rt.InstantiateModule(bg, compiled[last], entryCfg)
		if err != nil {
			return fmt.Sprintf("harness|instantiate %s: %v", sh.ID, err)
		}
		r.target = mod
		fn := mod.ExportedFunction(sh.Entry)
		if fn == nil {
			return "harness|no export " + sh.Entry
		}
		params := make([]uint64, len(fn.Definition().ParamTypes()))
		ctx = r.mkCtx(spec.Moment < 0)
		if spec.Moment < 0 {
			r.fire(false)
			if spec.Cause == "close" || spec.Cause == "close7" {
				for lim := time.Now().Add(closeWait); !mod.IsClosed(); {
					if time.Now().After(lim) {
						return "bad:cause-did-not-close-module|Close returned but IsClosed() stays false"
					}
					time.Sleep(50 * time.Microsecond)
				}
			}
		}
		r.calling()
		_, err = fn.Call(ctx, params...)
	}
	r.disarm()
	r.cancel()
	return r.judge(mod, err)
}

// calling: printed right before the call under test. For before-call cases the cause is already in
// place, so the call is expected to return promptly from here on.
func (r *caseRun) calling() {
	if r.beforeCall() {
		r.arm("CALLING")
		r.armed = 0
		return
	}
	marker("CALLING i=%d t=%.3f", r.idx, time.Since(r.t0).Seconds())
}

func (r *caseRun) judge(mod api.Module, err error) string {
	spec, sh := r.spec, r.sh
	info := fmt.Sprintf("ticks=%d armed=%v", len(r.ticks), r.fired && r.armed > 0)
	if errors.Is(err, errNeverClosed) {
		return "bad:cause-did-not-close-module|" + info + " the module was not closed within 20s after the cause was fired"
	}
	if r.leaked {
		return "bad:cancellation-propagated-through-WithoutCancel|" + info + " the module closed after only the parent of the WithoutCancel context was cancelled"
	}
	if r.tickAt() >= 0 && !r.fired {
		// the guest must reach the chosen tick; a deadline that passed earlier than planned is the
		// only legitimate reason not to (the outcome is judged all the same).
		if !isTimerCause(spec.Cause) {
			return fmt.Sprintf("harness|tick %d never reached (%s, err=%v)", r.tickAt(), info, err)
		}
		info += " early-deadline"
	}
	// start shapes whose instantiation failed before the first tick never exposed a module handle:
	// there is nothing IsClosed() could be asked of.
	closed := r.target == nil || r.target.IsClosed()
	if r.target == nil {
		info += " module-never-exposed"
	}
	want := expectedCode(spec.Cause)
	var ee *sys.ExitError
	switch {
	case err == nil:
		if sh.Start == "_start" && want == 0 && mod != nil && closed {
			// documented: InstantiateModule treats exit code 0 of a start function as success
			return "ok-exit0-is-success|" + info
		}
		return "bad:call-returned-without-error|" + info
	case errors.As(err, &ee):
		if ee.ExitCode() != want {
			return fmt.Sprintf("bad:wrong-exit-code|%s got exit code %d, want %d", info, ee.ExitCode(), want)
		}
		if !closed {
			return "bad:module-not-closed-afterwards|" + info
		}
		stop := "ok-exit"
		if r.tickAt() >= 0 && len(r.ticks) <= r.tickAt()+2 {
			stop = "ok-exit-within-one-iteration"
		}
		return stop + "|" + info
	case errors.Is(err, wasmruntime.ErrRuntimeStackOverflow):
		if !sh.OverflowOK {
			return "bad:stack-overflow-in-a-loop-only-shape|" + info
		}
		if !closed && !(r.beforeCall() && isCtxCause(spec.Cause)) {
			return "bad:module-not-closed-afterwards|" + info + " (after stack overflow)"
		}
		return "ok-stack-overflow|" + info
	default:
		msg := err.Error()
		if k := strings.IndexByte(msg, '\n'); k > 0 {
			msg = msg[:k]
		}
		return fmt.Sprintf("bad:wrong-error|%s %T: %s", info, err, msg)
	}
}
