package main

// Call-history dimension: ONE cached api.Function object is called 2-3 times with DIFFERENT contexts.
// The guest function f(mode) terminates for mode 0 (one tick, return) and runs the cycle for mode 1, so the
// same call engine serves terminating and non-terminating calls. Per-call context state must not survive
// in the per-Function call engine:
//
//   - a non-terminating call must be stopped by ITS OWN context (and not earlier by a previous call's);
//   - cancelling the context of a call that has already returned must not close the module, neither
//     before nor during a later call;
//   - a terminating call whose context is cancelled later returns normally.
//
// A history is a sequence of steps "<kind>:<context>:<decoration>":
//
//	kind T (terminating)      context  bg | cancel-before-next | cancel-during-next | child-before-next | child-during-next
//	kind N (non-terminating)  context  cancel-before | cancel-during | deadline | child-during      (only as last step:
//	                          a stopped cycle leaves the module closed)
//	decoration                plain | snap (experimental.WithSnapshotter)
//
//	kind E-<how> (the call ENDS WITHOUT closing the module, other than by returning normally)
//	                          how      unreachable | oob | divzero | hostpanic | swallowed | overflow
//	                                   (swallowed: the host function calls back into the guest, the nested call traps,
//	                                   the host swallows the error and the outer call returns normally)
//	                          context  cancel-after | deadline-after | child-after   (cancelled / expired AFTER the call ended;
//	                                   then the module must STAY open for the settle horizon histSettle)
//
// "…-before-next": the (parent) context of the step is cancelled right after its call returned;
// "…-during-next": it is cancelled at the first tick of the next call. "child": the call gets
// WithCancel(parent) and the parent is cancelled.

import (
	"context"
	"errors"
	"fmt"
	"strings"
	"time"

	"github.com/tetratelabs/wazero"
	"github.com/tetratelabs/wazero/api"
	"github.com/tetratelabs/wazero/experimental"
	"github.com/tetratelabs/wazero/sys"
	"github.com/tetratelabs/wazero/verif/wb"
)

const tickTerm = 7000

// histSettle: how long the module is polled (and required to stay open) after the context of a call that has
// already ended was cancelled / expired. A "nothing happens" oracle: a stale watcher acts within microseconds.
const histSettle = 300 * time.Millisecond

var (
	histEHow = []string{"unreachable", "oob", "divzero", "hostpanic", "swallowed", "overflow"}
	histECtx = []string{"cancel-after", "deadline-after", "child-after"}
	// what follows an E step in quick: a terminating call, and a cycle stopped by its own cancel / deadline
	histEFollowQuick = []string{"T:bg:plain", "N:cancel-during:plain", "N:deadline:snap"}
	histEMode        = map[string]uint64{"unreachable": 2, "oob": 3, "divzero": 4, "hostpanic": 5, "swallowed": 6, "overflow": 7}
)

var errHostBoom = errors.New("c07: host function panics")

// histNotApplicable: exhausting the compiler's 400 MB call stack takes about a second, longer than the deadline
// of a deadline-after step, which would then legitimately expire during the call.
func histNotApplicable(engine, seq string) bool {
	return engine == "compiler" && strings.Contains(seq, "E-overflow:deadline-after")
}

var (
	histTCtx  = []string{"bg", "cancel-before-next", "cancel-during-next", "child-before-next", "child-during-next"}
	histNCtx  = []string{"cancel-before", "cancel-during", "deadline", "child-during"}
	histDecos = []string{"plain", "snap"}
)

func histShape() shape {
	var boom, swallow uint32
	x := newGuest(func(m *wb.Module) {
		boom = m.ImportFunc("env", "boom", nil, nil)
		swallow = m.ImportFunc("env", "swallow", nil, nil)
	})
	x.m.Mem = &wb.Limits{Min: 1}
	self := x.base
	mode := func(s *wb.Asm, v int32) *wb.Asm { return s.LocalGet(0).I32Const(v).Op(0x46).If(wb.Void) }
	body := a().LocalGet(0).Op(0x45).If(wb.Void).I32Const(tickTerm).Call(x.tick).Return().End()
	body = mode(body, 2).Unreachable().End()
	body = mode(body, 3).I32Const(65536).Mem(0x28, 2, 0).Drop().End()
	body = mode(body, 4).I32Const(1).I32Const(0).Op(0x6d).Drop().End()
	body = mode(body, 5).Call(boom).Return().End()
	body = mode(body, 6).Call(swallow).Return().End()
	body = mode(body, 7).I32Const(7).Call(self).Return().End()
	body = x.P(body.Loop(wb.Void)).Br(0).End()
	x.m.ExportFunc("f", x.m.AddFunc([]byte{wb.I32}, nil, nil, body.B))
	return shape{ID: "F-one-function-two-modes", Family: "hist", Class: classLoop, Cycle: "call-history/loop-br", Mods: one("a", x), Entry: "f",
		Desc: "f(mode) { 0: tick, return | 2: unreachable | 3: load out of bounds | 4: 1/0 | 5: host panics | 6: host calls f(2), swallows the trap | 7: f(7) | else: loop { P; br 0 } }, one api.Function object called repeatedly"}
}

func histSteps(kind string, ctxs []string) []string {
	var out []string
	for _, c := range ctxs {
		for _, d := range histDecos {
			out = append(out, kind+":"+c+":"+d)
		}
	}
	return out
}

// histSequences: quick = all of [T,N] and [T,T], and [T,T,N] over the reduced T alphabet
// {bg, cancel-before-next}; thorough = the full [T,T,N] and [T,T,T] as well.
func histSequences(thorough bool) []string {
	T, N := histSteps("T", histTCtx), histSteps("N", histNCtx)
	Tsmall := histSteps("T", histTCtx[:2])
	var out []string
	for _, t := range T {
		for _, n := range N {
			out = append(out, t+","+n)
		}
		for _, t2 := range T {
			out = append(out, t+","+t2)
		}
	}
	// E steps: every way to end without closing the module x context x decoration, followed by one more call
	follow := histEFollowQuick
	if thorough {
		follow = append(append([]string{}, T...), N...)
	}
	for _, how := range histEHow {
		for _, e := range histSteps("E-"+how, histECtx) {
			for _, f := range follow {
				out = append(out, e+","+f)
			}
		}
	}
	T3 := Tsmall
	if thorough {
		T3 = T
	}
	for _, t := range T3 {
		for _, t2 := range T3 {
			for _, n := range N {
				out = append(out, t+","+t2+","+n)
			}
			if thorough {
				for _, t3 := range T3 {
					out = append(out, t+","+t2+","+t3)
				}
			}
		}
	}
	return out
}

// histCaseFields maps the last step of a history onto the cause / moment vocabulary of the other cases
// (expected exit code, marker logic).
func histCaseFields(seq string) (cause string, moment int) {
	steps := strings.Split(seq, ",")
	p := strings.Split(steps[len(steps)-1], ":")
	if p[0] == "T" {
		return "none", -1
	}
	switch p[1] {
	case "cancel-before":
		return "cancel", -1
	case "cancel-during":
		return "cancel", 1
	case "deadline":
		return "deadline", 1
	case "child-during":
		return "parent-withcancel", 1
	}
	panic("c07 hist: " + seq)
}

type histRun struct {
	*caseRun
	callIdx     int
	pending     map[int][]func() // actions to run at the first tick of call j
	seenTick    map[int]bool
	staleClosed string // set when the module was found closed although no live call's context was done
	ownFire     func()
	ownCtx      context.Context
}

func (r *histRun) tick(ctx context.Context, mod api.Module, stack []uint64) {
	id := int(uint32(stack[0]))
	j := r.callIdx
	if !r.seenTick[j] {
		r.seenTick[j] = true
		for _, f := range r.pending[j] {
			f()
		}
	}
	if id == tickTerm {
		return
	}
	r.ticks = append(r.ticks, uint32(id))
	if r.fired || r.spec.Moment < 0 || id != r.spec.Moment {
		return
	}
	r.fired = true
	// every earlier call's context that was to be cancelled is cancelled by now: give a stale watcher time to act
	time.Sleep(20 * time.Millisecond)
	// (closed is observed first, the own context second: a deadline that has passed by now is a legitimate closer)
	if r.target.IsClosed() && r.ownCtx.Err() == nil {
		r.staleClosed = "the module was closed during the non-terminating call before its own context was done"
	}
	r.ownFire()
	lim := time.Now().Add(closeWait)
	for n := 0; !r.target.IsClosed(); n++ {
		if time.Now().After(lim) {
			panic(errNeverClosed)
		}
		if n < 200 {
			time.Sleep(20 * time.Microsecond)
		} else {
			time.Sleep(time.Millisecond)
		}
	}
	r.arm("ARMED")
}

func runHistCase(idx int, spec caseSpec, sh *shape) string {
	bg := context.Background()
	r := &histRun{caseRun: &caseRun{spec: spec, sh: sh, idx: idx, t0: time.Now()}, pending: map[int][]func(){}, seenTick: map[int]bool{}}
	r.cancel = func() {}
	rt := wazero.NewRuntimeWithConfig(bg, runtimeConfig(spec.Engine).WithCloseOnContextDone(true))
	defer rt.Close(bg)
	hb := rt.NewHostModuleBuilder("env")
	hb.NewFunctionBuilder().WithGoModuleFunction(api.GoModuleFunc(r.tick), []api.ValueType{api.ValueTypeI32}, nil).Export("tick")
	var swallowedErr error
	hb.NewFunctionBuilder().WithGoModuleFunction(api.GoModuleFunc(func(context.Context, api.Module, []uint64) {
		panic(errHostBoom)
	}), nil, nil).Export("boom")
	hb.NewFunctionBuilder().WithGoModuleFunction(api.GoModuleFunc(func(ctx context.Context, m api.Module, _ []uint64) {
		// nested call on the same context through a fresh api.Function; it traps; the error is swallowed
		_, swallowedErr = m.ExportedFunction("f").Call(ctx, 2)
	}), nil, nil).Export("swallow")
	if _, err := hb.Instantiate(bg); err != nil {
		return "harness|env: " + err.Error()
	}
	cm, err := rt.CompileModule(bg, sh.Mods[0].Bin)
	if err != nil {
		return fmt.Sprintf("harness|compile %s: %v", sh.ID, err)
	}
	mod, err := rt.InstantiateModule(bg, cm, wazero.NewModuleConfig().WithName("a"))
	if err != nil {
		return fmt.Sprintf("harness|instantiate %s: %v", sh.ID, err)
	}
	r.target = mod
	fn := mod.ExportedFunction("f") // the ONE api.Function object used for every call of the history
	var cleanup []context.CancelFunc
	defer func() {
		for _, c := range cleanup {
			c()
		}
	}()

	steps := strings.Split(spec.Hist, ",")
	for j, st := range steps {
		p := strings.Split(st, ":")
		kind, ck, deco := p[0], p[1], p[2]
		r.callIdx = j
		var ctx context.Context
		var own context.CancelFunc // what makes this step's context done
		switch ck {
		case "bg":
			ctx = bg
		case "cancel-before-next", "cancel-during-next", "cancel-before", "cancel-during", "cancel-after":
			ctx, own = context.WithCancel(bg)
		case "child-before-next", "child-during-next", "child-during", "child-after":
			var parent context.Context
			var c2 context.CancelFunc
			parent, own = context.WithCancel(bg)
			ctx, c2 = context.WithCancel(parent)
			cleanup = append(cleanup, c2)
		case "deadline", "deadline-after":
			var c context.CancelFunc
			ctx, c = context.WithDeadline(bg, time.Now().Add(deadlineAhead))
			cleanup = append(cleanup, c)
		default:
			return "harness|history step " + st
		}
		if own != nil {
			cleanup = append(cleanup, own)
		}
		if deco == "snap" {
			ctx = experimental.WithSnapshotter(ctx)
		}
		if how, ok := strings.CutPrefix(kind, "E-"); ok {
			swallowedErr = nil
			_, err := fn.Call(ctx, histEMode[how])
			var ee *sys.ExitError
			switch {
			case errors.As(err, &ee) || mod.IsClosed():
				return fmt.Sprintf("bad:call-ending-by-%s-closed-the-module|call %d (%s) ended with %v, IsClosed=%v", how, j+1, st, err, mod.IsClosed())
			case how == "swallowed" && (err != nil || swallowedErr == nil):
				return fmt.Sprintf("harness|swallowed step: outer err=%v inner err=%v", err, swallowedErr)
			case how != "swallowed" && err == nil:
				return fmt.Sprintf("harness|step %s returned without error", st)
			}
			// now the context of the call that has ended becomes done ...
			switch ck {
			case "cancel-after", "child-after":
				own()
			case "deadline-after":
				if dl, _ := ctx.Deadline(); time.Until(dl) > 0 {
					time.Sleep(time.Until(dl) + 2*time.Millisecond)
				}
				<-ctx.Done()
			}
			// ... and nothing may happen to the module
			for lim := time.Now().Add(histSettle); time.Now().Before(lim); time.Sleep(5 * time.Millisecond) {
				if mod.IsClosed() {
					return fmt.Sprintf("bad:module-closed-by-a-finished-calls-context|%.0f ms after the context of call %d (%s, ended by %s) became done", time.Since(lim.Add(-histSettle)).Seconds()*1000, j+1, st, how)
				}
			}
			continue
		}
		if kind == "T" {
			_, err := fn.Call(ctx, 0)
			if err != nil {
				return fmt.Sprintf("bad:terminating-call-affected|call %d (%s) of the history ended with %v", j+1, st, err)
			}
			if mod.IsClosed() {
				return fmt.Sprintf("bad:module-closed-by-a-finished-calls-context|after call %d (%s) returned normally", j+1, st)
			}
			switch {
			case strings.HasSuffix(ck, "-before-next"):
				own()
			case strings.HasSuffix(ck, "-during-next"):
				if j+1 < len(steps) {
					r.pending[j+1] = append(r.pending[j+1], own)
				} else {
					own()
				}
			}
			continue
		}
		// the non-terminating call, stopped by its own context
		created := time.Now()
		r.ownFire, r.ownCtx = func() {}, ctx
		if own != nil {
			r.ownFire = own
		}
		if ck == "cancel-before" {
			for _, f := range r.pending[j] { // there will be no tick to run them at
				f()
			}
			own()
		}
		r.calling()
		_, err := fn.Call(ctx, 1)
		r.disarm()
		info := fmt.Sprintf("ticks=%d armed=%v", len(r.ticks), r.fired && r.armed > 0)
		if r.staleClosed != "" {
			return "bad:module-closed-by-a-finished-calls-context|" + info + " " + r.staleClosed
		}
		if spec.Moment >= 0 && !r.fired && !(ck == "deadline" && ctx.Err() != nil && time.Since(created) >= deadlineAhead) {
			return fmt.Sprintf("bad:stopped-before-its-own-context-was-done|%s the non-terminating call ended with %v before reaching the tick at which its own context becomes done", info, err)
		}
		return r.judge(mod, err)
	}
	// all calls terminated: nothing may have closed the module, also not a moment later
	time.Sleep(20 * time.Millisecond)
	if mod.IsClosed() {
		return "bad:module-closed-by-a-finished-calls-context|after the last call of an all-terminating history"
	}
	return "ok-all-terminating-calls-unaffected|calls=" + fmt.Sprint(len(steps))
}
