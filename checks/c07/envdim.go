package main

// Environment dimension: the runtime under test has close-on-context-done ON and shares its
// CompilationCache (hence, per engine kind, one engine) with a second runtime whose setting is OFF. Whatever
// the OFF runtime compiles, instantiates or calls, before, between or during the ON runtime's compile /
// instantiate / call, the ON runtime's non-terminating call must be stopped by its context; and the mirror:
// a terminating call in the OFF runtime is not affected by a cancelled context (without the option the
// context is ignored, as documented). No non-terminating guest ever runs on the OFF runtime.
//
//	cache     mem (NewCompilationCache) | dir (NewCompilationCacheWithDir)
//	position  of the OFF runtime's action relative to ON's  compile, instantiate, call:
//	          before-compile | between-compile-and-instantiate | between-instantiate-and-call | during-call
//	action    same (OFF compiles the same binary) | other (OFF compiles a different binary) |
//	          other+call (OFF compiles, instantiates the other binary and calls its terminating function with an
//	          already cancelled context) | precompiled-call (OFF compiled and instantiated at the very start; only
//	          the call with the cancelled context happens at the position)

import (
	"context"
	"fmt"
	"os"
	"strings"

	"github.com/tetratelabs/wazero"
	"github.com/tetratelabs/wazero/api"
	"github.com/tetratelabs/wazero/verif/wb"
)

var (
	envCaches    = []string{"mem", "dir"}
	envPositions = []string{"before-compile", "between-compile-and-instantiate", "between-instantiate-and-call", "during-call"}
	envActions   = []string{"same", "other", "other+call", "precompiled-call"}
	envCauses    = []string{"cancel", "deadline"}
)

const envShape = "L01-br"

func envScenarios() []string {
	var out []string
	for _, c := range envCaches {
		for _, p := range envPositions {
			for _, a := range envActions {
				out = append(out, c+"/"+p+"/"+a)
			}
		}
	}
	return out
}

var envOtherBin = func() []byte {
	m := &wb.Module{}
	tick := m.ImportFunc("env", "tick", []byte{wb.I32}, nil)
	m.ExportFunc("short", m.AddFunc(nil, nil, nil, a().I32Const(9000).Call(tick).B))
	return m.Encode()
}()

func runEnvCase(idx int, spec caseSpec, sh *shape) string {
	bg := context.Background()
	r := newCaseRun(idx, spec, sh)
	parts := strings.Split(spec.Env, "/")
	cacheKind, position, action := parts[0], parts[1], parts[2]

	var cache wazero.CompilationCache
	if cacheKind == "dir" {
		dir, err := os.MkdirTemp(os.Getenv("C07_TMP"), "cache")
		if err != nil {
			return "harness|" + err.Error()
		}
		defer os.RemoveAll(dir)
		if cache, err = wazero.NewCompilationCacheWithDir(dir); err != nil {
			return "harness|" + err.Error()
		}
	} else {
		cache = wazero.NewCompilationCache()
	}
	defer cache.Close(bg)
	rtOn := wazero.NewRuntimeWithConfig(bg, runtimeConfig(spec.Engine).WithCloseOnContextDone(true).WithCompilationCache(cache))
	defer rtOn.Close(bg)
	rtOff := wazero.NewRuntimeWithConfig(bg, runtimeConfig(spec.Engine).WithCloseOnContextDone(false).WithCompilationCache(cache))
	defer rtOff.Close(bg)
	hb := rtOn.NewHostModuleBuilder("env")
	hb.NewFunctionBuilder().WithGoModuleFunction(api.GoModuleFunc(r.tick), []api.ValueType{api.ValueTypeI32}, nil).Export("tick")
	if _, err := hb.Instantiate(bg); err != nil {
		return "harness|env(on): " + err.Error()
	}
	hb = rtOff.NewHostModuleBuilder("env")
	hb.NewFunctionBuilder().WithGoModuleFunction(api.GoModuleFunc(func(context.Context, api.Module, []uint64) {}), []api.ValueType{api.ValueTypeI32}, nil).Export("tick")
	if _, err := hb.Instantiate(bg); err != nil {
		return "harness|env(off): " + err.Error()
	}

	bin := sh.Mods[0].Bin
	offBad := ""
	var offMod api.Module
	offInstantiate := func() string {
		c, err := rtOff.CompileModule(bg, envOtherBin)
		if err != nil {
			return "off compile(other): " + err.Error()
		}
		if offMod, err = rtOff.InstantiateModule(bg, c, wazero.NewModuleConfig().WithName("other")); err != nil {
			return "off instantiate: " + err.Error()
		}
		return ""
	}
	offCall := func() {
		ctx, cancel := context.WithCancel(bg)
		cancel() // already cancelled: ignored without the option
		if _, err := offMod.ExportedFunction("short").Call(ctx); err != nil {
			offBad = fmt.Sprintf("the OFF runtime's terminating call with a cancelled context ended with %v", err)
		} else if offMod.IsClosed() {
			offBad = "the OFF runtime's module was closed by a cancelled context"
		}
	}
	harness := ""
	if action == "precompiled-call" {
		harness = offInstantiate()
	}
	offAct := func() {
		switch action {
		case "same":
			if _, err := rtOff.CompileModule(bg, bin); err != nil {
				harness = "off compile(same): " + err.Error()
			}
		case "other":
			if _, err := rtOff.CompileModule(bg, envOtherBin); err != nil {
				harness = "off compile(other): " + err.Error()
			}
		case "other+call":
			if harness = offInstantiate(); harness == "" {
				offCall()
			}
		case "precompiled-call":
			offCall()
		}
	}
	at := func(p string) {
		if position == p {
			offAct()
		}
	}
	at("before-compile")
	compiled, err := rtOn.CompileModule(bg, bin)
	if err != nil {
		return "harness|on compile: " + err.Error()
	}
	at("between-compile-and-instantiate")
	mod, err := rtOn.InstantiateModule(bg, compiled, wazero.NewModuleConfig().WithName("a"))
	if err != nil {
		return "harness|on instantiate: " + err.Error()
	}
	r.target = mod
	at("between-instantiate-and-call")
	if position == "during-call" {
		r.atFirstTick = offAct
	}
	fn := mod.ExportedFunction(sh.Entry)
	ctx := r.mkCtx(false)
	r.calling()
	_, err = fn.Call(ctx)
	r.disarm()
	r.cancel()
	if harness != "" {
		return "harness|" + harness
	}
	if offBad != "" {
		return "bad:off-runtime-call-affected-by-its-context|" + offBad
	}
	return r.judge(mod, err)
}
