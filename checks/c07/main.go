// C07 — close-on-context-done always stops a running guest.
//
// Exploration by exhaustive enumeration of a finite grammar of non-terminating guests:
// every way to close a cycle (shapes.go) x both engines x cause {context cancel, deadline,
// Module.Close from another goroutine, CloseWithExitCode(7)} x arrival moment {before the call,
// after iteration 1, after iteration 3}, on runtimes configured WithCloseOnContextDone(true).
//
// Dynamic pass (runcase.go): each case runs in a supervised child process. The guest calls the host
// function env.tick for its first 4 iterations; at the chosen tick the harness fires the cause,
// waits until IsClosed() is observed, and returns into the guest, which from then on runs the pure
// cycle. Oracle: the call returns (only the supervisor's >=20 s watchdog decides a hang), the error is
// *sys.ExitError with the code of the cause, IsClosed() holds. Shapes whose cycle contains a call
// edge may end in ErrRuntimeStackOverflow instead (counted separately).
//
// Structural pass (structural.go): the interpreter's lowered code of every program is searched for a
// reachable bounded-stack cycle without an exit-code check.
package main

import (
	"encoding/json"
	"fmt"
	"os"
	"regexp"
	"sort"
	"strconv"
	"strings"
	"sync"
	"syscall"
	"time"

	"github.com/tetratelabs/wazero/verif/fw"
)

// caseTimeout is the supervisor's fallback watchdog; hangs are normally reported by the child itself
// hangAfter (21 s) after the cause was in place (see runcase.go).
const caseTimeout = 60 * time.Second

// violationLimit: a run that has already recorded this many (non-known) violations stops feeding new
// cases to the workers; it ends with exit 1 and exhaustive:false.
const violationLimit = 24

// buildCases: the full product, minus the combinations that do not exist (a module that is still
// being instantiated cannot be closed before the call), plus the prewarmed-cache slice.
// ctxQuickShapes: the shapes that run the extended context causes in the quick tier (one or two per
// family; how a context becomes done is independent of the guest's cycle form, the watcher and the
// up-front check are shared by all of them). Thorough runs them for every named shape.
var ctxQuickShapes = map[string]bool{
	"L01-br": true, "L02-br_if": true, "L14-call-body": true, "R01-direct": true, "T01-return_call-1": true,
	"T04-return_call_indirect-self": true, "X02-import-loops": true, "X03-import-calls-local-loop": true,
	"H01-host-enters-loop": true, "S01-start-section-loop": true, "S04-_start-export-loop": true,
}

func buildCases(shapes []shape, thorough bool) (cases []caseSpec, notApplicable, prewarm, ctxExt int) {
	for _, e := range engines { // shared-cache environment dimension (envdim.go)
		for _, sc := range envScenarios() {
			for _, c := range envCauses {
				cases = append(cases, caseSpec{Shape: envShape, Engine: e, Cause: c, Moment: 1, Env: sc})
			}
		}
	}
	for _, sh := range shapes {
		if sh.Family == "hist" { // call history on one cached api.Function
			for _, e := range engines {
				for _, seq := range histSequences(thorough) {
					if histNotApplicable(e, seq) {
						notApplicable++
						continue
					}
					c, m := histCaseFields(seq)
					cases = append(cases, caseSpec{Shape: sh.ID, Engine: e, Cause: c, Moment: m, Hist: seq})
				}
			}
			continue
		}
		if sh.Family == "conc" { // concurrency dimension: scenario x engine x cause x moment
			for _, e := range engines {
				for _, sc := range concScenarios {
					for _, c := range concCauses {
						for _, m := range concMoments {
							cases = append(cases, caseSpec{Shape: sh.ID, Engine: e, Cause: c, Moment: m, Conc: sc})
						}
					}
				}
			}
			continue
		}
		cs := baseCauses
		if sh.Family != "grammar" && (thorough || ctxQuickShapes[sh.ID]) {
			cs = causes
		}
		for _, e := range engines {
			for _, c := range cs {
				for _, m := range moments {
					if sh.Start != "" && m < 0 && (c == "close" || c == "close7") {
						notApplicable++
						continue
					}
					cases = append(cases, caseSpec{Shape: sh.ID, Engine: e, Cause: c, Moment: m})
					if c != "cancel" && c != "deadline" && isCtxCause(c) {
						ctxExt++
					}
				}
			}
			// ensureTermination is part of the compiled-module identity: the same binary compiled first
			// by a runtime without close-on-context-done in a shared cache must not be reused.
			if sh.Family != "grammar" {
				cases = append(cases, caseSpec{Shape: sh.ID, Engine: e, Cause: "cancel", Moment: 1, Prewarm: true})
				prewarm++
			}
		}
	}
	return
}

type plan struct {
	shapes  []shape
	byID    map[string]*shape
	cases   []caseSpec
	na      int
	prewarm int
	ctxExt  int              // cases with one of the extended context causes
	grammar int              // grammar programs run dynamically (thorough)
	phases  map[string][]int // phase -> indexes into cases
	workers map[string]int
}

func thoroughTier() bool {
	t := os.Getenv("VERIF_TIER")
	for _, a := range os.Args[1:] {
		if a == "quick" || a == "thorough" {
			t = a
		}
	}
	return t == "thorough"
}

func makePlan(thorough bool) *plan {
	p := &plan{shapes: buildShapes(), byID: map[string]*shape{}, phases: map[string][]int{}, workers: map[string]int{}}
	if thorough {
		// every non-terminating program of the function-graph grammar with k <= 2 functions also runs dynamically
		g := grammarDynamicShapes(2)
		p.grammar = len(g)
		p.shapes = append(p.shapes, g...)
	}
	p.shapes = append(p.shapes, concShapes()...)
	p.shapes = append(p.shapes, histShape())
	for i := range p.shapes {
		p.byID[p.shapes[i].ID] = &p.shapes[i]
	}
	p.cases, p.na, p.prewarm, p.ctxExt = buildCases(p.shapes, thorough)
	for i, c := range p.cases {
		sh := p.byID[c.Shape]
		// Scheduling hints only (no influence on verdicts).
		switch {
		case c.Hist != "" && c.Engine == "compiler" && strings.Contains(c.Hist, "E-overflow"):
			p.phases["deep"] = append(p.phases["deep"], i) // 400 MB call stack: few at a time
		case c.Hist != "" || c.Env != "":
			p.phases["hist"] = append(p.phases["hist"], i)
		case c.Conc != "":
			// one worker per case: if the module is never closed every such case waits its 20 s bound (or
			// hangs for the watchdog period) at the same time
			p.phases["conc"] = append(p.phases["conc"], i)
		case c.Engine == "compiler" && sh.Deep:
			// the compiler's call stack grows to 400 MB before it reports exhaustion: few at a time,
			// and never while the CPUs are oversubscribed by the tail phase
			p.phases["deep"] = append(p.phases["deep"], i)
		case sh.Tail:
			// cycles closed by tail calls are where hangs are known to occur: every case gets its own
			// worker so that all watchdog periods overlap and known hangs cost one period overall
			p.phases["tail"] = append(p.phases["tail"], i)
		default:
			p.phases["main"] = append(p.phases["main"], i)
		}
	}
	p.workers["main"] = 32 // mostly waiting (deadline cases block until their deadline has passed)
	p.workers["deep"] = 6
	p.workers["hist"] = 200 // milliseconds per case; many workers so that never-closed waits overlap if something is broken
	p.workers["conc"] = len(p.phases["conc"])
	if p.workers["conc"] > 500 {
		p.workers["conc"] = 500
	}
	p.workers["tail"] = len(p.phases["tail"])
	if p.workers["tail"] > 400 {
		p.workers["tail"] = 400
	}
	return p
}

// The tail phase runs alone; then deep and main run side by side.
var phaseRounds = [][]string{{"tail"}, {"conc"}, {"hist"}, {"deep", "main"}}

var reMarker = regexp.MustCompile(`C07 (ARMED|CALLING|SELFHANG) i=(\d+) t=([0-9.]+)`)

// markers returns what the child printed for case idx: the marker that put the cause in place
// (ARMED, or CALLING for before-call cases), its time, and the time of the child's own hang report.
func markers(stderr string, idx int) (kind string, t float64, selfHang float64) {
	selfHang = -1
	for _, m := range reMarker.FindAllStringSubmatch(stderr, -1) {
		if i, _ := strconv.Atoi(m[2]); i == idx {
			v, _ := strconv.ParseFloat(m[3], 64)
			if m[1] == "SELFHANG" {
				selfHang = v
			} else {
				kind, t = m[1], v
			}
		}
	}
	return
}

func momentKind(m int) string {
	if m < 0 {
		return "before-call"
	}
	return "while-running"
}

func main() {
	if len(os.Args) > 2 && os.Args[1] == "replay" {
		replay(os.Args[2])
		return
	}
	p := makePlan(thoroughTier())
	if fw.IsChild() {
		dieWithParent()
		idxs := p.phases[fw.ChildMode()]
		lowPriorityOnceArmed = fw.ChildMode() == "tail" || fw.ChildMode() == "conc"
		fw.ChildLoop(func(i int) string {
			c := p.cases[idxs[i]]
			return runCase(i, c, p.byID[c.Shape])
		})
		return
	}
	if len(os.Args) > 1 && os.Args[1] == "list" {
		for _, sh := range p.shapes {
			fmt.Printf("%-40s %-9s %-9s %s\n", sh.ID, sh.Family, sh.Class, sh.Desc)
		}
		fmt.Printf("%d shapes, %d cases (+%d not applicable)\n", len(p.shapes), len(p.cases), p.na)
		return
	}
	if len(os.Args) > 1 && os.Args[1] == "probe" { // probe <shape> <engine> <cause> <moment>: one case in-process (debugging)
		m, _ := strconv.Atoi(os.Args[5])
		c := caseSpec{Shape: os.Args[2], Engine: os.Args[3], Cause: os.Args[4], Moment: m}
		if len(os.Args) > 6 {
			c.Conc = os.Args[6]
		}
		if c.Shape == "F-one-function-two-modes" { // probe F-one-function-two-modes <engine> <history>
			c.Hist = os.Args[4]
			c.Cause, c.Moment = histCaseFields(c.Hist)
		}
		sh := p.byID[c.Shape]
		if sh == nil {
			fw.Fatalf("unknown shape %q", c.Shape)
		}
		t0 := time.Now()
		fmt.Println(c, "=>", runCase(0, c, sh), time.Since(t0))
		return
	}

	run := fw.Start("C07", "exploration")
	outcomes := fw.NewCounter()
	samples := fw.NewSampler(16)

	// ------------------------------------------------------------ structural pass
	tS := time.Now()
	structUnchecked := map[string]bool{} // shape -> the interpreter's lowered code has an unchecked bounded-stack cycle
	var sNodes, sEdges, sChecks, sProgs int64
	for i := range p.shapes {
		sh := &p.shapes[i]
		if sh.Family == "grammar" {
			continue // analysed by structuralGrammar below
		}
		res, err := analyseShape(sh)
		if err != nil {
			fw.Fatalf("structural %s: %v", sh.ID, err)
		}
		sProgs++
		sNodes += int64(res.Nodes)
		sEdges += int64(res.Edges)
		sChecks += int64(res.Checks)
		if !res.AnyCycle {
			fw.Fatalf("structural %s: no cycle at all is reachable from the entry - the shape does not loop", sh.ID)
		}
		if len(res.Sigs) == 0 {
			outcomes.Inc("structural:every-bounded-stack-cycle-has-a-check")
		}
		for k, sig := range res.Sigs {
			structUnchecked[sh.ID] = true
			outcomes.Inc("structural:unchecked-cycle")
			run.Violation(sig, fmt.Sprintf("%s (%s): interpreter lowered code has a reachable cycle with %s", sh.ID, sh.Desc, res.Unchecked[k]),
				map[string]any{"mode": "structural", "shape": sh.ID})
		}
	}
	structWall := time.Since(tS).Seconds()
	gram := structuralGrammar(run, outcomes)

	// ------------------------------------------------------------ dynamic pass
	var evals, running, armedCases, earlyDeadline, hangs, oneIter int64
	hangOnInterp := map[string]bool{}
	phaseWall := map[string]float64{}
	// directory caches of the shared-cache dimension live under one temp root, removed before the run ends
	tmpRoot, err := os.MkdirTemp("", "verif-c07-")
	if err != nil {
		fw.Fatalf("%v", err)
	}
	var mu sync.Mutex
	var dump *os.File // VERIF_C07_DUMP=<file>: one line per case (debugging aid, not evidence)
	if f := os.Getenv("VERIF_C07_DUMP"); f != "" {
		dump, _ = os.Create(f)
		defer dump.Close()
	}
	onResult := func(idxs []int) func(i int, res string, crash *fw.Crash) {
		return func(i int, res string, crash *fw.Crash) {
			mu.Lock()
			defer mu.Unlock()
			c := p.cases[idxs[i]]
			sh := p.byID[c.Shape]
			evals++
			if dump != nil {
				if crash != nil {
					fmt.Fprintf(dump, "%s\t%s\n", c, crash.Kind)
				} else {
					fmt.Fprintf(dump, "%s\t%s\n", c, res)
				}
			}
			if c.Moment >= 0 {
				running++
			}
			rp := map[string]any{"mode": "dynamic", "case": c}
			if crash != nil {
				kind, t, self := markers(crash.Stderr, i)
				inPlace := kind == "ARMED" || (kind == "CALLING" && c.Moment < 0)
				observed := 0.0
				switch {
				case crash.Kind == "crash" && self >= 0 && inPlace:
					observed = self - t
				case crash.Kind == "timeout" && inPlace && caseTimeout.Seconds()-t >= hangAfter.Seconds():
					observed = caseTimeout.Seconds() - t // wedged runtime: the supervisor's fallback watchdog fired
				case crash.Kind == "timeout":
					fw.Fatalf("case %s timed out before the cause was in place (last marker %q t=%.3f): inconclusive\n%s", c, kind, t, crash.Stderr)
				}
				if observed > 0 {
					hangs++
					if kind == "ARMED" {
						armedCases++
					}
					if c.Engine == "interpreter" {
						hangOnInterp[sh.ID] = true
					}
					outcomes.Inc("hang")
					hsig := fmt.Sprintf("hang:%s-cycle:%s:%s", sh.Class, c.Engine, sh.Cycle)
					if c.Conc != "" {
						hsig += ":" + c.Conc
					}
					if c.Env != "" {
						hsig += ":shared-cache:" + c.Env
					}
					if c.Hist != "" {
						hsig += ":history[" + c.Hist + "]"
					}
					run.Violation(hsig,
						fmt.Sprintf("%s: the call did not return within %.0f s after the cause was in place and the module observed closed (%s at t=%.3fs); guest: %s",
							c, observed, kind, t, sh.Desc), rp)
					samples.Add(map[string]any{"case": c.String(), "result": "hang"})
					return
				}
				outcomes.Inc("crash")
				run.Violation(fmt.Sprintf("crash:%s:%s-cycle:%s", c.Engine, sh.Class, c.Cause),
					fmt.Sprintf("%s: the process died: %s", c, fw.FirstLines(crash.Stderr, 4)), rp)
				return
			}
			out, info, _ := strings.Cut(res, "|")
			if out == "harness" {
				fw.Fatalf("case %s: %s", c, info)
			}
			if strings.Contains(info, "armed=true") {
				armedCases++
			}
			if strings.Contains(info, "early-deadline") {
				earlyDeadline++
			}
			samples.Add(map[string]any{"case": c.String(), "result": out, "info": info})
			if strings.HasPrefix(out, "bad:") {
				outcomes.Inc(out)
				sig := fmt.Sprintf("%s:%s:%s:%s:%s-cycle", strings.TrimPrefix(out, "bad:"), c.Engine, c.Cause, momentKind(c.Moment), sh.Class)
				if c.Conc != "" {
					sig += ":concurrent:" + c.Conc
				}
				if c.Env != "" {
					sig += ":shared-cache:" + c.Env
				}
				if c.Hist != "" {
					sig = fmt.Sprintf("%s:%s:history[%s]", strings.TrimPrefix(out, "bad:"), c.Engine, c.Hist)
				}
				run.Violation(sig,
					fmt.Sprintf("%s: %s (%s); guest: %s", c, out, info, sh.Desc), rp)
				return
			}
			if out == "ok-exit-within-one-iteration" {
				oneIter++
				out = "ok-exit"
			}
			outcomes.Inc(out)
		}
	}
	for _, round := range phaseRounds {
		if run.Violations() >= violationLimit {
			run.Capped(fmt.Sprintf("stopped feeding cases after %d violations", violationLimit))
			break
		}
		var wg sync.WaitGroup
		for _, ph := range round {
			idxs := p.phases[ph]
			if len(idxs) == 0 {
				continue
			}
			wg.Add(1)
			go func(ph string, idxs []int) {
				defer wg.Done()
				t0 := time.Now()
				done := fw.Supervise(fw.SupOpts{
					N: len(idxs), Workers: p.workers[ph], CaseTimeout: caseTimeout, UlimitVKB: 8 << 20, Mode: ph,
					Env:  []string{"GOMAXPROCS=4", "C07_TMP=" + tmpRoot},
					Stop: func() bool { return run.Expired() || run.Violations() >= violationLimit },
				}, onResult(idxs))
				mu.Lock()
				phaseWall[ph] = float64(int(time.Since(t0).Seconds()*10)) / 10
				mu.Unlock()
				if done < len(idxs) {
					if run.Violations() >= violationLimit {
						run.Capped(fmt.Sprintf("stopped feeding cases after %d violations", violationLimit))
					} else {
						run.Capped("budget")
					}
				}
			}(ph, idxs)
		}
		wg.Wait()
	}

	// structural <-> dynamic agreement on the interpreter (informational cross-check of the graph model)
	agree, disagree := 0, []string{}
	for _, sh := range p.shapes {
		if sh.Family == "grammar" {
			continue
		}
		if structUnchecked[sh.ID] == hangOnInterp[sh.ID] {
			agree++
		} else {
			disagree = append(disagree, fmt.Sprintf("%s structural-unchecked=%v interpreter-hang=%v", sh.ID, structUnchecked[sh.ID], hangOnInterp[sh.ID]))
		}
	}
	sort.Strings(disagree)
	for _, d := range disagree {
		run.Note("structural/dynamic disagreement: %s", d)
	}

	fam := map[string]int{}
	for _, sh := range p.shapes {
		fam[sh.Family]++
	}
	bounds := map[string]any{
		"shapes": len(p.shapes), "shapes_per_family": fam, "engines": engines, "causes": baseCauses, "context_causes_extended": ctxCauses, "context_cause_cases": p.ctxExt, "moments": []string{"before-call", "after-iteration-1", "after-iteration-3"},
		"product_cases": len(p.cases) - p.prewarm - p.ctxExt, "prewarmed_cache_cases": p.prewarm, "not_applicable": p.na, "grammar_programs_run_dynamically": p.grammar,
		"ticks_per_guest": nTicks, "hang_watchdog_s": hangAfter.Seconds(), "supervisor_fallback_watchdog_s": caseTimeout.Seconds(), "phase_wall_s": phaseWall,
		"shared_cache_scenarios": len(envScenarios()), "shared_cache_cases": 2 * len(envScenarios()) * len(envCauses), "concurrency_scenarios": concScenarios, "concurrency_causes": concCauses,
		"phase_cases": map[string]int{"hist": len(p.phases["hist"]), "conc": len(p.phases["conc"]), "tail": len(p.phases["tail"]), "deep": len(p.phases["deep"]), "main": len(p.phases["main"])},
	}
	extra := map[string]any{
		"structural_programs": sProgs, "structural_nodes": sNodes, "structural_edges": sEdges, "structural_check_nodes": sChecks,
		"structural_wall_s":               float64(int(structWall*100)) / 100,
		"structural_vs_interpreter_agree": agree, "structural_vs_interpreter_disagree": len(disagree),
		"dynamic_cases": evals, "hangs": hangs, "exits_within_one_iteration_of_the_flag": oneIter,
		// The only two numbers that depend on wall-clock: a timer driven cause (1 s ahead) can pass before the chosen
		// tick when the machine is so loaded that start-up plus four iterations take longer; the case is judged all the
		// same and lands in the same outcome class. 0 early arrivals on an idle machine.
		"timing_dependent": map[string]any{"cause_fired_at_the_chosen_tick_and_close_observed": armedCases, "deadline_passed_before_the_chosen_tick": earlyDeadline},
	}
	extra["structural_grammar"] = gram
	sProgs += gram.Programs
	os.RemoveAll(tmpRoot)
	run.Finish(fw.Coverage{
		Evaluations: evals + sProgs, DistinctNontriv: running,
		Rule:    "one evaluation = one (shape, engine, cause, moment) case executed on the real runtime in a child process, or one program analysed structurally; non-trivial = executed dynamic cases in which the cause arrives while the guest is inside its cycle (moment after iteration 1 or 3; counted as results come back from the children; how many of them fired exactly at the chosen tick with the close observed is reported separately); all cases are distinct by construction",
		Samples: samples.List(), Exhaustive: true, Outcomes: outcomes.Map(), Bounds: bounds, Extra: extra,
	}, []string{
		"call histories: after the context of a call that has already ended (trap, host panic, stack exhaustion, normal return) is cancelled or expires, the module is polled for 300 ms and must stay open - a 'nothing happens' oracle with a finite settle horizon (a stale watcher goroutine acts within microseconds)",
		"a hang verdict needs >= 21 s without return after the cause was in place and IsClosed() observed (a conforming engine needs one iteration); it is raised by the child's own timer, or by the supervisor's 60 s fallback if the runtime is wedged",
		"the 'deadline' cause uses a real context.WithDeadline 1 s ahead; the chosen tick blocks until the watcher closed the module, so the arrival iteration is exact unless the first 4 iterations take longer than 1 s (then the case is still judged, noted early-deadline)",
		"stack exhaustion is accepted instead of an exit error only for shapes whose cycle contains a call or tail-call edge (documented fallbacks turn tail calls into calls)",
		"structural pass trusts the accessor copy of the interpreter's operation list and over-approximates call_indirect targets by the active element segments; the compiler has no structural pass (dynamic only)",
		"guests are by-construction valid modules from the grammar in shapes.go; the space outside it (cycles through memory-dependent conditions, threads, host re-entrancy rings) is not covered",
	})
}

// dieWithParent: children may spin forever in guest code; if the supervisor dies (harness error, kill)
// the kernel kills them too (PR_SET_PDEATHSIG), so no orphan keeps burning a CPU.
func dieWithParent() {
	const prSetPdeathsig = 1
	syscall.RawSyscall(syscall.SYS_PRCTL, prSetPdeathsig, uintptr(syscall.SIGKILL), 0)
	if os.Getppid() == 1 { // the supervisor was already gone before the request took effect
		os.Exit(0)
	}
}

func analyseShape(sh *shape) (sResult, error) {
	prog, err := lowerProgram(sh.Mods)
	if err != nil {
		return sResult{}, err
	}
	entry, err := entryOf(prog, sh)
	if err != nil {
		return sResult{}, err
	}
	res := analyse(prog, entry)
	if sh.Reenter != "" { // the host callback is a second root
		e2, err := entryOf(prog, &shape{Entry: sh.Reenter})
		if err != nil {
			return sResult{}, err
		}
		r2 := analyse(prog, e2)
		res.Nodes += r2.Nodes
		res.Edges += r2.Edges
		res.Checks += r2.Checks
		res.AnyCycle = res.AnyCycle || r2.AnyCycle
		res.Sigs = append(res.Sigs, r2.Sigs...)
		res.Unchecked = append(res.Unchecked, r2.Unchecked...)
	}
	return res, nil
}

// replay re-executes the case stored in a violation file, in this process, with an in-process watchdog.
func replay(file string) {
	b, err := os.ReadFile(file)
	if err != nil {
		fw.Fatalf("%v", err)
	}
	var v struct {
		Signature string `json:"signature"`
		Replay    struct {
			Mode    string   `json:"mode"`
			Shape   string   `json:"shape"`
			Case    caseSpec `json:"case"`
			Program []string `json:"program"`
		} `json:"replay"`
	}
	if err := json.Unmarshal(b, &v); err != nil {
		fw.Fatalf("%s: %v", file, err)
	}
	p := makePlan(true)
	switch v.Replay.Mode {
	case "structural":
		sh := p.byID[v.Replay.Shape]
		if sh == nil {
			fw.Fatalf("unknown shape %q", v.Replay.Shape)
		}
		res, err := analyseShape(sh)
		if err != nil {
			fw.Fatalf("%v", err)
		}
		fmt.Printf("%s: %s\n  nodes=%d edges=%d checks=%d\n", sh.ID, sh.Desc, res.Nodes, res.Edges, res.Checks)
		for k := range res.Sigs {
			fmt.Printf("  %s: %s\n", res.Sigs[k], res.Unchecked[k])
		}
		if len(res.Sigs) > 0 {
			os.Exit(1)
		}
		fmt.Println("  no unchecked bounded-stack cycle")
	case "grammar":
		gp := grammarProgramFromWords(v.Replay.Program)
		res, err := analyseShape(gp)
		if err != nil {
			fw.Fatalf("%v", err)
		}
		fmt.Printf("%s\n  nodes=%d edges=%d checks=%d\n", gp.Desc, res.Nodes, res.Edges, res.Checks)
		for k := range res.Sigs {
			fmt.Printf("  %s: %s\n", res.Sigs[k], res.Unchecked[k])
		}
		if len(res.Sigs) > 0 {
			os.Exit(1)
		}
		fmt.Println("  no unchecked bounded-stack cycle")
	case "dynamic":
		c := v.Replay.Case
		sh := p.byID[c.Shape]
		if sh == nil {
			fw.Fatalf("unknown shape %q", c.Shape)
		}
		fmt.Printf("replaying %s\n  guest: %s\n", c, sh.Desc)
		replaying = true
		done := make(chan string, 1)
		go func() { done <- runCase(0, c, sh) }()
		select {
		case r := <-done:
			fmt.Println("  result:", r)
			if strings.HasPrefix(r, "bad:") {
				os.Exit(1)
			}
		case <-time.After(hangAfter + 5*time.Second):
			fmt.Printf("  the call has not returned after %.0f s: HANG\n", (hangAfter + 5*time.Second).Seconds())
			os.Exit(1)
		}
	default:
		fw.Fatalf("%s: unknown replay mode %q", file, v.Replay.Mode)
	}
}
