package main

// Structural pass: explicit-state reachability on the interpreter's lowered code.
//
// Every module of a program is decoded, validated and lowered by the real interpreter compiler with
// ensureTermination=true; the stored operation lists are read through the build-tag-verif accessor
// interpreter.VerifLoweredOps. Nodes are (module, function, pc). Edges:
//
//	branch     Br / BrIf / BrTable targets, fall-through            (stack unchanged)
//	tail       TailCallReturnCall[Indirect] -> (callee, 0)          (frame replaced: stack unchanged)
//	descend    Call / CallIndirect -> (callee, 0)                   (stack grows by one frame)
//	resume     Call / CallIndirect -> pc+1 if some callee can return; the edge is "check-free" only if
//	           some callee can return without passing a check
//
// A run that never ends must either repeat a node with a bounded stack - a cycle made of branch, tail
// and resume edges - or grow the stack without bound, which the call-stack ceiling ends. The property
// therefore holds structurally iff no cycle of branch/tail/resume edges that avoids every
// BuiltinFunctionCheckExitCode node is reachable from the entry.

import (
	"context"
	"fmt"
	"sort"
	"strings"

	"github.com/tetratelabs/wazero/api"
	"github.com/tetratelabs/wazero/experimental"
	"github.com/tetratelabs/wazero/internal/engine/interpreter"
	"github.com/tetratelabs/wazero/internal/leb128"
	"github.com/tetratelabs/wazero/internal/wasm"
	binaryformat "github.com/tetratelabs/wazero/internal/wasm/binary"
)

type sMod struct {
	name  string
	m     *wasm.Module
	funcs map[uint32][]interpreter.VerifOp // function index -> lowered body (defined functions only)
}

type fref struct {
	mod  int // -1 = host function (returns, contains no check)
	fidx uint32
}

type sProg struct {
	mods []*sMod
}

type sNode struct {
	f  fref
	pc int
}

func kindOf(k string) string { return strings.TrimPrefix(k, "operationKind") }

func lowerProgram(mods []modSpec) (*sProg, error) {
	ctx := context.Background()
	features := api.CoreFeaturesV2 | experimental.CoreFeaturesTailCall
	eng := interpreter.NewEngine(ctx, features, nil)
	p := &sProg{}
	for _, ms := range mods {
		m, err := binaryformat.DecodeModule(ms.Bin, features, wasm.MemoryLimitPages, false, false, false)
		if err != nil {
			return nil, fmt.Errorf("decode %s: %w", ms.Name, err)
		}
		if err = m.Validate(features); err != nil {
			return nil, fmt.Errorf("validate %s: %w", ms.Name, err)
		}
		m.AssignModuleID(ms.Bin, nil, true)
		if err = eng.CompileModule(ctx, m, nil, true); err != nil {
			return nil, fmt.Errorf("lower %s: %w", ms.Name, err)
		}
		vf, ok := interpreter.VerifLoweredOps(eng, m)
		if !ok {
			return nil, fmt.Errorf("accessor: no compiled functions for %s", ms.Name)
		}
		sm := &sMod{name: ms.Name, m: m, funcs: map[uint32][]interpreter.VerifOp{}}
		for _, f := range vf {
			if !f.Host {
				sm.funcs[f.Index] = f.Ops
			}
		}
		p.mods = append(p.mods, sm)
	}
	return p, nil
}

func (p *sProg) modByName(n string) int {
	for i, m := range p.mods {
		if m.name == n {
			return i
		}
	}
	return -1
}

// resolveFunc follows function imports to the defining instance.
func (p *sProg) resolveFunc(mod int, fidx uint32) fref {
	for hop := 0; hop < 8; hop++ {
		m := p.mods[mod].m
		if fidx >= m.ImportFunctionCount {
			return fref{mod, fidx}
		}
		var imp *wasm.Import
		for i := range m.ImportSection {
			im := &m.ImportSection[i]
			if im.Type == wasm.ExternTypeFunc && im.IndexPerType == fidx {
				imp = im
			}
		}
		tm := p.modByName(imp.Module)
		if tm < 0 {
			return fref{-1, 0} // host module
		}
		found := false
		for i := range p.mods[tm].m.ExportSection {
			ex := &p.mods[tm].m.ExportSection[i]
			if ex.Type == wasm.ExternTypeFunc && ex.Name == imp.Name {
				mod, fidx, found = tm, ex.Index, true
			}
		}
		if !found {
			panic("c07 structural: unresolved import " + imp.Module + "." + imp.Name)
		}
	}
	panic("c07 structural: import chain too long")
}

// resolveTable maps a table index of a module to the defining (module, local table number).
func (p *sProg) resolveTable(mod int, tidx uint32) [2]int {
	m := p.mods[mod].m
	if tidx >= m.ImportTableCount {
		return [2]int{mod, int(tidx)}
	}
	for i := range m.ImportSection {
		im := &m.ImportSection[i]
		if im.Type == wasm.ExternTypeTable && im.IndexPerType == tidx {
			tm := p.modByName(im.Module)
			for j := range p.mods[tm].m.ExportSection {
				ex := &p.mods[tm].m.ExportSection[j]
				if ex.Type == wasm.ExternTypeTable && ex.Name == im.Name {
					return p.resolveTable(tm, ex.Index)
				}
			}
		}
	}
	panic("c07 structural: unresolved table import")
}

func typeKey(t *wasm.FunctionType) string { return string(t.Params) + "->" + string(t.Results) }

func (p *sProg) funcType(f fref) *wasm.FunctionType {
	m := p.mods[f.mod].m
	return &m.TypeSection[m.FunctionSection[f.fidx-m.ImportFunctionCount]]
}

// tableTargets: the functions a call_indirect through the table can reach with the expected
// signature. The tables of the enumerated programs are filled by active element segments with
// constant offsets and never modified, so when the index operand is a constant (slot >= 0) the
// target is exact; otherwise every entry of the table is a candidate (over-approximation).
func (p *sProg) tableTargets(mod int, tidx uint32, typeIdx uint32, slot int64) []fref {
	canon := p.resolveTable(mod, tidx)
	want := typeKey(&p.mods[mod].m.TypeSection[typeIdx])
	var out []fref
	for mi, sm := range p.mods {
		for i := range sm.m.ElementSection {
			es := &sm.m.ElementSection[i]
			if es.Mode != wasm.ElementModeActive || p.resolveTable(mi, es.TableIndex) != canon {
				continue
			}
			off := int64(-1)
			if es.OffsetExpr.Opcode == wasm.OpcodeI32Const {
				if v, _, err := leb128.LoadInt32(es.OffsetExpr.Data); err == nil {
					off = int64(uint32(v))
				}
			}
			for k, fi := range es.Init {
				if fi == wasm.ElementInitNullReference || fi >= wasm.MaximumFunctionIndex {
					continue
				}
				if slot >= 0 && off >= 0 && off+int64(k) != slot {
					continue
				}
				t := p.resolveFunc(mi, fi)
				if t.mod >= 0 && typeKey(p.funcType(t)) == want {
					out = append(out, t)
				}
			}
		}
	}
	return out
}

// constSlot: the table index operand if the operation before pc pushes an i32 constant.
func constSlot(ops []interpreter.VerifOp, pc int) int64 {
	pc--
	for pc >= 0 && kindOf(ops[pc].Kind) == "BuiltinFunctionCheckExitCode" { // a check does not touch the stack
		pc--
	}
	if pc >= 0 && kindOf(ops[pc].Kind) == "ConstI32" {
		return int64(uint32(ops[pc].U1))
	}
	return -1
}

type sEdge struct {
	to      sNode
	kind    string // "branch" | "tail" | "descend" | "resume"
	ret     bool   // the edge leaves the function (return)
	checked bool   // resume edge whose callees all pass a check before returning
}

type sGraph struct {
	p          *sProg
	mayRet     map[fref]bool // the function can return to its caller
	mayRetFree map[fref]bool // ... without passing a check
}

func (g *sGraph) body(f fref) []interpreter.VerifOp { return g.p.mods[f.mod].funcs[f.fidx] }

// succ lists the successors of a node. resume edges are included only when allowed by mayRetFree.
func (g *sGraph) succ(n sNode) (out []sEdge) {
	ops := g.body(n.f)
	if n.pc >= len(ops) {
		return []sEdge{{ret: true}}
	}
	op := &ops[n.pc]
	jump := func(t uint64) {
		if t == interpreter.VerifReturnTarget || t >= uint64(len(ops)) {
			out = append(out, sEdge{ret: true, kind: "branch"})
		} else {
			out = append(out, sEdge{to: sNode{n.f, int(t)}, kind: "branch"})
		}
	}
	call := func(targets []fref, resumeAt uint64) {
		resume, free := false, false
		for _, t := range targets {
			if t.mod < 0 {
				resume, free = true, true
				continue
			}
			out = append(out, sEdge{to: sNode{t, 0}, kind: "descend"})
			if g.mayRet[t] {
				resume = true
			}
			if g.mayRetFree[t] {
				free = true
			}
		}
		if resume {
			if resumeAt == interpreter.VerifReturnTarget || resumeAt >= uint64(len(ops)) {
				out = append(out, sEdge{ret: true, kind: "resume", checked: !free})
			} else {
				out = append(out, sEdge{to: sNode{n.f, int(resumeAt)}, kind: "resume", checked: !free})
			}
		}
	}
	switch kindOf(op.Kind) {
	case "Unreachable":
	case "Br":
		jump(op.U1)
	case "BrIf":
		jump(op.U1)
		jump(op.U2)
	case "BrTable":
		for j := 0; j+1 < len(op.Us); j += 2 {
			jump(op.Us[j])
		}
	case "Call":
		call([]fref{g.p.resolveFunc(n.f.mod, uint32(op.U1))}, uint64(n.pc+1))
	case "CallIndirect":
		call(g.p.tableTargets(n.f.mod, uint32(op.U2), uint32(op.U1), constSlot(ops, n.pc)), uint64(n.pc+1))
	case "TailCallReturnCall":
		out = append(out, sEdge{to: sNode{g.p.resolveFunc(n.f.mod, uint32(op.U1)), 0}, kind: "tail"})
	case "TailCallReturnCallIndirect":
		var other []fref
		for _, t := range g.p.tableTargets(n.f.mod, uint32(op.U2), uint32(op.U1), constSlot(ops, n.pc)) {
			if t.mod == n.f.mod {
				out = append(out, sEdge{to: sNode{t, 0}, kind: "tail"})
			} else {
				other = append(other, t) // the interpreter reverts to a plain call followed by a return
			}
		}
		if len(other) > 0 {
			call(other, op.Us[1])
		}
	default:
		out = append(out, sEdge{to: sNode{n.f, n.pc + 1}, kind: "branch"})
	}
	return
}

func (g *sGraph) isCheck(n sNode) bool {
	ops := g.body(n.f)
	return n.pc < len(ops) && kindOf(ops[n.pc].Kind) == "BuiltinFunctionCheckExitCode"
}

// computeReturns: least fixpoints of "can return to the caller" (mayRet) and "can return to the
// caller on a path without a check" (mayRetFree).
func (g *sGraph) computeReturns(all []fref) {
	g.mayRet = map[fref]bool{}
	g.mayRetFree = map[fref]bool{}
	for _, free := range []bool{false, true} {
		set := g.mayRet
		if free {
			set = g.mayRetFree
		}
		for changed := true; changed; {
			changed = false
			for _, f := range all {
				if set[f] {
					continue
				}
				seen := map[int]bool{}
				stack := []int{0}
				found := false
				for len(stack) > 0 && !found {
					pc := stack[len(stack)-1]
					stack = stack[:len(stack)-1]
					if seen[pc] {
						continue
					}
					seen[pc] = true
					n := sNode{f, pc}
					if free && g.isCheck(n) {
						continue
					}
					for _, e := range g.succ(n) {
						switch {
						case e.kind == "descend":
						case free && e.checked:
						case e.ret:
							found = true
						case e.kind == "tail":
							if set[e.to.f] {
								found = true
							}
						default:
							stack = append(stack, e.to.pc)
						}
					}
				}
				if found {
					set[f] = true
					changed = true
				}
			}
		}
	}
}

type sResult struct {
	Nodes, Edges, Checks int
	AnyCycle             bool     // some cycle (of any edge kinds) is reachable: the program can run forever or exhaust the stack
	Unchecked            []string // one description per strongly connected component of check-free bounded-stack edges
	Sigs                 []string
}

// analyse explores everything reachable from the entry function.
func analyse(p *sProg, entry fref) sResult {
	g := &sGraph{p: p}
	var all []fref
	for mi, sm := range p.mods {
		var idx []int
		for fi := range sm.funcs {
			idx = append(idx, int(fi))
		}
		sort.Ints(idx)
		for _, fi := range idx {
			all = append(all, fref{mi, uint32(fi)})
		}
	}
	g.computeReturns(all)

	// reachability over all edge kinds
	var res sResult
	id := map[sNode]int{}
	var nodes []sNode
	var adjAll, adjBounded [][]int
	var walk func(n sNode) int
	walk = func(n sNode) int {
		if k, ok := id[n]; ok {
			return k
		}
		k := len(nodes)
		id[n] = k
		nodes = append(nodes, n)
		adjAll = append(adjAll, nil)
		adjBounded = append(adjBounded, nil)
		if g.isCheck(n) {
			res.Checks++
		}
		for _, e := range g.succ(n) {
			if e.ret {
				continue
			}
			t := walk(e.to)
			res.Edges++
			adjAll[k] = append(adjAll[k], t)
			if e.kind != "descend" && !e.checked {
				adjBounded[k] = append(adjBounded[k], t)
			}
		}
		return k
	}
	walk(sNode{entry, 0})
	res.Nodes = len(nodes)
	res.AnyCycle = len(sccs(adjAll, nil)) > 0

	skip := make([]bool, len(nodes))
	for i, n := range nodes {
		skip[i] = g.isCheck(n)
	}
	for _, comp := range sccs(adjBounded, skip) {
		in := map[int]bool{}
		for _, k := range comp {
			in[k] = true
		}
		kinds := map[string]bool{}
		backward := map[string]bool{}
		var where []string
		sort.Ints(comp)
		for _, k := range comp {
			n := nodes[k]
			ops := g.body(n.f)
			kd := kindOf(ops[n.pc].Kind)
			switch kd {
			case "Br", "BrIf", "BrTable":
				for _, e := range g.succ(n) {
					if !e.ret && in[id[e.to]] && e.to.f == n.f && e.to.pc <= n.pc {
						backward[kd] = true
					}
				}
			case "TailCallReturnCall", "TailCallReturnCallIndirect":
				kinds[kd] = true
				where = append(where, fmt.Sprintf("%s.func[%d]@%d:%s", p.mods[n.f.mod].name, n.f.fidx, n.pc, kd))
			case "Call", "CallIndirect":
				where = append(where, fmt.Sprintf("%s.func[%d]@%d:%s(resumed)", p.mods[n.f.mod].name, n.f.fidx, n.pc, kd))
			}
		}
		sig := ""
		if len(backward) > 0 {
			sig = "structural:unchecked-backward-branch:" + joinKeys(backward)
		} else {
			sig = "structural:unchecked-tail-call-cycle:" + joinKeys(kinds)
		}
		res.Sigs = append(res.Sigs, sig)
		res.Unchecked = append(res.Unchecked, fmt.Sprintf("%d nodes, no BuiltinFunctionCheckExitCode, stack bounded: %s", len(comp), strings.Join(where, " ")))
	}
	return res
}

func joinKeys(m map[string]bool) string {
	var ks []string
	for k := range m {
		ks = append(ks, k)
	}
	sort.Strings(ks)
	if len(ks) == 0 {
		return "none"
	}
	return strings.Join(ks, "+")
}

// sccs returns the strongly connected components that contain a cycle (size > 1 or a self loop),
// ignoring nodes marked in skip. Iterative Tarjan.
func sccs(adj [][]int, skip []bool) [][]int {
	n := len(adj)
	index := make([]int, n)
	low := make([]int, n)
	on := make([]bool, n)
	for i := range index {
		index[i] = -1
	}
	var st []int
	var out [][]int
	next := 0
	type frame struct{ v, i int }
	for s := 0; s < n; s++ {
		if index[s] >= 0 || (skip != nil && skip[s]) {
			continue
		}
		cs := []frame{{s, 0}}
		index[s], low[s] = next, next
		next++
		st = append(st, s)
		on[s] = true
		for len(cs) > 0 {
			f := &cs[len(cs)-1]
			if f.i < len(adj[f.v]) {
				w := adj[f.v][f.i]
				f.i++
				if skip != nil && skip[w] {
					continue
				}
				if index[w] < 0 {
					index[w], low[w] = next, next
					next++
					st = append(st, w)
					on[w] = true
					cs = append(cs, frame{w, 0})
				} else if on[w] && index[w] < low[f.v] {
					low[f.v] = index[w]
				}
				continue
			}
			v := f.v
			cs = cs[:len(cs)-1]
			if len(cs) > 0 {
				u := cs[len(cs)-1].v
				if low[v] < low[u] {
					low[u] = low[v]
				}
			}
			if low[v] == index[v] {
				var comp []int
				for {
					w := st[len(st)-1]
					st = st[:len(st)-1]
					on[w] = false
					comp = append(comp, w)
					if w == v {
						break
					}
				}
				cyc := len(comp) > 1
				if !cyc {
					for _, w := range adj[v] {
						if w == v {
							cyc = true
						}
					}
				}
				if cyc {
					out = append(out, comp)
				}
			}
		}
	}
	return out
}

// entryOf finds the function the dynamic pass enters for a shape.
func entryOf(p *sProg, sh *shape) (fref, error) {
	last := len(p.mods) - 1
	m := p.mods[last].m
	switch {
	case sh.Start == "section":
		if m.StartSection == nil {
			return fref{}, fmt.Errorf("no start section")
		}
		return p.resolveFunc(last, *m.StartSection), nil
	default:
		name := sh.Entry
		if sh.Start == "_start" {
			name = "_start"
		}
		for i := range m.ExportSection {
			ex := &m.ExportSection[i]
			if ex.Type == wasm.ExternTypeFunc && ex.Name == name {
				return p.resolveFunc(last, ex.Index), nil
			}
		}
		return fref{}, fmt.Errorf("no export %q", name)
	}
}
