package main

import (
	"fmt"

	"github.com/tetratelabs/wazero/verif/wb"
)

// nTicks: every shape calls the host function env.tick(i) at the start of its first nTicks
// iterations (i = 0..nTicks-1, counted in a saturating guest global) and never again, so after the
// last tick the guest runs the pure cycle with no host call.
const nTicks = 4

// Cycle classes (by construction of the grammar, engine independent).
const (
	classLoop      = "loop"      // the cycle passes a wasm `loop` header
	classRecursion = "recursion" // no loop header; at least one plain call / call_indirect edge (stack grows)
	classTail      = "tail"      // no loop header; every edge of the cycle is return_call / return_call_indirect
)

type modSpec struct {
	Name string
	Bin  []byte
}

type shape struct {
	ID     string
	Family string // loop | recursion | tail | cross | host | start
	Class  string
	Cycle  string // the edge kinds that close the cycle
	Mods   []modSpec
	Entry  string // export of the last module to call; "" for start shapes
	Start  string // "" | "section" | "_start"
	// Reenter: the entry function calls the host function env.enter, which calls this export of the
	// calling module with the same context (cycle entered from a host callback).
	Reenter string
	// OverflowOK: the grammar's cycle contains a call-type edge, so "call stack exhausted" is a
	// documented way for the call to end (also for tail calls the engines document falling back
	// to plain calls: imports in the interpreter, stack arguments in the compiler).
	OverflowOK bool
	Tail       bool // uses tail-call opcodes
	// Deep (scheduling hint only): the compiler is expected to run into its 400 MB call-stack ceiling.
	Deep bool
	Desc string
}

// ---------------------------------------------------------------- guest builder

type gb struct {
	m    *wb.Module
	tick uint32
	cnt  uint32
	base uint32 // function index of the first defined function
	t0   uint32 // type index of () -> ()
}

func a() *wb.Asm { return &wb.Asm{} }

// newGuest: imports env.tick first; extra (if any) may add further imports.
func newGuest(extra func(m *wb.Module)) *gb {
	m := &wb.Module{}
	tick := m.ImportFunc("env", "tick", []byte{wb.I32}, nil)
	if extra != nil {
		extra(m)
	}
	x := &gb{m: m, tick: tick}
	x.cnt = m.AddGlobal(wb.I32, true, wb.CI32(0))
	x.base = m.NumImportedFuncs()
	x.t0 = m.Type(nil, nil)
	return x
}

// P appends the iteration prologue: if cnt < nTicks { tick(cnt); cnt++ }.
func (x *gb) P(s *wb.Asm) *wb.Asm {
	return s.GlobalGet(x.cnt).I32Const(nTicks).Op(0x49).If(wb.Void).
		GlobalGet(x.cnt).Call(x.tick).
		GlobalGet(x.cnt).I32Const(1).Op(0x6a).GlobalSet(x.cnt).
		End()
}

func (x *gb) fn(body *wb.Asm) uint32 { return x.m.AddFunc(nil, nil, nil, body.B) }

func (x *gb) table(n uint32, funcs ...uint32) {
	x.m.Tables = []wb.Table{{Elem: wb.FuncRef, Lim: wb.Limits{Min: n}}}
	x.m.Elems = []wb.Elem{{Mode: 0, Offset: wb.CI32(0), Funcs: funcs}}
}

func one(name string, x *gb) []modSpec { return []modSpec{{Name: name, Bin: x.m.Encode()}} }

// ---------------------------------------------------------------- the grammar

// loopBodies: every way to close a cycle through a loop header inside ONE function. Each returns
// the function body; p() emits the prologue at the place where one iteration starts.
type loopForm struct {
	id, cycle, desc string
	build           func(x *gb) *wb.Asm
}

func loopForms() []loopForm {
	return []loopForm{
		{"br", "loop/br", "loop { P; br 0 }", func(x *gb) *wb.Asm {
			return x.P(a().Loop(wb.Void)).Br(0).End()
		}},
		{"br_if", "loop/br_if", "loop { P; br_if 0 (1) }", func(x *gb) *wb.Asm {
			return x.P(a().Loop(wb.Void)).I32Const(1).BrIf(0).End()
		}},
		{"br_table-listed", "loop/br_table-listed", "block { loop { P; br_table [loop] default=exit (0) } }", func(x *gb) *wb.Asm {
			return x.P(a().Block(wb.Void).Loop(wb.Void)).I32Const(0).BrTable([]uint32{0}, 1).End().End()
		}},
		{"br_table-default", "loop/br_table-default", "block { loop { P; br_table [exit] default=loop (9) } }", func(x *gb) *wb.Asm {
			return x.P(a().Block(wb.Void).Loop(wb.Void)).I32Const(9).BrTable([]uint32{1}, 0).End().End()
		}},
		{"br_table-second", "loop/br_table-listed", "block { loop { P; br_table [exit loop exit] default=exit (1) } }", func(x *gb) *wb.Asm {
			return x.P(a().Block(wb.Void).Loop(wb.Void)).I32Const(1).BrTable([]uint32{1, 0, 1}, 1).End().End()
		}},
		{"br-from-block", "loop/br-depth1-from-block", "loop { block { P; br 1 } }", func(x *gb) *wb.Asm {
			return x.P(a().Loop(wb.Void).Block(wb.Void)).Br(1).End().End()
		}},
		{"br-from-if-else", "loop/br-depth1-from-if-else", "loop { P; if (1) { br 1 } else { br 1 } }", func(x *gb) *wb.Asm {
			return x.P(a().Loop(wb.Void)).I32Const(1).If(wb.Void).Br(1).Else().Br(1).End().End()
		}},
		{"br_if-exit-then-br", "loop/br", "block { loop { P; br_if exit (0); br loop } }", func(x *gb) *wb.Asm {
			return x.P(a().Block(wb.Void).Loop(wb.Void)).I32Const(0).BrIf(1).Br(0).End().End()
		}},
		{"nested-inner", "loop/nested-inner-back-edge", "loop { loop { P; br 0 } }", func(x *gb) *wb.Asm {
			return x.P(a().Loop(wb.Void).Loop(wb.Void)).Br(0).End().End()
		}},
		{"nested-outer", "loop/nested-outer-back-edge", "loop { loop { P; br 1 } }", func(x *gb) *wb.Asm {
			return x.P(a().Loop(wb.Void).Loop(wb.Void)).Br(1).End().End()
		}},
		{"nested-alternating", "loop/nested-both-back-edges", "loop $o { loop $i { P; alt^=1; br_if $i (alt); br $o } }", func(x *gb) *wb.Asm {
			alt := x.m.AddGlobal(wb.I32, true, wb.CI32(0))
			return x.P(a().Loop(wb.Void).Loop(wb.Void)).
				GlobalGet(alt).I32Const(1).Op(0x73).GlobalSet(alt).
				GlobalGet(alt).BrIf(0).Br(1).End().End()
		}},
		{"param", "loop/br-with-loop-parameter", "i32.const 5; loop (param i32) { drop; P; i32.const 5; br 0 }", func(x *gb) *wb.Asm {
			t := x.m.Type([]byte{wb.I32}, nil)
			return x.P(a().I32Const(5).LoopT(t).Drop()).I32Const(5).Br(0).End()
		}},
		{"result-br_if", "loop/br_if-with-loop-result", "loop (result i32) { P; br_if 0 (1); i32.const 0 }; drop", func(x *gb) *wb.Asm {
			return x.P(a().Loop(wb.I32)).I32Const(1).BrIf(0).I32Const(0).End().Drop()
		}},
	}
}

func buildShapes() []shape {
	var out []shape
	add := func(s shape) {
		for _, o := range out {
			if o.ID == s.ID {
				panic("duplicate shape id " + s.ID)
			}
		}
		out = append(out, s)
	}

	// ---- family loop: one function, every loop form
	for i, lf := range loopForms() {
		x := newGuest(nil)
		x.m.ExportFunc("run", x.fn(lf.build(x)))
		add(shape{ID: fmt.Sprintf("L%02d-%s", i+1, lf.id), Family: "loop", Class: classLoop, Cycle: lf.cycle, Mods: one("a", x), Entry: "run", Desc: lf.desc})
	}
	{ // loop whose body is only a call
		x := newGuest(nil)
		step := x.fn(x.P(a()))
		x.m.ExportFunc("run", x.fn(a().Loop(wb.Void).Call(step).Br(0).End()))
		add(shape{ID: "L14-call-body", Family: "loop", Class: classLoop, Cycle: "loop/body-is-only-a-call", Mods: one("a", x), Entry: "run", Desc: "loop { call step; br 0 }  step = { P }"})
	}
	{ // loop whose body is only a call_indirect
		x := newGuest(nil)
		step := x.fn(x.P(a()))
		x.table(1, step)
		x.m.ExportFunc("run", x.fn(a().Loop(wb.Void).I32Const(0).CallIndirect(x.t0, 0).Br(0).End()))
		add(shape{ID: "L15-call_indirect-body", Family: "loop", Class: classLoop, Cycle: "loop/body-is-only-a-call_indirect", Mods: one("a", x), Entry: "run", Desc: "loop { call_indirect table[0]=step; br 0 }"})
	}
	{ // loop in a callee frame
		x := newGuest(nil)
		spin := x.fn(x.P(a().Loop(wb.Void)).Br(0).End())
		x.m.ExportFunc("run", x.fn(a().Call(spin)))
		add(shape{ID: "L16-loop-in-callee", Family: "loop", Class: classLoop, Cycle: "loop/br-in-callee-frame", Mods: one("a", x), Entry: "run", Desc: "run { call spin }  spin = loop { P; br 0 }"})
	}

	// ---- family recursion
	{
		x := newGuest(nil)
		f := x.base
		x.m.ExportFunc("run", x.fn(x.P(a()).Call(f)))
		add(shape{ID: "R01-direct", Family: "recursion", Class: classRecursion, Cycle: "call-self", Mods: one("a", x), Entry: "run", OverflowOK: true, Desc: "f { P; call f }"})
	}
	for _, k := range []uint32{2, 3} {
		x := newGuest(nil)
		for i := uint32(0); i < k; i++ {
			x.fn(x.P(a()).Call(x.base + (i+1)%k))
		}
		x.m.ExportFunc("run", x.base)
		add(shape{ID: fmt.Sprintf("R%02d-mutual-%d", k, k), Family: "recursion", Class: classRecursion, Cycle: fmt.Sprintf("call-ring-of-%d", k), Mods: one("a", x), Entry: "run", OverflowOK: true, Desc: fmt.Sprintf("f_i { P; call f_(i+1 mod %d) }", k)})
	}
	{
		x := newGuest(nil)
		f := x.fn(x.P(a()).I32Const(0).CallIndirect(x.t0, 0))
		x.table(1, f)
		x.m.ExportFunc("run", f)
		add(shape{ID: "R04-call_indirect-self", Family: "recursion", Class: classRecursion, Cycle: "call_indirect-self", Mods: one("a", x), Entry: "run", OverflowOK: true, Desc: "f { P; call_indirect table[0]=f }"})
	}
	{
		x := newGuest(nil)
		f := x.fn(x.P(a()).I32Const(1).CallIndirect(x.t0, 0))
		g := x.fn(x.P(a()).I32Const(0).CallIndirect(x.t0, 0))
		x.table(2, f, g)
		x.m.ExportFunc("run", f)
		add(shape{ID: "R05-call_indirect-pair", Family: "recursion", Class: classRecursion, Cycle: "call_indirect-ring-of-2", Mods: one("a", x), Entry: "run", OverflowOK: true, Desc: "f { P; call_indirect table[1]=g }  g { P; call_indirect table[0]=f }"})
	}
	{
		x := newGuest(nil)
		f := x.fn(x.P(a()).Call(x.base + 1))
		x.fn(x.P(a()).I32Const(0).CallIndirect(x.t0, 0))
		x.table(1, f)
		x.m.ExportFunc("run", f)
		add(shape{ID: "R06-call+call_indirect", Family: "recursion", Class: classRecursion, Cycle: "call+call_indirect-ring", Mods: one("a", x), Entry: "run", OverflowOK: true, Desc: "f { P; call g }  g { P; call_indirect table[0]=f }"})
	}
	{
		x := newGuest(nil)
		f := x.base
		x.m.ExportFunc("run", x.fn(x.P(a().Loop(wb.Void)).Call(f).Br(0).End()))
		add(shape{ID: "R07-recursion-inside-loop", Family: "recursion", Class: classLoop, Cycle: "call-self-from-loop-body", Mods: one("a", x), Entry: "run", OverflowOK: true, Desc: "f { loop { P; call f; br 0 } }"})
	}
	{
		x := newGuest(nil)
		f := x.base
		x.m.AddFunc([]byte{wb.I32}, []byte{wb.I32}, nil, x.P(a()).LocalGet(0).Call(f).B)
		x.m.ExportFunc("run", f)
		add(shape{ID: "R08-direct-with-value", Family: "recursion", Class: classRecursion, Cycle: "call-self", Mods: one("a", x), Entry: "run", OverflowOK: true, Desc: "f(i32)->i32 { P; local.get 0; call f }"})
	}

	// ---- family tail (tail-call proposal)
	for _, k := range []uint32{1, 2, 3} {
		x := newGuest(nil)
		for i := uint32(0); i < k; i++ {
			x.fn(x.P(a()).ReturnCall(x.base + (i+1)%k))
		}
		x.m.ExportFunc("run", x.base)
		cyc := "return_call-self"
		if k > 1 {
			cyc = fmt.Sprintf("return_call-ring-of-%d", k)
		}
		add(shape{ID: fmt.Sprintf("T%02d-return_call-%d", k, k), Family: "tail", Class: classTail, Cycle: cyc, Mods: one("a", x), Entry: "run", OverflowOK: true, Tail: true, Desc: fmt.Sprintf("f_i { P; return_call f_(i+1 mod %d) }", k)})
	}
	{
		x := newGuest(nil)
		f := x.fn(x.P(a()).I32Const(0).ReturnCallIndirect(x.t0, 0))
		x.table(1, f)
		x.m.ExportFunc("run", f)
		add(shape{ID: "T04-return_call_indirect-self", Family: "tail", Class: classTail, Cycle: "return_call_indirect-self", Mods: one("a", x), Entry: "run", OverflowOK: true, Tail: true, Desc: "f { P; return_call_indirect table[0]=f }"})
	}
	{
		x := newGuest(nil)
		f := x.fn(x.P(a()).I32Const(1).ReturnCallIndirect(x.t0, 0))
		g := x.fn(x.P(a()).I32Const(0).ReturnCallIndirect(x.t0, 0))
		x.table(2, f, g)
		x.m.ExportFunc("run", f)
		add(shape{ID: "T05-return_call_indirect-pair", Family: "tail", Class: classTail, Cycle: "return_call_indirect-ring-of-2", Mods: one("a", x), Entry: "run", OverflowOK: true, Tail: true, Desc: "f { P; return_call_indirect table[1]=g }  g { P; return_call_indirect table[0]=f }"})
	}
	{
		x := newGuest(nil)
		f := x.fn(x.P(a()).ReturnCall(x.base + 1))
		x.fn(x.P(a()).I32Const(0).ReturnCallIndirect(x.t0, 0))
		x.table(1, f)
		x.m.ExportFunc("run", f)
		add(shape{ID: "T06-return_call+return_call_indirect", Family: "tail", Class: classTail, Cycle: "return_call+return_call_indirect-ring", Mods: one("a", x), Entry: "run", OverflowOK: true, Tail: true, Desc: "f { P; return_call g }  g { P; return_call_indirect table[0]=f }"})
	}
	{ // many parameters: the compiler documents falling back to a plain call when arguments go on the stack
		x := newGuest(nil)
		f := x.base
		ps := make([]byte, 12)
		s := x.P(a())
		for i := range ps {
			ps[i] = wb.I64
			s.LocalGet(uint32(i))
		}
		x.m.AddFunc(ps, nil, nil, s.ReturnCall(f).B)
		x.m.ExportFunc("run", f)
		add(shape{ID: "T07-return_call-self-12-params", Family: "tail", Class: classTail, Cycle: "return_call-self-with-stack-arguments", Mods: one("a", x), Entry: "run", OverflowOK: true, Tail: true, Desc: "f(i64 x12) { P; local.get 0..11; return_call f }"})
	}
	{ // one plain call edge in the ring: the stack grows by one frame per round
		x := newGuest(nil)
		f := x.fn(x.P(a()).Call(x.base + 1))
		x.fn(a().ReturnCall(f))
		x.m.ExportFunc("run", f)
		add(shape{ID: "T08-call+return_call", Family: "tail", Class: classRecursion, Cycle: "call+return_call-ring", Mods: one("a", x), Entry: "run", OverflowOK: true, Tail: true, Desc: "f { P; call g }  g { return_call f }"})
	}
	{ // tail call issued from inside a loop body: every round passes a loop header
		x := newGuest(nil)
		f := x.base
		x.m.ExportFunc("run", x.fn(x.P(a().Loop(wb.Void)).ReturnCall(f).End()))
		add(shape{ID: "T09-return_call-from-loop-body", Family: "tail", Class: classLoop, Cycle: "return_call-self-through-loop-header", Mods: one("a", x), Entry: "run", OverflowOK: true, Tail: true, Desc: "f { loop { P; return_call f } }"})
	}
	{
		x := newGuest(nil)
		f := x.base
		x.m.AddFunc([]byte{wb.I32}, []byte{wb.I32}, nil, x.P(a()).LocalGet(0).ReturnCall(f).B)
		x.m.ExportFunc("run", f)
		add(shape{ID: "T10-return_call-self-with-value", Family: "tail", Class: classTail, Cycle: "return_call-self", Mods: one("a", x), Entry: "run", OverflowOK: true, Tail: true, Desc: "f(i32)->i32 { P; local.get 0; return_call f }"})
	}
	{
		x := newGuest(nil)
		f := x.base
		x.m.ExportFunc("run", x.fn(x.P(a()).I32Const(1).If(wb.Void).ReturnCall(f).End()))
		add(shape{ID: "T11-return_call-in-if-arm", Family: "tail", Class: classTail, Cycle: "return_call-self", Mods: one("a", x), Entry: "run", OverflowOK: true, Tail: true, Desc: "f { P; if (1) { return_call f } }"})
	}

	// ---- family cross: the cycle runs through a function of another instance
	funcImp := func(mod, name string) func(m *wb.Module) {
		return func(m *wb.Module) { m.ImportFunc(mod, name, nil, nil) }
	}
	{
		b := newGuest(nil)
		b.m.ExportFunc("step", b.fn(b.P(a())))
		x := newGuest(funcImp("b", "step"))
		x.m.ExportFunc("run", x.fn(a().Loop(wb.Void).Call(1).Br(0).End()))
		add(shape{ID: "X01-loop-calls-import", Family: "cross", Class: classLoop, Cycle: "loop/body-is-only-a-call-to-another-instance", Mods: []modSpec{{"b", b.m.Encode()}, {"a", x.m.Encode()}}, Entry: "run", Desc: "a.run { loop { call b.step; br 0 } }  b.step { P }"})
	}
	{
		b := newGuest(nil)
		b.m.ExportFunc("spin", b.fn(b.P(a().Loop(wb.Void)).Br(0).End()))
		x := newGuest(funcImp("b", "spin"))
		x.m.ExportFunc("run", x.fn(a().Call(1)))
		add(shape{ID: "X02-import-loops", Family: "cross", Class: classLoop, Cycle: "loop/br-in-imported-function", Mods: []modSpec{{"b", b.m.Encode()}, {"a", x.m.Encode()}}, Entry: "run", Desc: "a.run { call b.spin }  b.spin = loop { P; br 0 }"})
	}
	{
		b := newGuest(nil)
		spin := b.fn(b.P(a().Loop(wb.Void)).Br(0).End())
		b.m.ExportFunc("enter", b.fn(a().Call(spin)))
		x := newGuest(funcImp("b", "enter"))
		x.m.ExportFunc("run", x.fn(a().Call(1)))
		add(shape{ID: "X03-import-calls-local-loop", Family: "cross", Class: classLoop, Cycle: "loop/br-two-frames-inside-another-instance", Mods: []modSpec{{"b", b.m.Encode()}, {"a", x.m.Encode()}}, Entry: "run", Desc: "a.run { call b.enter }  b.enter { call b.spin }  b.spin = loop { P; br 0 }"})
	}
	tabImp := func(m *wb.Module) {
		m.ImportFunc("b", "g", nil, nil)
		m.Imports = append(m.Imports, wb.Import{Module: "b", Name: "tab", Kind: wb.KindTable, Table: wb.Table{Elem: wb.FuncRef, Lim: wb.Limits{Min: 1}}})
	}
	{
		b := newGuest(nil)
		b.m.Tables = []wb.Table{{Elem: wb.FuncRef, Lim: wb.Limits{Min: 1}}}
		b.m.Exports = append(b.m.Exports, wb.Export{Name: "tab", Kind: wb.KindTable, Idx: 0})
		b.m.ExportFunc("g", b.fn(b.P(a()).I32Const(0).CallIndirect(b.t0, 0)))
		x := newGuest(tabImp)
		f := x.fn(x.P(a()).Call(1))
		x.m.Elems = []wb.Elem{{Mode: 0, Offset: wb.CI32(0), Funcs: []uint32{f}}}
		x.m.ExportFunc("run", f)
		add(shape{ID: "X04-recursion-across-instances", Family: "cross", Class: classRecursion, Cycle: "call-import+call_indirect-shared-table", Mods: []modSpec{{"b", b.m.Encode()}, {"a", x.m.Encode()}}, Entry: "run", OverflowOK: true, Desc: "a.f { P; call b.g }  b.g { P; call_indirect tab[0]=a.f }"})
	}
	{
		b := newGuest(nil)
		b.m.Tables = []wb.Table{{Elem: wb.FuncRef, Lim: wb.Limits{Min: 1}}}
		b.m.Exports = append(b.m.Exports, wb.Export{Name: "tab", Kind: wb.KindTable, Idx: 0})
		b.m.ExportFunc("g", b.fn(b.P(a()).I32Const(0).ReturnCallIndirect(b.t0, 0)))
		x := newGuest(tabImp)
		f := x.fn(x.P(a()).ReturnCall(1))
		x.m.Elems = []wb.Elem{{Mode: 0, Offset: wb.CI32(0), Funcs: []uint32{f}}}
		x.m.ExportFunc("run", f)
		add(shape{ID: "X05-tail-cycle-across-instances", Family: "cross", Class: classTail, Cycle: "return_call-import+return_call_indirect-shared-table", Mods: []modSpec{{"b", b.m.Encode()}, {"a", x.m.Encode()}}, Entry: "run", OverflowOK: true, Tail: true, Desc: "a.f { P; return_call b.g }  b.g { P; return_call_indirect tab[0]=a.f }"})
	}
	{
		b := newGuest(nil)
		b.m.ExportFunc("spin", b.fn(b.P(a().Loop(wb.Void)).Br(0).End()))
		x := newGuest(funcImp("b", "spin"))
		x.m.ExportFunc("run", x.fn(a().ReturnCall(1)))
		add(shape{ID: "X06-return_call-to-import-that-loops", Family: "cross", Class: classLoop, Cycle: "loop/br-in-tail-called-import", Mods: []modSpec{{"b", b.m.Encode()}, {"a", x.m.Encode()}}, Entry: "run", Tail: true, Desc: "a.run { return_call b.spin }  b.spin = loop { P; br 0 }"})
	}

	// ---- family host: the cycle is entered from a host callback
	enterImp := func(m *wb.Module) { m.ImportFunc("env", "enter", nil, nil) }
	{
		x := newGuest(enterImp)
		x.m.ExportFunc("spin", x.fn(x.P(a().Loop(wb.Void)).Br(0).End()))
		x.m.ExportFunc("run", x.fn(a().Call(1)))
		add(shape{ID: "H01-host-enters-loop", Family: "host", Class: classLoop, Cycle: "loop/br-entered-from-host-callback", Mods: one("a", x), Entry: "run", Reenter: "spin", Desc: "run { call env.enter }  host enter: spin.Call(ctx)  spin = loop { P; br 0 }"})
	}
	{
		x := newGuest(enterImp)
		f := x.base
		x.m.ExportFunc("spin", x.fn(x.P(a()).Call(f)))
		x.m.ExportFunc("run", x.fn(a().Call(1)))
		add(shape{ID: "H02-host-enters-recursion", Family: "host", Class: classRecursion, Cycle: "call-self-entered-from-host-callback", Mods: one("a", x), Entry: "run", Reenter: "spin", OverflowOK: true, Desc: "run { call env.enter }  host enter: spin.Call(ctx)  spin { P; call spin }"})
	}
	{
		x := newGuest(enterImp)
		f := x.base
		x.m.ExportFunc("spin", x.fn(x.P(a()).ReturnCall(f)))
		x.m.ExportFunc("run", x.fn(a().Call(1)))
		add(shape{ID: "H03-host-enters-tail-cycle", Family: "host", Class: classTail, Cycle: "return_call-self-entered-from-host-callback", Mods: one("a", x), Entry: "run", Reenter: "spin", OverflowOK: true, Tail: true, Desc: "run { call env.enter }  host enter: spin.Call(ctx)  spin { P; return_call spin }"})
	}

	// ---- family start: the cycle runs during instantiation
	{
		x := newGuest(nil)
		f := x.fn(x.P(a().Loop(wb.Void)).Br(0).End())
		x.m.Start = &f
		add(shape{ID: "S01-start-section-loop", Family: "start", Class: classLoop, Cycle: "loop/br-in-start-function", Mods: one("a", x), Start: "section", Desc: "(start f)  f = loop { P; br 0 }"})
	}
	{
		x := newGuest(nil)
		f := x.base
		x.fn(x.P(a()).Call(f))
		x.m.Start = &f
		add(shape{ID: "S02-start-section-recursion", Family: "start", Class: classRecursion, Cycle: "call-self-in-start-function", Mods: one("a", x), Start: "section", OverflowOK: true, Desc: "(start f)  f { P; call f }"})
	}
	{
		x := newGuest(nil)
		f := x.base
		x.fn(x.P(a()).ReturnCall(f))
		x.m.Start = &f
		add(shape{ID: "S03-start-section-tail-cycle", Family: "start", Class: classTail, Cycle: "return_call-self-in-start-function", Mods: one("a", x), Start: "section", OverflowOK: true, Tail: true, Desc: "(start f)  f { P; return_call f }"})
	}
	{
		x := newGuest(nil)
		x.m.ExportFunc("_start", x.fn(x.P(a().Loop(wb.Void)).I32Const(1).BrIf(0).End()))
		add(shape{ID: "S04-_start-export-loop", Family: "start", Class: classLoop, Cycle: "loop/br_if-in-_start", Mods: one("a", x), Start: "_start", Desc: "(export \"_start\")  loop { P; br_if 0 (1) }"})
	}
	{
		x := newGuest(nil)
		spin := x.fn(x.P(a().Loop(wb.Void)).Br(0).End())
		f := x.fn(a().Call(spin))
		x.m.Start = &f
		add(shape{ID: "S05-start-section-calls-loop", Family: "start", Class: classLoop, Cycle: "loop/br-in-callee-of-start-function", Mods: one("a", x), Start: "section", Desc: "(start f)  f { call spin }  spin = loop { P; br 0 }"})
	}
	for i := range out {
		s := &out[i]
		if s.Class == classRecursion || s.ID == "T07-return_call-self-12-params" {
			s.Deep = true
		}
	}
	return out
}
