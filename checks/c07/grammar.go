package main

// Function-graph grammar: ALL programs of k <= 3 functions f0..f(k-1), entry f0,
// where every function is  { P; <closer> }  and closer is one word of
//
//	ret | loop-br | call:j | icall:j | rcall:j | ricall:j | loop-call:j | loop-rcall:j      (j < k)
//
// (icall/ricall go through table[j] = fj). The canonical shapes of shapes.go are the hand-named
// members; this enumerates every combination, including the ones nobody would write down.
// Every program is lowered by the real interpreter compiler and analysed structurally; programs
// that can run forever are additionally classified by an abstract execution of the grammar words
// (independent of the lowering) so that the two views can be compared.

import (
	"fmt"
	"strconv"
	"strings"
	"time"

	"github.com/tetratelabs/wazero/verif/fw"
	"github.com/tetratelabs/wazero/verif/wb"
)

type grammarStats struct {
	Programs         int64            `json:"programs"`
	ByBehaviour      map[string]int64 `json:"by_abstract_behaviour"`
	Unchecked        int64            `json:"programs_with_unchecked_cycle"`
	UncheckedNotTail int64            `json:"unchecked_cycle_outside_the_tail_class"`
	ModelAgreements  int64            `json:"abstract_model_agrees_with_lowered_graph"`
	WallS            float64          `json:"wall_s"`
}

func closerWords(k int) []string {
	ws := []string{"ret", "loop-br"}
	for _, op := range []string{"call", "icall", "rcall", "ricall", "loop-call", "loop-rcall"} {
		for j := 0; j < k; j++ {
			ws = append(ws, op+":"+strconv.Itoa(j))
		}
	}
	return ws
}

func splitWord(w string) (op string, j uint32) {
	op, arg, ok := strings.Cut(w, ":")
	if ok {
		v, _ := strconv.Atoi(arg)
		j = uint32(v)
	}
	return
}

func grammarProgramFromWords(words []string) *shape {
	x := newGuest(nil)
	k := uint32(len(words))
	var fs []uint32
	for i := uint32(0); i < k; i++ {
		fs = append(fs, x.base+i)
	}
	tail := false
	for _, w := range words {
		op, j := splitWord(w)
		s := x.P(a())
		switch op {
		case "ret":
		case "loop-br":
			s = x.P(s.Loop(wb.Void)).Br(0).End()
		case "call":
			s.Call(fs[j])
		case "icall":
			s.I32Const(int32(j)).CallIndirect(x.t0, 0)
		case "rcall":
			s.ReturnCall(fs[j])
			tail = true
		case "ricall":
			s.I32Const(int32(j)).ReturnCallIndirect(x.t0, 0)
			tail = true
		case "loop-call":
			s.Loop(wb.Void).Call(fs[j]).Br(0).End()
		case "loop-rcall":
			s.Loop(wb.Void).ReturnCall(fs[j]).End()
			tail = true
		default:
			panic("c07 grammar: word " + w)
		}
		x.fn(s)
	}
	x.table(k, fs...)
	x.m.ExportFunc("run", fs[0])
	return &shape{ID: "G:" + strings.Join(words, ","), Family: "grammar", Mods: one("a", x), Entry: "run", Tail: tail, OverflowOK: true,
		Desc: "f_i { P; " + strings.Join(words, " | ") + " }"}
}

// abstractBehaviour executes the grammar words symbolically (they have no conditions, so the run is
// deterministic): "terminates", "loop" (runs forever through a loop header), "recursion" (the stack
// grows without bound) or "tail" (runs forever with a bounded stack and never passes a loop header).
func abstractBehaviour(words []string) string {
	type frame struct {
		f      int
		inLoop bool // resumes inside loop-call: the next step re-enters the loop header
	}
	var stack []frame
	cur := 0
	const steps = 400
	depthAt := make([]int, 0, steps)
	header := make([]bool, 0, steps)
	for n := 0; n < steps; n++ {
		op, j := splitWord(words[cur])
		depthAt = append(depthAt, len(stack))
		hdr := false
		switch op {
		case "ret":
			// unwind; a caller that was in loop-call passes its header again and calls again
			for {
				if len(stack) == 0 {
					return "terminates"
				}
				top := stack[len(stack)-1]
				stack = stack[:len(stack)-1]
				if top.inLoop {
					hdr = true
					_, jj := splitWord(words[top.f])
					stack = append(stack, frame{top.f, true})
					cur = int(jj)
					break
				}
				// plain call / icall: the caller returns as well
			}
		case "loop-br":
			return "loop"
		case "call", "icall":
			stack = append(stack, frame{cur, false})
			cur = int(j)
		case "rcall", "ricall":
			cur = int(j)
		case "loop-call":
			hdr = true
			stack = append(stack, frame{cur, true})
			cur = int(j)
		case "loop-rcall":
			hdr = true
			cur = int(j)
		}
		header = append(header, hdr)
	}
	// classify the tail of the trace
	half := steps / 2
	if depthAt[steps-1] > depthAt[half]+10 {
		return "recursion"
	}
	for n := half; n < len(header); n++ {
		if header[n] {
			return "loop"
		}
	}
	return "tail"
}

func structuralGrammar(run *fw.Run, outcomes *fw.Counter) *grammarStats {
	st := &grammarStats{ByBehaviour: map[string]int64{}}
	t0 := nowSeconds()
	for k := 1; k <= 3; k++ {
		ws := closerWords(k)
		idx := make([]int, k)
		for {
			words := make([]string, k)
			for i := range idx {
				words[i] = ws[idx[i]]
			}
			sh := grammarProgramFromWords(words)
			res, err := analyseShape(sh)
			if err != nil {
				fw.Fatalf("grammar %v: %v", words, err)
			}
			st.Programs++
			beh := abstractBehaviour(words)
			st.ByBehaviour[beh]++
			// the two views must agree: the lowered graph has a reachable cycle iff the abstract run does not
			// terminate, and (on a conforming tree) never an unchecked one.
			if res.AnyCycle == (beh != "terminates") {
				st.ModelAgreements++
			} else {
				fw.Fatalf("grammar %v: abstract behaviour %q but the lowered graph says reachable-cycle=%v (graph model wrong)", words, beh, res.AnyCycle)
			}
			if len(res.Sigs) > 0 {
				st.Unchecked++
				outcomes.Inc("structural-grammar:unchecked-cycle")
				if beh != "tail" {
					st.UncheckedNotTail++ // e.g. a loop header without a check: reported below under its own signature
				}
				for i, sig := range res.Sigs {
					run.Violation(sig, fmt.Sprintf("grammar program %s: interpreter lowered code has a reachable cycle with %s", sh.Desc, res.Unchecked[i]),
						map[string]any{"mode": "grammar", "program": words})
				}
			} else {
				outcomes.Inc("structural-grammar:ok")
			}
			// next tuple
			i := k - 1
			for ; i >= 0; i-- {
				idx[i]++
				if idx[i] < len(ws) {
					break
				}
				idx[i] = 0
			}
			if i < 0 {
				break
			}
		}
	}
	st.WallS = nowSeconds() - t0
	return st
}

func nowSeconds() float64 { return float64(time.Now().UnixNano()) / 1e9 }

// grammarDynamicShapes: the non-terminating programs with at most kmax functions, as shapes for the
// dynamic pass. Class and overflow acceptance come from the abstract execution of the words.
func grammarDynamicShapes(kmax int) []shape {
	var out []shape
	for k := 1; k <= kmax; k++ {
		ws := closerWords(k)
		idx := make([]int, k)
		for {
			words := make([]string, k)
			for i := range idx {
				words[i] = ws[idx[i]]
			}
			if beh := abstractBehaviour(words); beh != "terminates" {
				sh := grammarProgramFromWords(words)
				sh.Class = beh
				sh.Cycle = "grammar:" + strings.Join(words, ",")
				sh.OverflowOK = beh != classLoop
				sh.Deep = beh == classRecursion
				out = append(out, *sh)
			}
			i := k - 1
			for ; i >= 0; i-- {
				idx[i]++
				if idx[i] < len(ws) {
					break
				}
				idx[i] = 0
			}
			if i < 0 {
				break
			}
		}
	}
	return out
}
