package main

// Concurrency dimension: several calls into ONE module instance are in flight when the context
// becomes done ("every in-flight call returns"). The order of events is owned by the harness through
// the tick host function, which parks each goroutine inside the host until released:
//
//	short-first     call 1 = short (tick, return) starts and parks; call 2 = cycle starts and parks at its
//	                first tick; call 1 is released and RETURNS NORMALLY; the cycle goes on; the cause fires at
//	                its chosen tick
//	cycle-first     the cycle starts and parks at its first tick; short runs to completion; the cycle goes on
//	two-cycles      cycle A and cycle B (own counters) are both in flight; A fires the cause at its chosen tick
//	                while B is parked in the host; B returns into the guest afterwards: both calls must end
//	nested          the entry function calls the host function env.nest once, which calls short on the same
//	                context (re-entrant, returns normally), then enters the cycle
//
// Context arrangement: "same" = all calls share one context; "withvalue" / "withcancel" = each call gets its
// own context derived from one parent (WithValue children share the parent's Done channel, WithCancel
// children have their own); the cause is applied to the parent.

import (
	"context"
	"errors"
	"fmt"
	"strings"
	"sync"
	"time"

	"github.com/tetratelabs/wazero"
	"github.com/tetratelabs/wazero/api"
	"github.com/tetratelabs/wazero/sys"
	"github.com/tetratelabs/wazero/verif/wb"
)

var (
	concScenarios = []string{
		"short-first/same", "cycle-first/same", "two-cycles/same", "nested/same",
		"short-first/withvalue", "cycle-first/withvalue", "short-first/withcancel", "cycle-first/withcancel",
	}
	concCauses  = []string{"cancel", "deadline", "cancel-cause-custom"}
	concMoments = []int{1, 3}
)

const (
	tickShort = 5000 // tick id of the short function
	tickBaseB = 1000 // tick ids of cycle B are tickBaseB + iteration
)

type concForm struct {
	id, class, desc string
	// build adds the functions of one cycle to the module and returns the index of its entry function
	build func(m *wb.Module, P func(*wb.Asm) *wb.Asm, t0 uint32) uint32
}

func concForms() []concForm {
	return []concForm{
		{"loop-br", classLoop, "loop { P; br 0 }", func(m *wb.Module, P func(*wb.Asm) *wb.Asm, _ uint32) uint32 {
			return m.AddFunc(nil, nil, nil, P(a().Loop(wb.Void)).Br(0).End().B)
		}},
		{"loop-br_if", classLoop, "loop { P; br_if 0 (1) }", func(m *wb.Module, P func(*wb.Asm) *wb.Asm, _ uint32) uint32 {
			return m.AddFunc(nil, nil, nil, P(a().Loop(wb.Void)).I32Const(1).BrIf(0).End().B)
		}},
		{"loop-call-body", classLoop, "loop { call step; br 0 }  step = { P }", func(m *wb.Module, P func(*wb.Asm) *wb.Asm, _ uint32) uint32 {
			step := m.AddFunc(nil, nil, nil, P(a()).B)
			return m.AddFunc(nil, nil, nil, a().Loop(wb.Void).Call(step).Br(0).End().B)
		}},
		{"loop-in-callee", classLoop, "f { call spin }  spin = loop { P; br 0 }", func(m *wb.Module, P func(*wb.Asm) *wb.Asm, _ uint32) uint32 {
			spin := m.AddFunc(nil, nil, nil, P(a().Loop(wb.Void)).Br(0).End().B)
			return m.AddFunc(nil, nil, nil, a().Call(spin).B)
		}},
		{"return_call-self", classTail, "f { P; return_call f }", func(m *wb.Module, P func(*wb.Asm) *wb.Asm, _ uint32) uint32 {
			f := m.NumImportedFuncs() + uint32(len(m.Funcs))
			return m.AddFunc(nil, nil, nil, P(a()).ReturnCall(f).B)
		}},
	}
}

// concShapes: one module per cycle form exporting short, cycA, cycB and nested.
func concShapes() []shape {
	var out []shape
	for _, f := range concForms() {
		m := &wb.Module{}
		tick := m.ImportFunc("env", "tick", []byte{wb.I32}, nil)
		nest := m.ImportFunc("env", "nest", nil, nil)
		t0 := m.Type(nil, nil)
		mkP := func(base int32) func(*wb.Asm) *wb.Asm {
			cnt := m.AddGlobal(wb.I32, true, wb.CI32(0))
			return func(s *wb.Asm) *wb.Asm {
				return s.GlobalGet(cnt).I32Const(nTicks).Op(0x49).If(wb.Void).
					GlobalGet(cnt).I32Const(base).Op(0x6a).Call(tick).
					GlobalGet(cnt).I32Const(1).Op(0x6a).GlobalSet(cnt).
					End()
			}
		}
		m.ExportFunc("short", m.AddFunc(nil, nil, nil, a().I32Const(tickShort).Call(tick).B))
		cycA := f.build(m, mkP(0), t0)
		m.ExportFunc("cycA", cycA)
		m.ExportFunc("cycB", f.build(m, mkP(tickBaseB), t0))
		m.ExportFunc("nested", m.AddFunc(nil, nil, nil, a().Call(nest).Call(cycA).B))
		out = append(out, shape{ID: "C-" + f.id, Family: "conc", Class: f.class, Cycle: "concurrent/" + f.id,
			Mods: []modSpec{{Name: "a", Bin: m.Encode()}}, Entry: "cycA", OverflowOK: f.class != classLoop, Tail: f.class == classTail,
			Desc: "short { tick }  cycA, cycB = " + f.desc + "  nested { call env.nest (host: short.Call(ctx)); call cycA }"})
	}
	return out
}

type concRun struct {
	*caseRun
	shortIn, aIn, bIn       chan struct{}
	releaseShort, releaseA  chan struct{}
	armedCh, failCh         chan struct{}
	onceShort, onceA, onceB sync.Once
}

func (r *concRun) tick(ctx context.Context, mod api.Module, stack []uint64) {
	id := int(uint32(stack[0]))
	switch {
	case id == tickShort:
		r.onceShort.Do(func() { close(r.shortIn) })
		<-r.releaseShort
	case id >= tickBaseB: // cycle B parks in the host until the cause is in place
		if id == tickBaseB {
			r.onceB.Do(func() { close(r.bIn) })
			select {
			case <-r.armedCh:
			case <-r.failCh:
				panic(errNeverClosed)
			}
		}
	default: // cycle A
		r.ticks = append(r.ticks, uint32(id))
		if id == 0 {
			r.onceA.Do(func() { close(r.aIn) })
			<-r.releaseA
		}
		if r.fired || id != r.spec.Moment {
			return
		}
		r.fired = true
		r.fire(true)
		lim := time.Now().Add(closeWait)
		for n := 0; !r.target.IsClosed(); n++ {
			if time.Now().After(lim) {
				close(r.failCh)
				panic(errNeverClosed)
			}
			if n < 200 {
				time.Sleep(20 * time.Microsecond)
			} else {
				time.Sleep(time.Millisecond)
			}
		}
		r.arm("ARMED")
		close(r.armedCh)
	}
}

func runConcCase(idx int, spec caseSpec, sh *shape) string {
	bg := context.Background()
	r := &concRun{caseRun: &caseRun{spec: spec, sh: sh, idx: idx, t0: time.Now()},
		shortIn: make(chan struct{}), aIn: make(chan struct{}), bIn: make(chan struct{}),
		releaseShort: make(chan struct{}), releaseA: make(chan struct{}), armedCh: make(chan struct{}), failCh: make(chan struct{})}
	order, arrangement, _ := strings.Cut(spec.Conc, "/")
	rt := wazero.NewRuntimeWithConfig(bg, runtimeConfig(spec.Engine).WithCloseOnContextDone(true))
	defer rt.Close(bg)
	hb := rt.NewHostModuleBuilder("env")
	hb.NewFunctionBuilder().WithGoModuleFunction(api.GoModuleFunc(r.tick), []api.ValueType{api.ValueTypeI32}, nil).Export("tick")
	hb.NewFunctionBuilder().WithGoModuleFunction(api.GoModuleFunc(func(ctx context.Context, mod api.Module, _ []uint64) {
		// re-entrant nested call on the same context; it returns normally before the cause fires
		if _, err := mod.ExportedFunction("short").Call(ctx); err != nil {
			panic(err)
		}
	}), nil, nil).Export("nest")
	if _, err := hb.Instantiate(bg); err != nil {
		return "harness|env: " + err.Error()
	}
	cm, err := rt.CompileModule(bg, sh.Mods[0].Bin)
	if err != nil {
		return fmt.Sprintf("harness|compile %s: %v", sh.ID, err)
	}
	mod, err := rt.InstantiateModule(bg, cm, wazero.NewModuleConfig().WithName("a"))
	if err != nil {
		return fmt.Sprintf("harness|instantiate %s: %v", sh.ID, err)
	}
	r.target = mod

	parent := r.mkCtx(false)
	ctxShort, ctxA, ctxB := parent, parent, parent
	var release []context.CancelFunc
	switch arrangement {
	case "withvalue":
		ctxShort, ctxA = context.WithValue(parent, ctxKey{}, "short"), context.WithValue(parent, ctxKey{}, "cycle")
	case "withcancel":
		var c1, c2 context.CancelFunc
		ctxShort, c1 = context.WithCancel(parent)
		ctxA, c2 = context.WithCancel(parent)
		release = append(release, c1, c2)
	}
	type res struct {
		who string
		err error
	}
	results := make(chan res, 3)
	call := func(who, export string, ctx context.Context) {
		_, err := mod.ExportedFunction(export).Call(ctx) // a fresh api.Function per call, as documented for concurrent use
		results <- res{who, err}
	}
	marker("CALLING i=%d t=%.3f", idx, time.Since(r.t0).Seconds())
	expect := 1
	var shortErr error
	switch order {
	case "short-first":
		go call("short", "short", ctxShort)
		<-r.shortIn
		go call("A", "cycA", ctxA)
		<-r.aIn
		close(r.releaseShort)
		x := <-results // only short can finish here: the cycle is parked in the host
		if x.who != "short" {
			return fmt.Sprintf("harness|%s finished while parked", x.who)
		}
		shortErr = x.err
		close(r.releaseA)
	case "cycle-first":
		close(r.releaseShort)
		go call("A", "cycA", ctxA)
		<-r.aIn
		_, shortErr = mod.ExportedFunction("short").Call(ctxShort)
		close(r.releaseA)
	case "two-cycles":
		close(r.releaseShort)
		go call("A", "cycA", ctxA)
		<-r.aIn
		go call("B", "cycB", ctxB)
		<-r.bIn
		close(r.releaseA)
		expect = 2
	case "nested":
		close(r.releaseShort)
		close(r.releaseA)
		go call("A", "nested", ctxA)
	default:
		return "harness|scenario " + spec.Conc
	}
	errs := map[string]error{}
	for i := 0; i < expect; i++ {
		x := <-results
		errs[x.who] = x.err
	}
	r.disarm()
	r.cancel()
	for _, c := range release {
		c()
	}
	if shortErr != nil {
		return fmt.Sprintf("bad:short-call-failed|the call that returns before the cause fired ended with %v", shortErr)
	}
	out := r.judge(mod, errs["A"])
	if expect == 2 && len(out) > 3 && out[:3] == "ok-" {
		var ee *sys.ExitError
		switch eb := errs["B"]; {
		case errors.Is(eb, errNeverClosed):
			return "bad:cause-did-not-close-module|second call"
		case errors.As(eb, &ee) && ee.ExitCode() == expectedCode(spec.Cause):
		default:
			return fmt.Sprintf("bad:second-in-flight-call-wrong-result|cycle B ended with %v, want exit code %d", eb, expectedCode(spec.Cause))
		}
	}
	return out
}
