// C06 — traps, exits and host panics are contained and leave the runtime usable.
//
// Explicit-state exploration by replay: every word over an alphabet of (nesting shape x failure
// kind) letters, up to a length bound, is executed on a fresh 3-instance world (A imports the host
// module H, wasi proc_exit and a function of guest B; B is plain) on both engines, REUSING the same
// api.Function objects for the whole word. After every step the returned error class, the result
// value and the observable state of both instances must equal a reference model (model.go); the
// traces of the two engines must be equal; the process must survive (words run in supervised
// child processes).
//
// Further sections (see NOTES.md): context variants, atomic sections, named starts, module X, raise styles,
// host-call environments, and linked families (an owner of a memory / table / global and two importers, any of
// which ends while the others go on) in the default world and in a world whose linear memories come from a
// tracking experimental.MemoryAllocator (Free / Reallocate attributed to the defining instance).
package main

import (
	"context"
	"encoding/json"
	"fmt"
	"os"
	"os/exec"
	"runtime"
	"runtime/debug"
	"sort"
	"strconv"
	"strings"
	"time"

	"github.com/tetratelabs/wazero/verif/fw"
)

var engines = []string{"compiler", "interpreter"}

const maxRecPerWord = 2

// ---------------------------------------------------------------- alphabet

// The full alphabet (every shape x kind that exists) is split into four disjoint classes:
//
//	K  core letters without recursion: a succeeding probe on each of the six reused function objects, a
//	   succeeding deep call, and one failure of each family
//	r0 the core recursion letter directA/rec0
//	N  all other letters without recursion
//	R  all other recursion letters
//
// A section of the word space is a tuple of classes (one per position) = the product of those classes,
// so different tuples are disjoint sets of words and every count is exact.
const (
	clK = iota
	clR0
	clN
	clR
	// classes of the context variant (runtime WithCloseOnContextDone(true), see ctxModes)
	clVn // variant letters without recursion
	clVr // variant recursion letters
	clVp // probes that follow a recursion
	// atomic classes: T = atomic out-of-bounds trap kinds in every shape, O = okatomic in every shape
	clT
	clO
	// named-start classes: S = named start letters, F = follow-ups (lookup, closeN, probes on A and B)
	clS
	clF
	// X = module X letters (4 memory shapes x 36 call sequences), P = probes on A and B
	clX
	clP
	// W = host levels that raise the nested failure in another form (without recursion), Wr = the same with rec0
	clW
	clWr
	// E = every letter without recursion / atomics that exists (K, N, W, X, S), Er = recursion through a direct and a
	// host-nested call: the alphabet of the host-call environments (envModes)
	clE
	clEr
	// L = linked-family letters (2 families x 3 instances x 8 kinds)
	clL
	nClasses
	nBaseClasses = clVn
)

var className = [nClasses]string{"K", "r0", "N", "R", "Vn", "Vr", "Vp", "T", "O", "S", "F", "X", "P", "W", "Wr", "E", "Er", "L"}

// Context variants: every step of a word is called with its own cancellable context ("cancel") or its own
// context with a generous deadline ("deadline"), which the harness cancels after the step has returned; or
// all steps share one context that is cancelled after the last step ("shared"). A context that ends
// after its call has returned must have no effect.
var ctxModes = []string{"cancel", "deadline", "shared"}

var (
	fullAlphabet []letter
	classes      [nClasses][]letter
)

func init() {
	for s := 0; s < nBaseShapes; s++ {
		nk := NKinds
		if shapes[s].target == 'B' {
			nk = NBKinds
		}
		for k := 0; k < nk; k++ {
			fullAlphabet = append(fullAlphabet, letter{s, k})
		}
	}
	classes[clK] = []letter{
		{ShDirectA, KOk}, {ShIndirectA, KOk}, {ShViaB, KOk}, {ShHost1P, KOk}, {ShDirectB, KOk}, {ShIndirectB, KOk},
		{ShDirectA, KDeepOk},
		{ShDirectA, KUnreachable}, {ShDirectB, KOOBStore}, {ShDirectA, KPanicError}, {ShDirectA, KProcExit3}, {ShDirectA, KClose7},
	}
	classes[clR0] = []letter{{ShDirectA, KRec0}}
	isCore := map[letter]bool{}
	for _, l := range append(append([]letter{}, classes[clK]...), classes[clR0]...) {
		isCore[l] = true
	}
	for _, l := range fullAlphabet {
		switch {
		case isCore[l]:
		case isAOOB(l.Kind):
			classes[clT] = append(classes[clT], l)
		case l.Kind == KOkAtomic:
			classes[clO] = append(classes[clO], l)
		case isRec(l.Kind):
			classes[clR] = append(classes[clR], l)
		default:
			classes[clN] = append(classes[clN], l)
		}
	}
	// Variant alphabet: direct, call_indirect, imported-from-B, host-nested (depth 1 and 5, re-raised and
	// swallowed), start function shapes x every kind that does not close an instance (with
	// close-on-context-done the engines insert exit checks, so what a CLOSED instance still executes differs
	// from the default configuration and is not fixed by the statement; exits close). Recursion: smallest
	// and largest frame. deephost belongs to the clobberfree pass and is left out.
	vShapes := []int{ShDirectA, ShIndirectA, ShHost1P, ShHost5P, ShHost1C, ShHost5CO, ShStartSecA, ShStartFnA, ShDirectB, ShViaB, ShHost1PB}
	for _, sh := range vShapes {
		for k := 0; k < NKinds; k++ {
			if (shapes[sh].target == 'B' && k >= NBKinds) || k >= KProcExit0 || isAOOB(k) || k == KOkAtomic {
				continue
			}
			switch {
			case k == KRec1 || k == KRec64:
			case isRec(k):
				classes[clVr] = append(classes[clVr], letter{sh, k})
			default:
				classes[clVn] = append(classes[clVn], letter{sh, k})
			}
		}
	}
	classes[clVp] = []letter{{ShDirectA, KOk}, {ShIndirectA, KOk}, {ShHost1P, KOk}, {ShDirectB, KOk}}
	for sh := ShNFnA; sh <= ShMSecSelf; sh++ {
		for _, k := range shapeKinds(sh) {
			classes[clS] = append(classes[clS], letter{sh, k})
		}
	}
	for sh := ShXOwn; sh <= ShXImported; sh++ {
		for _, k := range shapeKinds(sh) {
			classes[clX] = append(classes[clX], letter{sh, k})
		}
	}
	for sh := ShHost1W1; sh <= ShHost2W3; sh++ {
		for _, k := range shapeKinds(sh) {
			if isRec(k) {
				classes[clWr] = append(classes[clWr], letter{sh, k})
			} else {
				classes[clW] = append(classes[clW], letter{sh, k})
			}
		}
	}
	classes[clP] = []letter{{ShDirectA, KOk}, {ShDirectB, KOk}, {ShViaB, KOk}, {ShHost1P, KOk}}
	for _, c := range []int{clK, clN, clW, clX, clS} {
		classes[clE] = append(classes[clE], classes[c]...)
	}
	classes[clEr] = []letter{{ShDirectA, KRec0}, {ShHost1P, KRec0}}
	for sh := ShLuO; sh <= ShLsI2; sh++ {
		for _, k := range shapeKinds(sh) {
			classes[clL] = append(classes[clL], letter{sh, k})
		}
	}
	classes[clF] = []letter{{ShLookup, KOk}, {ShCloseN, KOk}, {ShDirectA, KOk}, {ShDirectB, KOk}, {ShViaB, KOk}}
}

// ---------------------------------------------------------------- word space (indexable, no materialisation)

type section struct {
	ctxMode string // "" = default world; a context variant (ctxModes: close-on-context-done runtimes); or a host-call environment (envModes)
	tuple   []int
	filter  string // "" | "rec-frames-0-1024" | "same-shape-rec-pair" (quick tier only, see sectionsFor)
	count   int64  // size of the product (before the filter)
	batch   int64
}

func edgeFrame(l letter) bool { return l.Kind == KRec0 || l.Kind == KRec1024 }

func (s section) recs() int {
	n := 0
	for _, c := range s.tuple {
		if c == clR0 || c == clR || c == clVr || c == clWr || c == clEr {
			n++
		}
	}
	return n
}

func (s section) String() string {
	n := ""
	for _, c := range s.tuple {
		n += className[c] + "."
	}
	n = strings.TrimSuffix(n, ".")
	if s.filter != "" {
		n += "(" + s.filter + ")"
	}
	if s.ctxMode != "" {
		n = strings.TrimPrefix(modeTag(s.ctxMode), "+") + ":" + n
	}
	return n
}

// word decodes index idx of the product; ok=false if the word is filtered out of the section.
func (s section) word(idx int64) (w []letter, ok bool) {
	w = make([]letter, len(s.tuple))
	for i := len(s.tuple) - 1; i >= 0; i-- {
		c := classes[s.tuple[i]]
		w[i] = c[idx%int64(len(c))]
		idx /= int64(len(c))
	}
	switch s.filter {
	case "rec-frames-0-1024": // recursion letters only with the smallest and the largest frame
		for _, l := range w {
			if isRec(l.Kind) && !edgeFrame(l) {
				return w, false
			}
		}
	case "same-shape": // the first two letters go through the same shape
		if w[0].Shape != w[1].Shape {
			return w, false
		}
	case "same-family": // all letters belong to the same linked family
		for _, l := range w[1:] {
			if (l.Shape-ShLuO)/3 != (w[0].Shape-ShLuO)/3 {
				return w, false
			}
		}
	case "same-shape-rec-pair": // two recursions through the same shape (same function objects); any frame, then an edge frame
		if w[0].Shape != w[1].Shape || !edgeFrame(w[1]) {
			return w, false
		}
	}
	return w, true
}

func allTuples(n int) [][]int {
	if n == 0 {
		return [][]int{{}}
	}
	var out [][]int
	for _, t := range allTuples(n - 1) {
		for c := 0; c < nBaseClasses; c++ {
			out = append(out, append(append([]int{}, t...), c))
		}
	}
	return out
}

func countOf(t []int, c int) int {
	n := 0
	for _, x := range t {
		if x == c {
			n++
		}
	}
	return n
}

// sectionsFor selects the class tuples of a tier. excluded = words dropped only because of the
// cap of maxRecPerWord recursion letters per word (tuples that the rule would otherwise include).
func sectionsFor(tier string) (secs []section, excludedByCap int64) {
	size := func(t []int) int64 {
		r := int64(1)
		for _, c := range t {
			r *= int64(len(classes[c]))
		}
		return r
	}
	for n := 1; n <= 4; n++ {
		for _, t := range allTuples(n) {
			k, r0, nn, r := countOf(t, clK), countOf(t, clR0), countOf(t, clN), countOf(t, clR)
			rec := r0 + r
			include, filter := false, ""
			if tier == "thorough" {
				switch n {
				case 1, 2:
					include = true // every word over the full alphabet
				case 3:
					// no recursion: at most two non-core letters; recursion: any core word, or one
					// non-core recursion letter in a core (non-recursive) context
					include = (rec == 0 && nn <= 2) || (nn == 0 && r == 0) || (r == 1 && k == 2)
				case 4:
					include = (rec == 0 && nn <= 1) || (nn == 0 && r == 0)
				}
			} else {
				switch n {
				case 1:
					include = true
				case 2:
					// all pairs without recursion; a recursion letter (smallest / largest frame) with a core
					// letter on either side; recursion x recursion through the same shape (second overflow
					// on the already grown stack)
					include = rec == 0 || (rec == 1 && k == 1) || rec == 2
					if rec == 1 {
						filter = "rec-frames-0-1024"
					} else if rec == 2 {
						filter = "same-shape-rec-pair"
					}
				case 3:
					include = (nn == 0 && r == 0) || (rec == 0 && nn == 1)
				}
			}
			if !include {
				continue
			}
			if rec > maxRecPerWord {
				excludedByCap += size(t)
				continue
			}
			s := section{tuple: t, filter: filter, count: size(t), batch: 1024}
			if rec > 0 {
				s.batch = 24
			}
			secs = append(secs, s)
		}
	}
	// context variants: all words of length <= 2 without recursion, every recursion letter alone and
	// followed by a probe; thorough adds length 3 = two letters + a probe.
	for _, mode := range ctxModes {
		vt := [][]int{{clVn}, {clVr}, {clVn, clVn}, {clVr, clVp}}
		if tier == "thorough" {
			vt = append(vt, []int{clVn, clVn, clVp})
		}
		for _, t := range vt {
			s := section{ctxMode: mode, tuple: t, count: size(t), batch: 1024}
			if s.recs() > 0 {
				s.batch = 24
			}
			secs = append(secs, s)
		}
	}
	// atomic sections: a lock / waiter list held across the unwinding of an atomic instruction only shows
	// when a later atomic access of the same memory does not return: every atomic out-of-bounds trap in every
	// shape, alone, followed by and preceded by okatomic in every shape.
	at := [][]int{{clT}, {clO}, {clT, clO}, {clO, clT}}
	if tier == "thorough" {
		at = append(at, []int{clK, clT, clO}, []int{clT, clK, clO})
	}
	for _, t := range at {
		secs = append(secs, section{tuple: t, count: size(t), batch: 1024})
	}
	// named-start sections: a start function that fails / exits (itself, or inside a function imported from
	// A or B), then the same name is instantiated again, looked up, closed, and A / B are called.
	for _, t := range [][]int{{clS}, {clS, clS}, {clS, clF}, {clS, clS, clS}, {clS, clS, clF}, {clS, clF, clS}, {clS, clF, clF}} {
		if len(t) == 3 && t[1] == clS && t[2] == clS && tier != "thorough" {
			continue // S.S.S (46,656 words) only in thorough
		}
		secs = append(secs, section{tuple: t, count: size(t), batch: 1024})
	}
	// module-X sections: a function that calls into another instance and then exits / closes / panics / traps
	// in the same basic block, in the four memory shapes of the exiting module; alone, after a core letter,
	// followed by a probe of A / B, and twice through the same instance of X (thorough: and then a probe).
	xs := []section{{tuple: []int{clX}}, {tuple: []int{clK, clX}}, {tuple: []int{clX, clP}}, {tuple: []int{clX, clX}, filter: "same-shape"}}
	if tier == "thorough" {
		xs = append(xs, section{tuple: []int{clX, clX, clP}, filter: "same-shape"})
	}
	for _, s := range xs {
		s.count, s.batch = size(s.tuple), 1024
		secs = append(secs, s)
	}
	// raise-style sections: a host level raises the failure of its nested call as an own error wrapping it, a
	// joined error, a string, or an exit error it made itself
	for _, t := range [][]int{{clW}, {clWr}, {clW, clP}, {clWr, clP}, {clK, clW}, {clW, clW}} {
		s := section{tuple: t, count: size(t), batch: 1024}
		if s.recs() > 0 {
			s.batch = 24
		}
		secs = append(secs, s)
	}
	// host-call environments: every letter alone and followed by a probe of A (direct, host-nested), B and A->B,
	// in every combination of host function flavour x listeners x snapshotter other than the default one;
	// thorough adds a core letter before / after every letter.
	for _, mode := range envModes {
		et := [][]int{{clE}, {clEr}, {clE, clP}, {clEr, clP}}
		if tier == "thorough" {
			et = append(et, []int{clK, clE}, []int{clE, clK})
		}
		for _, t := range et {
			s := section{ctxMode: mode, tuple: t, count: size(t), batch: 1024}
			if s.recs() > 0 {
				s.batch = 24
			}
			secs = append(secs, s)
		}
	}
	// linked families (an owner of a memory / table / global and two importers; unshared and shared memory): one
	// instance ends by exit / close / panic / trap / Module.Close while the others stay open and go on using the
	// linked resources. Default world and, per allocMode, a world whose memories come from a tracking
	// experimental.MemoryAllocator; the allocator worlds also run every other letter alone and before a probe.
	for _, mode := range append([]string{""}, allocModes...) {
		ls := []section{{tuple: []int{clL}}, {tuple: []int{clL, clL}}, {tuple: []int{clK, clL}}, {tuple: []int{clL, clP}}}
		if tier == "thorough" {
			ls = append(ls, section{tuple: []int{clL, clL, clL}, filter: "same-family"})
		}
		if mode != "" {
			ls = append(ls, section{tuple: []int{clE}}, section{tuple: []int{clE, clP}})
		}
		for _, s := range ls {
			s.ctxMode, s.count, s.batch = mode, size(s.tuple), 1024
			secs = append(secs, s)
		}
	}
	// C06_ONLY=<substring>: diagnostic runs over the sections whose name contains it (always reported as capped)
	if only := os.Getenv("C06_ONLY"); only != "" {
		var keep []section
		for _, s := range secs {
			if strings.Contains(s.String(), only) {
				keep = append(keep, s)
			}
		}
		secs = keep
	}
	// heavy (recursion) sections first so that they are spread over all workers before the light tail; among
	// equally heavy sections the small ones first, so that a budget cap on a loaded machine cuts into the largest
	// sections instead of starving the many small ones
	sort.SliceStable(secs, func(i, j int) bool {
		if a, b := secs[i].recs(), secs[j].recs(); a != b {
			return a > b
		}
		return secs[i].count < secs[j].count
	})
	return
}

type batchCase struct {
	sec    int
	lo, hi int64
}

type space struct {
	secs          []section
	cases         []batchCase
	total         int64 // product sizes (before filters)
	excludedByCap int64
}

func newSpace(tier string) *space {
	sp := &space{}
	sp.secs, sp.excludedByCap = sectionsFor(tier)
	for i, s := range sp.secs {
		sp.total += s.count
		for lo := int64(0); lo < s.count; lo += s.batch {
			hi := lo + s.batch
			if hi > s.count {
				hi = s.count
			}
			sp.cases = append(sp.cases, batchCase{i, lo, hi})
		}
	}
	return sp
}

func recCount(w []letter) int {
	n := 0
	for _, l := range w {
		if isRec(l.Kind) {
			n++
		}
	}
	return n
}

func wordString(w []letter) string {
	p := make([]string, len(w))
	for i, l := range w {
		p[i] = l.String()
	}
	return strings.Join(p, " ")
}

func parseWord(s string) ([]letter, error) {
	var w []letter
	for _, f := range strings.Fields(s) {
		l, err := parseLetter(f)
		if err != nil {
			return nil, err
		}
		w = append(w, l)
	}
	return w, nil
}

// ---------------------------------------------------------------- running one word

type stepObs struct {
	Class string
	Ret   uint32
	A, B  string
	Reg   string // name registry: Runtime.Module of the named start instances
	X     string // instances of module X (and q, the owner of the memory ximp imports)
	L     string // linked families
	Alloc string // allocator-side oracle (allocModes): "ok" | the first offence; "n/a" without a custom allocator
}

func (o stepObs) String() string {
	return fmt.Sprintf("%s ret=%d | A{%s} | B{%s} | registry{%s} | X{%s} | L{%s} | alloc{%s}", o.Class, o.Ret, o.A, o.B, o.Reg, o.X, o.L, o.Alloc)
}

type viol struct {
	Sig  string `json:"sig"`
	What string `json:"what"`
	Word string `json:"word"`
	Ctx  string `json:"ctx,omitempty"`
}

// runWord executes the word on a fresh world of e and on a fresh model; returns the observed trace
// and the first divergence from the model (nil if none). The trace continues after a divergence
// is found? No: it stops there, later steps are judged on other words.
// hangTimeout: a conforming step takes microseconds (a recursion ~0.1 s); a step that has not returned after
// 30 s does not return (e.g. it waits for a lock that an earlier, trapped instruction never released).
const hangTimeout = 30 * time.Second

var childHangs int // steps that did not return, in this process

// sideViols: conditions recorded by runWordSteps that do not end the word (the open finding of the allocator
// worlds, see allocFinding); drained by the caller of runWord after the word has finished.
var sideViols []viol

const sigOwnerEndFrees = "alloc:owner-end-frees-linear-memory-still-imported-by-an-open-instance"

var wordWorker chan func()

// runWord executes the word on a fresh world of e and on a fresh model; returns the observed trace and the
// first divergence from the model (nil if none). The word runs on its own goroutine; the caller's goroutine is
// the per-word watchdog: if no step completes for hangTimeout the word is abandoned (hung=true: the world and
// the runtime of e must not be used any more) and the hang is attributed to the step in flight.
func runWord(e *engineRT, word []letter, mode string, stats *childStats) (trace []stepObs, v *viol, hung bool) {
	type result struct {
		trace []stepObs
		v     *viol
	}
	progress := make(chan int, len(word)+2)
	done := make(chan result, 1)
	// One long-lived worker goroutine executes all words (its Go stack stays grown: the interpreter
	// recurses on it); it is replaced only after a hang, when it is stuck for good.
	if wordWorker == nil {
		wordWorker = make(chan func(), 1)
		go func(jobs chan func()) {
			for f := range jobs {
				f()
			}
		}(wordWorker)
	}
	wordWorker <- func() {
		tr, v := runWordSteps(e, word, mode, stats, progress)
		done <- result{tr, v}
	}
	timer := time.NewTimer(hangTimeout)
	defer timer.Stop()
	at := 0 // index of the step in flight
	for {
		select {
		case r := <-done:
			return r.trace, r.v, false
		case at = <-progress:
			if !timer.Stop() {
				select {
				case <-timer.C:
				default:
				}
			}
			timer.Reset(hangTimeout)
		case <-timer.C:
			childHangs++
			wordWorker = nil // stuck inside the step; the next word gets a new worker
			tag := e.name + modeTag(mode)
			what := "cancel-shared-context-after-last-step"
			if at < len(word) {
				what = word[at].String()
			}
			sig := fmt.Sprintf("%s:%s:hang", tag, what)
			if at > 0 {
				sig += ":after=" + word[at-1].String()
			}
			return nil, &viol{Sig: sig, Word: wordString(word), Ctx: mode,
				What: fmt.Sprintf("%s: word [%s] step %d (%s) has not returned after %v", tag, wordString(word), at+1, what, hangTimeout)}, true
		}
	}
}

// runWordSteps is the body of runWord; it reports the index of the step it is about to start on progress.
func runWordSteps(e *engineRT, word []letter, mode string, stats *childStats, progress chan<- int) (trace []stepObs, v *viol) {
	w := newWorld(e)
	defer w.close()
	m := &modelW{alloc: e.env.alloc}
	al := e.env.alloc
	wantAlloc := "n/a"
	if al {
		wantAlloc = "ok"
	}
	tag := e.name + modeTag(mode)
	var sharedCancel context.CancelFunc
	if mode == "shared" {
		w.cur, sharedCancel = context.WithCancel(w.ctx)
		defer sharedCancel()
	}
	check := func(i int, what string, got, want stepObs) *viol {
		trace = append(trace, got)
		if got == want {
			return nil
		}
		field := "state-of-" + diffField(got, want)
		sig := fmt.Sprintf("%s:%s:%s", tag, what, field)
		if i > 0 {
			sig += ":after=" + word[i-1].String()
		}
		return &viol{Sig: sig, Word: wordString(word), Ctx: mode,
			What: fmt.Sprintf("%s: word [%s] step %d (%s, k=%d): implementation {%s} but the reference model says {%s}", tag, wordString(word), i+1, what, i+1, got, want)}
	}
	sideReported := false
	for i, l := range word {
		progress <- i
		k := uint32(i + 1)
		var cancel context.CancelFunc
		switch mode {
		case "cancel":
			w.cur, cancel = context.WithCancel(w.ctx)
		case "deadline":
			w.cur, cancel = context.WithTimeout(w.ctx, time.Hour)
		}
		cl, ret := w.step(l, k)
		if cancel != nil {
			// the call has returned: ending its context now must not affect anything
			w.settle()
			cancel()
			w.settle()
		}
		got := stepObs{cl, ret, observe(w.A, al), observe(w.B, al), w.registry(), w.observeX(), w.observeL(), w.allocCheck()}
		if o := w.allocFinding(); o != "" && !sideReported {
			// known on the unchanged tree (findings.json); the word goes on with the released memory left out of the comparison
			sideReported = true
			sideViols = append(sideViols, viol{Sig: sigOwnerEndFrees, Word: wordString(word), Ctx: mode,
				What: fmt.Sprintf("%s: word [%s] step %d (%s): the instance %q that defines the linked memory has ended and its LinearMemory was freed while an instance importing that memory is still open", tag, wordString(word), i+1, l, o)})
		}
		mcl, mret := m.step(l, k)
		want := stepObs{mcl, mret, m.A.obs(al), m.B.obs(al), m.registry(), m.observeX(), m.observeL(), wantAlloc}
		if stats != nil {
			stats.steps++
			stats.hist[tag+":"+shapes[l.Shape].name+":"+cl]++
			stats.states[m.A.String()+"|"+m.B.String()] = true
		}
		if v := check(i, l.String(), got, want); v != nil {
			return trace, v
		}
	}
	if sharedCancel != nil {
		progress <- len(word)
		w.settle()
		sharedCancel()
		w.settle()
		got := stepObs{"after-cancel", 0, observe(w.A, al), observe(w.B, al), w.registry(), w.observeX(), w.observeL(), w.allocCheck()}
		want := stepObs{"after-cancel", 0, m.A.obs(al), m.B.obs(al), m.registry(), m.observeX(), m.observeL(), wantAlloc}
		if stats != nil {
			stats.steps++
			stats.hist[tag+":after-cancel"]++
		}
		if v := check(len(word), "cancel-shared-context-after-last-step", got, want); v != nil {
			return trace, v
		}
	}
	return trace, nil
}

func diffField(got, want stepObs) string {
	switch {
	case got.Class != want.Class:
		return "error-kind"
	case got.Ret != want.Ret:
		return "result"
	case got.Alloc != want.Alloc:
		return "alloc:" + got.Alloc
	case got.A != want.A:
		return "A:" + fieldDiff(got.A, want.A)
	case got.L != want.L:
		return "L:" + fieldDiff(got.L, want.L)
	case got.Reg != want.Reg:
		return "registry:" + fieldDiff(got.Reg, want.Reg)
	case got.X != want.X:
		return "X:" + fieldDiff(got.X, want.X)
	default:
		return "B:" + fieldDiff(got.B, want.B)
	}
}

func fieldDiff(a, b string) string {
	fa, fb := strings.Fields(a), strings.Fields(b)
	for i := range fa {
		if i < len(fb) && fa[i] != fb[i] {
			return strings.SplitN(fa[i], "=", 2)[0]
		}
	}
	return "?"
}

// ---------------------------------------------------------------- child side

type childStats struct {
	words, steps, nontrivial int64
	hist                     map[string]int64
	states                   map[string]bool
}

type batchResult struct {
	Words      int64            `json:"w"`
	Steps      int64            `json:"s"`
	Nontrivial int64            `json:"n"`
	Hist       map[string]int64 `json:"h"`
	States     []string         `json:"st"`
	Viols      []viol           `json:"v,omitempty"`
	Known      []viol           `json:"k,omitempty"` // side conditions (at most the first one of the batch)
}

func failing(l letter) bool {
	return l.Kind != KOk && l.Kind != KDeepOk && l.Kind != KDeepHost && l.Kind != KOkAtomic
}

func hasDeepHost(w []letter) bool {
	for _, l := range w {
		if l.Kind == KDeepHost {
			return true
		}
	}
	return false
}

// runBatch runs the words [lo,hi) of a section. Every word belongs to exactly one pass: words with a
// deephost letter (a forced garbage collection below 1500 live frames) run in the "clobber" pass, whose
// children have GODEBUG=clobberfree=1 so that a use of an outgrown, freed native stack becomes visible;
// all other words run in the "plain" pass (clobbering every freed 84 MB stack doubles the cost of a recursion).
func runBatch(sp *space, sec int, lo, hi int64, pass string) batchResult {
	st := &childStats{hist: map[string]int64{}, states: map[string]bool{}}
	var viols, known []viol
	sideViols = nil
	mode := sp.secs[sec].ctxMode
	rts := make([]*engineRT, len(engines))
	for i, n := range engines {
		rts[i] = newEngineRT(n, mode)
	}
	for idx := lo; idx < hi; idx++ {
		word, ok := sp.secs[sec].word(idx)
		if !ok || hasDeepHost(word) != (pass == "clobber") {
			continue
		}
		st.words++
		for i := 0; i+1 < len(word); i++ {
			if failing(word[i]) {
				st.nontrivial++
				break
			}
		}
		var traces [][]stepObs
		bad := false
		for i, e := range rts {
			tr, v, hung := runWord(e, word, mode, st)
			traces = append(traces, tr)
			if !hung && len(sideViols) > 0 {
				st.hist[e.name+modeTag(mode)+":words-with-owner-ended-while-importer-open"]++
				if known == nil {
					known = append(known, sideViols[0])
				}
				sideViols = nil
			}
			if v != nil {
				viols = append(viols, *v)
				bad = true
			}
			if hung {
				// the world is stuck with the names A and B registered: abandon this runtime
				rts[i] = newEngineRT(e.name, e.mode)
			}
		}
		if childHangs >= 2 {
			break // each further hang costs the watchdog; two are enough to report, the child skips the rest
		}
		if !bad {
			// differential twin: the whole trace must be equal across the engines
			for i := range traces[0] {
				if traces[0][i] != traces[1][i] {
					at := "after-cancel"
					if i < len(word) {
						at = word[i].String()
					}
					viols = append(viols, viol{Sig: fmt.Sprintf("cross-engine:%s:%s", at, diffField(traces[0][i], traces[1][i])), Word: wordString(word), Ctx: mode,
						What: fmt.Sprintf("word [%s] step %d: compiler {%s} vs interpreter {%s}", wordString(word), i+1, traces[0][i], traces[1][i])})
					break
				}
			}
		}
	}
	for _, e := range rts {
		if e.lsn != nil {
			// listener activity of the batch (evidence that the listener paths ran; not a verdict)
			t := e.name + modeTag(mode) + ":listener:"
			st.hist[t+"before"] += e.lsn.before.Load()
			st.hist[t+"after"] += e.lsn.after.Load()
			st.hist[t+"abort"] += e.lsn.abort.Load()
		}
		e.close()
	}
	res := batchResult{Words: st.words, Steps: st.steps, Nontrivial: st.nontrivial, Hist: st.hist, Viols: viols, Known: known}
	for s := range st.states {
		res.States = append(res.States, s)
	}
	sort.Strings(res.States)
	if len(res.Viols) > 20 {
		res.Viols = res.Viols[:20]
	}
	return res
}

// ---------------------------------------------------------------- main

func main() {
	if len(os.Args) > 1 && os.Args[1] == "replay" {
		replay()
		return
	}
	if len(os.Args) > 2 && os.Args[2] == "bench" {
		bench()
		return
	}
	tier := "quick"
	if t := os.Getenv("VERIF_TIER"); t == "thorough" {
		tier = t
	}
	for _, a := range os.Args[1:] {
		if a == "quick" || a == "thorough" {
			tier = a
		}
	}
	sp := newSpace(tier)
	nBatches := len(sp.cases)

	if fw.IsChild() {
		// A recursion leaves an ~84 MB stack in the compiler's call engine (168 MB allocated while it
		// doubles). An untouched ballast keeps the heap goal high enough for the freed spans to be
		// re-used instead of being returned to the OS and faulted in again (3x less system time).
		ballast = make([]byte, 256<<20)
		debug.SetMemoryLimit(1 << 30)
		if fw.ChildMode() == "single" {
			// cases are single words "section:index" listed in C06_SINGLES (crash localisation)
			singles := strings.Split(os.Getenv("C06_SINGLES"), ",")
			fw.ChildLoop(func(i int) string {
				var sec int
				var idx int64
				fmt.Sscanf(singles[i], "%d:%d", &sec, &idx)
				b, _ := json.Marshal(runBatch(sp, sec, idx, idx+1, os.Getenv("C06_PASS")))
				return string(b)
			})
		}
		// fw.Supervise polls Stop only when it (re)starts a child, so the child enforces the budget itself:
		// after the deadline (or once this child alone has collected 40 violations) remaining batches are skipped.
		deadline, _ := strconv.ParseInt(os.Getenv("C06_DEADLINE"), 10, 64)
		found := 0
		fw.ChildLoop(func(i int) string {
			if (deadline > 0 && time.Now().Unix() > deadline) || found >= 40 || childHangs >= 2 {
				return "skipped"
			}
			c := sp.cases[i]
			br := runBatch(sp, c.sec, c.lo, c.hi, os.Getenv("C06_PASS"))
			found += len(br.Viols)
			b, _ := json.Marshal(br)
			return string(b)
		})
		return
	}

	run := fw.Start("C06", "model_checking")
	if only := os.Getenv("C06_ONLY"); only != "" {
		run.Capped("diagnostic run restricted to sections containing " + only)
	}
	outcomes := fw.NewCounter()
	samples := fw.NewSampler(16)
	var words, steps, nontriv int64
	states := map[string]bool{}
	var allViols []viol
	knownViols := map[string]viol{} // per signature: the shortest word
	absorb := func(res string) {
		var br batchResult
		if err := json.Unmarshal([]byte(res), &br); err != nil {
			fw.Fatalf("bad child result: %v: %.200s", err, res)
		}
		words += br.Words
		steps += br.Steps
		nontriv += br.Nontrivial
		for k, v := range br.Hist {
			outcomes.AddN(k, v)
		}
		for _, s := range br.States {
			states[s] = true
		}
		allViols = append(allViols, br.Viols...)
		for _, k := range br.Known {
			if old, ok := knownViols[k.Sig]; !ok || len(k.Word) < len(old.Word) || (len(k.Word) == len(old.Word) && k.Word+k.What < old.Word+old.What) {
				knownViols[k.Sig] = k
			}
		}
	}
	workers := runtime.NumCPU()
	secWords := make([]int64, len(sp.secs))
	for _, pass := range []string{"clobber", "plain"} { // the small pass first, so that a budget cap cannot starve it
		// GOMAXPROCS=2: a child executes its words sequentially; more Ps only add GC threads that compete with the other children.
		env := []string{"C06_PASS=" + pass, "GOMAXPROCS=2", "C06_DEADLINE=" + strconv.FormatInt(run.Deadline.Unix(), 10)}
		if pass == "clobber" {
			env = append(env, "GODEBUG=clobberfree=1") // freed objects (outgrown native stacks) are overwritten
		}
		var crashed []int
		skipped := 0
		done := fw.Supervise(fw.SupOpts{N: nBatches, Workers: workers, CaseTimeout: 300 * time.Second, Mode: "batch", Env: env,
			Stop: func() bool { return run.Expired() || len(allViols) >= 40 || len(crashed) >= 8 }},
			func(i int, res string, crash *fw.Crash) {
				if crash != nil {
					crashed = append(crashed, i)
					return
				}
				if res == "skipped" {
					skipped++
					return
				}
				before := words
				absorb(res)
				secWords[sp.cases[i].sec] += words - before
			})
		if done < nBatches || skipped > 0 {
			if run.Expired() {
				run.Capped("budget")
			} else {
				run.Capped("stopped early: enough violations / crashed batches to report") // fw keeps at most 40 replay files
			}
		}
		if len(crashed) == 0 {
			continue
		}
		// crash localisation: re-run the words of crashed batches one per case.
		sort.Ints(crashed)
		var singles []string
		type sw struct {
			sec int
			idx int64
		}
		var list []sw
		for n, b := range crashed {
			if n >= 4 {
				run.Note("pass %s: %d batches crashed; only the first 4 are localised word by word", pass, len(crashed))
				break
			}
			c := sp.cases[b]
			for j := c.lo; j < c.hi; j++ {
				if w, ok := sp.secs[c.sec].word(j); ok && hasDeepHost(w) == (pass == "clobber") && len(list) < 256 {
					singles = append(singles, fmt.Sprintf("%d:%d", c.sec, j))
					list = append(list, sw{c.sec, j})
				}
			}
		}
		fw.Supervise(fw.SupOpts{N: len(list), Workers: workers, CaseTimeout: 120 * time.Second, Mode: "single",
			Env: append([]string{"C06_SINGLES=" + strings.Join(singles, ",")}, env...)},
			func(i int, res string, crash *fw.Crash) {
				if crash != nil {
					w, _ := sp.secs[list[i].sec].word(list[i].idx)
					allViols = append(allViols, viol{Sig: "process-" + crash.Kind + ":" + wordString(w), Word: wordString(w), Ctx: sp.secs[list[i].sec].ctxMode,
						What: fmt.Sprintf("word [%s]: the process did not survive (%s): %s", wordString(w), crash.Kind, fw.FirstLines(crash.Stderr, 3))})
					outcomes.Inc("process-" + crash.Kind)
					return
				}
				before := words
				absorb(res)
				secWords[list[i].sec] += words - before
			})
	}
	// report the shortest failing histories first (fw keeps a bounded number of replay files)
	sort.SliceStable(allViols, func(i, j int) bool {
		a, b := len(strings.Fields(allViols[i].Word)), len(strings.Fields(allViols[j].Word))
		if a != b {
			return a < b
		}
		return allViols[i].Word+allViols[i].Sig < allViols[j].Word+allViols[j].Sig
	})
	for _, v := range allViols {
		run.Violation(v.Sig, v.What, map[string]any{"word": v.Word, "ctx": v.Ctx})
	}
	for _, v := range knownViols {
		run.Violation(v.Sig, v.What, map[string]any{"word": v.Word, "ctx": v.Ctx})
	}
	for i := 0; i < len(sp.cases); i += len(sp.cases)/16 + 1 {
		if w, ok := sp.secs[sp.cases[i].sec].word(sp.cases[i].lo); ok {
			samples.Add(wordString(w))
		}
	}
	secs := map[string]any{}
	for i, s := range sp.secs {
		secs[s.String()] = map[string]int64{"product": s.count, "words_run": secWords[i]}
	}
	var coreNames []string
	for _, l := range append(append([]letter{}, classes[clK]...), classes[clR0]...) {
		coreNames = append(coreNames, l.String())
	}
	if words > sp.total {
		fw.Fatalf("ran %d words, space has %d", words, sp.total)
	}
	run.Finish(fw.Coverage{
		Evaluations: steps, DistinctNontriv: nontriv, States: words, Transitions: steps, TracesValidated: steps,
		Rule:    "a state is a history (word) replayed on a fresh world; a transition is one executed step on one engine, compared against the model; a word is non-trivial when a failing step is followed by at least one more step; distinct = distinct (word, context variant) pairs, each run on both engines; the ctx-* sections run on runtimes WithCloseOnContextDone(true); the env-* sections run with another kind of Go host function (api.GoFunc, reflection), with function listeners compiled into every module and / or with experimental.WithSnapshotter on every call context; the alloc-* sections run in worlds whose instantiation context carries a tracking experimental.MemoryAllocator",
		Samples: samples.List(), Exhaustive: true, Outcomes: outcomes.Map(),
		Bounds: map[string]any{"full_alphabet": len(fullAlphabet), "core_alphabet": coreNames, "shapes": NShapes, "kinds": NKinds,
			"class_sizes": map[string]int{"K": len(classes[clK]), "r0": len(classes[clR0]), "N": len(classes[clN]), "R": len(classes[clR]),
				"Vn": len(classes[clVn]), "Vr": len(classes[clVr]), "Vp": len(classes[clVp]), "T": len(classes[clT]), "O": len(classes[clO]), "S": len(classes[clS]), "F": len(classes[clF]), "X": len(classes[clX]), "P": len(classes[clP]), "W": len(classes[clW]), "Wr": len(classes[clWr]), "E": len(classes[clE]), "Er": len(classes[clEr]), "L": len(classes[clL])},
			"context_variants": ctxModes, "host_call_environments": envModes, "allocator_modes": allocModes,
			"sections": secs, "max_recursion_letters_per_word": maxRecPerWord, "engines": engines},
		Extra: map[string]any{"words_excluded_by_recursion_cap": sp.excludedByCap, "words_run": words,
			"distinct_model_states": len(states), "batches": nBatches},
	}, []string{
		"error texts are not compared; kinds are recognised with errors.Is / errors.As (message only for non-error panic values)",
		"a call that itself traps on an already closed instance is modelled as returning the trap (what both engines do); the statement only fixes the exit error for calls that would otherwise succeed",
		"host functions re-raise a nested failure with panic(err); a level that swallows it returns a class code to the guest",
		"runtimes are created per batch of words (24 with recursion, 1024 otherwise; compilation is the dominant cost); instances A and B are fresh for every word",
		"context variants: a step's context is cancelled after the step returned and after waiting (goroutine count back to its value at world creation, at most 50 ms) for stopped watchers to exit; the wait is never a verdict; kinds that close an instance are not part of the variant alphabet",
		"a step that has not returned after 30 s is reported as a hang of that step (per-word watchdog in the child); conforming steps take microseconds, a recursion about 0.1 s",
		"host-call environments: listeners only count (pairing of Before with After/Abort is not judged here); snapshots are enabled and, in snaptaken, taken and dropped by every host function of H, never restored; in the api.GoFunc flavour H.close stays a module function (it needs the calling module) and WASI proc_exit is wazero's own module function in every flavour",
		"allocator world: every linear memory is a Go slice handed out by a tracking allocator whose Free overwrites it with 0xDD; the memory cells of a closed instance are not compared there (freed by design); the known condition 'the defining instance ended and its buffer was freed while an importer is open' is reported under its own signature and does not end the word",
		"words with a deephost letter run with GODEBUG=clobberfree=1 (use of a freed outgrown stack becomes a crash); all other words run without it",
	})
}

func replay() {
	if len(os.Args) < 3 {
		fw.Fatalf("usage: replay <file>")
	}
	b, err := os.ReadFile(os.Args[2])
	if err != nil {
		fw.Fatalf("%v", err)
	}
	var doc struct {
		Replay struct {
			Word string `json:"word"`
			Ctx  string `json:"ctx"`
		} `json:"replay"`
	}
	if err := json.Unmarshal(b, &doc); err != nil {
		fw.Fatalf("%v", err)
	}
	word, err := parseWord(doc.Replay.Word)
	if err != nil {
		fw.Fatalf("%v", err)
	}
	if os.Getenv("C06_REPLAY_CHILD") == "" {
		// the word may kill the process: run it in a child (with clobberfree when it forces a GC, as the explorer does)
		self, _ := os.Executable()
		cmd := exec.Command(self, os.Args[1:]...)
		cmd.Env = append(os.Environ(), "C06_REPLAY_CHILD=1")
		if hasDeepHost(word) {
			cmd.Env = append(cmd.Env, "GODEBUG=clobberfree=1")
		}
		out, err := cmd.CombinedOutput()
		if len(out) > 12000 { // keep the head and the verdict at the end
			out = append(append(append([]byte{}, out[:6000]...), []byte("\n...\n")...), out[len(out)-5000:]...)
		}
		os.Stdout.Write(out)
		if err == nil {
			os.Exit(0)
		}
		if ee, ok := err.(*exec.ExitError); ok && ee.ExitCode() == 1 {
			os.Exit(1)
		}
		fmt.Printf("\nreplay: the process did not survive the word [%s]: %v\n", wordString(word), err)
		os.Exit(1)
	}
	rc := 0
	var traces [][]stepObs
	for _, n := range engines {
		e := newEngineRT(n, doc.Replay.Ctx)
		tr, v, _ := runWord(e, word, doc.Replay.Ctx, nil)
		traces = append(traces, tr)
		for i, o := range tr {
			what := "(cancel shared context)"
			if i < len(word) {
				what = word[i].String()
			}
			fmt.Printf("%-11s step %d %-28s -> %s\n", n, i+1, what, o)
		}
		if v != nil {
			fmt.Printf("DIVERGENCE %s\n  %s\n", v.Sig, v.What)
			rc = 1
		}
		for _, sv := range sideViols {
			fmt.Printf("CONDITION %s\n  %s\n", sv.Sig, sv.What)
			rc = 1
		}
		sideViols = nil
		e.close()
	}
	if rc == 0 {
		for i := range traces[0] {
			if traces[0][i] != traces[1][i] {
				fmt.Printf("CROSS-ENGINE DIVERGENCE at step %d\n", i+1)
				rc = 1
			}
		}
	}
	if rc == 0 {
		fmt.Println("replay: the word now behaves as the model says on both engines")
	}
	os.Exit(rc)
}

var ballast []byte

func bench() {
	if os.Getenv("C06_BALLAST") != "" {
		ballast = make([]byte, 256<<20)
	}
	for _, n := range engines {
		t0 := time.Now()
		e := newEngineRT(n, os.Getenv("C06_CTX"))
		fmt.Printf("%s: runtime+compile %v\n", n, time.Since(t0))
		t0 = time.Now()
		for i := 0; i < 200; i++ {
			w := newWorld(e)
			w.close()
		}
		fmt.Printf("%s: world %v each\n", n, time.Since(t0)/200)
		for _, ws := range []string{"directA/ok", "directA/ok directA/unreachable directA/ok", "host5P/panic-error", "startsecA/ok", "startfnA/procexit3",
			"directA/rec0", "directA/rec1", "directA/rec64", "directA/rec1024", "directA/rec0 directA/rec0", "host5P/rec64"} {
			word, err := parseWord(ws)
			if err != nil {
				fw.Fatalf("%v", err)
			}
			t0 = time.Now()
			reps := 20
			for i := 0; i < reps; i++ {
				_, v, _ := runWord(e, word, os.Getenv("C06_CTX"), nil)
				if v != nil {
					fmt.Println(v.What)
					break
				}
			}
			fmt.Printf("%s: %-45s %v each\n", n, ws, time.Since(t0)/time.Duration(reps))
		}
		e.close()
	}
}
