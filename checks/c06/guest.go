package main

import (
	"fmt"

	"github.com/tetratelabs/wazero/verif/wb"
)

// ---------------------------------------------------------------- failure kinds

const (
	KOk     = iota
	KDeepOk // succeeding call that needs DeepFrames nested frames (stack growth on the success path)
	KUnreachable
	KDivZero
	KOverflow
	KInvalidConv
	KOOBStore // i64.store straddling the end of memory, after a partial effect
	KOOBFill  // memory.fill straddling the end of memory, after a partial effect
	KTableOOB // table.get beyond the table
	KCINull   // call_indirect on a null element
	KCIMismatch
	KCIOOB // call_indirect beyond the table
	KUnaligned
	KOkAtomic // succeeding: atomic rmw.add + load + notify + wait32(zero timeout, value mismatch) on the own memory
	KAOOB0    // first of nAOOB kinds: an atomic access at an aligned address >= memory size (see aoobTable)
)

const nAOOB = 35

const (
	KRec0 = KAOOB0 + nAOOB + iota
	KRec1
	KRec64
	KRec1024
	// kinds below need the host module: instance A only
	KPanicError
	KPanicString
	KPanicRuntime
	KPanicCustomErr
	KPanicValue
	KProcExit0
	KProcExit3
	KClose0
	KClose7
	KDeepHost // succeeding: DeepFrames nested frames, then a host call that garbage-collects, then unwinds
	KCloseB7  // succeeding in A: a host function closes the OTHER instance (B) with exit code 7
	NKinds
)

// Sequence kinds (only for the x* shapes, module X): one function body without control flow that first
// calls a function imported from another wasm instance and then ends in an exit / close / panic / trap.
const (
	seqAHostNop  = iota // A.hostnop(k): A makes a host call
	seqAIndirect        // A.indirect(ok,k): A executes call_indirect
	seqAGrow            // A.grow0(k): A executes memory.grow
	seqBIndirect
	seqBGrow
	seqBDirect // B.direct(ok,k): no host call, call_indirect or grow in B (control)
	nSeqFirsts
)

var seqFirstNames = [nSeqFirsts]string{"Ahostnop", "Aindirect", "Agrow", "Bindirect", "Bgrow", "Bdirect"}
var seqThens = []int{KProcExit0, KProcExit3, KClose0, KClose7, KPanicError, KUnreachable}

const (
	KSeq0     = NKinds
	nSeq      = nSeqFirsts * 6
	KLnk0     = KSeq0 + nSeq // linked-instance kinds (only for the l* shapes): poke+<then> and closego
	nLnk      = 10
	KLnkClose = KLnk0 + nLnk - 1 // Module.Close by the embedder
	NAllKinds = NKinds + nSeq + nLnk
)

// lnkThens: how poke_<then>(k) of a linked instance ends (after its writes to the linked memory / global).
var lnkThens = []int{KOk, KProcExit0, KProcExit3, KClose0, KClose7, KPanicError, KUnreachable, KOk, KProcExit3}

// lnkGrows: the kinds from this index on execute memory.grow(1) on the linked memory before they end (grow+ok,
// grow+procexit3): the unshared memory (1..2 pages) grows once - its buffer is reallocated - and then stays; the
// shared one (max 1 page) cannot grow.
const lnkGrows = 7

func isLnk(k int) bool { return k >= KLnk0 && k < KLnk0+nLnk }

// cells of the linked memory (written by poke_<then>(k) of whichever instance of the family runs)
const (
	LCellPre  = 64 // k, before the end of the function
	LCellPost = 72 // k, after it
	LCellTab  = 80 // result of call_indirect through the linked table (element 0 = the owner's function: 7)
)

// buildL emits a module of a linked family: the owner defines and exports a memory (unshared 1..2 pages, or
// shared 1 page), a funcref table whose element 0 is its own function seven() and a mutable global; an importer
// imports the three from the owner. Both import H.panic, H.close and proc_exit and export
//
//	poke_<then>(k) -> gl : mem[64] = k ; gl += 1 ; mem[80] = call_indirect table[0] ; <then> ; mem[72] = k
//	peek() -> mem[64]
func buildL(owner bool, shared bool, ownerName string) []byte {
	m := &wb.Module{}
	i32 := wb.I32
	hp := m.ImportFunc(hostModName, "panic", []byte{i32}, nil)
	hc := m.ImportFunc(hostModName, "close", []byte{i32}, nil)
	pe := m.ImportFunc(wasiModName, "proc_exit", []byte{i32}, nil)
	lim := wb.Limits{Min: 1, Max: 2, HasMax: true}
	if shared {
		lim = wb.Limits{Min: 1, Max: 1, HasMax: true, Shared: true}
	}
	tab := wb.Table{Elem: wb.FuncRef, Lim: wb.Limits{Min: 2, Max: 2, HasMax: true}}
	var gl uint32
	if owner {
		m.Mem = &lim
		m.Tables = []wb.Table{tab}
		gl = m.AddGlobal(i32, true, wb.CI32(0))
		m.Exports = append(m.Exports,
			wb.Export{Name: "memory", Kind: wb.KindMemory, Idx: 0},
			wb.Export{Name: "table", Kind: wb.KindTable, Idx: 0},
			wb.Export{Name: "gl", Kind: wb.KindGlobal, Idx: gl})
	} else {
		m.Imports = append(m.Imports,
			wb.Import{Module: ownerName, Name: "memory", Kind: wb.KindMemory, Mem: lim},
			wb.Import{Module: ownerName, Name: "table", Kind: wb.KindTable, Table: tab},
			wb.Import{Module: ownerName, Name: "gl", Kind: wb.KindGlobal, GlobalType: i32, GlobalMut: true})
		gl = 0
	}
	sevenT := m.Type(nil, []byte{i32})
	seven := m.AddFunc(nil, []byte{i32}, nil, (&wb.Asm{}).I32Const(7).B)
	m.FuncNames = map[uint32]string{seven: "seven"}
	if owner {
		m.Elems = []wb.Elem{{Mode: 0, Offset: wb.CI32(0), Funcs: []uint32{seven}}}
	}
	for i, then := range lnkThens {
		a := (&wb.Asm{}).I32Const(LCellPre).LocalGet(0).Mem(0x36, 2, 0)
		a.GlobalGet(gl).I32Const(1).Op(0x6a).GlobalSet(gl)
		a.I32Const(LCellTab).I32Const(0).CallIndirect(sevenT, 0).Mem(0x36, 2, 0)
		if i >= lnkGrows {
			a.I32Const(1).MemoryGrow().Drop()
		}
		switch then {
		case KProcExit0:
			a.I32Const(0).Call(pe)
		case KProcExit3:
			a.I32Const(3).Call(pe)
		case KClose0:
			a.I32Const(0).Call(hc)
		case KClose7:
			a.I32Const(7).Call(hc)
		case KPanicError:
			a.I32Const(KPanicError).Call(hp)
		case KUnreachable:
			a.Unreachable()
		}
		a.I32Const(LCellPost).LocalGet(0).Mem(0x36, 2, 0).GlobalGet(gl)
		idx := m.AddFunc([]byte{i32}, []byte{i32}, nil, a.B)
		m.ExportFunc(fmt.Sprintf("poke%d", i), idx)
		m.FuncNames[idx] = "poke_" + kindNames[KLnk0+i]
	}
	pk := m.AddFunc(nil, []byte{i32}, nil, (&wb.Asm{}).I32Const(LCellPre).Mem(0x28, 2, 0).B)
	m.ExportFunc("peek", pk)
	m.FuncNames[pk] = "peek"
	return m.Encode()
}

func isSeq(k int) bool { return k >= KSeq0 && k < KSeq0+nSeq }
func seqParts(k int) (first, then int) {
	return (k - KSeq0) / len(seqThens), seqThens[(k-KSeq0)%len(seqThens)]
}

func kindNames0(k int) string {
	switch k {
	case KProcExit0:
		return "procexit0"
	case KProcExit3:
		return "procexit3"
	case KClose0:
		return "close0"
	case KClose7:
		return "close7"
	case KPanicError:
		return "panic-error"
	case KUnreachable:
		return "unreachable"
	}
	panic("kindNames0")
}

// memory shapes of module X
const (
	xOwn      = iota // own unshared memory
	xNone            // no memory
	xShared          // own shared memory
	xImported        // unshared memory imported from instance "q"
	nXMem
)

// buildQ emits the instance that only exports an unshared memory.
func buildQ() []byte {
	m := &wb.Module{Mem: &wb.Limits{Min: 1, Max: 1, HasMax: true}}
	m.Exports = append(m.Exports, wb.Export{Name: "memory", Kind: wb.KindMemory, Idx: 0})
	return m.Encode()
}

// buildX emits module X for one memory shape: one exported function per sequence kind,
// seq_i(k) -> g : g += 1 ; [store k if it has a memory] ; first(k) ; then ; g += 100.
func buildX(memShape int) []byte {
	m := &wb.Module{}
	i32 := wb.I32
	hp := m.ImportFunc(hostModName, "panic", []byte{i32}, nil)
	hc := m.ImportFunc(hostModName, "close", []byte{i32}, nil)
	pe := m.ImportFunc(wasiModName, "proc_exit", []byte{i32}, nil)
	var firsts [nSeqFirsts]uint32
	firsts[seqAHostNop] = m.ImportFunc("A", "hostnop", []byte{i32}, []byte{i32})
	firsts[seqAIndirect] = m.ImportFunc("A", "indirect", []byte{i32, i32}, []byte{i32})
	firsts[seqAGrow] = m.ImportFunc("A", "grow0", []byte{i32}, []byte{i32})
	firsts[seqBIndirect] = m.ImportFunc("B", "indirect", []byte{i32, i32}, []byte{i32})
	firsts[seqBGrow] = m.ImportFunc("B", "grow0", []byte{i32}, []byte{i32})
	firsts[seqBDirect] = m.ImportFunc("B", "direct", []byte{i32, i32}, []byte{i32})
	switch memShape {
	case xOwn:
		m.Mem = &wb.Limits{Min: 1, Max: 1, HasMax: true}
	case xShared:
		m.Mem = &wb.Limits{Min: 1, Max: 1, HasMax: true, Shared: true}
	case xImported:
		m.Imports = append(m.Imports, wb.Import{Module: "q", Name: "memory", Kind: wb.KindMemory, Mem: wb.Limits{Min: 1, Max: 1, HasMax: true}})
	}
	g := m.AddGlobal(i32, true, wb.CI32(0))
	m.Exports = append(m.Exports, wb.Export{Name: "g", Kind: wb.KindGlobal, Idx: g})
	m.FuncNames = map[uint32]string{}
	for i := 0; i < nSeq; i++ {
		first, then := seqParts(KSeq0 + i)
		a := (&wb.Asm{}).GlobalGet(g).I32Const(1).Op(0x6a).GlobalSet(g)
		if memShape != xNone {
			a.I32Const(0).LocalGet(0).Mem(0x36, 2, 0)
		}
		switch first {
		case seqAIndirect, seqBIndirect, seqBDirect:
			a.I32Const(KOk).LocalGet(0).Call(firsts[first]).Drop()
		default:
			a.LocalGet(0).Call(firsts[first]).Drop()
		}
		switch then {
		case KProcExit0:
			a.I32Const(0).Call(pe)
		case KProcExit3:
			a.I32Const(3).Call(pe)
		case KClose0:
			a.I32Const(0).Call(hc)
		case KClose7:
			a.I32Const(7).Call(hc)
		case KPanicError:
			a.I32Const(KPanicError).Call(hp)
		case KUnreachable:
			a.Unreachable()
		}
		a.GlobalGet(g).I32Const(100).Op(0x6a).GlobalSet(g).GlobalGet(g)
		idx := m.AddFunc([]byte{i32}, []byte{i32}, nil, a.B)
		m.ExportFunc(fmt.Sprintf("seq%d", i), idx)
		m.FuncNames[idx] = "seq_" + kindNames[KSeq0+i]
	}
	return m.Encode()
}

// aoobTable: every family of atomic instruction that takes the memory's lock / waiter list in the
// interpreter (or a Go call in the compiler), at address 65536 (aligned for every width, out of bounds).
type aoobKind struct {
	name  string
	op    uint32 // 0xfe sub-opcode
	align uint32 // natural alignment exponent (required by validation)
	args  []byte // operand types after the address
}

var aoobTable = func() []aoobKind {
	t := []aoobKind{
		{"aoob-i32.load", 0x10, 2, nil}, {"aoob-i64.load", 0x11, 3, nil},
		{"aoob-i32.store", 0x17, 2, []byte{wb.I32}}, {"aoob-i64.store", 0x18, 3, []byte{wb.I64}},
	}
	forms := []struct {
		suffix string
		align  uint32
		vt     byte
	}{{"i32.rmw", 2, wb.I32}, {"i64.rmw", 3, wb.I64}, {"i32.rmw8", 0, wb.I32}, {"i32.rmw16", 1, wb.I32},
		{"i64.rmw8", 0, wb.I64}, {"i64.rmw16", 1, wb.I64}, {"i64.rmw32", 2, wb.I64}}
	for _, o := range []struct {
		name string
		base uint32
		n    int
	}{{"add", 0x1e, 1}, {"and", 0x2c, 1}, {"xchg", 0x41, 1}, {"cmpxchg", 0x48, 2}} {
		for i, f := range forms {
			args := []byte{f.vt}
			if o.n == 2 {
				args = []byte{f.vt, f.vt}
			}
			t = append(t, aoobKind{"aoob-" + f.suffix + "." + o.name, o.base + uint32(i), f.align, args})
		}
	}
	t = append(t, aoobKind{"aoob-notify", 0x00, 2, []byte{wb.I32}},
		aoobKind{"aoob-wait32", 0x01, 2, []byte{wb.I32, wb.I64}}, aoobKind{"aoob-wait64", 0x02, 3, []byte{wb.I64, wb.I64}})
	if len(t) != nAOOB {
		panic("nAOOB")
	}
	return t
}()

func isAOOB(k int) bool { return k >= KAOOB0 && k < KAOOB0+nAOOB }

const NBKinds = KRec1024 + 1 // kinds available in the plain instance B

var kindNames = func() (n [NAllKinds]string) {
	for i, s := range []string{"ok", "deepok", "unreachable", "div0", "overflow", "invalidconv", "oobstore", "oobfill", "tableoob", "cinull",
		"cimismatch", "cioob", "unaligned", "okatomic"} {
		n[i] = s
	}
	for i, a := range aoobTable {
		n[KAOOB0+i] = a.name
	}
	for i, s := range []string{"rec0", "rec1", "rec64", "rec1024", "panic-error", "panic-string", "panic-runtime", "panic-customerr",
		"panic-value", "procexit0", "procexit3", "close0", "close7", "deephost", "closeb7"} {
		n[KRec0+i] = s
	}
	for i := 0; i < nSeq; i++ {
		n[KSeq0+i] = seqFirstNames[i/len(seqThens)] + "+" + kindNames0(seqThens[i%len(seqThens)])
	}
	for i, then := range lnkThens {
		what := "poke+"
		if i >= lnkGrows {
			what = "grow+"
		}
		if then == KOk {
			n[KLnk0+i] = what + "ok"
		} else {
			n[KLnk0+i] = what + kindNames0(then)
		}
	}
	n[KLnkClose] = "closego"
	for i, s := range n {
		if s == "" {
			panic(fmt.Sprint("kind without a name: ", i))
		}
	}
	return
}()

// DeepFrames is below the interpreter's frame ceiling (2000) and far above the compiler's initial 10 KiB stack.
const DeepFrames = 1500

func isRec(k int) bool { return k >= KRec0 && k <= KRec1024 }

var recLocals = map[int]int{KRec0: 0, KRec1: 1, KRec64: 64, KRec1024: 1024}

// memory cells (byte addresses, i32 each) observed after every step
const (
	CellPre   = 0  // written before the failing instruction of an op
	CellPost  = 8  // written after it (must stay untouched when the op fails)
	CellAux   = 16 // result of the possibly-trapping instruction
	CellCatch = 24 // value returned by the re-entering host function
	CellAtom  = 32 // counter incremented by okatomic with i32.atomic.rmw.add
	CellAtomR = 40 // okatomic: 10*notify result + wait32 result (= 1: nobody woken, "not-equal")
	TailStart = 65520
	PageSize  = 65536
)

const (
	hostModName = "H"
	wasiModName = "wasi_snapshot_preview1"
)

// Host import indexes in A.
const (
	impPanic = iota
	impClose
	impReenter
	impProcExit
	impBDirect
	impGC
	impCloseB
	impNop
	nImportsA
)

type guestInfo struct {
	bin []byte
}

func pre(a *wb.Asm, g uint32, kLocal uint32) *wb.Asm {
	return a.I32Const(CellPre).LocalGet(kLocal).Mem(0x36, 2, 0).
		GlobalGet(g).I32Const(1).Op(0x6a).GlobalSet(g)
}

func post(a *wb.Asm, g uint32, kLocal uint32) *wb.Asm {
	return a.I32Const(CellPost).LocalGet(kLocal).Mem(0x36, 2, 0).
		GlobalGet(g).I32Const(100).Op(0x6a).GlobalSet(g)
}

// buildGuest emits instance A (isA, with host imports and the import from B) or the plain instance B.
func buildGuest(isA bool) []byte {
	m := &wb.Module{}
	i32 := wb.I32
	nk := NBKinds
	if isA {
		nk = NKinds
		m.ImportFunc(hostModName, "panic", []byte{i32}, nil)
		m.ImportFunc(hostModName, "close", []byte{i32}, nil)
		m.ImportFunc(hostModName, "reenter", []byte{i32, i32, i32, i32, i32}, []byte{i32})
		m.ImportFunc(wasiModName, "proc_exit", []byte{i32}, nil)
		m.ImportFunc("B", "direct", []byte{i32, i32}, []byte{i32})
		m.ImportFunc(hostModName, "gc", nil, []byte{i32})
		m.ImportFunc(hostModName, "closeb", []byte{i32}, nil)
		m.ImportFunc(hostModName, "nop", []byte{i32}, []byte{i32})
	}
	m.Mem = &wb.Limits{Min: 1, Max: 1, HasMax: true, Shared: true} // shared: memory.atomic.wait needs it
	g := m.AddGlobal(i32, true, wb.CI32(0))
	skind := m.AddGlobal(i32, true, wb.CI32(0))
	sk := m.AddGlobal(i32, true, wb.CI32(0))
	m.Exports = append(m.Exports,
		wb.Export{Name: "memory", Kind: wb.KindMemory, Idx: 0},
		wb.Export{Name: "g", Kind: wb.KindGlobal, Idx: g},
		wb.Export{Name: "skind", Kind: wb.KindGlobal, Idx: skind},
		wb.Export{Name: "sk", Kind: wb.KindGlobal, Idx: sk},
	)
	m.Tables = []wb.Table{{Elem: wb.FuncRef, Lim: wb.Limits{Min: uint32(nk + 2), Max: uint32(nk + 2), HasMax: true}}}
	opType := m.Type([]byte{i32}, nil)
	m.FuncNames = map[uint32]string{}

	// recursion helpers: rec_N(x) -> i32 with N i64 locals that stay live across the self call.
	recIdx := map[int]uint32{}
	for _, k := range []int{KRec0, KRec1, KRec64, KRec1024} {
		n := recLocals[k]
		self := m.NumImportedFuncs() + uint32(len(m.Funcs))
		a := &wb.Asm{}
		for i := 0; i < n; i++ {
			a.LocalGet(0).Op(0xad).I64Const(int64(i)).Op(0x7c).LocalSet(uint32(1 + i)) // i64.extend_i32_u ; i64.add
		}
		a.LocalGet(0).I32Const(1).Op(0x6a).Call(self)
		for i := 0; i < n; i++ {
			a.LocalGet(uint32(1 + i)).Op(0xa7).Op(0x6a) // i32.wrap_i64 ; i32.add
		}
		locals := make([]byte, n)
		for i := range locals {
			locals[i] = wb.I64
		}
		idx := m.AddFunc([]byte{i32}, []byte{i32}, locals, a.B)
		if idx != self {
			panic("rec index")
		}
		recIdx[k] = idx
		m.FuncNames[idx] = "rec_" + kindNames[k]
	}
	// down(n) -> i32 = n==0 ? 0 : down(n-1)+1 : bounded recursion that returns
	down := m.NumImportedFuncs() + uint32(len(m.Funcs))
	m.AddFunc([]byte{i32}, []byte{i32}, nil, (&wb.Asm{}).LocalGet(0).Op(0x45).If(wb.I32).I32Const(0).Else().
		LocalGet(0).I32Const(1).Op(0x6b).Call(down).I32Const(1).Op(0x6a).End().B)
	m.FuncNames[down] = "down"
	// downh(n) -> i32 = n==0 ? gc() : downh(n-1)+1 : the host runs a garbage collection at the deepest point
	var downh uint32
	if isA {
		downh = m.NumImportedFuncs() + uint32(len(m.Funcs))
		m.AddFunc([]byte{i32}, []byte{i32}, nil, (&wb.Asm{}).LocalGet(0).Op(0x45).If(wb.I32).Call(impGC).Else().
			LocalGet(0).I32Const(1).Op(0x6b).Call(downh).I32Const(1).Op(0x6a).End().B)
		m.FuncNames[downh] = "downh"
	}
	// a function of another type for the signature-mismatched call_indirect
	other := m.AddFunc(nil, []byte{wb.I64}, nil, (&wb.Asm{}).I64Const(7).B)
	m.FuncNames[other] = "othertype"

	// op functions
	ops := make([]uint32, nk)
	for k := 0; k < nk; k++ {
		a := &wb.Asm{}
		pre(a, g, 0)
		switch k {
		case KOk:
		case KDeepOk:
			a.I32Const(CellAux).I32Const(DeepFrames).Call(down).Mem(0x36, 2, 0)
		case KDeepHost:
			a.I32Const(CellAux).I32Const(DeepFrames).Call(downh).Mem(0x36, 2, 0)
		case KUnreachable:
			a.Unreachable()
		case KDivZero:
			a.I32Const(CellAux).LocalGet(0).I32Const(0).Op(0x6e).Mem(0x36, 2, 0) // i32.div_u
		case KOverflow:
			a.I32Const(CellAux).I32Const(-2147483648).I32Const(-1).Op(0x6d).Mem(0x36, 2, 0) // i32.div_s
		case KInvalidConv:
			a.I32Const(CellAux).F32Const(0x7fc00000).Op(0xa8).Mem(0x36, 2, 0) // i32.trunc_f32_s
		case KOOBStore:
			a.I32Const(PageSize-4).I64Const(-1).Mem(0x37, 3, 0) // i64.store
		case KOOBFill:
			a.I32Const(PageSize - 6).I32Const(0xAB).I32Const(10).MemoryFill()
		case KTableOOB:
			a.I32Const(1000).TableGet(0).Drop()
		case KCINull:
			a.LocalGet(0).I32Const(int32(nk)).CallIndirect(opType, 0)
		case KCIMismatch:
			a.LocalGet(0).I32Const(int32(nk+1)).CallIndirect(opType, 0)
		case KCIOOB:
			a.LocalGet(0).I32Const(1000).CallIndirect(opType, 0)
		case KOkAtomic:
			a.I32Const(CellAtom).I32Const(1).AtomicMem(0x1e, 2, 0).Drop() // i32.atomic.rmw.add
			a.I32Const(CellAtomR)
			a.I32Const(CellAtom).I32Const(0).AtomicMem(0x00, 2, 0).I32Const(10).Op(0x6c) // notify(count 0) * 10
			// wait32(addr, expected = current+1 (mismatch), timeout 0) -> 1 "not-equal"
			a.I32Const(CellAtom).I32Const(CellAtom).AtomicMem(0x10, 2, 0).I32Const(1).Op(0x6a).I64Const(0).AtomicMem(0x01, 2, 0)
			a.Op(0x6a).Mem(0x36, 2, 0)
		case KUnaligned:
			a.I32Const(CellAux).I32Const(1).AtomicMem(0x10, 2, 0).Mem(0x36, 2, 0) // i32.atomic.load at address 1
		case KRec0, KRec1, KRec64, KRec1024:
			a.I32Const(CellAux).I32Const(0).Call(recIdx[k]).Mem(0x36, 2, 0)
		case KPanicError, KPanicString, KPanicRuntime, KPanicCustomErr, KPanicValue:
			a.I32Const(int32(k)).Call(impPanic)
		case KProcExit0:
			a.I32Const(0).Call(impProcExit)
		case KProcExit3:
			a.I32Const(3).Call(impProcExit)
		case KClose0:
			a.I32Const(0).Call(impClose)
		case KClose7:
			a.I32Const(7).Call(impClose)
		case KCloseB7:
			a.I32Const(7).Call(impCloseB)
		}
		if isAOOB(k) {
			ak := aoobTable[k-KAOOB0]
			a.I32Const(PageSize)
			for _, t := range ak.args {
				a.Const(t, 0)
			}
			a.AtomicMem(ak.op, ak.align, 0)
			if ak.op != 0x17 && ak.op != 0x18 { // everything but the stores leaves a result
				a.Drop()
			}
		}
		post(a, g, 0)
		ops[k] = m.AddFunc([]byte{i32}, nil, nil, a.B)
		m.FuncNames[ops[k]] = "op_" + kindNames[k]
	}
	m.Elems = []wb.Elem{
		{Mode: 0, Offset: wb.CI32(0), Funcs: ops},
		{Mode: 0, Offset: wb.CI32(int32(nk + 1)), Funcs: []uint32{other}},
	}

	// direct(kind,k) -> g : br_table dispatch to a direct call
	{
		a := &wb.Asm{}
		a.Block(wb.Void) // OUT
		for i := 0; i < nk; i++ {
			a.Block(wb.Void)
		}
		labels := make([]uint32, nk)
		for i := range labels {
			labels[i] = uint32(i)
		}
		a.LocalGet(0).BrTable(labels, uint32(nk))
		for j := 0; j < nk; j++ {
			a.End()
			a.LocalGet(1).Call(ops[j]).Br(uint32(nk - 1 - j))
		}
		a.End()
		a.GlobalGet(g)
		idx := m.AddFunc([]byte{i32, i32}, []byte{i32}, nil, a.B)
		m.ExportFunc("direct", idx)
		m.FuncNames[idx] = "direct"
	}
	// indirect(kind,k) -> g
	{
		a := (&wb.Asm{}).LocalGet(1).LocalGet(0).CallIndirect(opType, 0).GlobalGet(g)
		idx := m.AddFunc([]byte{i32, i32}, []byte{i32}, nil, a.B)
		m.ExportFunc("indirect", idx)
		m.FuncNames[idx] = "indirect"
	}
	// grow0(k) -> g : own effects around memory.grow(0)
	{
		a := &wb.Asm{}
		pre(a, g, 0)
		a.I32Const(0).MemoryGrow().Drop()
		post(a, g, 0)
		a.GlobalGet(g)
		idx := m.AddFunc([]byte{i32}, []byte{i32}, nil, a.B)
		m.ExportFunc("grow0", idx)
		m.FuncNames[idx] = "grow0"
	}
	if isA {
		// hostnop(k) -> g : own effects around a host call that does nothing
		{
			a := &wb.Asm{}
			pre(a, g, 0)
			a.LocalGet(0).Call(impNop).Drop()
			post(a, g, 0)
			a.GlobalGet(g)
			idx := m.AddFunc([]byte{i32}, []byte{i32}, nil, a.B)
			m.ExportFunc("hostnop", idx)
			m.FuncNames[idx] = "hostnop"
		}
		// viab(kind,k) -> g : own effects around a call of the function imported from B
		{
			a := &wb.Asm{}
			pre(a, g, 1)
			a.LocalGet(0).LocalGet(1).Call(impBDirect).Drop()
			post(a, g, 1)
			a.GlobalGet(g)
			idx := m.AddFunc([]byte{i32, i32}, []byte{i32}, nil, a.B)
			m.ExportFunc("viab", idx)
			m.FuncNames[idx] = "viab"
		}
		// viahost(depth,mode,tgt,kind,k) -> g : own effects around a host call that re-enters a guest
		{
			a := &wb.Asm{}
			pre(a, g, 4)
			a.I32Const(CellCatch).LocalGet(0).LocalGet(1).LocalGet(2).LocalGet(3).LocalGet(4).Call(impReenter).Mem(0x36, 2, 0)
			post(a, g, 4)
			a.GlobalGet(g)
			idx := m.AddFunc([]byte{i32, i32, i32, i32, i32}, []byte{i32}, nil, a.B)
			m.ExportFunc("viahost", idx)
			m.FuncNames[idx] = "viahost"
		}
	}
	return m.Encode()
}

// buildStarter emits module C: it imports direct/skind/sk from target ("A" or "B") and runs
// direct(skind, sk) either as its wasm start function or as the exported function "_start".
func buildStarter(target string, startSection bool) []byte {
	m := &wb.Module{}
	i32 := wb.I32
	d := m.ImportFunc(target, "direct", []byte{i32, i32}, []byte{i32})
	m.Imports = append(m.Imports,
		wb.Import{Module: target, Name: "skind", Kind: wb.KindGlobal, GlobalType: i32, GlobalMut: true},
		wb.Import{Module: target, Name: "sk", Kind: wb.KindGlobal, GlobalType: i32, GlobalMut: true})
	m.Mem = &wb.Limits{Min: 1}
	run := m.AddFunc(nil, nil, nil, (&wb.Asm{}).I32Const(0).GlobalGet(0).GlobalGet(1).Call(d).Mem(0x36, 2, 0).B)
	m.FuncNames = map[uint32]string{run: "run"}
	if startSection {
		m.Start = &run
	} else {
		m.ExportFunc("_start", run)
	}
	m.ExportFunc("ping", m.AddFunc(nil, []byte{i32}, nil, (&wb.Asm{}).I32Const(7).B))
	return m.Encode()
}

// selfKinds are the kinds a self-starter can perform in its own start function (the host's "calling module"
// is then the NEW instance).
var selfKinds = []int{KOk, KUnreachable, KPanicError, KProcExit0, KProcExit3, KClose0, KClose7}

// buildSelfStarter emits a module whose start function (start section or "_start") itself ends in the kind.
func buildSelfStarter(kind int, startSection bool) []byte {
	m := &wb.Module{}
	i32 := wb.I32
	hp := m.ImportFunc(hostModName, "panic", []byte{i32}, nil)
	hc := m.ImportFunc(hostModName, "close", []byte{i32}, nil)
	pe := m.ImportFunc(wasiModName, "proc_exit", []byte{i32}, nil)
	m.Mem = &wb.Limits{Min: 1}
	a := (&wb.Asm{}).I32Const(0).I32Const(1).Mem(0x36, 2, 0)
	switch kind {
	case KOk:
	case KUnreachable:
		a.Unreachable()
	case KPanicError:
		a.I32Const(KPanicError).Call(hp)
	case KProcExit0:
		a.I32Const(0).Call(pe)
	case KProcExit3:
		a.I32Const(3).Call(pe)
	case KClose0:
		a.I32Const(0).Call(hc)
	case KClose7:
		a.I32Const(7).Call(hc)
	default:
		panic("self kind")
	}
	a.I32Const(8).I32Const(1).Mem(0x36, 2, 0)
	run := m.AddFunc(nil, nil, nil, a.B)
	m.FuncNames = map[uint32]string{run: "run"}
	if startSection {
		m.Start = &run
	} else {
		m.ExportFunc("_start", run)
	}
	m.ExportFunc("ping", m.AddFunc(nil, []byte{i32}, nil, (&wb.Asm{}).I32Const(7).B))
	return m.Encode()
}
