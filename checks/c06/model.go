package main

import (
	"fmt"
	"strings"
)

// Reference model: deliberately boring. One struct per instance holding the observed memory
// cells, the counter global and closed(exitCode). The functions below mirror the guest functions
// of guest.go statement by statement; a failure is a Go panic carrying the documented error
// class, so "effects made before the failure persist, nothing after it happens" is simply Go's
// own semantics of panic.

type instM struct {
	Pre, Post, Aux, Catch uint32
	Atom, AtomR           uint32
	G                     uint32
	Closed                bool
	Code                  uint32
}

func (t *instM) String() string {
	// tail=0: no op ever completes a write to it (the spec's rule: an out-of-bounds store / fill
	// writes nothing); aux is only written by deepok (a trapping instruction produces no value to store).
	return fmt.Sprintf("pre=%d post=%d aux=%d catch=%d atom=%d/%d tail=0 g=%d closed=%v size=%d", t.Pre, t.Post, t.Aux, t.Catch, t.Atom, t.AtomR, t.G, t.Closed, PageSize)
}

// obs is String with the memory part left out for a closed instance of a world with a custom allocator (the buffer
// has been handed back to the allocator).
func (t *instM) obs(alloc bool) string {
	if alloc && t.Closed {
		return fmt.Sprintf("mem=released g=%d closed=true", t.G)
	}
	return t.String()
}

func (t *instM) close(code uint32) {
	if !t.Closed { // only the first close counts
		t.Closed, t.Code = true, code
	}
}

// NReg: the name "n" is registered (an open instance started through nfn*). "m" is never registered after a step:
// msec* instances are closed by the harness as soon as they have started.
type modelW struct {
	A, B instM
	NReg bool
	// raisedID: the most recent host level raised an error value (the caller must receive that very value)
	raisedID bool
	X        [nXMem]instM // module X per memory shape (only G and closed(code) are used)
	XIn      [nXMem]bool  // instantiated
	QIn      bool         // q, the owner of the memory that ximp imports, exists
	QCell    uint32       // cell 0 of q's memory
	alloc    bool         // the world has a custom memory allocator (allocModes)
	L        [nLFam]lfamM
}

// lfamM: one linked family. The memory cells, the table and the global belong to the owner but are state of the
// family: every instance reads and writes them, whichever instances have ended.
type lfamM struct {
	Inst           [3]instM // only Closed / Code are used
	In             [3]bool
	Pre, Post, Tab uint32
	GL             uint32
	Grown          bool // the unshared memory has been grown to its maximum of 2 pages
}

func (w *modelW) observeL() string {
	var p [nLFam]string
	for f := range w.L {
		p[f] = "-"
		fm := &w.L[f]
		if !fm.In[0] {
			continue
		}
		st, anyOpen := "", false
		for r := range fm.Inst {
			switch {
			case !fm.In[r]:
				st += lRoleNames[r] + "=- "
			case fm.Inst[r].Closed:
				st += lRoleNames[r] + "=closed "
			default:
				st += lRoleNames[r] + "=open "
				anyOpen = true
			}
		}
		if w.alloc && fm.Inst[0].Closed {
			p[f] = fmt.Sprintf("%smem=released gl=%d", st, fm.GL)
			continue
		}
		peek := "-"
		if anyOpen {
			peek = fmt.Sprint(fm.Pre)
		}
		size := PageSize
		if fm.Grown {
			size = 2 * PageSize
		}
		p[f] = fmt.Sprintf("%spre=%d post=%d tab=%d size=%d views=same gl=%d peek=%s", st, fm.Pre, fm.Post, fm.Tab, size, fm.GL, peek)
	}
	return strings.Join(p[:], " | ")
}

// lnk mirrors a letter of a linked family: exactly the instance whose code executed the exit / was closed ends;
// the memory, table and global stay what they are for every other instance of the family.
func (w *modelW) lnk(fam, role, kind int, k uint32) (string, uint32) {
	fm := &w.L[fam]
	fm.In[0] = true // the harness instantiates the owner as soon as the family is used
	if !fm.In[role] {
		if fm.Inst[0].Closed {
			return "import-missing", 0 // a closed owner is not in the registry any more
		}
		fm.In[role] = true
	}
	me := &fm.Inst[role]
	if kind == KLnkClose {
		me.close(0)
		return "ok", 0
	}
	then := lnkThens[kind-KLnk0]
	ret, class := w.call(me, func() uint32 {
		fm.Pre = k
		fm.GL++
		fm.Tab = 7
		if kind-KLnk0 >= lnkGrows && fam == lUnshared {
			fm.Grown = true // 1 -> 2 pages; at the maximum memory.grow returns -1 and changes nothing
		}
		switch then {
		case KProcExit0, KProcExit3:
			code := uint32(0)
			if then == KProcExit3 {
				code = 3
			}
			me.close(code)
			panic(mfail{fmt.Sprintf("exit:%d", code)})
		case KClose0:
			me.close(0)
		case KClose7:
			me.close(7)
		case KPanicError:
			panic(mfail{"panic:error"})
		case KUnreachable:
			panic(mfail{"trap:unreachable"})
		}
		fm.Post = k
		return fm.GL
	})
	if class != "ok" {
		ret = 0
	}
	return class, ret
}

func (w *modelW) observeX() string {
	var p [nXMem]string
	for i := range w.X {
		p[i] = "-"
		if w.XIn[i] {
			p[i] = fmt.Sprintf("g=%d,closed=%v", w.X[i].G, w.X[i].Closed)
		}
	}
	out := strings.Join(p[:], " ")
	if w.QIn {
		out += fmt.Sprintf(" q=%d qclosed=false", w.QCell)
	}
	return out
}

// plain mirrors grow0 / hostnop: own effects around an instruction that changes nothing.
func (w *modelW) plain(t *instM, k uint32) {
	t.Pre = k
	t.G++
	t.Post = k
	t.G += 100
}

// seq mirrors seq_i(k) of module X: exactly the instance whose code executes the exit is closed.
func (w *modelW) seq(ms int, kind int, k uint32) (string, uint32) {
	if !w.XIn[ms] {
		if ms == xImported {
			w.QIn = true // the harness instantiates q before X
		}
		if w.A.Closed || w.B.Closed {
			return "import-missing", 0 // X imports functions of both; a closed instance is not in the registry
		}
		w.XIn[ms] = true
	}
	x := &w.X[ms]
	first, then := seqParts(kind)
	ret, class := w.call(x, func() uint32 {
		x.G++
		if ms == xImported {
			w.QCell = k // X stores k to cell 0 of the memory it has: here q's
		}
		switch first {
		case seqAHostNop, seqAGrow:
			w.plain(&w.A, k)
		case seqBGrow:
			w.plain(&w.B, k)
		case seqAIndirect:
			w.direct(&w.A, KOk, k)
		case seqBIndirect, seqBDirect:
			w.direct(&w.B, KOk, k)
		}
		switch then {
		case KProcExit0, KProcExit3:
			code := uint32(0)
			if then == KProcExit3 {
				code = 3
			}
			x.close(code)
			panic(mfail{fmt.Sprintf("exit:%d", code)})
		case KClose0:
			x.close(0)
		case KClose7:
			x.close(7)
		case KPanicError:
			panic(mfail{"panic:error"})
		case KUnreachable:
			panic(mfail{"trap:unreachable"})
		}
		x.G += 100
		return x.G
	})
	if class != "ok" {
		ret = 0
	}
	return class, ret
}

func (w *modelW) registry() string {
	if w.NReg {
		return "n=open m=nil"
	}
	return "n=nil m=nil"
}

type mfail struct{ class string }

var trapClass = map[int]string{
	KUnreachable: "trap:unreachable", KDivZero: "trap:div0", KOverflow: "trap:overflow", KInvalidConv: "trap:invalidconv",
	KOOBStore: "trap:oobmem", KOOBFill: "trap:oobmem", KTableOOB: "trap:table", KCINull: "trap:table", KCIMismatch: "trap:cimismatch",
	KCIOOB: "trap:table", KUnaligned: "trap:unaligned",
	KRec0: "stackoverflow", KRec1: "stackoverflow", KRec64: "stackoverflow", KRec1024: "stackoverflow",
	KPanicError: "panic:error", KPanicString: "panic:string", KPanicRuntime: "panic:runtime", KPanicCustomErr: "panic:customerr:77", KPanicValue: "panic:value",
}

// op mirrors op_<kind>(k) executing in instance t. Host functions are only reachable from A, so
// the "calling module" of proc_exit / close is always A.
func (w *modelW) op(t *instM, kind int, k uint32) {
	t.Pre = k
	t.G++
	switch kind {
	case KOk:
	case KDeepOk:
		t.Aux = DeepFrames
	case KOkAtomic:
		t.Atom++
		t.AtomR = 1 // notify wakes nobody (0), wait32 with a different expected value returns 1
	case KDeepHost:
		t.Aux = DeepFrames + 1 // the host function at the bottom returns 1
	case KProcExit0, KProcExit3:
		code := uint32(0)
		if kind == KProcExit3 {
			code = 3
		}
		w.A.close(code)
		panic(mfail{fmt.Sprintf("exit:%d", code)}) // proc_exit panics with the exit error it was called with
	case KClose0:
		w.A.close(0) // CloseWithExitCode returns normally: the guest keeps running
	case KClose7:
		w.A.close(7)
	case KCloseB7:
		w.B.close(7) // the caller (A) is not affected
	default:
		if isAOOB(kind) {
			panic(mfail{"trap:oobmem"})
		}
		panic(mfail{trapClass[kind]})
	}
	t.Post = k
	t.G += 100
}

func (w *modelW) direct(t *instM, kind int, k uint32) uint32 {
	w.op(t, kind, k)
	return t.G
}

func (w *modelW) viab(kind int, k uint32) uint32 {
	a := &w.A
	a.Pre = k
	a.G++
	w.direct(&w.B, kind, k)
	a.Post = k
	a.G += 100
	return a.G
}

func (w *modelW) viahost(depth, mode, tgt uint32, kind int, k uint32) uint32 {
	a := &w.A
	a.Pre = k
	a.G++
	a.Catch = w.reenter(depth, mode, tgt, kind, k)
	a.Post = k
	a.G += 100
	return a.G
}

// call mirrors api.Function.Call on a function of module m: a failure becomes the returned error;
// a call that ran to completion on a closed module returns the module's exit error.
func (w *modelW) call(m *instM, body func() uint32) (ret uint32, class string) {
	defer func() {
		if r := recover(); r != nil {
			f, ok := r.(mfail)
			if !ok {
				panic(r)
			}
			ret, class = 0, f.class
		}
	}()
	ret = body()
	if m != nil && m.Closed {
		return 0, fmt.Sprintf("exit:%d", m.Code)
	}
	return ret, "ok"
}

func (w *modelW) reenter(depth, mode, tgt uint32, kind int, k uint32) uint32 {
	var class string
	if depth > 1 {
		_, class = w.call(&w.A, func() uint32 { return w.viahost(depth-1, mode, tgt, kind, k) })
	} else {
		t := &w.A
		if tgt == 1 {
			t = &w.B
		}
		_, class = w.call(t, func() uint32 { return w.direct(t, kind, k) })
	}
	style := mode >> 4
	switch style {
	case styleExit0:
		w.raisedID = true
		panic(mfail{"exit:0"}) // a host function panicking with an exit error it made: the call returns it; nothing is closed
	case styleExit9:
		w.raisedID = true
		panic(mfail{"exit:9"})
	}
	if class != "ok" {
		if mode&15 == depth {
			w.raisedID = false
			return classCode(class)
		}
		switch style {
		case styleUnwrap, styleErrorf, styleJoin:
			// an ordinary panic with an own error value: the caller gets that value; an exit error inside it
			// is reachable with errors.As only (it is no longer "the" error)
			if strings.HasPrefix(class, "exit:") {
				class = "exit-wrapped:" + strings.TrimPrefix(class, "exit:")
			}
		case styleString:
			w.raisedID = false
			panic(mfail{"panic:string"})
		}
		w.raisedID = true
		panic(mfail{class})
	}
	return 0
}

// step mirrors world.step.
func (w *modelW) step(l letter, k uint32) (string, uint32) {
	var ret uint32
	var class string
	switch l.Shape {
	case ShDirectA, ShIndirectA:
		ret, class = w.call(&w.A, func() uint32 { return w.direct(&w.A, l.Kind, k) })
	case ShDirectB, ShIndirectB:
		ret, class = w.call(&w.B, func() uint32 { return w.direct(&w.B, l.Kind, k) })
	case ShViaB:
		ret, class = w.call(&w.A, func() uint32 { return w.viab(l.Kind, k) })
	case ShHost1P, ShHost2P, ShHost5P, ShHost1C, ShHost5CI, ShHost5CO, ShHost1PB, ShHost1CB,
		ShHost1W1, ShHost1W2, ShHost1W3, ShHost1S, ShHost1E0, ShHost1E9, ShHost5W1, ShHost2W3:
		d, m, t := hostArgs(l.Shape)
		w.raisedID = false
		failed := false
		ret, class = w.call(&w.A, func() uint32 {
			defer func() {
				if r := recover(); r != nil {
					failed = true
					panic(r)
				}
			}()
			return w.viahost(d, m, t, l.Kind, k)
		})
		if failed && w.raisedID {
			class += "+id"
		}
	case ShStartSecA, ShStartSecB, ShStartFnA, ShStartFnB:
		t := &w.A
		if shapes[l.Shape].target == 'B' {
			t = &w.B
		}
		if t.Closed {
			// a closed module is removed from the runtime ("making its name available again"):
			// the import cannot be resolved and nothing runs.
			return "import-missing", 0
		}
		// the new instance itself is never closed by the op (the host closes its caller A, or B by name)
		_, class = w.call(nil, func() uint32 { return w.direct(t, l.Kind, k) })
		if (l.Shape == ShStartFnA || l.Shape == ShStartFnB) && class == "exit:0" {
			class = "ok" // documented: "_start" exiting with code zero is not an error
		}
		ret = 0
	case ShNFnA, ShNFnB, ShNFnSelf, ShMSecA, ShMSecB, ShMSecSelf:
		return w.namedStart(l, k)
	case ShXOwn, ShXNone, ShXShared, ShXImported:
		return w.seq(l.Shape-ShXOwn, l.Kind, k)
	case ShLuO, ShLuI1, ShLuI2, ShLsO, ShLsI1, ShLsI2:
		return w.lnk((l.Shape-ShLuO)/3, (l.Shape-ShLuO)%3, l.Kind, k)
	case ShLookup:
		if !w.NReg {
			return "no-module", 0
		}
		return "ok", 7
	case ShCloseN:
		if !w.NReg {
			return "no-module", 0
		}
		w.NReg = false
		return "ok", 0
	}
	if class != "ok" {
		ret = 0
	}
	return class, ret
}

// namedStart mirrors the instantiation of "n" (start through ModuleConfig's "_start") or "m" (wasm start section).
func (w *modelW) namedStart(l letter, k uint32) (string, uint32) {
	sec := l.Shape >= ShMSecA
	self := l.Shape == ShNFnSelf || l.Shape == ShMSecSelf
	var t *instM
	if !self {
		t = &w.A
		if shapes[l.Shape].target == 'B' {
			t = &w.B
		}
		if t.Closed {
			return "import-missing", 0 // imports are resolved first
		}
	}
	if !sec && w.NReg {
		return "name-taken", 0 // registration precedes the ModuleConfig start functions: nothing ran
	}
	var n instM // the new instance; only its closed state matters
	var class string
	if self {
		_, class = w.call(&n, func() uint32 {
			switch l.Kind {
			case KOk:
			case KUnreachable:
				panic(mfail{"trap:unreachable"})
			case KPanicError:
				panic(mfail{"panic:error"})
			case KProcExit0, KProcExit3:
				code := uint32(0)
				if l.Kind == KProcExit3 {
					code = 3
				}
				n.close(code) // the calling module of proc_exit is the new instance
				panic(mfail{fmt.Sprintf("exit:%d", code)})
			case KClose0:
				n.close(0)
			case KClose7:
				n.close(7)
			}
			return 0
		})
	} else {
		_, class = w.call(&n, func() uint32 { return w.direct(t, l.Kind, k) })
	}
	switch {
	case class == "ok":
		if sec {
			return "ok", 1 // started, then closed by the harness
		}
		w.NReg = true
		return "ok", 1
	case class == "exit:0" && !sec:
		return "ok", 2 // documented: "_start" exiting with code zero is success; the returned module is closed
	}
	return class, 0 // failed or exited start: the new instance is closed and its name is free
}
