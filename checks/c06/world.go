package main

import (
	"context"
	"errors"
	"fmt"
	"hash/fnv"
	"runtime"
	"strings"
	"sync/atomic"
	"time"

	"github.com/tetratelabs/wazero"
	"github.com/tetratelabs/wazero/api"
	"github.com/tetratelabs/wazero/experimental"
	"github.com/tetratelabs/wazero/imports/wasi_snapshot_preview1"
	"github.com/tetratelabs/wazero/internal/wasmruntime"
	"github.com/tetratelabs/wazero/sys"
	"github.com/tetratelabs/wazero/verif/fw"
)

// ---------------------------------------------------------------- panic values and error classification

var errHostSentinel = errors.New("c06 host sentinel error")

type customErr struct{ Code int }

func (e *customErr) Error() string { return fmt.Sprintf("c06 custom error code=%d", e.Code) }

type customVal struct {
	A int
	B string
}

var theCustomVal = customVal{41, "c06-custom-value"}

const stringPanic = "c06 string panic"

var trapSentinels = []struct {
	name string
	err  error
}{
	{"stackoverflow", wasmruntime.ErrRuntimeStackOverflow},
	{"trap:invalidconv", wasmruntime.ErrRuntimeInvalidConversionToInteger},
	{"trap:overflow", wasmruntime.ErrRuntimeIntegerOverflow},
	{"trap:div0", wasmruntime.ErrRuntimeIntegerDivideByZero},
	{"trap:unreachable", wasmruntime.ErrRuntimeUnreachable},
	{"trap:oobmem", wasmruntime.ErrRuntimeOutOfBoundsMemoryAccess},
	{"trap:table", wasmruntime.ErrRuntimeInvalidTableAccess},
	{"trap:cimismatch", wasmruntime.ErrRuntimeIndirectCallTypeMismatch},
	{"trap:unaligned", wasmruntime.ErrRuntimeUnalignedAtomic},
	{"trap:sharedmem", wasmruntime.ErrRuntimeExpectedSharedMemory},
	{"trap:waiters", wasmruntime.ErrRuntimeTooManyWaiters},
}

// classify maps an error returned by Call / InstantiateModule to its documented kind, using only
// errors.Is / errors.As (and the message for non-error panic values, which cannot be unwrapped).
func classify(err error) string {
	if err == nil {
		return "ok"
	}
	var xe *sys.ExitError
	if errors.As(err, &xe) {
		// sys.ExitError documents the plain type assertion err.(*sys.ExitError) ("Don't wrap an exit error")
		if _, direct := err.(*sys.ExitError); !direct {
			return fmt.Sprintf("exit-wrapped:%d", xe.ExitCode())
		}
		return fmt.Sprintf("exit:%d", xe.ExitCode())
	}
	for _, s := range trapSentinels {
		if errors.Is(err, s.err) {
			return s.name
		}
	}
	if errors.Is(err, errHostSentinel) {
		return "panic:error"
	}
	var ce *customErr
	if errors.As(err, &ce) {
		return fmt.Sprintf("panic:customerr:%d", ce.Code)
	}
	var re runtime.Error
	if errors.As(err, &re) {
		return "panic:runtime"
	}
	msg := err.Error()
	switch {
	case strings.Contains(msg, stringPanic):
		return "panic:string"
	case strings.Contains(msg, fmt.Sprint(theCustomVal)):
		return "panic:value"
	case strings.Contains(msg, "not instantiated"):
		return "import-missing"
	case strings.Contains(msg, "has already been instantiated"):
		return "name-taken"
	}
	if i := strings.IndexByte(msg, '\n'); i > 0 {
		msg = msg[:i]
	}
	return "other:" + msg
}

// classCode is what the catching host function hands back to the guest (stored into CellCatch).
func classCode(class string) uint32 {
	h := fnv.New32a()
	h.Write([]byte(class))
	return 1000 + h.Sum32()%100000
}

// ---------------------------------------------------------------- engines (one runtime per batch of words)

type worldKey struct{}

type engineRT struct {
	name string
	mode string  // "" | a context variant (ctxModes) | a host-call environment (envModes)
	env  envSpec // parsed mode
	ctx  context.Context
	cctx context.Context // context of every compilation (carries the listener factory in the lsn environments)
	lsn  *countingListener
	rt   wazero.Runtime
	cA   wazero.CompiledModule
	cB   wazero.CompiledModule
	cC   [4]wazero.CompiledModule         // startsecA, startsecB, startfnA, startfnB
	self map[[2]int]wazero.CompiledModule // (kind, startSection) -> self-starter, compiled on first use
	cX   [nXMem]wazero.CompiledModule     // module X per memory shape, compiled on first use
	cQ   wazero.CompiledModule
	cL   [nLFam][2]wazero.CompiledModule // linked families: owner, importer (compiled on first use)
}

var (
	binA  = buildGuest(true)
	binB  = buildGuest(false)
	binCs = [4][]byte{buildStarter("A", true), buildStarter("B", true), buildStarter("A", false), buildStarter("B", false)}
)

// ---------------------------------------------------------------- host-call environments
//
// The engines have one code path per combination of (kind of Go host function) x (function listeners compiled
// in or not) x (snapshots enabled for the call or not): another exit code / another wrapper around the Go call,
// another recover in between the host function and the call's own recover. The default world uses exactly one
// of them (api.GoModuleFunc, no listeners, no snapshotter). An environment selects one combination for the
// whole word; the model and the oracle are unchanged (none of the three may change what the caller sees).
const (
	flavMod  = iota // api.GoModuleFunc (default)
	flavGo          // api.GoFunc: no module parameter (H.close keeps GoModuleFunc: it needs the calling module)
	flavRefl        // reflection-based WithFunc(func(ctx, mod, uint32...) ...)
	nFlav
)

const (
	snapOff   = iota
	snapOn    // every call context carries experimental.WithSnapshotter; no snapshot is taken
	snapTaken // as snapOn, and every host function of H takes a snapshot first and drops it (never restored)
	nSnap
)

var (
	flavNames = [nFlav]string{"mod", "go", "refl"}
	snapNames = [nSnap]string{"nosnap", "snap", "snaptaken"}
	lsnNames  = [2]string{"nolsn", "lsn"}
)

type envSpec struct {
	term    bool // runtime configured WithCloseOnContextDone(true) (the context variants)
	alloc   bool // every instantiation context carries a tracking experimental.MemoryAllocator (allocModes)
	flavour int
	lsn     bool
	snap    int
}

func (v envSpec) String() string {
	l := 0
	if v.lsn {
		l = 1
	}
	return "env-" + flavNames[v.flavour] + "-" + lsnNames[l] + "-" + snapNames[v.snap]
}

// envModes lists every environment except the default one (mod, no listener, no snapshotter).
var envModes = func() (out []string) {
	for f := 0; f < nFlav; f++ {
		for l := 0; l < 2; l++ {
			for sn := 0; sn < nSnap; sn++ {
				if f == flavMod && l == 0 && sn == snapOff {
					continue
				}
				out = append(out, envSpec{flavour: f, lsn: l == 1, snap: sn}.String())
			}
		}
	}
	return
}()

func isEnvMode(mode string) bool { return strings.HasPrefix(mode, "env-") }

// allocModes: the world's instantiation contexts carry a custom experimental.MemoryAllocator. Every linear
// memory is then a tracked buffer whose Free overwrites it with 0xDD (what unmapping does to a reader, without
// killing the process) and whose Free / Reallocate calls are recorded per buffer and attributed to the
// instance whose instantiation allocated it.
var allocModes = []string{"alloc-scrub"}

func isAllocMode(mode string) bool { return strings.HasPrefix(mode, "alloc-") }

// trackedMem is one LinearMemory handed out by the world's allocator.
type trackedMem struct {
	buf              []byte
	fixed            bool // allocated with its maximum size up front (never moves: usable for shared memories)
	frees            int
	reallocAfterFree int
}

func (t *trackedMem) Reallocate(size uint64) []byte {
	if t.frees > 0 {
		t.reallocAfterFree++
	}
	if size > uint64(cap(t.buf)) {
		if t.fixed {
			return nil
		}
		nb := make([]byte, size, size*2)
		copy(nb, t.buf)
		t.buf = nb
		return t.buf
	}
	t.buf = t.buf[:size]
	return t.buf
}

func (t *trackedMem) Free() {
	t.frees++
	b := t.buf[:cap(t.buf)]
	for i := range b {
		b[i] = 0xDD
	}
}

type trackAlloc struct {
	mems   []*trackedMem
	owners []allocOwner
	users  map[string][]api.Module // owner name -> instances that import its memory
}

func (w *world) uses(owner string, importer api.Module) {
	if w.alloc != nil {
		if w.alloc.users == nil {
			w.alloc.users = map[string][]api.Module{}
		}
		w.alloc.users[owner] = append(w.alloc.users[owner], importer)
	}
}

// allocFinding reports the one allocator-side condition that the unchanged tree is known to show (findings.json):
// the defining instance has ended, its buffer was freed, and an instance that imports the memory is still open.
func (w *world) allocFinding() string {
	if w.alloc == nil {
		return ""
	}
	for _, o := range w.alloc.owners {
		for _, t := range o.mems {
			if t.frees > 0 && o.mod.IsClosed() {
				for _, u := range w.alloc.users[o.name] {
					if !u.IsClosed() {
						return o.name
					}
				}
			}
		}
	}
	return ""
}

type allocOwner struct {
	name string
	mod  api.Module
	mems []*trackedMem
}

func (a *trackAlloc) Allocate(capBytes, maxBytes uint64) experimental.LinearMemory {
	t := &trackedMem{}
	if maxBytes <= 16*PageSize {
		t.fixed, t.buf = true, make([]byte, 0, maxBytes)
	} else {
		t.buf = make([]byte, 0, capBytes)
	}
	a.mems = append(a.mems, t)
	return t
}

// own attributes the buffers allocated since mark to the instance mod (the one whose instantiation allocated them).
func (w *world) own(name string, mod api.Module, mark int) {
	if w.alloc != nil && mod != nil && len(w.alloc.mems) > mark {
		w.alloc.owners = append(w.alloc.owners, allocOwner{name, mod, w.alloc.mems[mark:]})
	}
}

func (w *world) mark() int {
	if w.alloc == nil {
		return 0
	}
	return len(w.alloc.mems)
}

// allocCheck is the allocator-side oracle: the buffer of an instance that is still open has not been freed, no
// buffer is freed twice or reallocated after it was freed. "n/a" without a custom allocator.
func (w *world) allocCheck() string {
	if w.alloc == nil {
		return "n/a"
	}
	for _, o := range w.alloc.owners {
		for _, t := range o.mems {
			switch {
			case t.frees > 1:
				return "freed-twice:" + o.name
			case t.reallocAfterFree > 0:
				return "reallocate-after-free:" + o.name
			case t.frees > 0 && !o.mod.IsClosed():
				return "freed-while-owner-open:" + o.name
			}
		}
	}
	return "ok"
}

// modeTag is the suffix that names the mode in signatures and outcome keys.
func modeTag(mode string) string {
	switch {
	case mode == "":
		return ""
	case isEnvMode(mode), isAllocMode(mode):
		return "+" + mode
	}
	return "+ctx-" + mode
}

func parseMode(mode string) envSpec {
	if mode == "" {
		return envSpec{}
	}
	for _, m := range allocModes {
		if m == mode {
			return envSpec{alloc: true}
		}
	}
	if !isEnvMode(mode) {
		for _, m := range ctxModes {
			if m == mode {
				return envSpec{term: true}
			}
		}
		fw.Fatalf("unknown mode %q", mode)
	}
	for _, m := range envModes {
		if m == mode {
			p := strings.Split(mode, "-")
			v := envSpec{lsn: p[2] == "lsn"}
			for i, n := range flavNames {
				if n == p[1] {
					v.flavour = i
				}
			}
			for i, n := range snapNames {
				if n == p[3] {
					v.snap = i
				}
			}
			return v
		}
	}
	fw.Fatalf("unknown mode %q", mode)
	return envSpec{}
}

// countingListener is attached to every function (guest, host, WASI) of the lsn environments. It only counts:
// the pairing of Before with After/Abort is another property (C07); here the listeners are present so that the
// engines run their listener code paths (other exit codes for host calls, Abort walk when a call unwinds).
type countingListener struct{ before, after, abort atomic.Int64 }

func (c *countingListener) NewFunctionListener(api.FunctionDefinition) experimental.FunctionListener {
	return c
}

func (c *countingListener) Before(context.Context, api.Module, api.FunctionDefinition, []uint64, experimental.StackIterator) {
	c.before.Add(1)
}
func (c *countingListener) After(context.Context, api.Module, api.FunctionDefinition, []uint64) {
	c.after.Add(1)
}
func (c *countingListener) Abort(context.Context, api.Module, api.FunctionDefinition, error) {
	c.abort.Add(1)
}

func newEngineRT(name string, mode string) *engineRT {
	ctx := context.Background()
	env := parseMode(mode)
	term := env.term
	var cfg wazero.RuntimeConfig
	if name == "compiler" {
		cfg = wazero.NewRuntimeConfigCompiler()
	} else {
		cfg = wazero.NewRuntimeConfigInterpreter()
	}
	cfg = cfg.WithCoreFeatures(api.CoreFeaturesV2 | experimental.CoreFeaturesThreads)
	if term {
		cfg = cfg.WithCloseOnContextDone(true)
	}
	e := &engineRT{name: name, mode: mode, env: env, ctx: ctx, cctx: ctx, rt: wazero.NewRuntimeWithConfig(ctx, cfg)}
	if env.lsn {
		e.lsn = &countingListener{}
		e.cctx = experimental.WithFunctionListenerFactory(ctx, e.lsn)
	}
	if _, err := wasi_snapshot_preview1.Instantiate(e.cctx, e.rt); err != nil {
		fw.Fatalf("wasi: %v", err)
	}
	if _, err := buildHostModule(e.rt, env.flavour).Instantiate(e.cctx); err != nil {
		fw.Fatalf("host module: %v", err)
	}
	must := func(b []byte, what string) wazero.CompiledModule {
		c, err := e.rt.CompileModule(e.cctx, b)
		if err != nil {
			fw.Fatalf("%s: compile %s: %v", name, what, err)
		}
		return c
	}
	e.cB = must(binB, "B")
	e.cA = must(binA, "A")
	for i := range binCs {
		e.cC[i] = must(binCs[i], fmt.Sprintf("C%d", i))
	}
	return e
}

func (e *engineRT) close() { e.rt.Close(e.ctx) }

func (e *engineRT) xModule(memShape int) wazero.CompiledModule {
	if e.cX[memShape] == nil {
		c, err := e.rt.CompileModule(e.cctx, buildX(memShape))
		if err != nil {
			fw.Fatalf("%s: compile X%d: %v", e.name, memShape, err)
		}
		e.cX[memShape] = c
	}
	return e.cX[memShape]
}

func (e *engineRT) qModule() wazero.CompiledModule {
	if e.cQ == nil {
		c, err := e.rt.CompileModule(e.cctx, buildQ())
		if err != nil {
			fw.Fatalf("%s: compile Q: %v", e.name, err)
		}
		e.cQ = c
	}
	return e.cQ
}

func (e *engineRT) lModule(fam, role int) wazero.CompiledModule {
	if e.cL[fam][role] == nil {
		c, err := e.rt.CompileModule(e.cctx, buildL(role == 0, fam == lShared, lOwnerNames[fam]))
		if err != nil {
			fw.Fatalf("%s: compile L%d/%d: %v", e.name, fam, role, err)
		}
		e.cL[fam][role] = c
	}
	return e.cL[fam][role]
}

func (e *engineRT) selfStarter(kind int, startSection bool) wazero.CompiledModule {
	key := [2]int{kind, 0}
	if startSection {
		key[1] = 1
	}
	if c, ok := e.self[key]; ok {
		return c
	}
	c, err := e.rt.CompileModule(e.cctx, buildSelfStarter(kind, startSection))
	if err != nil {
		fw.Fatalf("%s: compile self-starter %s: %v", e.name, kindNames[kind], err)
	}
	if e.self == nil {
		e.self = map[[2]int]wazero.CompiledModule{}
	}
	e.self[key] = c
	return c
}

// ---------------------------------------------------------------- host functions

// buildHostModule defines H with the six host functions in the given flavour. The bodies are the same functions
// in every flavour; only the way wazero gets to call them differs.
func buildHostModule(rt wazero.Runtime, flavour int) wazero.HostModuleBuilder {
	i32 := api.ValueTypeI32
	b := rt.NewHostModuleBuilder(hostModName)
	nop := func(context.Context, api.Module, []uint64) {}
	type raw = func(context.Context, api.Module, []uint64)
	def := func(name string, f raw, params, results []api.ValueType) {
		switch flavour {
		case flavMod:
			b.NewFunctionBuilder().WithGoModuleFunction(api.GoModuleFunc(f), params, results).Export(name)
		case flavGo:
			b.NewFunctionBuilder().WithGoFunction(api.GoFunc(func(ctx context.Context, stack []uint64) { f(ctx, nil, stack) }), params, results).Export(name)
		}
	}
	if flavour == flavRefl {
		// typed Go functions called through reflection; they marshal into the same raw bodies
		b.NewFunctionBuilder().WithFunc(func(ctx context.Context, mod api.Module, kind uint32) {
			hostPanic(ctx, mod, []uint64{uint64(kind)})
		}).Export("panic")
		b.NewFunctionBuilder().WithFunc(func(ctx context.Context, mod api.Module, code uint32) {
			hostClose(ctx, mod, []uint64{uint64(code)})
		}).Export("close")
		b.NewFunctionBuilder().WithFunc(func(ctx context.Context, v uint32) uint32 { return v }).Export("nop")
		b.NewFunctionBuilder().WithFunc(func(ctx context.Context, code uint32) {
			hostCloseB(ctx, nil, []uint64{uint64(code)})
		}).Export("closeb")
		b.NewFunctionBuilder().WithFunc(func(ctx context.Context) uint32 {
			st := []uint64{0}
			hostGC(ctx, nil, st)
			return uint32(st[0])
		}).Export("gc")
		b.NewFunctionBuilder().WithFunc(func(ctx context.Context, mod api.Module, depth, mode, tgt, kind, k uint32) uint32 {
			st := []uint64{uint64(depth), uint64(mode), uint64(tgt), uint64(kind), uint64(k)}
			hostReenter(ctx, mod, st)
			return uint32(st[0])
		}).Export("reenter")
		return b
	}
	def("panic", hostPanic, []api.ValueType{i32}, nil)
	// close acts on the calling module, which only a module function is told
	b.NewFunctionBuilder().WithGoModuleFunction(api.GoModuleFunc(hostClose), []api.ValueType{i32}, nil).Export("close")
	def("nop", nop, []api.ValueType{i32}, []api.ValueType{i32})
	def("closeb", hostCloseB, []api.ValueType{i32}, nil)
	def("gc", hostGC, nil, []api.ValueType{i32})
	def("reenter", hostReenter, []api.ValueType{i32, i32, i32, i32, i32}, []api.ValueType{i32})
	return b
}

// takeSnapshot: in the snaptaken environments every host function of H first takes a snapshot of the calling
// guest and drops it (it is never restored: restoring is another property, C20).
func takeSnapshot(ctx context.Context) {
	if w, ok := ctx.Value(worldKey{}).(*world); ok && w.e.env.snap == snapTaken {
		snapSink = experimental.GetSnapshotter(ctx).Snapshot()
		snapSink = nil
	}
}

var snapSink experimental.Snapshot

func hostPanic(ctx context.Context, mod api.Module, stack []uint64) {
	takeSnapshot(ctx)
	// i32 parameters occupy the low half of a 64-bit slot; the high half is unspecified (api.DecodeU32)
	switch int(api.DecodeU32(stack[0])) {
	case KPanicError:
		panic(errHostSentinel)
	case KPanicString:
		panic(stringPanic)
	case KPanicRuntime:
		var arr []int
		idx := int(api.DecodeU32(stack[0]))
		stack[0] = uint64(arr[idx]) // index out of range: a genuine runtime.Error
	case KPanicCustomErr:
		panic(&customErr{Code: 77})
	case KPanicValue:
		panic(theCustomVal)
	}
	panic("c06: hostPanic called with unknown kind")
}

// hostCloseB closes the other guest instance (not the caller).
func hostCloseB(ctx context.Context, mod api.Module, stack []uint64) {
	takeSnapshot(ctx)
	w := ctx.Value(worldKey{}).(*world)
	_ = w.B.CloseWithExitCode(ctx, api.DecodeU32(stack[0]))
}

var gcSink []byte

// hostGC runs while DeepFrames guest frames are live on a stack that has been grown several times:
// the outgrown stacks are garbage now. Collect (the children run with GODEBUG=clobberfree=1, so
// freed objects are overwritten), churn blocks of the outgrown sizes, collect again.
func hostGC(ctx context.Context, mod api.Module, stack []uint64) {
	takeSnapshot(ctx)
	runtime.GC()
	for sz := 8 << 10; sz <= 256<<10; sz *= 2 {
		b := make([]byte, sz+48)
		for i := range b {
			b[i] = 0xA5
		}
		gcSink = b
	}
	gcSink = nil
	runtime.GC()
	stack[0] = 1
}

func hostClose(ctx context.Context, mod api.Module, stack []uint64) {
	takeSnapshot(ctx)
	_ = mod.CloseWithExitCode(ctx, api.DecodeU32(stack[0]))
}

// hostReenter(depth, mode, tgt, kind, k): calls back into a guest through a FRESH function object.
// depth>1 re-enters A.viahost (which calls this host function again), depth==1 calls direct(kind,k) of
// instance A (tgt 0) or B (tgt 1). A failure of the nested call is re-raised as a panic with the
// returned error, except at the level where depth==mode, which swallows it and returns its class code.
func hostReenter(ctx context.Context, mod api.Module, stack []uint64) {
	takeSnapshot(ctx)
	w := ctx.Value(worldKey{}).(*world)
	if mod == nil {
		mod = w.A // api.GoFunc flavour: only A imports reenter
	}
	depth, mode, tgt, kind, k := uint64(api.DecodeU32(stack[0])), uint64(api.DecodeU32(stack[1])), uint64(api.DecodeU32(stack[2])), uint64(api.DecodeU32(stack[3])), uint64(api.DecodeU32(stack[4]))
	var fn api.Function
	var args []uint64
	if depth > 1 {
		fn = mod.ExportedFunction("viahost")
		args = []uint64{depth - 1, mode, tgt, kind, k}
	} else {
		m := mod
		if tgt == 1 {
			m = w.B
		}
		fn = m.ExportedFunction("direct")
		args = []uint64{kind, k}
	}
	_, err := fn.Call(ctx, args...)
	style := mode >> 4
	switch style {
	case styleExit0, styleExit9:
		code := uint32(0)
		if style == styleExit9 {
			code = 9
		}
		w.raised = sys.NewExitError(code)
		panic(w.raised)
	}
	if err != nil {
		if mode&15 == depth {
			w.raised = nil
			stack[0] = uint64(classCode(classify(err)))
			return
		}
		switch style {
		case styleUnwrap:
			err = &wrapErr{err}
		case styleErrorf:
			err = fmt.Errorf("ctx: %w", err)
		case styleJoin:
			err = errors.Join(err, errOther)
		case styleString:
			w.raised = nil
			panic(stringPanic)
		}
		w.raised = err
		panic(err)
	}
	stack[0] = 0
}

// ---------------------------------------------------------------- world = fresh instances A and B

type world struct {
	e      *engineRT
	ctx    context.Context   // carries the world; used for instantiating / closing A and B
	cur    context.Context   // the context the next step is called with (== ctx unless a context variant is explored)
	base   int               // runtime.NumGoroutine() when the world was created (settle)
	x      [nXMem]api.Module // module X per memory shape, instantiated on first use
	xfn    [nXMem]map[int]api.Function
	q      api.Module
	l      [nLFam][3]api.Module // linked families: owner, importer 1, importer 2 (instantiated on first use)
	lfn    [nLFam][3]map[int]api.Function
	alloc  *trackAlloc // allocModes: the allocator carried by ctx
	raised error       // the error value the most recent (= outermost so far) host level panicked with; nil after a swallow / a string
	A, B   api.Module
	fn     [6]api.Function // the function objects reused across the whole word
}

const (
	fADirect = iota
	fAIndirect
	fAViaB
	fAViaHost
	fBDirect
	fBIndirect
)

func newWorld(e *engineRT) *world {
	w := &world{e: e}
	w.ctx = context.WithValue(e.ctx, worldKey{}, w)
	if e.env.snap != snapOff {
		// snapshots are enabled for every call and instantiation of the word
		w.ctx = experimental.WithSnapshotter(w.ctx)
	}
	if e.env.alloc {
		w.alloc = &trackAlloc{}
		w.ctx = experimental.WithMemoryAllocator(w.ctx, w.alloc)
	}
	w.cur = w.ctx
	w.base = runtime.NumGoroutine()
	var err error
	w.B, err = e.rt.InstantiateModule(w.ctx, e.cB, wazero.NewModuleConfig().WithName("B").WithStartFunctions())
	if err != nil {
		fw.Fatalf("%s: instantiate B: %v", e.name, err)
	}
	w.own("B", w.B, 0)
	mk := w.mark()
	w.A, err = e.rt.InstantiateModule(w.ctx, e.cA, wazero.NewModuleConfig().WithName("A").WithStartFunctions())
	if err != nil {
		fw.Fatalf("%s: instantiate A: %v", e.name, err)
	}
	w.own("A", w.A, mk)
	w.fn[fADirect] = w.A.ExportedFunction("direct")
	w.fn[fAIndirect] = w.A.ExportedFunction("indirect")
	w.fn[fAViaB] = w.A.ExportedFunction("viab")
	w.fn[fAViaHost] = w.A.ExportedFunction("viahost")
	w.fn[fBDirect] = w.B.ExportedFunction("direct")
	w.fn[fBIndirect] = w.B.ExportedFunction("indirect")
	return w
}

func (w *world) close() {
	w.A.Close(w.ctx)
	w.B.Close(w.ctx)
	for _, x := range w.x {
		if x != nil {
			x.Close(w.ctx)
		}
	}
	if w.q != nil {
		w.q.Close(w.ctx)
	}
	for f := range w.l {
		for r := 2; r >= 0; r-- {
			if w.l[f][r] != nil {
				w.l[f][r].Close(w.ctx)
			}
		}
	}
	for _, n := range []string{"n", "m"} { // free the names for the next word
		if m := w.e.rt.Module(n); m != nil {
			m.Close(w.ctx)
		}
	}
}

// observeX renders the instances of module X that exist ("-" = not instantiated).
func (w *world) observeX() string {
	var p [nXMem]string
	for i, x := range w.x {
		p[i] = "-"
		if x != nil {
			p[i] = fmt.Sprintf("g=%d,closed=%v", uint32(x.ExportedGlobal("g").Get()), x.IsClosed())
		}
	}
	out := strings.Join(p[:], " ")
	if w.q != nil {
		// the memory that ximp imports: its owner q never ends; it holds the k of the last call of an ximp function
		v, _ := w.q.Memory().ReadUint32Le(0)
		out += fmt.Sprintf(" q=%d qclosed=%v", v, w.q.IsClosed())
	}
	return out
}

// observeL renders the linked families: which instances exist / are closed, the linked memory as the owner's
// api.Memory shows it, whether every importer's api.Memory shows the same, the linked global, and what the guest
// function peek() of the first open instance reads. released: with a custom allocator the buffer of a closed
// owner has been handed back; its contents are not compared.
func (w *world) observeL() string {
	var p [nLFam]string
	for f := range w.l {
		p[f] = "-"
		o := w.l[f][0]
		if o == nil {
			continue
		}
		st := ""
		for r, m := range w.l[f] {
			switch {
			case m == nil:
				st += lRoleNames[r] + "=- "
			case m.IsClosed():
				st += lRoleNames[r] + "=closed "
			default:
				st += lRoleNames[r] + "=open "
			}
		}
		gl := uint32(o.ExportedGlobal("gl").Get())
		if w.alloc != nil && o.IsClosed() {
			p[f] = fmt.Sprintf("%smem=released gl=%d", st, gl)
			continue
		}
		mem := o.Memory()
		rd := func(m api.Memory, a uint32) uint32 { v, _ := m.ReadUint32Le(a); return v }
		views := "same"
		for _, m := range w.l[f][1:] {
			if m != nil && (rd(m.Memory(), LCellPre) != rd(mem, LCellPre) || m.Memory().Size() != mem.Size()) {
				views = "differ"
			}
		}
		// what guest code reads: peek() of every open instance (fresh function objects); one value if they agree
		peek := "-"
		for _, m := range w.l[f] {
			if m == nil || m.IsClosed() {
				continue
			}
			v := ""
			if res, err := m.ExportedFunction("peek").Call(w.ctx); err != nil {
				v = classify(err)
			} else {
				v = fmt.Sprint(uint32(res[0]))
			}
			if peek == "-" {
				peek = v
			} else if peek != v {
				peek = "differ(" + peek + "," + v + ")"
				break
			}
		}
		p[f] = fmt.Sprintf("%spre=%d post=%d tab=%d size=%d views=%s gl=%d peek=%s", st, rd(mem, LCellPre), rd(mem, LCellPost), rd(mem, LCellTab), mem.Size(), views, gl, peek)
	}
	return strings.Join(p[:], " | ")
}

// registry renders what the runtime's name registry says about the named start instances.
func (w *world) registry() string {
	st := func(n string) string {
		m := w.e.rt.Module(n)
		switch {
		case m == nil:
			return "nil"
		case m.IsClosed():
			return "closed"
		}
		return "open"
	}
	return "n=" + st("n") + " m=" + st("m")
}

// ---------------------------------------------------------------- letters

type shapeInfo struct {
	name   string
	target byte // 'A' or 'B': where the failing op executes
}

const (
	ShDirectA = iota
	ShDirectB
	ShViaB
	ShIndirectA
	ShIndirectB
	ShHost1P
	ShHost2P
	ShHost5P
	ShHost1C
	ShHost5CI
	ShHost5CO
	ShHost1PB
	ShHost1CB
	ShStartSecA
	ShStartSecB
	ShStartFnA
	ShStartFnB
	// named start shapes: the new instance is registered under a name and the word goes on afterwards
	ShNFnA    // instance "n" imports A.direct; its "_start" (ModuleConfig start function) calls direct(kind,k); stays open on success
	ShNFnB    // same, importing from B
	ShNFnSelf // instance "n" whose "_start" itself ends in the kind
	ShMSecA   // instance "m" with a wasm start section calling A.direct(kind,k); closed right away when it starts
	ShMSecB
	ShMSecSelf
	ShLookup // Runtime.Module("n") and a call of its export
	ShCloseN // Runtime.Module("n").Close
	// module X (imports functions of A and B and the host functions) in its four memory shapes; sequence kinds only
	ShXOwn
	ShXNone
	ShXShared
	ShXImported
	// host-nested shapes whose host level raises the inner failure in another form (see raise styles)
	ShHost1W1 // depth 1, custom error type whose Unwrap returns the inner error
	ShHost1W2 // depth 1, fmt.Errorf("ctx: %w", inner)
	ShHost1W3 // depth 1, errors.Join(inner, other)
	ShHost1S  // depth 1, a string
	ShHost1E0 // depth 1, panics with sys.NewExitError(0) it constructed itself, whatever the inner call did
	ShHost1E9 // same with code 9
	ShHost5W1 // depth 5, every level wraps with the custom type
	ShHost2W3 // depth 2, every level joins
	// linked families: an owner that defines and exports a memory, a table and a mutable global, and two importers
	// of all three; lu* = unshared memory (1..2 pages), ls* = shared memory
	ShLuO
	ShLuI1
	ShLuI2
	ShLsO
	ShLsI1
	ShLsI2
	NShapes
	nBaseShapes = ShNFnA
)

// shapeKinds lists the kinds a shape exists with (nil = all kinds of its target instance).
func shapeKinds(shape int) []int {
	switch shape {
	case ShNFnA, ShMSecA:
		return []int{KOk, KUnreachable, KPanicError, KProcExit0, KProcExit3, KClose0, KClose7, KCloseB7}
	case ShNFnB, ShMSecB:
		return []int{KOk, KUnreachable, KOOBStore}
	case ShNFnSelf, ShMSecSelf:
		return selfKinds
	case ShLookup, ShCloseN:
		return []int{KOk}
	case ShHost1W1, ShHost1W2, ShHost1W3, ShHost1S, ShHost1E0, ShHost1E9, ShHost5W1, ShHost2W3:
		return []int{KOk, KUnreachable, KOOBStore, KProcExit0, KProcExit3, KClose7, KPanicError, KRec0}
	case ShXOwn, ShXNone, ShXShared, ShXImported:
		ks := make([]int, nSeq)
		for i := range ks {
			ks[i] = KSeq0 + i
		}
		return ks
	case ShLuO, ShLuI1, ShLuI2, ShLsO, ShLsI1, ShLsI2:
		ks := make([]int, nLnk)
		for i := range ks {
			ks[i] = KLnk0 + i
		}
		return ks
	}
	n := NKinds
	if shapes[shape].target == 'B' {
		n = NBKinds
	}
	all := make([]int, n)
	for i := range all {
		all[i] = i
	}
	return all
}

func letterExists(l letter) bool {
	if l.Shape < 0 || l.Shape >= NShapes {
		return false
	}
	for _, k := range shapeKinds(l.Shape) {
		if k == l.Kind {
			return true
		}
	}
	return false
}

var shapes = [NShapes]shapeInfo{
	{"directA", 'A'}, {"directB", 'B'}, {"viaB", 'B'}, {"indirectA", 'A'}, {"indirectB", 'B'},
	{"host1P", 'A'}, {"host2P", 'A'}, {"host5P", 'A'}, {"host1C", 'A'}, {"host5CI", 'A'}, {"host5CO", 'A'},
	{"host1PB", 'B'}, {"host1CB", 'B'},
	{"startsecA", 'A'}, {"startsecB", 'B'}, {"startfnA", 'A'}, {"startfnB", 'B'},
	{"nfnA", 'A'}, {"nfnB", 'B'}, {"nfnSelf", 'N'}, {"msecA", 'A'}, {"msecB", 'B'}, {"msecSelf", 'N'}, {"lookup", 'N'}, {"closeN", 'N'},
	{"xown", 'X'}, {"xnone", 'X'}, {"xshared", 'X'}, {"ximp", 'X'},
	{"host1W1", 'A'}, {"host1W2", 'A'}, {"host1W3", 'A'}, {"host1S", 'A'}, {"host1E0", 'A'}, {"host1E9", 'A'}, {"host5W1", 'A'}, {"host2W3", 'A'},
	{"luO", 'L'}, {"luI1", 'L'}, {"luI2", 'L'}, {"lsO", 'L'}, {"lsI1", 'L'}, {"lsI2", 'L'},
}

type letter struct {
	Shape int
	Kind  int
}

func (l letter) String() string { return shapes[l.Shape].name + "/" + kindNames[l.Kind] }

func parseLetter(s string) (letter, error) {
	i := strings.IndexByte(s, '/')
	if i < 0 {
		return letter{}, fmt.Errorf("bad letter %q", s)
	}
	l := letter{-1, -1}
	for j := range shapes {
		if shapes[j].name == s[:i] {
			l.Shape = j
		}
	}
	for j := range kindNames {
		if kindNames[j] == s[i+1:] {
			l.Kind = j
		}
	}
	if !letterExists(l) {
		return l, fmt.Errorf("bad letter %q", s)
	}
	return l, nil
}

// linked families
const (
	lUnshared = iota
	lShared
	nLFam
)

var (
	lOwnerNames = [nLFam]string{"lu", "ls"}
	lRoleNames  = [3]string{"O", "I1", "I2"}
)

// Raise styles: how a host level that does not swallow the failure of its nested call raises it
// (mode = catch level | style<<4).
const (
	styleSame   = iota // panic(err): the error returned by the nested call itself
	styleUnwrap        // panic(&wrapErr{err}): own error type whose Unwrap returns it
	styleErrorf        // panic(fmt.Errorf("ctx: %w", err))
	styleJoin          // panic(errors.Join(err, errOther))
	styleString        // panic(stringPanic): not an error value
	styleExit0         // panic(sys.NewExitError(0)), constructed here, whatever the nested call did (the documented way to exit from a host function)
	styleExit9         // panic(sys.NewExitError(9))
)

func isHostShape(s int) bool {
	return (s >= ShHost1P && s <= ShHost1CB) || (s >= ShHost1W1 && s <= ShHost2W3)
}

type wrapErr struct{ inner error }

func (e *wrapErr) Error() string { return "c06 wrapErr{" + e.inner.Error() + "}" }
func (e *wrapErr) Unwrap() error { return e.inner }

var errOther = errors.New("c06 unrelated joined error")

// hostArgs returns (depth, mode, tgt) of a host shape.
func hostArgs(shape int) (uint32, uint32, uint32) {
	switch shape {
	case ShHost1P:
		return 1, 0, 0
	case ShHost2P:
		return 2, 0, 0
	case ShHost5P:
		return 5, 0, 0
	case ShHost1C:
		return 1, 1, 0
	case ShHost5CI:
		return 5, 1, 0
	case ShHost5CO:
		return 5, 5, 0
	case ShHost1PB:
		return 1, 0, 1
	case ShHost1CB:
		return 1, 1, 1
	case ShHost1W1:
		return 1, styleUnwrap << 4, 0
	case ShHost1W2:
		return 1, styleErrorf << 4, 0
	case ShHost1W3:
		return 1, styleJoin << 4, 0
	case ShHost1S:
		return 1, styleString << 4, 0
	case ShHost1E0:
		return 1, styleExit0 << 4, 0
	case ShHost1E9:
		return 1, styleExit9 << 4, 0
	case ShHost5W1:
		return 5, styleUnwrap << 4, 0
	case ShHost2W3:
		return 2, styleJoin << 4, 0
	}
	panic("not a host shape")
}

// step executes one letter on the real world and returns (error class, result value).
func (w *world) step(l letter, k uint32) (string, uint32) {
	kind := uint64(l.Kind)
	var res []uint64
	var err error
	switch l.Shape {
	case ShDirectA:
		res, err = w.fn[fADirect].Call(w.cur, kind, uint64(k))
	case ShDirectB:
		res, err = w.fn[fBDirect].Call(w.cur, kind, uint64(k))
	case ShViaB:
		res, err = w.fn[fAViaB].Call(w.cur, kind, uint64(k))
	case ShIndirectA:
		res, err = w.fn[fAIndirect].Call(w.cur, kind, uint64(k))
	case ShIndirectB:
		res, err = w.fn[fBIndirect].Call(w.cur, kind, uint64(k))
	case ShHost1P, ShHost2P, ShHost5P, ShHost1C, ShHost5CI, ShHost5CO, ShHost1PB, ShHost1CB,
		ShHost1W1, ShHost1W2, ShHost1W3, ShHost1S, ShHost1E0, ShHost1E9, ShHost5W1, ShHost2W3:
		d, m, t := hostArgs(l.Shape)
		w.raised = nil
		res, err = w.fn[fAViaHost].Call(w.cur, uint64(d), uint64(m), uint64(t), kind, uint64(k))
		if err != nil && w.raised != nil && errors.Is(err, w.raised) {
			// the caller received the very value the outermost host level panicked with
			cl := classify(err) + "+id"
			return cl, 0
		}
	case ShStartSecA, ShStartSecB, ShStartFnA, ShStartFnB:
		t := w.A
		if shapes[l.Shape].target == 'B' {
			t = w.B
		}
		t.ExportedGlobal("skind").(api.MutableGlobal).Set(kind)
		t.ExportedGlobal("sk").(api.MutableGlobal).Set(uint64(k))
		cfg := wazero.NewModuleConfig().WithName("")
		if l.Shape == ShStartSecA || l.Shape == ShStartSecB {
			cfg = cfg.WithStartFunctions()
		}
		var mod api.Module
		mod, err = w.e.rt.InstantiateModule(w.cur, w.e.cC[l.Shape-ShStartSecA], cfg)
		if mod != nil {
			mod.Close(w.cur)
		}
	}
	switch l.Shape {
	case ShNFnA, ShNFnB, ShNFnSelf, ShMSecA, ShMSecB, ShMSecSelf:
		sec := l.Shape >= ShMSecA
		var code wazero.CompiledModule
		switch l.Shape {
		case ShNFnSelf, ShMSecSelf:
			code = w.e.selfStarter(l.Kind, sec)
		default:
			t, ci := w.A, 2 // cC: startsecA, startsecB, startfnA, startfnB
			if shapes[l.Shape].target == 'B' {
				t, ci = w.B, 3
			}
			if sec {
				ci -= 2
			}
			t.ExportedGlobal("skind").(api.MutableGlobal).Set(kind)
			t.ExportedGlobal("sk").(api.MutableGlobal).Set(uint64(k))
			code = w.e.cC[ci]
		}
		cfg := wazero.NewModuleConfig().WithName("n") // default start functions: "_start"
		if sec {
			cfg = wazero.NewModuleConfig().WithName("m").WithStartFunctions()
		}
		var mod api.Module
		mod, err = w.e.rt.InstantiateModule(w.cur, code, cfg)
		if err == nil {
			// result: 1 = an open module was returned, 2 = a closed one ("_start" exited with code 0: documented success)
			res = []uint64{1}
			if mod.IsClosed() {
				res[0] = 2
			}
			if sec {
				mod.Close(w.ctx) // "m" never stays
			}
		}
	case ShXOwn, ShXNone, ShXShared, ShXImported:
		ms := l.Shape - ShXOwn
		if w.x[ms] == nil {
			if ms == xImported && w.q == nil {
				mk := w.mark()
				if w.q, err = w.e.rt.InstantiateModule(w.ctx, w.e.qModule(), wazero.NewModuleConfig().WithName("q")); err != nil {
					fw.Fatalf("%s: instantiate q: %v", w.e.name, err)
				}
				w.own("q", w.q, mk)
			}
			var x api.Module
			mk := w.mark()
			x, err = w.e.rt.InstantiateModule(w.ctx, w.e.xModule(ms), wazero.NewModuleConfig().WithName("").WithStartFunctions())
			if err != nil {
				break // e.g. A is closed: its exports cannot be imported any more
			}
			w.own(shapes[l.Shape].name, x, mk)
			if ms == xImported {
				w.uses("q", x)
			}
			w.x[ms], w.xfn[ms] = x, map[int]api.Function{}
		}
		f := w.xfn[ms][l.Kind]
		if f == nil {
			f = w.x[ms].ExportedFunction(fmt.Sprintf("seq%d", l.Kind-KSeq0))
			w.xfn[ms][l.Kind] = f // the function object is reused when the letter occurs again
		}
		res, err = f.Call(w.cur, uint64(k))
	case ShLuO, ShLuI1, ShLuI2, ShLsO, ShLsI1, ShLsI2:
		fam, role := (l.Shape-ShLuO)/3, (l.Shape-ShLuO)%3
		if w.l[fam][0] == nil {
			// the owner exists as soon as the family is used
			mk := w.mark()
			o, oerr := w.e.rt.InstantiateModule(w.ctx, w.e.lModule(fam, 0), wazero.NewModuleConfig().WithName(lOwnerNames[fam]).WithStartFunctions())
			if oerr != nil {
				fw.Fatalf("%s: instantiate %s: %v", w.e.name, lOwnerNames[fam], oerr)
			}
			w.l[fam][0], w.lfn[fam][0] = o, map[int]api.Function{}
			w.own(lOwnerNames[fam], o, mk)
		}
		if w.l[fam][role] == nil {
			var im api.Module
			mk := w.mark()
			im, err = w.e.rt.InstantiateModule(w.ctx, w.e.lModule(fam, 1), wazero.NewModuleConfig().WithName("").WithStartFunctions())
			if err != nil {
				break // the owner is closed: its exports cannot be imported any more
			}
			w.l[fam][role], w.lfn[fam][role] = im, map[int]api.Function{}
			w.own(shapes[l.Shape].name, im, mk) // an importer allocates nothing
			w.uses(lOwnerNames[fam], im)
		}
		if l.Kind == KLnkClose {
			err = w.l[fam][role].Close(w.ctx)
			break
		}
		f := w.lfn[fam][role][l.Kind]
		if f == nil {
			f = w.l[fam][role].ExportedFunction(fmt.Sprintf("poke%d", l.Kind-KLnk0))
			w.lfn[fam][role][l.Kind] = f // the function object is reused when the letter occurs again
		}
		res, err = f.Call(w.cur, uint64(k))
	case ShLookup, ShCloseN:
		m := w.e.rt.Module("n")
		switch {
		case m == nil:
			return "no-module", 0
		case l.Shape == ShLookup:
			res, err = m.ExportedFunction("ping").Call(w.cur)
		default:
			err = m.Close(w.ctx)
		}
	}
	cl := classify(err)
	if err == nil && len(res) == 1 {
		return cl, uint32(res[0])
	}
	return cl, 0
}

// settle gives context watchers the chance to act: it yields until the number of goroutines is back to
// what it was when the world was created (a stopped watcher exits at once; a watcher that is still
// alive after its call has returned is either about to exit or leaked), for at most ~50 ms. It is a
// wait, never a verdict: verdicts come from the comparison with the model afterwards.
func (w *world) settle() {
	for i := 0; i < 200; i++ {
		if runtime.NumGoroutine() <= w.base {
			return
		}
		runtime.Gosched()
	}
	for t0 := time.Now(); time.Since(t0) < 50*time.Millisecond; {
		if runtime.NumGoroutine() <= w.base {
			return
		}
		time.Sleep(200 * time.Microsecond)
	}
}

// observe renders the externally visible state of one instance. released: the world has a custom allocator and
// the instance is closed, so its buffer has been handed back to the allocator; its contents are not compared.
func observe(m api.Module, alloc bool) string {
	if alloc && m.IsClosed() {
		return fmt.Sprintf("mem=released g=%d closed=true", uint32(m.ExportedGlobal("g").Get()))
	}
	mem := m.Memory()
	rd := func(a uint32) uint32 { v, _ := mem.ReadUint32Le(a); return v }
	tail, _ := mem.Read(TailStart, PageSize-TailStart)
	th := uint32(0)
	for _, b := range tail {
		th = th*31 + uint32(b)
	}
	return fmt.Sprintf("pre=%d post=%d aux=%d catch=%d atom=%d/%d tail=%d g=%d closed=%v size=%d",
		rd(CellPre), rd(CellPost), rd(CellAux), rd(CellCatch), rd(CellAtom), rd(CellAtomR), th, uint32(m.ExportedGlobal("g").Get()), m.IsClosed(), mem.Size())
}
