package main

import "fmt"

func probe(dirs *hostDirs) {
	for _, eng := range []string{"compiler", "interpreter"} {
		for o := range opNames {
			r, _ := runLone(loneKey{eng, 0, 0}, dirs, []int{16, o})
			fmt.Println(eng, "exit then", opNames[o], "=>", r)
		}
	}
}
