package main

import (
	"bytes"
	"context"
	"errors"
	"fmt"
	"hash/crc32"
	"io"
	"os"
	"os/signal"
	"path/filepath"
	"runtime"
	"strconv"
	"strings"
	"sync"
	"sync/atomic"
	"syscall"

	"github.com/tetratelabs/wazero"
	"github.com/tetratelabs/wazero/api"
	"github.com/tetratelabs/wazero/imports/wasi_snapshot_preview1"
	"github.com/tetratelabs/wazero/internal/wasm"
	"github.com/tetratelabs/wazero/internal/wasmruntime"
	wsys "github.com/tetratelabs/wazero/sys"
	"github.com/tetratelabs/wazero/verif/fw"
)

// cfg is one configuration of the multi-instance world.
type cfg struct {
	Engine string `json:"engine"` // "compiler" | "interpreter"
	RT     string `json:"rt"`     // "one": one runtime; "cache-mem": two runtimes sharing one in-memory CompilationCache;
	//                                   "cache-dir": two runtimes sharing one directory-backed CompilationCache value;
	//                                   "cache-dir2": two runtimes with two CompilationCache values on the same directory
	Variants []int  `json:"variants"`         // module variant of instance j (len = N); all equal = "same compiled module"
	Policy   string `json:"policy"`           // "lazy": instance j is instantiated at its first step; "eager": 0,1,2 up front; "eager-rev": 2,1,0 up front
	CapMax   bool   `json:"capmax,omitempty"` // RuntimeConfig.WithMemoryCapacityFromMax(true): capacity 3 pages, initial size 1
	Shape    int    `json:"shape,omitempty"`  // module shape 1..4 (guest.go); 0 = 1. All instances of a world have the same shape
	RefDepth int    `json:"-"`                // length up to which lone references exist for this configuration (set by main)
	Shared   bool   `json:"shared"`           // true: ONE ModuleConfig value (one stdout writer, one mount) is reused for every instance
	// Pre is the PRELUDE of the runtimes: what each runtime did before it ever saw WASI, env or the guest. ""= nothing
	// (all runtimes of the world have the same history). Otherwise "<kind>:<assignment>": assignment has one character
	// per runtime — 'X' / 'Y' = that runtime first met bystander module X / Y (guest.go), '-' = it did not — and kind
	// says how far it went: "compiled" (CompileModule only), "open" (instantiated, run() called, left open for the
	// whole life of the world), "closed" (instantiated, run() called, closed again). The lone reference never has a prelude.
	Pre string `json:"pre,omitempty"`
}

func (c cfg) String() string {
	s := fmt.Sprintf("%s/%s/v%v/%s/shared=%v", c.Engine, c.RT, c.Variants, c.Policy, c.Shared)
	if c.shape() != 1 {
		s += fmt.Sprintf("/shape%d", c.shape())
	}
	if c.CapMax {
		s += "/capmax"
	}
	if c.Pre != "" {
		s += "/pre=" + c.Pre
	}
	return s
}

type step struct {
	I  int `json:"i"`  // instance
	Op int `json:"op"` // index into opNames
}

func wordString(w []step) string {
	var sb strings.Builder
	for k, s := range w {
		if k > 0 {
			sb.WriteByte(' ')
		}
		fmt.Fprintf(&sb, "%d:%s", s.I, opNames[s.Op])
	}
	return sb.String()
}

// obs is the canonical final observation of one instance. All fields are comparable values.
type obs struct {
	Exists   bool   // instantiated at all (lazy policy)
	InstErr  string // instantiation error class
	Closed   bool
	MemPages uint32
	MemCRC   uint32
	G0, G1   uint64
	Consts   string // host view of the constant / reference globals (numeric values; funcrefs resolved like table entries)
	Table    string // host view: per slot "-" (null), "f<idx>" (this instance's own function idx), "FOREIGN"
	Data     string // host view of the data instances (len/crc per segment)
	Elem     string // host view of the element instances
	FDs      string // file table: fd:name:preopen:type:offset
	Stdout   string // captured stdout of the instance's slot (per-instance configs only)
	Peek     string // guest-view digest returned by the guest's peek()
	BadCall  string // result class of the guest's wrongly typed call_indirect (badcall)
}

func (o obs) diff(p obs) (field, got, want string) {
	type f struct {
		n    string
		a, b any
	}
	for _, x := range []f{{"exists", o.Exists, p.Exists}, {"instantiate", o.InstErr, p.InstErr}, {"closed", o.Closed, p.Closed},
		{"memory.size", o.MemPages, p.MemPages}, {"memory.bytes", o.MemCRC, p.MemCRC}, {"global.g0", o.G0, p.G0}, {"global.g1", o.G1, p.G1}, {"globals", o.Consts, p.Consts},
		{"table", o.Table, p.Table}, {"data-segments", o.Data, p.Data}, {"elem-segments", o.Elem, p.Elem}, {"fds", o.FDs, p.FDs},
		{"stdout", o.Stdout, p.Stdout}, {"guest-peek", o.Peek, p.Peek}, {"guest-badcall", o.BadCall, p.BadCall}} {
		if x.a != x.b {
			return x.n, fmt.Sprint(x.a), fmt.Sprint(x.b)
		}
	}
	return "", "", ""
}

var castagnoli = crc32.MakeTable(crc32.Castagnoli)

// ---------------------------------------------------------------- host directories (read-only for the guest)

type hostDirs struct {
	root  string
	slots [3]string
}

// hostDirsAt uses the directories that another process of this run created (child processes: the inode numbers that
// fd_readdir writes into guest memory must be the same as in the parent).
func hostDirsAt(root string) *hostDirs {
	h := &hostDirs{root: root}
	for j := range h.slots {
		h.slots[j] = filepath.Join(root, fmt.Sprintf("slot%d", j))
	}
	return h
}

// fatalf is fw.Fatalf (harness error, exit 2) after removing the temporary directories.
func fatalf(format string, a ...any) {
	if tmpRoot != "" {
		os.RemoveAll(tmpRoot)
	}
	fw.Fatalf(format, a...)
}

var tmpRoot string

// newHostDirs creates one mount directory per slot. The file "f" has slot-specific content so that an instance
// that reads through another instance's mount is visible. The guest only ever opens "f" read-only.
func newHostDirs() *hostDirs {
	root, err := os.MkdirTemp("", "verif-c11-")
	if err != nil {
		fatalf("mkdtemp: %v", err)
	}
	tmpRoot = root
	// remove the temporary tree also when the run is interrupted (SIGKILL cannot be handled)
	sig := make(chan os.Signal, 1)
	signal.Notify(sig, syscall.SIGINT, syscall.SIGTERM, syscall.SIGHUP)
	go func() {
		<-sig
		os.RemoveAll(root)
		os.Exit(2)
	}()
	h := &hostDirs{root: root}
	for j := range h.slots {
		h.slots[j] = filepath.Join(root, fmt.Sprintf("slot%d", j))
		if err := os.Mkdir(h.slots[j], 0o755); err != nil {
			fatalf("mkdir: %v", err)
		}
		if err := os.WriteFile(filepath.Join(h.slots[j], "f"), []byte(fmt.Sprintf("S%dab%dcd%def%dgh", j, j, j, j)), 0o644); err != nil {
			fatalf("write: %v", err)
		}
		// different file names per slot (a0..a5 / b0..b5 / c0..c5): what `ls` lists identifies the mount
		for k := 0; k < 6; k++ {
			if err := os.WriteFile(filepath.Join(h.slots[j], fmt.Sprintf("%c%d", 'a'+j, k)), nil, 0o644); err != nil {
				fatalf("write: %v", err)
			}
		}
	}
	return h
}

// ---------------------------------------------------------------- world

var ctx = context.Background()

// guestBins[shape-1][variant]
var guestBins = func() (b [numShapes][2][]byte) {
	for sh := 1; sh <= numShapes; sh++ {
		for v := 0; v < 2; v++ {
			b[sh-1][v] = guestModule(v, sh)
		}
	}
	return
}()

func (c cfg) shape() int {
	if c.Shape < 1 {
		return 1
	}
	return c.Shape
}

type world struct {
	c        cfg
	dirs     *hostDirs
	rts      []wazero.Runtime
	caches   []wazero.CompilationCache
	cacheDir string
	code     [][2]wazero.CompiledModule // [rt][variant]
	stdout   [3]*bytes.Buffer
	mcs      [3]wazero.ModuleConfig
	slotOf   [3]int       // mount/stdout slot of instance j (loneSlot for a lone world)
	abs      []string     // failures of the absolute oracle during the current word
	absAt    []absAt      // parallel to abs
	curStep  int          // index of the step of the current word that is being executed (-1 before the first)
	preFail  string       // a bystander of the prelude misbehaved (absolute: its run() result is a known constant)
	bystand  []api.Module // bystanders left open by the prelude
	hostSaw  []api.Module // the api.Module values handed to env.h_refl / env.h_gomod during the current step
}

// buildEnv instantiates the host module "env" that every guest instance of the runtime imports. Its functions are
// stateless; the two that receive an api.Module use ONLY that value to reach "the caller": they read the caller's
// store cell, write into the caller's memory / global g1, and the harness records which module they were handed.
func (w *world) buildEnv(rt wazero.Runtime) {
	b := rt.NewHostModuleBuilder("env")
	// reflection, (ctx, api.Module, i32)
	b.NewFunctionBuilder().WithFunc(func(_ context.Context, m api.Module, v uint32) uint32 {
		w.hostSaw = append(w.hostSaw, m)
		x, _ := m.Memory().ReadUint32Le(aStore)
		m.Memory().WriteUint32Le(aHostW1, v+0x100)
		if g, ok := m.ExportedGlobal("g1").(api.MutableGlobal); ok {
			g.Set(g.Get() + 0x10000)
		}
		if g, ok := m.ExportedGlobal("xm").(api.MutableGlobal); ok { // the caller's mutable externref global
			g.Set(uint64(v) + 0x1000)
		}
		return x * 3
	}).Export("h_refl")
	// reflection, (ctx, i32) and (i32): no module, pure
	b.NewFunctionBuilder().WithFunc(func(_ context.Context, v uint32) uint32 { return v*5 + 1 }).Export("h_ctx")
	b.NewFunctionBuilder().WithFunc(func(v uint32) uint32 { return v*7 + 2 }).Export("h_none")
	// api.GoModuleFunc
	b.NewFunctionBuilder().WithGoModuleFunction(api.GoModuleFunc(func(_ context.Context, m api.Module, stack []uint64) {
		w.hostSaw = append(w.hostSaw, m)
		v := uint32(stack[0])
		x, _ := m.Memory().ReadUint32Le(aStore)
		m.Memory().WriteUint32Le(aHostW2, v+0x200)
		stack[0] = uint64(x * 11)
	}), []api.ValueType{api.ValueTypeI32}, []api.ValueType{api.ValueTypeI32}).Export("h_gomod")
	// api.GoFunc
	b.NewFunctionBuilder().WithGoFunction(api.GoFunc(func(_ context.Context, stack []uint64) {
		stack[0] = uint64(uint32(stack[0])*13 + 3)
	}), []api.ValueType{api.ValueTypeI32}, []api.ValueType{api.ValueTypeI32}).Export("h_go")
	if _, err := b.Instantiate(ctx); err != nil {
		fatalf("env host module: %v", err)
	}
}

func rtConfig(engine string, capMax bool) wazero.RuntimeConfig {
	rc := wazero.NewRuntimeConfigInterpreter()
	if engine == "compiler" {
		rc = wazero.NewRuntimeConfigCompiler()
	}
	if capMax {
		rc = rc.WithMemoryCapacityFromMax(true)
	}
	return rc
}

// newWorld builds runtimes, caches and compiled modules for c. loneSlot >= 0 builds the world of a LONE instance
// that uses slot loneSlot (c.Variants has one element then).
func newWorld(c cfg, dirs *hostDirs, loneSlot int) *world {
	w := &world{c: c, dirs: dirs}
	nrt := 1
	switch c.RT {
	case "one":
	case "separate":
		nrt = 2 // two runtimes with nothing in common
	case "cache-mem":
		nrt = 2
		w.caches = []wazero.CompilationCache{wazero.NewCompilationCache()}
	case "cache-dir", "cache-dir2":
		nrt = 2
		d, err := os.MkdirTemp(dirs.root, "cache-")
		if err != nil {
			fatalf("mkdtemp: %v", err)
		}
		w.cacheDir = d
		n := 1
		if c.RT == "cache-dir2" {
			n = 2
		}
		for k := 0; k < n; k++ {
			cc, err := wazero.NewCompilationCacheWithDir(d)
			if err != nil {
				fatalf("cache dir: %v", err)
			}
			w.caches = append(w.caches, cc)
		}
	default:
		fatalf("bad rt mode %q", c.RT)
	}
	need := [2]bool{}
	for _, v := range c.Variants {
		need[v] = true
	}
	for r := 0; r < nrt; r++ {
		rc := rtConfig(c.Engine, c.CapMax)
		if len(w.caches) > 0 {
			rc = rc.WithCompilationCache(w.caches[r%len(w.caches)])
		}
		rt := wazero.NewRuntimeWithConfig(ctx, rc)
		w.prelude(rt, r, nrt)
		if _, err := wasi_snapshot_preview1.Instantiate(ctx, rt); err != nil {
			fatalf("wasi: %v", err)
		}
		w.buildEnv(rt)
		if _, err := rt.InstantiateWithConfig(ctx, cstBin, wazero.NewModuleConfig().WithName("cst")); err != nil {
			fatalf("cst module: %v", err)
		}
		var cm [2]wazero.CompiledModule
		for v := 0; v < 2; v++ {
			if !need[v] {
				continue
			}
			var err error
			if cm[v], err = rt.CompileModule(ctx, guestBins[c.shape()-1][v]); err != nil {
				fatalf("guest module rejected (%s): %v", c, err)
			}
		}
		w.rts = append(w.rts, rt)
		w.code = append(w.code, cm)
		if w.cacheDir != "" && c.Engine == "compiler" && r == 0 {
			// sanity of the harness: the first runtime must have populated the directory, otherwise the second
			// one would not exercise the load-from-directory path.
			n := 0
			filepath.WalkDir(w.cacheDir, func(_ string, d os.DirEntry, _ error) error {
				if d != nil && !d.IsDir() {
					n++
				}
				return nil
			})
			if n == 0 {
				fatalf("directory-backed cache %s is empty after compilation", w.cacheDir)
			}
		}
	}
	for j := range w.stdout {
		w.stdout[j] = &bytes.Buffer{}
	}
	for j := range c.Variants {
		slot := j
		if loneSlot >= 0 {
			slot = loneSlot
		}
		if c.Shared {
			slot = 0
		}
		w.slotOf[j] = slot
	}
	if c.Shared {
		mc := wazero.NewModuleConfig().WithName("").WithStdout(w.stdout[0]).
			WithFSConfig(wazero.NewFSConfig().WithDirMount(dirs.slots[0], "/"))
		for j := range w.mcs {
			w.mcs[j] = mc // the SAME value
		}
	} else {
		for j := range c.Variants {
			s := w.slotOf[j]
			// distinct names (unique per runtime); results never contain them: the harness compares the name the host
			// function sees (m.Name()) with the caller's
			w.mcs[j] = wazero.NewModuleConfig().WithName(fmt.Sprintf("c11-inst%d", s)).WithStdout(w.stdout[s]).
				WithFSConfig(wazero.NewFSConfig().WithDirMount(dirs.slots[s], "/"))
		}
	}
	return w
}

// bystanderBins: the two unrelated modules of the prelude.
var cstBin = cstModule()

var bystanderBins = map[byte][]byte{'X': bystanderModule('X'), 'Y': bystanderModule('Y')}

func (c cfg) preParts() (kind, assign string) {
	if c.Pre == "" {
		return "", ""
	}
	i := strings.IndexByte(c.Pre, ':')
	if i < 0 {
		fatalf("bad prelude %q", c.Pre)
	}
	return c.Pre[:i], c.Pre[i+1:]
}

// prelude gives runtime r its history (cfg.Pre): before WASI, env and the guest are known to it, it compiles /
// instantiates / closes a bystander module. With two runtimes the bystander is NAMED like the guest instance that
// lives in the other runtime (names are per runtime; the same name in another runtime must mean nothing).
func (w *world) prelude(rt wazero.Runtime, r, nrt int) {
	kind, assign := w.c.preParts()
	if kind == "" {
		return
	}
	if len(assign) != nrt {
		fatalf("prelude %q does not fit %d runtime(s)", w.c.Pre, nrt)
	}
	b := assign[r]
	if b == '-' {
		return
	}
	cm, err := rt.CompileModule(ctx, bystanderBins[b])
	if err != nil {
		fatalf("bystander %c rejected: %v", b, err)
	}
	if kind == "compiled" {
		return
	}
	name := "c11-bystander"
	if nrt == 2 {
		name = fmt.Sprintf("c11-inst%d", 1-r)
	}
	mod, err := rt.InstantiateModule(ctx, cm, wazero.NewModuleConfig().WithName(name))
	if err != nil {
		fatalf("bystander %c: %v", b, err)
	}
	want := uint64(106)
	if b == 'Y' {
		want = 206
	}
	res, err := mod.ExportedFunction("run").Call(ctx)
	if err != nil || len(res) != 1 || res[0] != want {
		w.preFail = fmt.Sprintf("bystander %c in runtime %d: run() = %v, %v; a lone one returns %d", b, r, res, err, want)
	}
	switch kind {
	case "open":
		w.bystand = append(w.bystand, mod)
	case "closed":
		mod.Close(ctx)
	default:
		fatalf("bad prelude kind %q", kind)
	}
}

func (w *world) close() {
	for _, rt := range w.rts {
		rt.Close(ctx)
	}
	for _, c := range w.caches {
		c.Close(ctx)
	}
	if w.cacheDir != "" {
		os.RemoveAll(w.cacheDir)
	}
	w.rts, w.caches, w.code = nil, nil, nil
	if w.c.Engine == "compiler" {
		collectClosedWorlds()
	}
}

// wazevo releases the mmap'ed code of a closed runtime (shared trampolines, entry preambles, host and guest module
// executables: several hundred KiB per world) only in FINALIZERS, and the Go GC does not see that memory, so it is
// not paced by it: with ~10^6 short-lived worlds the process grew to tens of GiB. A collection is therefore forced
// after every gcEveryWorlds closed compiler worlds (the finalizers run right after it).
const gcEveryWorlds = 96

var (
	closedCompilerWorlds atomic.Int64
	forcedGCs            atomic.Int64
	gcMu                 sync.Mutex
)

func collectClosedWorlds() {
	if closedCompilerWorlds.Add(1)%gcEveryWorlds != 0 {
		return
	}
	if gcMu.TryLock() {
		runtime.GC()
		forcedGCs.Add(1)
		gcMu.Unlock()
	}
}

// rssBytes is the resident set size of the process (includes the mmap'ed code that runtime.MemStats does not).
func rssBytes() int64 {
	b, err := os.ReadFile("/proc/self/status")
	if err != nil {
		return 0
	}
	for _, l := range strings.Split(string(b), "\n") {
		if strings.HasPrefix(l, "VmRSS:") {
			f := strings.Fields(l)
			if len(f) >= 2 {
				kb, _ := strconv.ParseInt(f[1], 10, 64)
				return kb << 10
			}
		}
	}
	return 0
}

type inst struct {
	mod     api.Module
	mi      *wasm.ModuleInstance
	fns     []api.Function
	instErr string
}

func (w *world) instantiate(j int) *inst {
	r := j % len(w.rts)
	mod, err := w.rts[r].InstantiateModule(ctx, w.code[r][w.c.Variants[j]], w.mcs[j])
	if err != nil {
		return &inst{instErr: classify(err)}
	}
	in := &inst{mod: mod, mi: mod.(*wasm.ModuleInstance)}
	in.fns = make([]api.Function, len(opNames))
	w.checkFresh(j, in)
	return in
}

// ---------------------------------------------------------------- absolute oracle (needs no twin)

// initialImage is the memory a fresh instance must have: zero except for its data segments (shape 4: what _start stores).
var initialImage = func() (img [numShapes][2][]byte) {
	for sh := 1; sh <= numShapes; sh++ {
		for v := 0; v < 2; v++ {
			b := make([]byte, 65536)
			act := []byte("A0-active-seg!!!")
			pas := []byte("P0-passive-seg!!")
			act[1] += byte(v)
			pas[1] += byte(v)
			copy(b, act)
			copy(b[128:], guestScratch())
			if sh == 2 {
				copy(b[208:], pas)
			}
			img[sh-1][v] = b
		}
	}
	return
}()

// absAt says where in the word an absolute-oracle failure was seen: the instance, the step during which it happened
// (-1: an instantiation before the first step, eager policies) and what was being checked.
type absAt struct {
	Inst, Step int
	Kind       string // "instantiate" | "grow" | "prelude"
}

func (w *world) absFail(kind string, j int, format string, a ...any) {
	if len(w.abs) < 8 {
		w.absAt = append(w.absAt, absAt{j, w.curStep, kind})
		w.abs = append(w.abs, fmt.Sprintf(format, a...))
	}
}

// checkFresh: a fresh instance has exactly its initial memory image (everything outside the data segments is zero,
// spare capacity included), its globals hold their initialisers and its table holds the active element segments.
func (w *world) checkFresh(j int, in *inst) {
	v, sh := w.c.Variants[j], w.c.shape()
	mi := in.mi
	if m := mi.MemoryInstance; m != nil {
		if !bytes.Equal(m.Buffer, initialImage[sh-1][v]) {
			at := 0
			for at < len(m.Buffer) && at < 65536 && m.Buffer[at] == initialImage[sh-1][v][at] {
				at++
			}
			w.absFail("instantiate", j, "fresh instance %d: memory (len %d) differs from its initial image at offset %d", j, len(m.Buffer), at)
		}
		spare := m.Buffer[len(m.Buffer):cap(m.Buffer)]
		for i, b := range spare {
			if b != 0 {
				w.absFail("instantiate", j, "fresh instance %d: spare memory capacity is not zero at offset %d", j, len(m.Buffer)+i)
				break
			}
		}
	}
	if g := in.mod.ExportedGlobal("g0").Get(); g != uint64(10+v) {
		w.absFail("instantiate", j, "fresh instance %d: global g0 = %d, initialiser is %d", j, g, 10+v)
	}
	if g := in.mod.ExportedGlobal("g1").Get(); g != uint64(0x1111111111111111*int64(v+1)) {
		w.absFail("instantiate", j, "fresh instance %d: global g1 = %#x, initialiser is %#x", j, g, uint64(0x1111111111111111*int64(v+1)))
	}
	fA := mi.Source.ImportFunctionCount // fA, fB are the first two functions of the module
	if got, want := w.constsString(mi), wantConsts(v, fA); got != want {
		w.absFail("instantiate", j, "fresh instance %d: globals = [%s], initialisers give [%s]", j, got, want)
	}
	want := fmt.Sprintf("f%d - - - ", fA)
	switch sh {
	case 3:
		want = fmt.Sprintf("f%d - f%d f%d ", fA, fA+1, fA)
	case 4:
		want = "- - - - "
	}
	if got := w.refString(mi, mi.Tables[0].References); got != want {
		w.absFail("instantiate", j, "fresh instance %d: table = [%s], active element segments give [%s]", j, got, want)
	}
}

// checkGrown: the pages a successful memory.grow has just exposed read as zero (the grow letter writes nothing).
func (w *world) checkGrown(j int, in *inst, oldLen int) {
	m := in.mi.MemoryInstance
	if m == nil || len(m.Buffer) <= oldLen {
		return
	}
	for i, b := range m.Buffer[oldLen:] {
		if b != 0 {
			w.absFail("grow", j, "instance %d: page exposed by memory.grow is not zero at offset %d (value %#x)", j, oldLen+i, b)
			return
		}
	}
}

// fn returns the exported function of a letter (looked up once per instance, on first use).
func (in *inst) fn(op int) api.Function {
	if in.fns[op] == nil {
		if in.fns[op] = in.mod.ExportedFunction(opNames[op]); in.fns[op] == nil {
			fatalf("export %s missing", opNames[op])
		}
	}
	return in.fns[op]
}

// classify maps an error to a canonical class (error texts carry module names and stack traces; §1.6).
func classify(err error) string {
	if err == nil {
		return "ok"
	}
	var ee *wsys.ExitError
	if errors.As(err, &ee) {
		return fmt.Sprintf("exit(%d)", ee.ExitCode())
	}
	for _, s := range []struct {
		e *wasmruntime.Error
		n string
	}{
		{wasmruntime.ErrRuntimeOutOfBoundsMemoryAccess, "oob-memory"},
		{wasmruntime.ErrRuntimeInvalidTableAccess, "invalid-table-access"},
		{wasmruntime.ErrRuntimeIndirectCallTypeMismatch, "indirect-call-type-mismatch"},
		{wasmruntime.ErrRuntimeUnreachable, "unreachable"},
		{wasmruntime.ErrRuntimeStackOverflow, "stack-overflow"},
		{wasmruntime.ErrRuntimeInvalidConversionToInteger, "invalid-conversion"},
		{wasmruntime.ErrRuntimeIntegerDivideByZero, "div-by-zero"},
		{wasmruntime.ErrRuntimeIntegerOverflow, "int-overflow"},
	} {
		if errors.Is(err, s.e) {
			return "trap:" + s.n
		}
	}
	t := err.Error()
	if i := strings.IndexByte(t, '\n'); i >= 0 {
		t = t[:i]
	}
	return "error:" + t
}

func (in *inst) call(f api.Function) (res string) {
	defer func() {
		if r := recover(); r != nil {
			res = fmt.Sprintf("go-panic:%v", r)
		}
	}()
	r, err := f.Call(ctx)
	if err != nil {
		return classify(err)
	}
	return fmt.Sprintf("%#x", r[0])
}

// observe takes the final observation of an instance: guest view first (peek), then host view.
func (w *world) observe(j int, in *inst) (o obs) {
	if in == nil {
		return
	}
	o.Exists = true
	if in.instErr != "" {
		o.InstErr = in.instErr
		return
	}
	o.Peek = in.call(in.mod.ExportedFunction(peekName))
	o.BadCall = in.call(in.mod.ExportedFunction(badCallName))
	mi := in.mi
	o.Closed = in.mod.IsClosed()
	if m := mi.MemoryInstance; m != nil {
		o.MemPages = uint32(len(m.Buffer) >> 16)
		o.MemCRC = crc32.Checksum(m.Buffer, castagnoli)
	}
	o.G0 = in.mod.ExportedGlobal("g0").Get()
	o.G1 = in.mod.ExportedGlobal("g1").Get()
	refs := func(rs []wasm.Reference) string { return w.refString(mi, rs) }
	o.Consts = w.constsString(mi)
	for i, t := range mi.Tables {
		if i > 0 {
			o.Table += "| "
		}
		o.Table += refs(t.References)
	}
	var sb strings.Builder
	for i, d := range mi.DataInstances {
		fmt.Fprintf(&sb, "%d:%d:%08x ", i, len(d), crc32.Checksum(d, castagnoli))
	}
	o.Data = sb.String()
	sb.Reset()
	for i, e := range mi.ElementInstances {
		fmt.Fprintf(&sb, "%d:[%s] ", i, refs(e))
	}
	o.Elem = sb.String()
	sb.Reset()
	if mi.Sys == nil {
		sb.WriteString("(closed)")
	}
	for fd := int32(0); fd < 10 && mi.Sys != nil; fd++ {
		e, ok := mi.Sys.FS().LookupFile(fd)
		if !ok {
			continue
		}
		fmt.Fprintf(&sb, "%d:%s:%v:%T", fd, e.Name, e.IsPreopen, e.File)
		if !e.IsPreopen {
			off, errno := e.File.Seek(0, io.SeekCurrent)
			fmt.Fprintf(&sb, ":@%d/%d", off, errno)
		}
		sb.WriteByte(' ')
	}
	o.FDs = sb.String()
	if !w.c.Shared {
		o.Stdout = w.stdout[w.slotOf[j]].String()
	}
	return
}

// constsString is the host view of the round-8 globals of an instance: numeric and externref globals by value, funcref
// globals resolved to owner instance + function index like table entries. (Hot path: called for every observation and
// every instantiation, hence no fmt.)
func (w *world) constsString(mi *wasm.ModuleInstance) string {
	b := make([]byte, 0, 256)
	base := len(mi.Globals) - len(constGlobalNames)
	var tmp *wasm.TableInstance
	var tid wasm.FunctionTypeID
	for i, n := range constGlobalNames {
		g := mi.Globals[base+i]
		lo, hi := g.Value()
		b = append(append(b, n...), '=')
		switch g.Type.ValType {
		case wasm.ValueTypeFuncref:
			if lo == 0 {
				b = append(b, "- "...)
			} else {
				if tmp == nil {
					tmp = &wasm.TableInstance{References: make([]wasm.Reference, 1), Type: wasm.RefTypeFuncref}
					tid = mi.TypeIDs[mi.Source.FunctionSection[0]] // type of fA/fB: () -> i32
				}
				tmp.References[0] = wasm.Reference(lo)
				switch owner, idx, bad := lookupOne(mi, tmp, tid); {
				case bad != "":
					b = append(append(append(b, "UNRESOLVABLE("...), bad...), ") "...)
				case owner == mi:
					b = append(strconv.AppendUint(append(b, 'f'), uint64(idx), 10), ' ')
				default:
					b = append(strconv.AppendUint(append(b, "FOREIGN:f"...), uint64(idx), 10), ' ')
				}
			}
			continue
		case wasm.ValueTypeV128:
			b = append(strconv.AppendUint(append(b, "0x"...), lo, 16), ':')
			lo = hi
		}
		b = append(strconv.AppendUint(append(b, "0x"...), lo, 16), ' ')
	}
	return string(b)
}

// lookupOne resolves slot 0 of a one-slot table through the engine (same answer as refString, without fmt).
func lookupOne(mi *wasm.ModuleInstance, tmp *wasm.TableInstance, tid wasm.FunctionTypeID) (owner *wasm.ModuleInstance, idx wasm.Index, bad string) {
	defer func() {
		if p := recover(); p != nil {
			bad = fmt.Sprint(p)
		}
	}()
	owner, idx = mi.Engine.LookupFunction(tmp, tid, 0)
	return
}

var wantConstsMemo sync.Map // [2]uint32{variant, fA} -> string

// wantConsts is what constsString must give for a fresh instance of the variant (fA = index of the function fA).
func wantConsts(variant int, fA uint32) string {
	k := [2]uint32{uint32(variant), fA}
	if s, ok := wantConstsMemo.Load(k); ok {
		return s.(string)
	}
	c := constGlobalInits(variant)
	s := fmt.Sprintf("k32=%#x k64=%#x kf32=%#x kf64=%#x kv=%#x:%#x rfA=f%d rfB=f%d rnl=- xnl=0x0 gi=%#x gfi=FOREIGN:f0 mf=f%d xm=0x0 ",
		c.k32, c.k64, c.kf32, c.kf64, c.kvLo, c.kvHi, fA, fA+1, cstKi, fA+1)
	wantConstsMemo.Store(k, s)
	return s
}

// refString resolves function references through the engine (engine-neutral): owner instance and function index.
func (w *world) refString(mi *wasm.ModuleInstance, rs []wasm.Reference) string {
	tid := mi.TypeIDs[mi.Source.FunctionSection[0]] // type of fA/fB: () -> i32
	var sb strings.Builder
	tmp := &wasm.TableInstance{References: rs, Type: wasm.RefTypeFuncref}
	for i, r := range rs {
		if r == 0 {
			sb.WriteString("- ")
			continue
		}
		func() {
			defer func() {
				if p := recover(); p != nil {
					fmt.Fprintf(&sb, "UNRESOLVABLE(%v) ", p)
				}
			}()
			owner, idx := mi.Engine.LookupFunction(tmp, tid, uint32(i))
			if owner == mi {
				fmt.Fprintf(&sb, "f%d ", idx)
			} else {
				fmt.Fprintf(&sb, "FOREIGN:f%d ", idx)
			}
		}()
	}
	return sb.String()
}

// wordResult is what one execution of a merged word yields.
type wordResult struct {
	results   [][]string // per instance: result of each of its steps, in order
	final     []obs      // per instance
	sharedOut []string   // Shared config only: the chunk that each step appended to the one configured stdout writer
	abs       []string   // failures of the absolute oracle (fresh-instance state, zero-filled grown pages)
	absAt     []absAt    // parallel to abs: instance, step and kind of check
}

// runWord executes a merged word with fresh instances in world w and closes the instances afterwards.
func (w *world) runWord(word []step) wordResult {
	n := len(w.c.Variants)
	insts := make([]*inst, n)
	for j := range w.stdout {
		w.stdout[j].Reset()
	}
	w.abs, w.absAt, w.curStep = nil, nil, -1
	if w.preFail != "" {
		w.absFail("prelude", -1, "%s", w.preFail)
	}
	switch w.c.Policy {
	case "eager":
		for j := 0; j < n; j++ {
			insts[j] = w.instantiate(j)
		}
	case "eager-rev":
		for j := n - 1; j >= 0; j-- {
			insts[j] = w.instantiate(j)
		}
	}
	res := wordResult{results: make([][]string, n), final: make([]obs, n)}
	for k, s := range word {
		w.curStep = k
		if insts[s.I] == nil {
			insts[s.I] = w.instantiate(s.I)
		}
		in := insts[s.I]
		before := w.stdout[0].Len()
		r := "not-instantiated"
		if in.instErr == "" {
			w.hostSaw = w.hostSaw[:0]
			oldLen := -1
			if opNames[s.Op] == "grow" && in.mi.MemoryInstance != nil {
				oldLen = len(in.mi.MemoryInstance.Buffer)
			}
			r = in.call(in.fn(s.Op))
			if oldLen >= 0 {
				w.checkGrown(s.I, in, oldLen)
			}
			// which module were the module-taking host functions handed as "the caller"?
			for _, m := range w.hostSaw {
				who := ";host-saw:UNKNOWN-MODULE"
				if m == in.mod {
					who = ";host-saw:caller"
				} else {
					for j, o := range insts {
						if o != nil && o.mod == m {
							who = fmt.Sprintf(";host-saw:OTHER-INSTANCE(%d)", j)
						}
					}
				}
				if m.Name() != in.mod.Name() {
					who += ",name-of-another-module"
				}
				r += who
			}
		}
		res.results[s.I] = append(res.results[s.I], r)
		if w.c.Shared {
			res.sharedOut = append(res.sharedOut, string(w.stdout[0].Bytes()[before:]))
		}
	}
	for j := 0; j < n; j++ {
		res.final[j] = w.observe(j, insts[j])
	}
	for _, in := range insts {
		if in != nil && in.mod != nil {
			in.mod.Close(ctx)
		}
	}
	res.abs, res.absAt = w.abs, w.absAt
	return res
}
