// C11 — instances are isolated unless explicitly linked.
//
// Exhaustive enumeration of merged words: N in {2,3} instances (same compiled module / two different
// modules; one runtime / two runtimes sharing a CompilationCache, in-memory and directory-backed; one
// ModuleConfig per instance / one ModuleConfig value reused), a per-instance alphabet of 17 operations
// (see guest.go), every interleaving of per-instance calls up to depth d, both engines. Oracle:
// differential twin — what instance i returns and ends up with must equal what a LONE instance of the
// same module and configuration, in a fresh runtime of its own, returns and ends up with when it
// executes the projection of the word onto i.
package main

import (
	"bytes"
	"crypto/sha256"
	"encoding/json"
	"fmt"
	"os"
	"os/exec"
	"runtime"
	"runtime/debug"
	"sort"
	"strconv"
	"strings"
	"sync"
	"sync/atomic"
	"time"

	"github.com/tetratelabs/wazero/verif/fw"
)

var K = len(opNames)

// ---------------------------------------------------------------- lone reference (memo of digests)

type loneKey struct {
	engine  string
	variant int
	slot    int
	shape   int
	capmax  bool
}

// key is the lone reference that instance j of configuration c is compared with.
func (c cfg) key(j int) loneKey {
	slot := j
	if c.Shared {
		slot = 0
	}
	return loneKey{c.Engine, c.Variants[j], slot, c.shape(), c.CapMax}
}

type loneEntry struct {
	dig   [16]byte // digest of (results of every step, final observation without stdout)
	chunk string   // what the LAST step of the word appended to stdout
}

type loneTable struct {
	byLen [][]loneEntry // [len][code]; code = base-K number of the op word
}

func pow(b, e int) int {
	r := 1
	for ; e > 0; e-- {
		r *= b
	}
	return r
}

func digest(results []string, o obs) (d [16]byte) {
	o.Stdout = ""
	b := make([]byte, 0, 512)
	for _, r := range results {
		b = append(b, r...)
		b = append(b, '|')
	}
	b = fmt.Appendf(b, "#%v|%s|%v|%d|%08x|%x|%x|%s|%s|%s|%s|%s|%s", o.Exists, o.InstErr, o.Closed, o.MemPages, o.MemCRC, o.G0, o.G1, o.Table, o.Data, o.Elem, o.FDs, o.Peek, o.BadCall)
	s := sha256.Sum256(b)
	copy(d[:], s[:16])
	return
}

// loneOut is what a lone reference run yields.
type loneOut struct {
	Res []string `json:"res"`
	Obs obs      `json:"obs"`
	Abs []string `json:"abs"` // absolute-oracle failures of the lone run itself
}

// runLone executes an op word on a lone instance in a FRESH world (own runtime, own compilation) of this process.
func runLone(k loneKey, dirs *hostDirs, ops []int) loneOut {
	w := newWorld(cfg{Engine: k.engine, RT: "one", Variants: []int{k.variant}, Policy: "eager", Shape: k.shape, CapMax: k.capmax}, dirs, k.slot)
	defer w.close()
	word := make([]step, len(ops))
	for i, o := range ops {
		word[i] = step{0, o}
	}
	r := w.runWord(word)
	return loneOut{r.results[0], r.final[0], r.abs}
}

// ---- child processes. Process-wide state (package-level pools, caches, clocks) outlives worlds, so a reference
// computed in a process that already ran other worlds may be polluted. Authoritative references and confirmations
// are therefore computed in FRESH processes (re-exec of this binary), which share only the mount directories.

type childReq struct {
	Root     string        `json:"root"`
	Lone     *loneReq      `json:"lone,omitempty"`
	Case     *replayCase   `json:"case,omitempty"`
	Separate *separateCase `json:"separate,omitempty"`
}

type loneReq struct {
	Engine  string `json:"engine"`
	Variant int    `json:"variant"`
	Slot    int    `json:"slot"`
	Shape   int    `json:"shape"`
	CapMax  bool   `json:"capmax"`
	Ops     []int  `json:"ops"`
}

type childResp struct {
	Lone     *loneOut  `json:"lone,omitempty"`
	Mismatch *mismatch `json:"mismatch,omitempty"`
}

func callChild(req childReq) childResp {
	exe, err := os.Executable()
	if err != nil {
		fatalf("executable: %v", err)
	}
	in, _ := json.Marshal(req)
	cmd := exec.Command(exe, "child")
	cmd.Stdin = bytes.NewReader(in)
	cmd.Stderr = os.Stderr
	out, err := cmd.Output()
	if err != nil {
		fatalf("child process (%s): %v", in[:min(len(in), 300)], err)
	}
	var resp childResp
	if err := json.Unmarshal(out, &resp); err != nil {
		fatalf("child process output %q: %v", out[:min(len(out), 300)], err)
	}
	return resp
}

// childMain serves one request in a fresh process: the requested thing is the FIRST thing this process does.
func childMain() {
	var req childReq
	if err := json.NewDecoder(os.Stdin).Decode(&req); err != nil {
		fw.Fatalf("child: %v", err)
	}
	dirs := hostDirsAt(req.Root)
	var resp childResp
	switch {
	case req.Lone != nil:
		l := req.Lone
		o := runLone(loneKey{l.Engine, l.Variant, l.Slot, l.Shape, l.CapMax}, dirs, l.Ops)
		resp.Lone = &o
	case req.Case != nil:
		e := &explorer{dirs: dirs, freshLone: true}
		resp.Mismatch = e.judge(*req.Case)
	case req.Separate != nil:
		resp.Mismatch = judgeSeparate(*req.Separate, dirs)
	}
	b, _ := json.Marshal(resp)
	os.Stdout.Write(b)
}

// loneFresh is runLone in a fresh process.
func loneFresh(k loneKey, dirs *hostDirs, ops []int) loneOut {
	r := callChild(childReq{Root: dirs.root, Lone: &loneReq{k.engine, k.variant, k.slot, k.shape, k.capmax, ops}})
	if r.Lone == nil {
		fatalf("child returned no lone result")
	}
	return *r.Lone
}

const confirmRuns = 3

// confirm re-executes a case in confirmRuns fresh processes (same words, same order, one world, lone references from
// further fresh processes) and returns the mismatch if it recurs in at least two of them.
func confirm(req childReq) *mismatch {
	var first *mismatch
	n := 0
	for i := 0; i < confirmRuns; i++ {
		if m := callChild(req).Mismatch; m != nil {
			n++
			if first == nil {
				first = m
			}
		}
		if n >= 2 || n+(confirmRuns-1-i) < 2 {
			break
		}
	}
	if n >= 2 {
		return first
	}
	return nil
}

func decode(code, n int) []int {
	ops := make([]int, n)
	for i := n - 1; i >= 0; i-- {
		ops[i] = code % K
		code /= K
	}
	return ops
}

var interned sync.Map

func intern(s string) string {
	if v, ok := interned.Load(s); ok {
		return v.(string)
	}
	v, _ := interned.LoadOrStore(s, s)
	return v.(string)
}

func buildLone(abort func() bool, breathe func(), onAbs func(loneKey, []int, string), k loneKey, dirs *hostDirs, depth int, count *atomic.Int64) *loneTable {
	t := &loneTable{byLen: make([][]loneEntry, depth+1)}
	for n := 0; n <= depth; n++ {
		t.byLen[n] = make([]loneEntry, pow(K, n))
	}
	for n := 0; n <= depth; n++ {
		n := n
		tot := len(t.byLen[n])
		// chunked so that goroutine scheduling overhead stays negligible
		const chunk = 64
		fw.Parallel((tot+chunk-1)/chunk, runtime.NumCPU(), func(ci int) {
			if abort() {
				return
			}
			for code := ci * chunk; code < tot && code < (ci+1)*chunk; code++ {
				breathe()
				lo := runLone(k, dirs, decode(code, n))
				res, o := lo.Res, lo.Obs
				if len(lo.Abs) > 0 {
					onAbs(k, decode(code, n), lo.Abs[0])
				}
				e := loneEntry{dig: digest(res, o)}
				// chunk of the last step = stdout minus parent's stdout; parents (length n-1) are complete.
				if n > 0 {
					e.chunk = intern(o.Stdout[t.stdoutLen(code/K, n-1):])
				}
				t.byLen[n][code] = e
				count.Add(1)
			}
		})
	}
	return t
}

// stdoutLen is the length of the lone stdout after the word (sum of chunk lengths along its prefixes).
func (t *loneTable) stdoutLen(code, n int) int {
	l := 0
	for ; n > 0; n-- {
		l += len(t.byLen[n][code].chunk)
		code /= K
	}
	return l
}

func (t *loneTable) stdout(code, n int) string {
	var parts []string
	for ; n > 0; n-- {
		parts = append(parts, t.byLen[n][code].chunk)
		code /= K
	}
	var sb strings.Builder
	for i := len(parts) - 1; i >= 0; i-- {
		sb.WriteString(parts[i])
	}
	return sb.String()
}

// ---------------------------------------------------------------- explorer

type explorer struct {
	run  *fw.Run
	dirs *hostDirs
	lone map[loneKey]*loneTable

	words, steps, interleaved, instObs, worlds atomic.Int64
	shards                                     int64
	stop                                       atomic.Bool
	nonRepro, loneRepaired                     atomic.Int64
	verbose                                    bool
	freshLone                                  bool // explain() takes its lone references from fresh processes
	loneAbs                                    atomic.Int64
	memStop                                    atomic.Bool // memory guard tripped: take no new work
	peakRSS                                    atomic.Int64
	throttle                                   atomic.Bool
	throttles                                  atomic.Int64
	quiesce                                    sync.RWMutex // workers hold it shared per word; mismatch handling holds it exclusively
	collisions                                 map[string]int64
	outcomes                                   *fw.Counter
	samples                                    *fw.Sampler
	violMu                                     sync.Mutex
	violCount                                  int
}

const maxViolations = 24

type replayCase struct {
	Cfg   cfg      `json:"cfg"`
	Words [][]step `json:"words"` // executed one after the other in ONE fresh world, each with fresh instances; the last one is judged
}

// mismatch describes the first difference between a multi-instance run of word and the lone references.
type mismatch struct {
	Inst     int    `json:"inst"`
	Field    string `json:"field"`
	Got      string `json:"got"`
	Want     string `json:"want"`
	Culprit  string `json:"culprit"` // op of the last step of ANOTHER instance before the divergence (or "")
	VictimOp string `json:"victim_op"`
}

// check compares the result of word (executed in a world of configuration c) with the lone references,
// by digest. It returns true when everything matches.
func (e *explorer) check(c cfg, word []step, r wordResult) bool {
	if len(r.abs) > 0 {
		return false
	}
	n := len(c.Variants)
	var code, cnt [3]int
	// per-step shared stdout chunks
	for k, s := range word {
		code[s.I] = code[s.I]*K + s.Op
		cnt[s.I]++
		if c.Shared && cnt[s.I] <= c.RefDepth {
			t := e.lone[c.key(s.I)]
			if r.sharedOut[k] != t.byLen[cnt[s.I]][code[s.I]].chunk {
				return false
			}
		}
	}
	for j := 0; j < n; j++ {
		if !r.final[j].Exists {
			if cnt[j] != 0 || c.Policy != "lazy" {
				return false
			}
			continue
		}
		if cnt[j] > c.RefDepth {
			continue // the single actor of a full-depth word: no reference of that length (see NOTES.md)
		}
		t := e.lone[c.key(j)]
		if digest(r.results[j], r.final[j]) != t.byLen[cnt[j]][code[j]].dig {
			return false
		}
		if !c.Shared && r.final[j].Stdout != t.stdout(code[j], cnt[j]) {
			return false
		}
	}
	return true
}

// explain recomputes the lone references in full and returns the first difference (nil if none).
func (e *explorer) explain(c cfg, word []step, r wordResult) *mismatch {
	n := len(c.Variants)
	proj := make([][]int, n)
	idx := make([]int, n)
	lastOther := func(k, inst int) string {
		for q := k; q >= 0; q-- {
			if word[q].I != inst {
				return opNames[word[q].Op]
			}
		}
		return ""
	}
	for _, s := range word {
		proj[s.I] = append(proj[s.I], s.Op)
	}
	if len(r.abs) > 0 {
		// the failing step is the instantiation (or the grow) of r.absAt[0].Inst during step r.absAt[0].Step; the culprit is
		// the last step of another instance before it
		at := r.absAt[0]
		return &mismatch{Inst: at.Inst, Field: "absolute", Got: r.abs[0], Want: "(absolute oracle: no twin needed)", VictimOp: at.Kind, Culprit: lastOther(min(at.Step, len(word))-1, at.Inst)}
	}
	type lr struct {
		res    []string
		o      obs
		chunks []string
	}
	loneFn := runLone
	if e.freshLone {
		loneFn = loneFresh
	}
	lone := make([]lr, n)
	for j := 0; j < n; j++ {
		k := c.key(j)
		prev := 0
		for q := 0; q <= len(proj[j]); q++ {
			lo := loneFn(k, e.dirs, proj[j][:q])
			if len(lo.Abs) > 0 {
				return &mismatch{Inst: j, Field: "absolute(lone-reference)", Got: lo.Abs[0], Want: "(absolute oracle: no twin needed)"}
			}
			if q > 0 {
				lone[j].chunks = append(lone[j].chunks, lo.Obs.Stdout[min(prev, len(lo.Obs.Stdout)):])
			}
			prev = len(lo.Obs.Stdout)
			lone[j].res, lone[j].o = lo.Res, lo.Obs
		}
	}
	for k, s := range word {
		got, want := r.results[s.I][idx[s.I]], lone[s.I].res[idx[s.I]]
		if got != want {
			return &mismatch{Inst: s.I, Field: "result", Got: got, Want: want, Culprit: lastOther(k-1, s.I), VictimOp: opNames[s.Op]}
		}
		if c.Shared && r.sharedOut[k] != lone[s.I].chunks[idx[s.I]] {
			return &mismatch{Inst: s.I, Field: "shared-stdout-chunk", Got: fmt.Sprintf("%q", r.sharedOut[k]), Want: fmt.Sprintf("%q", lone[s.I].chunks[idx[s.I]]), Culprit: lastOther(k-1, s.I), VictimOp: opNames[s.Op]}
		}
		idx[s.I]++
	}
	for j := 0; j < n; j++ {
		a, b := r.final[j], lone[j].o
		if !a.Exists && len(proj[j]) == 0 && c.Policy == "lazy" {
			continue
		}
		if c.Shared {
			b.Stdout = ""
		}
		if f, got, want := a.diff(b); f != "" {
			return &mismatch{Inst: j, Field: "final." + f, Got: got, Want: want, Culprit: lastOther(len(word)-1, j)}
		}
	}
	return nil
}

func (m *mismatch) signature(c cfg) string {
	topo := "same-module"
	for _, v := range c.Variants {
		if v != c.Variants[0] {
			topo = "different-modules"
		}
	}
	cul := m.Culprit
	if cul == "" {
		cul = "none(earlier-word-or-instantiation)"
	}
	if kind, _ := c.preParts(); kind != "" {
		topo += "/runtime-prelude-" + kind
	}
	s := fmt.Sprintf("%s:%s:%s", c.Engine, topo, m.Field)
	if m.VictimOp != "" {
		s += "(" + m.VictimOp + ")"
	}
	return s + "<-" + cul
}

// judge runs words in a fresh world and reports whether the last one deviates from the lone references.
func (e *explorer) judge(rc replayCase) *mismatch {
	w := newWorld(rc.Cfg, e.dirs, -1)
	defer w.close()
	var r wordResult
	for _, wd := range rc.Words {
		r = w.runWord(wd)
	}
	last := rc.Words[len(rc.Words)-1]
	if e.verbose {
		for j := range r.results {
			fmt.Printf("  instance %d: results %v\n    final %+v\n", j, r.results[j], r.final[j])
		}
	}
	return e.explain(rc.Cfg, last, r)
}

// failed is called (with every other worker paused) when a word executed in a reused world does not match.
//
//  1. A minimal candidate is searched IN this process with fresh worlds: the word alone; else [an earlier word of the
//     same world, the word] (sequential instances); this uses in-process lone references and is fast.
//  2. A candidate only becomes a VIOLATION when it is CONFIRMED: re-executed in fresh processes (confirmRuns=3; same
//     words, same order, one world; lone references from further fresh processes) it must recur at least twice.
//  3. If there is no candidate, or it is not confirmed, the whole batch — every word this world executed so far, in
//     order, then the word — is re-executed the same way; recurring twice it is a VIOLATION with the signature suffix
//     ":history-dependent" and the batch prefix as replay.
//  4. A mismatch that never recurs is a note: the run stays exhaustive and exits 0 (never a harness error).
func (e *explorer) failed(c cfg, history [][]step, word []step) {
	e.violMu.Lock()
	e.violCount++
	nv := e.violCount
	e.violMu.Unlock()
	if nv > maxViolations {
		// enough evidence: stop the exploration (the run fails anyway)
		e.stop.Store(true)
		e.run.Capped(fmt.Sprintf("stopped after %d mismatching words", maxViolations))
		return
	}
	report := func(m *mismatch, rc replayCase, suffix string) {
		what := fmt.Sprintf("[%s] word {%s}: instance %d %s = %s, lone instance gives %s", c, wordString(word), m.Inst, m.Field, m.Got, m.Want)
		if len(rc.Words) > 1 {
			what += fmt.Sprintf(" — only after %d earlier word(s) in the same world (fresh instances each), first {%s}", len(rc.Words)-1, wordString(rc.Words[0]))
		}
		e.run.Violation(m.signature(c)+suffix, what+fmt.Sprintf(" [confirmed in fresh processes, %d runs]", confirmRuns), rc)
		e.outcomes.Inc("word:mismatch")
	}
	var cand *replayCase
	try := func(words [][]step) bool {
		rc := replayCase{Cfg: c, Words: words}
		if e.judge(rc) != nil {
			cand = &rc
			return true
		}
		return false
	}
	if !try([][]step{word}) {
		// Not reproduced alone. Were the memoised lone references (computed while other workers were running)
		// themselves disturbed? Recompute them now that everything else is paused.
		e.repairLone(c, word)
		for q := len(history) - 1; q >= 0 && q >= len(history)-4000; q-- {
			if try([][]step{history[q], word}) {
				break
			}
		}
	}
	if cand != nil {
		if m := confirm(childReq{Root: e.dirs.root, Case: cand}); m != nil {
			suffix := ""
			if len(cand.Words) > 1 {
				suffix = "@after-earlier-instances"
			}
			report(m, *cand, suffix)
			return
		}
	}
	if len(history) > 0 {
		whole := replayCase{Cfg: c, Words: append(append([][]step{}, history...), word)}
		if m := confirm(childReq{Root: e.dirs.root, Case: &whole}); m != nil {
			report(m, whole, ":history-dependent")
			return
		}
	}
	e.nonRepro.Add(1)
	e.run.Note("mismatch that did not recur in fresh processes: cfg %s word {%s} after %d words in its world", c, wordString(word), len(history))
}

// loneAbsFailure: a lone reference run (a lone instance in a fresh runtime of THIS process) violated the absolute
// oracle. That is a violation by itself; the deterministic witness is the separate-runtime case (a disturbing
// instance in another runtime, then the lone word), confirmed in fresh processes.
func (e *explorer) loneAbsFailure(k loneKey, ops []int, msg string) {
	if e.loneAbs.Add(1) > 3 {
		return
	}
	sc := separateCase{Engine: k.engine, Ops: ops, CapMax: k.capmax}
	if m := confirm(childReq{Root: e.dirs.root, Separate: &sc}); m != nil {
		e.reportSeparate(sc, m)
		return
	}
	e.run.Note("lone reference %v %v violated the absolute oracle (%s) but the separate-runtime case did not recur in fresh processes", k, ops, msg)
}

// repairLone recomputes (quiesced) the memo entries that word's projections use; entries that differ are replaced.
// A difference means that lone reference runs were disturbed by other runtimes running concurrently in the process:
// process-wide shared state. That cannot be replayed as such; the deterministic witnesses are phase 0 and the
// merged words of every configuration (judged quiesced). If neither produces a violation the run ends as a
// harness error.
func (e *explorer) repairLone(c cfg, word []step) (repaired bool) {
	if e.lone == nil {
		return false
	}
	n := len(c.Variants)
	proj := make([][]int, n)
	for _, s := range word {
		proj[s.I] = append(proj[s.I], s.Op)
	}
	for j := 0; j < n; j++ {
		if len(proj[j]) > c.RefDepth {
			continue
		}
		k := c.key(j)
		t := e.lone[k]
		code := 0
		for q, o := range proj[j] {
			code = code*K + o
			lo := runLone(k, e.dirs, proj[j][:q+1])
			res, ob := lo.Res, lo.Obs
			ent := &t.byLen[q+1][code]
			d := digest(res, ob)
			chunk := intern(ob.Stdout[min(len(ob.Stdout), t.stdoutLen(code/K, q)):])
			if d != ent.dig || chunk != ent.chunk {
				ent.dig, ent.chunk = d, chunk
				repaired = true
				e.loneRepaired.Add(1)
			}
		}
	}
	return
}

func singleActor(word []step) bool {
	for _, s := range word {
		if s.I != word[0].I {
			return false
		}
	}
	return true
}

type plan struct {
	c        cfg
	depth    int
	oneWorld bool // the whole plan is ONE shard (one world): used for the many shallow runtime-prelude plans
}

// canonical merged words: among interchangeable instances (same module variant) the instances are named in
// order of first appearance, so that words that differ only by a renaming of such instances are enumerated
// once. The instantiation policies eager / eager-rev / lazy restore the orders that the renaming would drop.
func (p plan) allowed(i int, used uint) bool {
	for j := 0; j < i; j++ {
		if p.c.Variants[j] == p.c.Variants[i] && used&(1<<uint(j)) == 0 {
			return false
		}
	}
	return true
}

// each visits every extension of word (including word itself) up to length maxLen.
func (p plan) each(word []step, used uint, maxLen int, visit func([]step)) {
	visit(word)
	if len(word) >= maxLen {
		return
	}
	for i := range p.c.Variants {
		if !p.allowed(i, used) {
			continue
		}
		for o := 0; o < K; o++ {
			p.each(append(word, step{i, o}), used|1<<uint(i), maxLen, visit)
		}
	}
}

// A shard is the subtree below one prefix (all words that extend it, up to the plan's depth), or — prefix nil,
// short true — the words shorter than the shard prefix length. One multi-instance world serves one shard.
type shard struct {
	plan   int
	prefix []step
	short  bool
}

func (p plan) prefixLen() int {
	if p.oneWorld {
		return 0
	}
	if p.depth <= 3 {
		return min(1, p.depth)
	}
	return p.depth - 2
}

func (p plan) shards(pi int) []shard {
	out := []shard{{plan: pi, short: true}}
	pl := p.prefixLen()
	p.each(nil, 0, pl, func(w []step) {
		if len(w) == pl && pl > 0 {
			out = append(out, shard{plan: pi, prefix: append([]step{}, w...)})
		}
	})
	return out
}

// collisionPairs: (X by one instance, Y later by ANOTHER instance) pairs through which hidden sharing would
// show; the number of explored words containing each pair is reported as evidence that the collisions happen.
var collisionPairs = [][2]string{{"ddrop", "minit"}, {"edrop", "tinit"}, {"store", "store"}, {"store", "write"}, {"store", "bulk"}, {"store", "host"}, {"host", "host"}, {"exit", "host"},
	{"grow", "grow"}, {"grow", "store"}, {"gset", "gset"}, {"tset", "tset"}, {"tgrow", "tgrow"}, {"tinit", "tset"}, {"open", "open"},
	{"open", "close"}, {"open", "renumber"}, {"renumber", "open"}, {"close", "open"}, {"write", "write"}, {"ls", "ls"}, {"open", "ls"}, {"exit", "ls"},
	{"exit", "store"}, {"exit", "write"}, {"exit", "minit"}, {"exit", "tinit"}, {"exit", "open"}}

var collisionIdx = func() map[[2]int]string {
	idx := map[string]int{}
	for i, n := range opNames {
		idx[n] = i
	}
	m := map[[2]int]string{}
	for _, p := range collisionPairs {
		m[[2]int{idx[p[0]], idx[p[1]]}] = p[0] + "->" + p[1]
	}
	return m
}()

type shardStats struct {
	words, steps, interleaved, instObs int64
	outcomes                           map[string]int64
	collisions                         map[string]int64
	samples                            []any
}

func (e *explorer) runShard(p plan, sh shard, sampleIt bool) (st shardStats) {
	st.outcomes = map[string]int64{}
	st.collisions = map[string]int64{}
	w := newWorld(p.c, e.dirs, -1)
	e.worlds.Add(1)
	defer func() { w.close() }()
	var history [][]step
	exec := func(word []step) {
		if e.stop.Load() || e.memStop.Load() {
			return
		}
		e.breathe()
		if len(word) == p.depth && p.depth > p.c.RefDepth && singleActor(word) && p.c.Policy == "lazy" {
			return // identical to a lone run of a word longer than the reference table: nothing to compare
		}
		e.quiesce.RLock()
		r := w.runWord(word)
		matches := e.check(p.c, word, r)
		e.quiesce.RUnlock()
		st.words++
		st.steps += int64(len(word))
		var seen uint
		for _, s := range word {
			seen |= 1 << uint(s.I)
		}
		if seen&(seen-1) != 0 {
			st.interleaved++
			var hit [32]string
			nh := 0
			for a := range word {
				for b := a + 1; b < len(word); b++ {
					if word[a].I != word[b].I {
						if n, ok := collisionIdx[[2]int{word[a].Op, word[b].Op}]; ok {
							dup := false
							for _, h := range hit[:nh] {
								dup = dup || h == n
							}
							if !dup && nh < len(hit) {
								hit[nh] = n
								nh++
								st.collisions[n]++
							}
						}
					}
				}
			}
		}
		for j := range r.results {
			for _, x := range r.results[j] {
				if strings.HasPrefix(x, "0x") {
					st.outcomes["step:returned"]++
				} else {
					st.outcomes["step:"+x]++
				}
			}
			if r.final[j].Exists {
				st.instObs++
			}
		}
		if matches {
			st.outcomes["word:matches-lone"]++
		} else {
			e.quiesce.Lock()
			e.failed(p.c, history, append([]step{}, word...))
			e.quiesce.Unlock()
			// the world may be damaged: continue in a new one
			w.close()
			w = newWorld(p.c, e.dirs, -1)
			e.worlds.Add(1)
			history = nil
		}
		if sampleIt && len(word) == p.depth && len(st.samples) == 0 {
			st.samples = append(st.samples, map[string]any{"cfg": p.c.String(), "word": wordString(word), "results": r.results})
		}
		history = append(history, append([]step{}, word...))
	}
	if sh.short {
		if p.oneWorld {
			p.each(nil, 0, p.depth, exec)
		} else {
			p.each(nil, 0, p.prefixLen()-1, exec)
		}
		return
	}
	used := uint(0)
	for _, s := range sh.prefix {
		used |= 1 << uint(s.I)
	}
	p.each(append([]step{}, sh.prefix...), used, p.depth, exec)
	return
}

// exploreAll runs every shard of every plan on all cores and returns the number of words per plan.
func (e *explorer) exploreAll(ps []plan) []int64 {
	var shards []shard
	for pi, p := range ps {
		shards = append(shards, p.shards(pi)...)
	}
	perPlan := make([]int64, len(ps))
	var mu sync.Mutex
	fw.Parallel(len(shards), runtime.NumCPU(), func(si int) {
		if e.run.Expired() {
			e.run.Capped("budget")
			return
		}
		if e.stop.Load() || e.memStop.Load() {
			return
		}
		st := e.runShard(ps[shards[si].plan], shards[si], si%97 == 5)
		// merged at once: nothing is retained per shard
		mu.Lock()
		defer mu.Unlock()
		perPlan[shards[si].plan] += st.words
		e.words.Add(st.words)
		e.steps.Add(st.steps)
		e.interleaved.Add(st.interleaved)
		e.instObs.Add(st.instObs)
		for k, v := range st.outcomes {
			e.outcomes.AddN(k, v)
		}
		for k, v := range st.collisions {
			e.collisions[k] += v
		}
		for _, x := range st.samples {
			e.samples.Add(x)
		}
	})
	e.shards = int64(len(shards))
	return perPlan
}

// ---------------------------------------------------------------- phase 0: separate runtimes, sequential

// separateCase: a lone instance must behave the same whether or not ANOTHER runtime (no shared cache, nothing
// in common but the process) has run or is running an instance of the same module. This is the weakest form of
// the property, and it is also what makes the lone reference itself trustworthy: phase 0 runs strictly
// sequentially before anything else, and a failure here ends the run.
type separateCase struct {
	Engine      string `json:"engine"`
	Ops         []int  `json:"ops"`              // the lone word
	DisturbOpen bool   `json:"disturb_open"`     // true: the disturbing instance is still open while the word runs
	CapMax      bool   `json:"capmax,omitempty"` // both runtimes use WithMemoryCapacityFromMax(true)
}

func allOps(withExit bool) []int {
	var ops []int
	for o := range opNames {
		if opNames[o] != "exit" || withExit {
			ops = append(ops, o)
		}
	}
	return ops
}

func opIndex(name string) int {
	for i, n := range opNames {
		if n == name {
			return i
		}
	}
	panic(name)
}

// judgeSeparate must be the first thing its process does. It returns the first difference between the lone word in
// the pristine process and the same lone word after / while a disturbing instance in ANOTHER runtime executed every
// letter twice (twice: so that it also writes into the pages it has grown) — or an absolute-oracle failure of either.
func judgeSeparate(sc separateCase, dirs *hostDirs) *mismatch {
	k := loneKey{sc.Engine, 0, 0, 1, sc.CapMax}
	absM := func(which string, lo loneOut) *mismatch {
		if len(lo.Abs) == 0 {
			return nil
		}
		return &mismatch{Field: "absolute(" + which + ")", Got: lo.Abs[0], Want: "(absolute oracle: no twin needed)", Culprit: "instance-in-another-runtime"}
	}
	l1 := runLone(k, dirs, sc.Ops)
	if m := absM("pristine-process", l1); m != nil {
		return m
	}
	d := newWorld(cfg{Engine: sc.Engine, RT: "one", Variants: []int{0}, Policy: "eager", Shape: 1, CapMax: sc.CapMax}, dirs, 1)
	in := d.instantiate(0)
	for pass := 0; pass < 2; pass++ {
		for _, o := range allOps(false) {
			in.call(in.fn(o))
		}
	}
	var l2 loneOut
	if sc.DisturbOpen {
		l2 = runLone(k, dirs, sc.Ops)
		in.mod.Close(ctx)
		d.close()
	} else {
		in.call(in.fn(opIndex("exit")))
		in.mod.Close(ctx)
		d.close()
		l2 = runLone(k, dirs, sc.Ops)
	}
	if m := absM("after-another-runtime", l2); m != nil {
		return m
	}
	for i := range l1.Res {
		if l1.Res[i] != l2.Res[i] {
			return &mismatch{Field: "result", Got: l2.Res[i], Want: l1.Res[i], VictimOp: opNames[sc.Ops[i]], Culprit: "instance-in-another-runtime"}
		}
	}
	if f, got, want := l2.Obs.diff(l1.Obs); f != "" {
		return &mismatch{Field: "final." + f, Got: got, Want: want, Culprit: "instance-in-another-runtime"}
	}
	return nil
}

func (e *explorer) reportSeparate(sc separateCase, m *mismatch) {
	word := make([]step, len(sc.Ops))
	for i, o := range sc.Ops {
		word[i] = step{0, o}
	}
	sig := fmt.Sprintf("%s:separate-runtimes:%s", sc.Engine, m.Field)
	if m.VictimOp != "" {
		sig += "(" + m.VictimOp + ")"
	}
	e.run.Violation(sig, fmt.Sprintf("[%s, capmax=%v, two runtimes with nothing in common, fresh process] lone word {%s}: %s = %s after/while an instance in ANOTHER runtime ran every letter, %s before",
		sc.Engine, sc.CapMax, wordString(word), m.Field, m.Got, m.Want), map[string]any{"separate": sc})
	e.outcomes.Inc("separate:mismatch")
}

// phase0: every case runs in its OWN fresh process (so it is exactly what `replay` re-executes), all cases in parallel.
func (e *explorer) phase0() (cases int64, ok bool) {
	var scs []separateCase
	for _, eng := range []string{"compiler", "interpreter"} {
		var words [][]int
		for o := range opNames {
			words = append(words, []int{o})
		}
		words = append(words, allOps(true), []int{opIndex("grow"), opIndex("grow"), opIndex("store")})
		for _, capMax := range []bool{false, true} {
			for _, w := range words {
				for _, open := range []bool{false, true} {
					scs = append(scs, separateCase{Engine: eng, Ops: w, DisturbOpen: open, CapMax: capMax})
				}
			}
		}
	}
	res := make([]*mismatch, len(scs))
	fw.Parallel(len(scs), runtime.NumCPU(), func(i int) {
		res[i] = callChild(childReq{Root: e.dirs.root, Separate: &scs[i]}).Mismatch
	})
	ok = true
	for i, m := range res {
		if m != nil {
			ok = false
			e.reportSeparate(scs[i], m)
		} else {
			e.outcomes.Inc("separate:unaffected")
		}
	}
	return int64(len(scs)), ok
}

// memoryGuard bounds the resident set of the process. The workers allocate ~2 GiB/s of short-lived instance state
// (64 KiB+ linear memories, sys contexts); on a loaded machine the concurrent collector falls behind and the heap
// overshoots its goal by gigabytes. The guard samples VmRSS every 100 ms (it includes wazevo's mmap'ed code, which
// runtime.MemStats does not):
//   - above throttleBytes the workers pause at their next word boundary while the guard forces a collection and
//     returns the freed memory to the OS, then they resume;
//   - if the process is still above guardBytes AFTER such a collection, live data is too large: the run stops
//     cleanly (run.Capped("memory guard") => exhaustive:false, exit 0) instead of being killed by the kernel.
const (
	throttleBytes = 2560 << 20
	guardBytes    = 6 << 30
)

func (e *explorer) memoryGuard() {
	for n := 0; ; n++ {
		time.Sleep(100 * time.Millisecond)
		r := rssBytes()
		if r > e.peakRSS.Load() {
			e.peakRSS.Store(r)
		}
		if os.Getenv("C11_MEMTRACE") != "" && n%20 == 0 {
			var ms runtime.MemStats
			runtime.ReadMemStats(&ms)
			fmt.Fprintf(os.Stderr, "mem: rss=%dMiB heapInuse=%dMiB heapSys=%dMiB heapReleased=%dMiB sys=%dMiB numGC=%d worldsClosed=%d throttles=%d\n",
				r>>20, ms.HeapInuse>>20, ms.HeapSys>>20, ms.HeapReleased>>20, ms.Sys>>20, ms.NumGC, closedCompilerWorlds.Load(), e.throttles.Load())
		}
		if r > throttleBytes {
			e.throttle.Store(true)
			e.throttles.Add(1)
			time.Sleep(20 * time.Millisecond) // let the workers reach a word boundary
			runtime.GC()
			debug.FreeOSMemory()
			if rssBytes() > guardBytes {
				e.memStop.Store(true)
				e.run.Capped("memory guard")
			}
			e.throttle.Store(false)
		}
	}
}

// breathe is called by every worker between two words (and between two lone reference runs).
func (e *explorer) breathe() {
	for e.throttle.Load() {
		time.Sleep(2 * time.Millisecond)
	}
}

// ---------------------------------------------------------------- plans

func plans(thorough bool) []plan {
	var ps []plan
	// Both tiers have depth 4 for the primary configuration. quick: every other configuration at depth 3.
	// thorough: the nine most important other configurations at depth 4 as well (deep4 below), the rest at depth 3.
	// C11_DEPTH=n (not a tier): primary at depth n, the others at n-1; n=5 is the 9*10^7-word exploration that
	// needs ~16 000 cpu-s (about 17 min on 16 idle cores) and does not fit the thorough budget on a shared machine.
	d := 4
	override := false
	if v, err := strconv.Atoi(os.Getenv("C11_DEPTH")); err == nil && v >= 2 {
		d, override = v, true
	}
	seen := map[string]bool{}
	shape, capMax, pre := 1, false, ""
	add := func(depth int, rt string, variants []int, policy string, shared bool) {
		for _, eng := range []string{"compiler", "interpreter"} {
			c := cfg{Engine: eng, RT: rt, Variants: variants, Policy: policy, Shared: shared, Shape: shape, CapMax: capMax, Pre: pre}
			if !seen[c.String()] {
				seen[c.String()] = true
				ps = append(ps, plan{c: c, depth: depth, oneWorld: pre != "" && depth <= 2})
			}
		}
	}
	same2, same3, diff2, diff3 := []int{0, 0}, []int{0, 0, 0}, []int{0, 1}, []int{0, 0, 1}
	// primary: two instances of the same compiled module in one runtime, full depth. It is appended LAST so that a
	// run that hits its budget has covered every configuration before it deepens the primary one.
	var primary []plan
	for _, eng := range []string{"compiler", "interpreter"} {
		c := cfg{Engine: eng, RT: "one", Variants: same2, Policy: "lazy", Shape: 1}
		seen[c.String()] = true
		primary = append(primary, plan{c: c, depth: d})
	}
	// secondary configurations, one level shallower
	s := d - 1
	quickOnly := func(f func()) {
		if d < 5 { // dropped only by the C11_DEPTH=5 exploration, whose words are 34x more numerous per level
			f()
		}
	}
	if thorough && !override {
		// thorough: these also get the full depth (added first, so the depth-3 entries below are skipped for them)
		add(d, "one", same2, "eager", false)
		add(d, "one", same2, "eager-rev", false)
		add(d, "one", same3, "lazy", false)
		add(d, "one", diff2, "lazy", false)
		add(d, "cache-mem", same2, "lazy", false)
		add(d, "cache-dir2", same2, "lazy", false)
		add(d, "one", same2, "lazy", true)
	}
	for _, pol := range []string{"lazy", "eager", "eager-rev"} {
		for _, vs := range [][]int{same2, same3, diff2} {
			if pol == "eager-rev" && (len(vs) == 3 || vs[1] == 1) {
				continue // dropped in rounds 5 and 6 to pay for the module-shape and capacity dimensions
			}
			add(s, "one", vs, pol, false)
		}
	}
	add(s, "one", diff3, "lazy", false)
	// two runtimes sharing a compilation cache
	for _, rt := range []string{"cache-mem", "cache-dir2"} {
		add(s, rt, same2, "lazy", false)
		add(s, rt, same2, "eager", false)
		add(s, rt, diff2, "lazy", false)
		quickOnly(func() {
			if rt == "cache-mem" {
				add(s, rt, diff2, "eager", false) // (cache-dir2 twin dropped in round 6)
			}
			add(s, rt, same3, "lazy", false)
		})
	}
	add(s, "cache-dir", same2, "lazy", false)
	// two runtimes with nothing in common (the weakest form; phase 0 covers it sequentially, this one as merged words)
	add(s, "separate", same2, "lazy", false)
	// one ModuleConfig value reused for every instance
	for _, vs := range [][]int{same2, same3, diff2} {
		add(s, "one", vs, "lazy", true)
	}
	add(s, "one", same2, "eager", true)
	add(s, "cache-mem", same2, "lazy", true)
	// module shapes 2..4 (only active data segments / only active element segments / no segments at all): the
	// primary configuration, its eager twin and one cache configuration, at the secondary depth, with lone references
	// one level shorter (see setRefDepths)
	for shape = 2; shape <= numShapes; shape++ {
		add(s, "one", same2, "lazy", false)
		add(s, "one", same2, "eager", false)
		add(s, "cache-mem", same2, "lazy", false)
	}
	shape = 1
	// WithMemoryCapacityFromMax(true): capacity (3 pages) exceeds the initial size (1 page), so memory.grow re-slices
	// instead of re-allocating. Same depth and reference rule as the shape configurations. Because worlds are reused
	// for a whole shard, the history "A grows and writes, A is closed, B (same / different module) is instantiated
	// and grows" occurs between consecutive words, and within a word as {0:grow 0:store 0:exit 1:grow}-like words.
	capMax = true
	add(s, "one", same2, "lazy", false)
	add(s, "one", same2, "eager", false)
	add(s, "one", diff2, "lazy", false)
	add(s, "cache-mem", same2, "lazy", false)
	capMax = false
	// RUNTIME PRELUDE (round 7): the runtimes of a world do not have the same history. Before a runtime meets WASI, env
	// and the guest it compiled / instantiated / instantiated-and-closed an unrelated bystander module (X or Y, see
	// guest.go), so whatever its store numbers or registers by first appearance (function type IDs, module list and
	// names) differs from the other runtime's and from the lone reference's, which never has a prelude. Every
	// assignment of {X, Y, none} to the runtimes in which they differ, every kind, every runtime mode, same and
	// different guest modules, first instantiation in runtime 0 (lazy) and in runtime 1 (eager-rev); thorough adds
	// eager. Shallow words (depth 2: every letter of one instance followed by every letter of the other, peek and
	// badcall after each word) in one world per plan; thorough deepens the open-bystander plans of one / cache-mem /
	// cache-dir2 to depth 3.
	pd := 2
	if override {
		pd = max(2, d-2)
	}
	preKinds := []string{"compiled", "open", "closed"}
	assign2 := []string{"X-", "Y-", "-X", "-Y", "XY", "YX"}
	assign1 := []string{"X", "Y"}
	prePlans := func(depth int, rts []string, kinds, policies []string) {
		for _, rt := range rts {
			as := assign2
			if rt == "one" {
				as = assign1
			}
			for _, kind := range kinds {
				for _, a := range as {
					pre = kind + ":" + a
					for _, vs := range [][]int{same2, diff2} {
						for _, pol := range policies {
							add(depth, rt, vs, pol, false)
						}
					}
				}
			}
		}
		pre = ""
	}
	allRT := []string{"one", "separate", "cache-mem", "cache-dir", "cache-dir2"}
	rest := ps
	ps = nil
	if thorough && !override {
		prePlans(pd+1, []string{"one", "cache-mem", "cache-dir2"}, []string{"open"}, []string{"lazy"})
		prePlans(pd, allRT, preKinds, []string{"lazy", "eager", "eager-rev"})
	} else {
		prePlans(pd, allRT, preKinds, []string{"lazy", "eager-rev"})
	}
	if os.Getenv("C11_ONLY") == "prelude" { // development knob: only the runtime-prelude plans
		return ps
	}
	// the (many, cheap) prelude plans run first, the primary configuration last
	return append(append(ps, rest...), primary...)
}

// neededLone returns the lone reference tables to build and, for each, the word length up to which it is needed.
func neededLone(ps []plan) (keys []loneKey, depth map[loneKey]int) {
	depth = map[loneKey]int{}
	for _, p := range ps {
		for j := range p.c.Variants {
			k := p.c.key(j)
			if _, ok := depth[k]; !ok {
				keys = append(keys, k)
			}
			depth[k] = max(depth[k], min(p.c.RefDepth, p.depth))
		}
	}
	sort.Slice(keys, func(a, b int) bool {
		return fmt.Sprint(keys[a]) < fmt.Sprint(keys[b])
	})
	return
}

// setRefDepths: a configuration's lone references go up to (deepest plan of the run)-1 — projections of words in
// which two instances act are at most depth-1 long — except for the module-shape configurations, which get
// references up to their own depth-1 only (they exist to add the shape dimension cheaply).
func setRefDepths(ps []plan) {
	maxd := 0
	for _, p := range ps {
		maxd = max(maxd, p.depth)
	}
	for i := range ps {
		if ps[i].c.shape() != 1 || ps[i].c.CapMax {
			ps[i].c.RefDepth = ps[i].depth - 1
		} else {
			ps[i].c.RefDepth = maxd - 1
		}
	}
}

func main() {
	if len(os.Args) > 1 && os.Args[1] == "child" {
		childMain()
		return
	}
	if len(os.Args) > 1 && os.Args[1] == "replay" {
		replay()
		return
	}
	run := fw.Start("C11", "model_checking")
	dirs := newHostDirs()
	defer os.RemoveAll(dirs.root)
	ps := plans(run.Thorough())
	setRefDepths(ps)
	if len(os.Args) > 2 && os.Args[2] == "count" {
		// size of the word space per plan, by enumeration without execution (used for NOTES.md)
		var tot int64
		for _, p := range ps {
			var n int64
			p.each(nil, 0, p.depth, func(w []step) {
				if !(len(w) == p.depth && p.depth > p.c.RefDepth && singleActor(w) && p.c.Policy == "lazy") {
					n++
				}
			})
			fmt.Printf("%-55s depth %d  words %d\n", p.c, p.depth, n)
			tot += n
		}
		fmt.Printf("total %d words in %d plans\n", tot, len(ps))
		os.RemoveAll(dirs.root)
		return
	}
	e := &explorer{run: run, dirs: dirs, lone: map[loneKey]*loneTable{}, outcomes: fw.NewCounter(), samples: fw.NewSampler(16), collisions: map[string]int64{}}
	p0cases, p0ok := int64(0), true
	if os.Getenv("C11_SKIP_PHASE0") == "" { // development knob: exercise the merged-word classification on process-wide state
		p0cases, p0ok = e.phase0()
	}
	if !p0ok {
		run.Capped("phase 0 failed: the lone reference is not reproducible, merged-word exploration skipped")
		os.RemoveAll(dirs.root)
		run.Finish(fw.Coverage{Evaluations: p0cases, DistinctNontriv: p0cases, States: p0cases, Transitions: p0cases, TracesValidated: p0cases,
			Rule: "phase 0 only", Outcomes: e.outcomes.Map()}, nil)
	}
	keys, refDepth := neededLone(ps)
	debug.SetGCPercent(400)
	debug.SetMemoryLimit(2 << 30) // soft: the collector works harder as the Go heap approaches it
	go e.memoryGuard()
	var loneRuns atomic.Int64
	t0 := time.Now()
	abort := func() bool {
		if run.Expired() {
			run.Capped("budget")
			return true
		}
		return e.memStop.Load()
	}
	for _, k := range keys {
		e.lone[k] = buildLone(abort, e.breathe, e.loneAbsFailure, k, dirs, refDepth[k], &loneRuns)
	}
	if abort() {
		// incomplete reference tables must not be used
		os.RemoveAll(dirs.root)
		e.outcomes.Inc("lone-reference-runs-only")
		run.Finish(fw.Coverage{Evaluations: loneRuns.Load(), DistinctNontriv: loneRuns.Load(), States: loneRuns.Load(), Transitions: loneRuns.Load(), TracesValidated: loneRuns.Load(),
			Rule: "stopped while building the lone references; no merged word was explored", Outcomes: e.outcomes.Map(),
			Extra: map[string]any{"peak_rss_bytes": e.peakRSS.Load()}}, nil)
	}
	loneWall := time.Since(t0).Seconds()
	bounds := map[string]any{}
	var perPlan []any
	t1 := time.Now()
	counts := e.exploreAll(ps)
	for pi, p := range ps {
		perPlan = append(perPlan, map[string]any{"cfg": p.c.String(), "depth": p.depth, "words": counts[pi]})
	}
	bounds["explore_wall_s"] = float64(int(time.Since(t1).Seconds()*100)) / 100
	bounds["alphabet_per_instance"] = opNames
	bounds["plans"] = perPlan
	bounds["lone_reference"] = map[string]any{"keys(engine,variant,slot,shape)": len(keys), "word_length_per_key": fmt.Sprint(refDepth), "fresh_world_runs": loneRuns.Load(), "wall_s": loneWall}
	os.RemoveAll(dirs.root)
	run.Finish(fw.Coverage{
		Evaluations: e.words.Load(), DistinctNontriv: e.interleaved.Load(), States: e.words.Load(), Transitions: e.steps.Load(), TracesValidated: e.steps.Load(),
		Rule:    "state = one merged word (history) per configuration, enumerated statelessly (instances cannot be forked, every word is executed from fresh instances); transition = one guest call on one instance; non-trivial = words in which at least two instances act",
		Samples: e.samples.List(), Exhaustive: true, Outcomes: e.outcomes.Map(), Bounds: bounds,
		Extra: map[string]any{"instance_observations_compared_with_lone": e.instObs.Load(), "phase0_separate_runtime_cases": p0cases, "peak_rss_bytes_sampled": e.peakRSS.Load(), "forced_collections": forcedGCs.Load(), "memory_throttles": e.throttles.Load(), "mismatches_not_recurring_in_fresh_processes": e.nonRepro.Load(), "lone_references_disturbed": e.loneRepaired.Load(), "lone_references_violating_absolute_oracle": e.loneAbs.Load(), "words_with_cross_instance_collision_pair": e.collisions, "multi_worlds_built": e.worlds.Load(), "shards": e.shards, "lone_fresh_world_runs": loneRuns.Load()},
	}, []string{
		"the lone reference is an instance of the same module and slot configuration alone in a fresh runtime with a fresh compilation, one fresh world per reference word",
		"merged words are enumerated up to renaming of interchangeable instances (same module); instantiation policies lazy/eager/eager-rev cover the instantiation orders that the renaming would drop; slots (temp directory, stdout buffer) are assumed interchangeable",
		"multi-instance worlds (runtimes, caches, compiled modules) are reused for all words of one shard, each word with fresh instances; a mismatch is re-established in fresh worlds before it is reported",
		"observations: per-step results by class/value, guest-view digest (peek), host view of memory (size, CRC-32C), globals, table/element references (own function index / null / foreign), data instances, file table incl. offsets, captured stdout; error texts are compared by class only",
		"calls are sequential (no concurrency); GC-related lifetime is C09's subject",
	})
}

func replay() {
	if len(os.Args) < 3 {
		fatalf("usage: replay <file>")
	}
	b, err := os.ReadFile(os.Args[2])
	if err != nil {
		fatalf("%v", err)
	}
	var doc struct {
		Signature string `json:"signature"`
		What      string `json:"what"`
		Replay    struct {
			replayCase
			Separate *separateCase `json:"separate"`
		} `json:"replay"`
	}
	if err := json.Unmarshal(b, &doc); err != nil {
		fatalf("%v", err)
	}
	dirs := newHostDirs()
	defer os.RemoveAll(dirs.root)
	e := &explorer{dirs: dirs, verbose: true, freshLone: true}
	if sc := doc.Replay.Separate; sc != nil {
		fmt.Printf("replaying separate-runtime case %+v\n", *sc)
		if m := judgeSeparate(*sc, dirs); m != nil {
			fmt.Printf("REPRODUCED: %s = %s after/while an instance in another runtime ran, %s before\n", m.Field, m.Got, m.Want)
			os.RemoveAll(dirs.root)
			os.Exit(1)
		}
		fmt.Println("the lone word is unaffected: not reproduced")
		os.RemoveAll(dirs.root)
		os.Exit(0)
	}
	fmt.Printf("replaying cfg=%s\n", doc.Replay.Cfg)
	for i, w := range doc.Replay.Words {
		fmt.Printf("  word %d: {%s}\n", i, wordString(w))
	}
	m := e.judge(doc.Replay.replayCase)
	if m == nil {
		fmt.Println("every instance matches its lone reference: not reproduced")
		os.RemoveAll(dirs.root)
		os.Exit(0)
	}
	fmt.Printf("REPRODUCED: instance %d %s = %s, lone instance gives %s (signature %s)\n", m.Inst, m.Field, m.Got, m.Want, m.signature(doc.Replay.Cfg))
	os.RemoveAll(dirs.root)
	os.Exit(1)
}
