package main

import (
	"encoding/binary"

	"github.com/tetratelabs/wazero/verif/wb"
)

// The guest program. Every alphabet letter is one exported function ()->i64 of this module.
// Two variants (0,1) of the module exist; they have identical structure and binary length and
// differ only in constants (data bytes, global initial values, function result constants), so that a
// compiled-code / segment confusion between "different modules" is visible.
//
// Memory (min 1, max 3 pages; default capacity == min, so every successful grow re-allocates):
//
//	[0,16)    active data segment 0  ("A<v>-active-seg!!"); the i32 at [8,12) is the RMW cell of `store`
//	[32,48)   target of memory.init from PASSIVE data segment 1 ("P<v>-passive-seg!")
//	[64,80)   target of memory.fill (fill byte = current low byte of the store cell)
//	[96,112)  target of memory.copy from [0,16)
//	[112,120) written by the host functions of module "env" THROUGH THE api.Module THEY ARE HANDED
//	[256,504) fd_readdir windows, bufused values, cursor and previous cookie of `ls`
//	[128,208) WASI scratch, initialised by active data segment 2 (iovecs, path "f")
//	[232,236) of the LAST page: mirror of the store cell (so grown pages carry state); `grow` itself writes nothing
//
// Table 0: funcref min 4 max 6; active element segment 0 puts fA at [0]; PASSIVE element segment 1 is
// [fB, fA]. fA returns 1000*(v+1)+g0, fB returns 2000*(v+1)+mem8[8]: what a table entry returns when
// called depends on the state of the instance that OWNS the function, so a reference to another
// instance's function is visible to the guest through call_indirect.
//
// Table 1 (1 slot) is peek's scratch slot for calling what a funcref GLOBAL holds. Globals: g0, g1 (mutable numeric),
// then the 13 of constGlobalNames: immutable numeric globals of every type, funcref globals initialised by ref.func /
// ref.null / global.get of an import (module "cst"), externref globals, a mutable funcref global (NOTES round 8).
const (
	aStore  = 8
	aInit   = 32
	aFill   = 64
	aCopy   = 96
	aHostW1 = 112 // written by env.h_refl (reflection, ctx+module)
	aHostW2 = 116 // written by env.h_gomod (WithGoModuleFunction)
	aIovW   = 128 // {ptr=0,len=16}
	aNWrit  = 136
	aPath   = 144 // "f"
	aFD     = 148
	aIovR   = 152 // {ptr=160,len=4}
	aRdBuf  = 160
	aNRead  = 176
	aClk0   = 184
	aClk1   = 192
	aRand   = 200
	aLast   = 232 // offset in the LAST page at which `store` mirrors its cell
	aMarker = 65536 + aLast
	// fd_readdir windows of `ls`
	aDirA   = 256 // 64 bytes: re-read from the cookie of the previous ls's last window
	aDirB   = 320 // 64 bytes: window at the cursor
	aDirC   = 384 // 64 bytes: continuation from the d_next of the last complete entry of window B
	aDirD   = 448 // 24 bytes: window at the end of what was listed so far
	aDirU   = 480 // 4 x i32 bufused
	aDirCur = 496 // i32 cursor (entries listed so far)
	aDirPrv = 500 // i32 cookie of the previous ls's last window
)

// opNames is the per-instance alphabet, in enumeration order.
var opNames = []string{
	"store",    // v=i32.load[8]; i32.store[8]=v*5+3+variant; also mirrored into the last page; returns v (store / load)
	"grow",     // memory.grow 1; returns old size or -1 (+1<<32 if the new page does not read as zero)
	"bulk",     // memory.fill [64,80) with mem8[8]; memory.copy [96,112) <- [0,16)            (memory.fill/copy)
	"minit",    // memory.init seg1 -> [32,48)   (traps once seg1 is dropped)
	"ddrop",    // data.drop seg1
	"gset",     // old=g0; g0=g0*7+1; g1+=g0; returns old                              (global.set / get)
	"tset",     // toggles table[1] between null and ref.func fB; returns 1 if it was null (table.set / get)
	"tgrow",    // table.grow 1 (init ref.func fA); returns old size or -1
	"tinit",    // table.init seg1 -> table[2,4)  (traps once seg1 is dropped)
	"edrop",    // elem.drop seg1
	"write",    // fd_write(1, [0,16)); returns errno<<16 | nwritten
	"open",     // path_open(3,"f",read-only) then fd_read(4, 4 bytes -> [160,164)); returns e1<<16|fd<<8|e2
	"close",    // fd_close(4)
	"renumber", // fd_renumber(4 -> 5)
	"host",     // calls the five functions of the shared host module "env" (every definition style) with v=mem32[8], then
	//             clock_time_get(realtime), clock_time_get(monotonic), random_get(8) (default per-instance sources); returns a fold
	"ls",   // four fd_readdir(3) calls walking the instance's mount in small windows (see lsBody); returns a fold
	"exit", // proc_exit(3)
}

// hostFuncNames are the exports of the host module "env" that every instance imports: one per definition style.
var hostFuncNames = []string{"h_refl", "h_ctx", "h_none", "h_gomod", "h_go"}

const badCallName = "badcall" // wrongly typed call_indirect; NOT a letter: called once per instance after peek

const peekName = "peek" // guest-view digest of everything; NOT a letter: called once per instance after every word

// Module shapes (the set of segment kinds a module has is a dimension of its own: per-module caches may be guarded
// by a shape condition such as "no passive data segment"):
//
//	1  active + passive data segments, active + passive element segments (the default)
//	2  ONLY ACTIVE data segments (segment 1 is active at [208,224)) plus a data-count section; minit/ddrop address
//	   the active segment 1 (wazero keeps active segments initialisable until they are dropped)
//	3  ONLY ACTIVE element segments (segment 1 is active at table[2,4)); tinit/edrop address it
//	4  no data and no element segments at all: the exported _start function (run by InstantiateModule) stores the
//	   same initial bytes, fA/fB are declared through exports, and minit/ddrop/tinit/edrop are empty letters
const numShapes = 4

func guestModule(variant, shape int) []byte {
	m := &wb.Module{}
	i32, i64 := wb.I32, wb.I64
	w := "wasi_snapshot_preview1"
	fdWrite := m.ImportFunc(w, "fd_write", []byte{i32, i32, i32, i32}, []byte{i32})
	pathOpen := m.ImportFunc(w, "path_open", []byte{i32, i32, i32, i32, i32, i64, i64, i32, i32}, []byte{i32})
	fdRead := m.ImportFunc(w, "fd_read", []byte{i32, i32, i32, i32}, []byte{i32})
	fdClose := m.ImportFunc(w, "fd_close", []byte{i32}, []byte{i32})
	fdRenumber := m.ImportFunc(w, "fd_renumber", []byte{i32, i32}, []byte{i32})
	procExit := m.ImportFunc(w, "proc_exit", []byte{i32}, nil)
	clockGet := m.ImportFunc(w, "clock_time_get", []byte{i32, i64, i32}, []byte{i32})
	randomGet := m.ImportFunc(w, "random_get", []byte{i32, i32}, []byte{i32})
	fdReaddir := m.ImportFunc(w, "fd_readdir", []byte{i32, i32, i32, i64, i32}, []byte{i32})
	var hostFns []uint32
	for _, n := range hostFuncNames {
		hostFns = append(hostFns, m.ImportFunc("env", n, []byte{i32}, []byte{i32}))
	}

	// imported immutable globals of the module "cst" that every runtime has (see cstModule)
	m.Imports = append(m.Imports,
		wb.Import{Module: "cst", Name: "ki", Kind: wb.KindGlobal, GlobalType: i32},
		wb.Import{Module: "cst", Name: "kf", Kind: wb.KindGlobal, GlobalType: wb.FuncRef})
	const impKi, impKf = 0, 1

	v := int32(variant)
	m.Mem = &wb.Limits{Min: 1, Max: 3, HasMax: true}
	// table 1 is the scratch slot through which peek calls the function a funcref GLOBAL holds
	m.Tables = []wb.Table{{Elem: wb.FuncRef, Lim: wb.Limits{Min: 4, Max: 6, HasMax: true}}, {Elem: wb.FuncRef, Lim: wb.Limits{Min: 1, Max: 1, HasMax: true}}}
	g0 := m.AddGlobal(i32, true, wb.CI32(10+v))
	g1 := m.AddGlobal(i64, true, wb.CI64(0x1111111111111111*int64(v+1)))
	// Per-instance objects beyond memory / mutable numeric globals / table 0 (round 8): immutable globals of every
	// value type, funcref globals initialised by ref.func / ref.null / global.get of an import, externref globals, a
	// mutable funcref global. fA/fB will be the first two functions of the module.
	fnA := m.NumImportedFuncs()
	cg := constGlobalInits(variant)
	k32 := m.AddGlobal(i32, false, wb.CI32(int32(cg.k32)))
	k64 := m.AddGlobal(i64, false, wb.CI64(int64(cg.k64)))
	kf32 := m.AddGlobal(wb.F32, false, wb.CF32(uint32(cg.kf32)))
	kf64 := m.AddGlobal(wb.F64, false, wb.CF64(cg.kf64))
	kv := m.AddGlobal(wb.V128, false, wb.CV128(cg.kvLo, cg.kvHi))
	rfA := m.AddGlobal(wb.FuncRef, false, wb.CRefFunc(fnA))
	rfB := m.AddGlobal(wb.FuncRef, false, wb.CRefFunc(fnA+1))
	rnl := m.AddGlobal(wb.FuncRef, false, wb.CRefNull(wb.FuncRef))
	xnl := m.AddGlobal(wb.ExternRef, false, wb.CRefNull(wb.ExternRef))
	gi := m.AddGlobal(i32, false, wb.CGlobal(impKi))
	gfi := m.AddGlobal(wb.FuncRef, false, wb.CGlobal(impKf))
	mf := m.AddGlobal(wb.FuncRef, true, wb.CRefFunc(fnA+1))
	xm := m.AddGlobal(wb.ExternRef, true, wb.CRefNull(wb.ExternRef))
	for i, n := range constGlobalNames {
		m.Exports = append(m.Exports, wb.Export{Name: n, Kind: wb.KindGlobal, Idx: k32 + uint32(i)})
	}

	tI32 := m.Type(nil, []byte{i32})
	// fA, fB: the functions that live in the table.
	fA := m.AddFunc(nil, []byte{i32}, nil, (&wb.Asm{}).I32Const(1000*(v+1)).GlobalGet(g0).Op(0x6a).B)
	fB := m.AddFunc(nil, []byte{i32}, nil, (&wb.Asm{}).I32Const(2000*(v+1)).I32Const(aStore).Mem(0x2d, 0, 0).Op(0x6a).B)
	if fA != fnA || fB != fnA+1 {
		panic("fA/fB must be the first two functions")
	}

	ext := func(a *wb.Asm) *wb.Asm { return a.Op(0xad) } // i64.extend_i32_u
	def := func(name string, locals []byte, a *wb.Asm) {
		m.ExportFunc(name, m.AddFunc(nil, []byte{i64}, locals, a.B))
	}

	// store: also writes the new value at offset aLast of the LAST page (page 0 when the memory was never grown), so
	// that grown pages carry instance state
	def("store", []byte{i32}, ext((&wb.Asm{}).
		I32Const(aStore).Mem(0x28, 2, 0).LocalSet(0).
		I32Const(aStore).LocalGet(0).I32Const(5).Op(0x6c).I32Const(3+v).Op(0x6a).Mem(0x36, 2, 0).
		MemorySize().I32Const(1).Op(0x6b).I32Const(16).Op(0x74). // (size-1)<<16
		I32Const(aStore).Mem(0x28, 2, 0).Mem(0x36, 2, uint64(aLast)).
		LocalGet(0)))
	// grow: writes nothing. Returns the old size (or -1), plus 1<<32 if the guest sees a non-zero word at the
	// start, at aLast or at the end of the page it has just been given (a lone instance never does)
	def("grow", []byte{i32, i32}, (&wb.Asm{}).
		I32Const(1).MemoryGrow().LocalTee(0).Op(0xac). // i64.extend_i32_s(old)
		LocalGet(0).I32Const(-1).Op(0x47).             // old != -1
		If(i64).
		LocalGet(0).I32Const(16).Op(0x74).LocalSet(1).
		LocalGet(1).Mem(0x29, 3, 0).
		LocalGet(1).Mem(0x29, 3, uint64(aLast)).Op(0x84).
		LocalGet(1).Mem(0x29, 3, 65528).Op(0x84).
		I64Const(0).Op(0x52). // i64.ne
		Op(0xad).I64Const(32).Op(0x86).
		Else().I64Const(0).End().
		Op(0x7c))
	// bulk = fill + copy
	def("bulk", nil, (&wb.Asm{}).
		I32Const(aFill).I32Const(aStore).Mem(0x2d, 0, 0).I32Const(16).MemoryFill().
		I32Const(aCopy).I32Const(0).I32Const(16).MemoryCopy().
		I64Const(0))
	// minit / ddrop
	if shape == 4 {
		def("minit", nil, (&wb.Asm{}).I64Const(0))
		def("ddrop", nil, (&wb.Asm{}).I64Const(0))
	} else {
		def("minit", nil, (&wb.Asm{}).I32Const(aInit).I32Const(0).I32Const(16).MemoryInit(1).I64Const(0))
		def("ddrop", nil, (&wb.Asm{}).DataDrop(1).I64Const(0))
	}
	// gset
	def("gset", []byte{i32}, ext((&wb.Asm{}).
		GlobalGet(g0).LocalSet(0).
		LocalGet(0).I32Const(7).Op(0x6c).I32Const(1).Op(0x6a).GlobalSet(g0).
		GlobalGet(g1).GlobalGet(g0).Op(0xad).Op(0x7c).GlobalSet(g1).
		LocalGet(0)))
	// tset
	def("tset", []byte{i32}, ext((&wb.Asm{}).
		I32Const(1).TableGet(0).RefIsNull().LocalTee(0).
		If(wb.Void).
		I32Const(1).GlobalGet(rfB).TableSet(0).GlobalGet(rnl).GlobalSet(mf).
		Else().
		I32Const(1).GlobalGet(rnl).TableSet(0).GlobalGet(rfA).GlobalSet(mf).
		End().
		LocalGet(0)))
	// tgrow
	def("tgrow", nil, (&wb.Asm{}).RefFunc(fA).I32Const(1).TableGrow(0).Op(0xac))
	// tinit / edrop
	if shape == 4 {
		def("tinit", nil, (&wb.Asm{}).I64Const(0))
		def("edrop", nil, (&wb.Asm{}).I64Const(0))
	} else {
		def("tinit", nil, (&wb.Asm{}).I32Const(2).I32Const(0).I32Const(2).TableInit(1, 0).I64Const(0))
		def("edrop", nil, (&wb.Asm{}).ElemDrop(1).I64Const(0))
	}
	// write
	def("write", nil, ext((&wb.Asm{}).
		I32Const(1).I32Const(aIovW).I32Const(1).I32Const(aNWrit).Call(fdWrite).I32Const(16).Op(0x74).
		I32Const(aNWrit).Mem(0x28, 2, 0).Op(0x72)))
	// open
	def("open", []byte{i32}, ext((&wb.Asm{}).
		I32Const(3).I32Const(0).I32Const(aPath).I32Const(1).I32Const(0).I64Const(2).I64Const(0).I32Const(0).I32Const(aFD).Call(pathOpen).
		I32Const(16).Op(0x74).
		I32Const(aFD).Mem(0x28, 2, 0).I32Const(8).Op(0x74).Op(0x72).
		I32Const(4).I32Const(aIovR).I32Const(1).I32Const(aNRead).Call(fdRead).Op(0x72)))
	// close, renumber
	def("close", nil, ext((&wb.Asm{}).I32Const(4).Call(fdClose)))
	def("renumber", nil, ext((&wb.Asm{}).I32Const(4).I32Const(5).Call(fdRenumber)))
	// host: h = h*31 + f(mem32[8]) for every function of the shared host module
	{
		a := (&wb.Asm{}).I64Const(0).LocalSet(0)
		for _, f := range hostFns {
			a.LocalGet(0).I64Const(31).Op(0x7e).
				I32Const(aStore).Mem(0x28, 2, 0).Call(f).Op(0xad).
				Op(0x7c).LocalSet(0)
		}
		// ... then the default clocks and random source of the instance
		a.I32Const(0).I64Const(0).I32Const(aClk0).Call(clockGet).Drop().
			I32Const(1).I64Const(0).I32Const(aClk1).Call(clockGet).Drop().
			I32Const(aRand).I32Const(8).Call(randomGet).Drop()
		for _, ad := range []int32{aClk0, aClk1, aRand} {
			a.LocalGet(0).I64Const(31).Op(0x7e).I32Const(ad).Mem(0x29, 3, 0).Op(0x7c).LocalSet(0)
		}
		def("host", []byte{i64}, a.LocalGet(0))
	}
	// ls: locals 0:i64 h, 1:i32 cur, 2:i64 dnext
	{
		a := &wb.Asm{}
		mixI32 := func(f func()) {
			a.LocalGet(0).I64Const(31).Op(0x7e)
			f()
			a.Op(0xad).Op(0x7c).LocalSet(0)
		}
		mixI64 := func(ad int32) {
			a.LocalGet(0).I64Const(31).Op(0x7e).I32Const(ad).Mem(0x29, 0, 0).Op(0x7c).LocalSet(0)
		}
		a.I32Const(aDirCur).Mem(0x28, 2, 0).LocalSet(1)
		// A: re-read the last window of the previous ls (cookie 0 the first time)
		mixI32(func() {
			a.I32Const(3).I32Const(aDirA).I32Const(64).I32Const(aDirPrv).Mem(0x28, 2, 0).Op(0xad).I32Const(aDirU).Call(fdReaddir)
		})
		// B: window at the cursor
		mixI32(func() {
			a.I32Const(3).I32Const(aDirB).I32Const(64).LocalGet(1).Op(0xad).I32Const(aDirU + 4).Call(fdReaddir)
		})
		// dnext = d_next in the header that follows the first entry of window B (its name length is at +16)
		a.I32Const(aDirB+16).Mem(0x28, 2, 0).I32Const(63).Op(0x71).Mem(0x29, 0, uint64(aDirB+24)).LocalSet(2)
		// C: continue from that d_next
		mixI32(func() {
			a.I32Const(3).I32Const(aDirC).I32Const(64).LocalGet(2).I32Const(aDirU + 8).Call(fdReaddir)
		})
		// D: 24-byte window at cursor+6 = the number of entries listed so far (end of the cached window)
		mixI32(func() {
			a.I32Const(3).I32Const(aDirD).I32Const(24).LocalGet(1).I32Const(6).Op(0x6a).Op(0xad).I32Const(aDirU + 12).Call(fdReaddir)
		})
		a.I32Const(aDirPrv).LocalGet(1).I32Const(6).Op(0x6a).Mem(0x36, 2, 0)
		a.I32Const(aDirCur).LocalGet(1).I32Const(9).Op(0x6a).Mem(0x36, 2, 0)
		mixI64(aDirU)
		mixI64(aDirU + 8)
		for _, b := range []int32{aDirA, aDirB, aDirC} {
			for _, off := range []int32{0, 16, 24, 48, 56} { // d_next, namlen/type, names (d_ino at +8 is left to the memory CRC)
				mixI64(b + off)
			}
		}
		mixI64(aDirD)
		mixI64(aDirD + 16)
		def("ls", []byte{i64, i32, i64}, a.LocalGet(0))
	}
	// exit
	def("exit", nil, (&wb.Asm{}).I32Const(3).Call(procExit).I64Const(0))

	// peek: guest-view digest. h = h*31 + x for every observed cell.
	p := &wb.Asm{}
	mix := func(load func()) {
		p.LocalGet(0).I64Const(31).Op(0x7e)
		load()
		p.Op(0x7c).LocalSet(0)
	}
	for _, a := range []int32{0, 8, aInit, aInit + 8, aFill, aFill + 8, aCopy, aCopy + 8, aHostW1, aDirA + 24, aDirB + 24, aDirC + 24, aDirD, aDirCur, aRdBuf, aFD, aClk0, aClk1, aRand} {
		a := a
		mix(func() { p.I32Const(a).Mem(0x29, 0, 0) })
	}
	mix(func() { p.MemorySize().Op(0xad) })
	mix(func() {
		p.MemorySize().I32Const(1).Op(0x4b). // size > 1
							If(i64).I32Const(aMarker).Mem(0x35, 2, 0). // i64.load32_u
							Else().I64Const(5).End()
	})
	mix(func() { p.GlobalGet(g0).Op(0xad) })
	mix(func() { p.GlobalGet(g1) })
	mix(func() { p.TableSize(0).Op(0xad) })
	for s := int32(0); s < 6; s++ {
		s := s
		mix(func() {
			p.I32Const(s).TableSize(0).Op(0x49). // s < size
								If(i64).
								I32Const(s).TableGet(0).RefIsNull().
								If(i64).I64Const(7).
								Else().I32Const(s).CallIndirect(tI32, 0).Op(0xad).
								End().
								Else().I64Const(3).End()
		})
	}
	// the constant / reference globals: values, nullness, and what the function a funcref global holds returns when it
	// is called through the scratch table 1 (global -> table -> call_indirect)
	mix(func() { p.GlobalGet(k32).Op(0xad) })
	mix(func() { p.GlobalGet(k64) })
	mix(func() { p.GlobalGet(kf32).Op(0xbc).Op(0xad) }) // i32.reinterpret_f32
	mix(func() { p.GlobalGet(kf64).Op(0xbd) })          // i64.reinterpret_f64
	mix(func() { p.GlobalGet(kv).Simd(0x1d).Op(0) })    // i64x2.extract_lane 0
	mix(func() { p.GlobalGet(kv).Simd(0x1d).Op(1) })
	mix(func() { p.GlobalGet(gi).Op(0xad) })
	for _, g := range []uint32{rnl, xnl, xm, mf} {
		g := g
		mix(func() { p.GlobalGet(g).RefIsNull().Op(0xad) })
	}
	for _, g := range []uint32{rfA, rfB, gfi, mf} {
		g := g
		mix(func() {
			p.GlobalGet(g).RefIsNull().
				If(i64).I64Const(7).
				Else().I32Const(0).GlobalGet(g).TableSet(1).I32Const(0).CallIndirect(tI32, 1).Op(0xad).
				End()
		})
	}
	p.LocalGet(0)
	m.ExportFunc(peekName, m.AddFunc(nil, []byte{i64}, []byte{i64}, p.B))

	// badcall (not a letter; called once per instance after peek): call_indirect through table slot 0 with the WRONG
	// type ()->i64 (slot 0 holds fA: ()->i32, in shape 4 null). It must trap in exactly the way it traps on a lone
	// instance: a type check that consults numbering inherited from another runtime would accept the callee.
	tI64 := m.Type(nil, []byte{i64})
	m.ExportFunc(badCallName, m.AddFunc(nil, []byte{i64}, nil, (&wb.Asm{}).I32Const(0).CallIndirect(tI64, 0).B))

	m.Exports = append(m.Exports,
		wb.Export{Name: "memory", Kind: wb.KindMemory, Idx: 0},
		wb.Export{Name: "g0", Kind: wb.KindGlobal, Idx: g0},
		wb.Export{Name: "g1", Kind: wb.KindGlobal, Idx: g1},
		wb.Export{Name: "table", Kind: wb.KindTable, Idx: 0},
	)
	scratch := guestScratch()
	act := []byte("A0-active-seg!!!")
	pas := []byte("P0-passive-seg!!")
	act[1] += byte(variant)
	pas[1] += byte(variant)
	switch shape {
	case 1, 2, 3:
		m.Elems = []wb.Elem{
			{Mode: 0, Offset: wb.CI32(0), Funcs: []uint32{fA}},
			{Mode: 1, Funcs: []uint32{fB, fA}},
		}
		if shape == 3 {
			m.Elems[1] = wb.Elem{Mode: 0, Offset: wb.CI32(2), Funcs: []uint32{fB, fA}}
		}
		m.DataCount = true
		m.Datas = []wb.Data{
			{Offset: wb.CI32(0), Bytes: act},
			{Passive: true, Bytes: pas},
			{Offset: wb.CI32(128), Bytes: scratch},
		}
		if shape == 2 {
			m.Datas[1] = wb.Data{Offset: wb.CI32(208), Bytes: pas}
		}
	case 4:
		// no segments: declare fA/fB through exports and initialise memory in _start
		m.ExportFunc("fA", fA)
		m.ExportFunc("fB", fB)
		st := &wb.Asm{}
		storeBytes := func(at int32, b []byte) {
			for i := 0; i+8 <= len(b); i += 8 {
				st.I32Const(at+int32(i)).I64Const(int64(binary.LittleEndian.Uint64(b[i:]))).Mem(0x37, 0, 0)
			}
		}
		storeBytes(0, act)
		storeBytes(128, scratch)
		m.ExportFunc("_start", m.AddFunc(nil, nil, nil, st.B))
	default:
		panic("bad shape")
	}
	return m.Encode()
}

// constGlobalNames are the export names of the round-8 globals, in definition order (global index k32+i).
var constGlobalNames = []string{"k32", "k64", "kf32", "kf64", "kv", "rfA", "rfB", "rnl", "xnl", "gi", "gfi", "mf", "xm"}

type constGlobalVals struct {
	k32, kf32  uint64
	k64, kf64  uint64
	kvLo, kvHi uint64
}

// constGlobalInits are the variant-specific initialisers of the immutable numeric globals.
func constGlobalInits(variant int) constGlobalVals {
	v := uint64(variant)
	return constGlobalVals{k32: 0x5a5a00 + v, k64: 0x0123456789abcd00 + v, kf32: 0x40490fd0 + v, kf64: 0x400921fb54442d10 + v,
		kvLo: 0x1111222233334400 + v, kvHi: 0x5555666677778800 + v}
}

const cstKi = 4242 // value of the imported immutable global cst.ki
const cstFn = 777  // what the function held by the imported funcref global cst.kf returns

// cstModule is a module WITHOUT mutable state that every runtime instantiates once under the name "cst" (like WASI and
// "env"): it exports two IMMUTABLE globals, an i32 and a funcref to its own function, so that the guest can define
// globals initialised by global.get of an import.
func cstModule() []byte {
	m := &wb.Module{}
	f := m.AddFunc(nil, []byte{wb.I32}, nil, (&wb.Asm{}).I32Const(cstFn).B)
	ki := m.AddGlobal(wb.I32, false, wb.CI32(cstKi))
	kf := m.AddGlobal(wb.FuncRef, false, wb.CRefFunc(f))
	m.Exports = append(m.Exports, wb.Export{Name: "ki", Kind: wb.KindGlobal, Idx: ki}, wb.Export{Name: "kf", Kind: wb.KindGlobal, Idx: kf})
	return m.Encode()
}

// guestScratch is the initial content of the WASI scratch area [128,208): iovecs and the path "f".
func guestScratch() []byte {
	scratch := make([]byte, 80)
	binary.LittleEndian.PutUint32(scratch[aIovW-128:], 0)
	binary.LittleEndian.PutUint32(scratch[aIovW-128+4:], 16)
	scratch[aPath-128] = 'f'
	binary.LittleEndian.PutUint32(scratch[aIovR-128:], aRdBuf)
	binary.LittleEndian.PutUint32(scratch[aIovR-128+4:], 4)
	return scratch
}

// ---------------------------------------------------------------- bystander modules (runtime prelude)

// bystanderModule is a module that has NOTHING to do with the guest (no imports, own memory / table / global): what a
// runtime compiled, instantiated or closed BEFORE it ever saw the guest. Its type section contains the guest's own
// function types among others, in an order that differs from the guest's and between the two kinds, so that everything
// a store numbers or registers by first appearance (function type IDs, module list, names) differs between a runtime
// that had this prelude and one that had not:
//
//	'X': [()->i64, ()->i32, (i32)->i32, (i32,i32)->i32]          the guest's types, reversed
//	'Y': [(f32)->f32, ()->i32, (i32)->(), (i64,i64)->i64, ()->i64] shifted by unrelated types
//
// run() calls its own function through its own table (call_indirect), updates its global and memory and returns
// 100*k + global (k = 1 for X, 2 for Y; the global starts at 5 and is incremented before it is read).
func bystanderModule(kind byte) []byte {
	m := &wb.Module{}
	i32, i64 := wb.I32, wb.I64
	var tRun, tF uint32
	k := int32(1)
	switch kind {
	case 'X':
		tRun = m.Type(nil, []byte{i64})
		tF = m.Type(nil, []byte{i32})
		m.Type([]byte{i32}, []byte{i32})
		m.Type([]byte{i32, i32}, []byte{i32})
	case 'Y':
		k = 2
		m.Type([]byte{wb.F32}, []byte{wb.F32})
		tF = m.Type(nil, []byte{i32})
		m.Type([]byte{i32}, nil)
		m.Type([]byte{i64, i64}, []byte{i64})
		tRun = m.Type(nil, []byte{i64})
	default:
		panic("bad bystander kind")
	}
	_ = tRun
	m.Mem = &wb.Limits{Min: 1, Max: 2, HasMax: true}
	m.Tables = []wb.Table{{Elem: wb.FuncRef, Lim: wb.Limits{Min: 2, Max: 2, HasMax: true}}}
	g := m.AddGlobal(i32, true, wb.CI32(5))
	f := m.AddFunc(nil, []byte{i32}, nil, (&wb.Asm{}).I32Const(100*k).GlobalGet(g).Op(0x6a).B)
	m.Elems = []wb.Elem{{Mode: 0, Offset: wb.CI32(0), Funcs: []uint32{f}}}
	m.Datas = []wb.Data{{Offset: wb.CI32(0), Bytes: []byte("bystander-" + string(kind))}}
	m.ExportFunc("run", m.AddFunc(nil, []byte{i64}, nil, (&wb.Asm{}).
		GlobalGet(g).I32Const(1).Op(0x6a).GlobalSet(g).
		I32Const(16).I32Const(0).CallIndirect(tF, 0).Mem(0x36, 2, 0).
		I32Const(16).Mem(0x35, 2, 0).B)) // i64.load32_u
	m.Exports = append(m.Exports, wb.Export{Name: "memory", Kind: wb.KindMemory, Idx: 0})
	return m.Encode()
}
