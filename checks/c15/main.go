// C15 — WASI calls are safe for any argument values.
//
// Exhaustive enumeration of argument tuples over per-parameter-kind boundary alphabets for all 46
// functions exported by wasi_snapshot_preview1 (full product for small arities, every choice of <= k
// deviating parameters from a well-formed default for the others) x 5 descriptor-table states, each
// call executed on the real host functions through a guest wrapper on a fresh module instance.
// Oracle per call: errno or documented trap; no Go runtime error; changed guest bytes lie inside the
// output regions designated by the signature table; the descriptor table, observed by follow-up
// calls, follows a small model; host allocation during the call stays within 16 x guest memory + 16 MiB.
// Cases run in supervised child processes (address-space limit 6 GiB): a fatal OOM, crash or hang
// is attributed to the exact tuple by re-running the affected batch one call per case.
package main

import (
	"encoding/json"
	"fmt"
	"hash/fnv"
	"os"
	"path/filepath"
	"runtime"
	"runtime/debug"
	"runtime/metrics"
	"sort"
	"strconv"
	"strings"
	"time"

	"github.com/tetratelabs/wazero/verif/fw"
)

const batchSize = 256

type engPlan struct {
	name   string
	states []int
	dirty  []int // states in which every tuple is also run through the dirty-stack variant (both patterns)
}

type tierPlan struct {
	maxFull, maxDev int
	engines         []engPlan
}

func planFor(tier string) tierPlan {
	all := []int{stFresh, stOpens, stClosedMiddle, stRenumbered, stReaddir}
	env := []int{}
	if envStatesEnabled {
		env = []int{stPreMissing, stPreRemoved, stPreIsFile}
	}
	with := func(a, b []int) []int { return append(append([]int{}, a...), b...) }
	if tier == "thorough" {
		return tierPlan{5, 3, []engPlan{{"interpreter", with(all, env), nil}, {"compiler", with(all, env), all}}}
	}
	return tierPlan{4, 2, []engPlan{{"interpreter", with(all, env), nil}, {"compiler", []int{stOpens, stRenumbered}, []int{stOpens}}}}
}

type batch struct {
	eng    string
	st, fn int
	lo, hi int
	dirty  bool
	sv     bool // lo..hi index the structured-input variants of (state, function) instead of the integer tuples
}

func (b batch) callsPerTuple() int {
	if b.dirty {
		return 1 + len(dirtyPatterns)
	}
	return 1
}

type plan struct {
	tp      tierPlan
	tup     [][][]uint8 // per function
	sv      [nStates][][]variant // per state, per function: structured in-memory inputs
	batches []batch
}

func buildPlan(tier string) *plan {
	pl := &plan{tp: planFor(tier)}
	for _, f := range fnTable {
		pl.tup = append(pl.tup, tuples(f, pl.tp.maxFull, pl.tp.maxDev))
		for st := 0; st < nStates; st++ {
			pl.sv[st] = append(pl.sv[st], structVariants(f, st))
		}
	}
	for _, e := range pl.tp.engines {
		for _, st := range e.states {
			dirty := false
			for _, d := range e.dirty {
				dirty = dirty || d == st
			}
			for fi := range fnTable {
				n := len(pl.tup[fi])
				for lo := 0; lo < n; lo += batchSize {
					hi := lo + batchSize
					if hi > n {
						hi = n
					}
					pl.batches = append(pl.batches, batch{e.name, st, fi, lo, hi, dirty, false})
				}
				n = len(pl.sv[st][fi])
				for lo := 0; lo < n; lo += batchSize {
					hi := lo + batchSize
					if hi > n {
						hi = n
					}
					pl.batches = append(pl.batches, batch{e.name, st, fi, lo, hi, dirty, true})
				}
			}
		}
	}
	return pl
}

func (pl *plan) caseOf(b batch, k int) caseID {
	f := fnTable[b.fn]
	if b.sv {
		v := pl.sv[b.st][b.fn][k]
		args, mem := structCase(f, v, b.st)
		return caseID{Engine: b.eng, Fn: f.name, State: stateName[b.st], Args: args, Mem: mem, Variant: v.name}
	}
	return caseID{Engine: b.eng, Fn: f.name, State: stateName[b.st], Args: argsOf(f, pl.tup[b.fn][k], b.st)}
}

// ---------------------------------------------------------------- child <-> parent records

type violRec struct {
	Sig   string `json:"sig"`
	What  string `json:"what"`
	Case  caseID `json:"case"`
	Count int64  `json:"count"`
}

type batchRes struct {
	N          int64            `json:"n"`
	Outcomes   map[string]int64 `json:"o"` // "fn|outcome"
	Viols      []*violRec       `json:"v,omitempty"`
	Nontriv    int64            `json:"nt"`
	MemChanged int64            `json:"mc"`
	MaxAlloc   uint64           `json:"ma"`
	MaxCase    *caseID          `json:"mcase,omitempty"`
	Lowfree    int64            `json:"lf"`
	Rebuilds   int              `json:"rb"`
	Harness    string           `json:"h,omitempty"`
	Skipped    bool             `json:"skipped,omitempty"` // the run's budget was used up before this case started
	Sample     *sampleRec       `json:"s,omitempty"`
	Fx         []string         `json:"fx,omitempty"` // per tuple: engine- and worker-independent effect of the clean call
	DirtyCalls int64            `json:"dc,omitempty"`
	DirtySame  int64            `json:"ds,omitempty"`
	Mapped     uint64           `json:"mapped,omitempty"` // bytes the worker has mapped from the OS after this batch (diagnostic)
}

type sampleRec struct {
	Case    caseID `json:"case"`
	Outcome string `json:"outcome"`
	Alloc   uint64 `json:"host_alloc_bytes"`
}

func (br *batchRes) addViols(c caseID, vs []viol) {
outer:
	for _, v := range vs {
		for _, e := range br.Viols {
			if e.Sig == v.Sig {
				e.Count++
				continue outer
			}
		}
		br.Viols = append(br.Viols, &violRec{v.Sig, v.What, c, 1})
	}
}

// runTuple evaluates one tuple: the clean call and, for a dirty batch, the call through the
// dirty-stack variant with each pattern, which must have exactly the effect of the clean call.
func (br *batchRes) runTuple(w *world, c caseID, dirty bool) {
	r := w.runCase(c)
	br.add(c, r)
	br.Fx = append(br.Fx, r.fx)
	if !dirty || r.harness != "" {
		return
	}
	for _, pat := range dirtyPatterns {
		dc := c
		dc.Dirty = pat
		dr := w.runCase(dc)
		br.N++
		br.DirtyCalls++
		if dr.harness != "" {
			if br.Harness == "" {
				br.Harness = fmt.Sprintf("%s (case %+v)", dr.harness, dc)
			}
			return
		}
		if v := w.staleBitsViolation(c, r, dr, pat); v != nil {
			br.Outcomes[c.Fn+"|dirty-stack:differs-from-clean"]++
			br.addViols(dc, []viol{*v})
		} else {
			br.DirtySame++
		}
		// anything the oracle holds against the dirty call alone and not against the clean one
		var extra []viol
	next:
		for _, v := range dr.viols {
			for _, cv := range r.viols {
				if cv.Sig == v.Sig {
					continue next
				}
			}
			extra = append(extra, v)
		}
		br.addViols(dc, extra)
	}
}

func (br *batchRes) add(c caseID, r caseRes) {
	br.N++
	if br.Outcomes == nil {
		br.Outcomes = map[string]int64{}
	}
	if r.harness != "" {
		if br.Harness == "" {
			br.Harness = fmt.Sprintf("%s (case %+v)", r.harness, c)
		}
		return
	}
	br.Outcomes[c.Fn+"|"+r.outcome]++
	if r.nontrivial {
		br.Nontriv++
	}
	if r.memChanged {
		br.MemChanged++
	}
	if r.lowfree == "checked" {
		br.Lowfree++
	}
	if r.alloc > br.MaxAlloc {
		br.MaxAlloc = r.alloc
		cc := c
		br.MaxCase = &cc
	}
	if br.Sample == nil {
		br.Sample = &sampleRec{c, r.outcome, r.alloc}
	}
	br.addViols(c, r.viols)
}

// ---------------------------------------------------------------- child

func childMain() {
	// A worker produces about 0.5 MiB of garbage per case. With 16 workers x 16 Ps on a loaded machine the
	// concurrent collector can fall far behind a single allocating goroutine and the heap (hence the
	// address space, which `ulimit -v` counts even after it is released) was seen to peak at 3.6 GiB and
	// once to exhaust the 6 GiB limit in a harmless poll_oneoff batch. A soft memory limit makes the
	// collector keep up; few Ps keep 16 workers from oversubscribing the machine.
	debug.SetMemoryLimit(768 << 20)
	runtime.GOMAXPROCS(4)
	base := os.Getenv("VERIF_C15_BASE")
	if base == "" {
		fw.Fatalf("child without VERIF_C15_BASE")
	}
	w, err := newWorld(filepath.Join(base, fmt.Sprintf("w%s-%d", os.Getenv("VERIF_CHILD_START"), os.Getpid())))
	if err != nil {
		fw.Fatalf("child world: %v", err)
	}
	// fw.Supervise polls its Stop callback only when it (re)starts a worker, so the budget is also
	// enforced here: past the deadline every remaining case answers "skipped" immediately.
	deadline, _ := strconv.ParseInt(os.Getenv("VERIF_C15_DEADLINE"), 10, 64)
	expired := func() bool { return deadline > 0 && time.Now().UnixNano() > deadline }
	enc := func(br *batchRes) string {
		br.Rebuilds = w.rebuilds
		w.rebuilds = 0
		ms := []metrics.Sample{{Name: "/memory/classes/total:bytes"}}
		metrics.Read(ms)
		br.Mapped = ms[0].Value.Uint64()
		if tp := os.Getenv("VERIF_C15_TRACE"); tp != "" {
			m2 := []metrics.Sample{{Name: "/memory/classes/heap/objects:bytes"}, {Name: "/memory/classes/heap/free:bytes"}, {Name: "/memory/classes/heap/released:bytes"}, {Name: "/memory/classes/heap/unused:bytes"}, {Name: "/memory/classes/os-stacks:bytes"}, {Name: "/memory/classes/heap/stacks:bytes"}, {Name: "/memory/classes/other:bytes"}, {Name: "/gc/cycles/total:gc-cycles"}}
			metrics.Read(m2)
			tf, _ := os.OpenFile(tp, os.O_APPEND|os.O_CREATE|os.O_WRONLY, 0o644)
			fmt.Fprintf(tf, "W pid=%d total=%d objects=%d free=%d released=%d unused=%d osstk=%d stk=%d other=%d gc=%d\n", os.Getpid(), br.Mapped>>20, m2[0].Value.Uint64()>>20, m2[1].Value.Uint64()>>20, m2[2].Value.Uint64()>>20, m2[3].Value.Uint64()>>20, m2[4].Value.Uint64()>>20, m2[5].Value.Uint64()>>20, m2[6].Value.Uint64()>>20, m2[7].Value.Uint64())
			tf.Close()
		}
		b, _ := json.Marshal(br)
		return string(b)
	}
	switch fw.ChildMode() {
	case "batch":
		pl := buildPlan(os.Getenv("VERIF_C15_TIER"))
		fw.ChildLoop(func(i int) string {
			b := pl.batches[i]
			br := &batchRes{}
			if expired() {
				return `{"skipped":true}`
			}
			trace := os.Getenv("VERIF_C15_TRACE") != ""
			ms := []metrics.Sample{{Name: "/memory/classes/total:bytes"}}
			for k := b.lo; k < b.hi; k++ {
				var before uint64
				if trace {
					metrics.Read(ms)
					before = ms[0].Value.Uint64()
				}
				c := pl.caseOf(b, k)
				br.runTuple(w, c, b.dirty)
				if trace {
					metrics.Read(ms)
					if d := ms[0].Value.Uint64() - before; d > 32<<20 && ms[0].Value.Uint64() > before {
						tf, _ := os.OpenFile(os.Getenv("VERIF_C15_TRACE"), os.O_APPEND|os.O_CREATE|os.O_WRONLY, 0o644)
						fmt.Fprintf(tf, "JUMP +%d MiB (now %d MiB) at %s%v %s %s %s\n", d>>20, ms[0].Value.Uint64()>>20, c.Fn, c.Args, c.State, c.Engine, c.Variant)
						tf.Close()
					}
				}
			}
			return enc(br)
		})
	case "single":
		pl := buildPlan(os.Getenv("VERIF_C15_TIER"))
		singles, keys := expandSingles(pl, os.Getenv("VERIF_C15_SINGLES"))
		fw.ChildLoop(func(i int) string {
			c := singles[i]
			br := &batchRes{}
			if expired() {
				return `{"skipped":true}`
			}
			br.runTuple(w, c, pl.batches[keys[i].bi].dirty)
			return enc(br)
		})
	case "replay":
		var c caseID
		if err := json.Unmarshal([]byte(os.Getenv("VERIF_C15_CASE")), &c); err != nil {
			fw.Fatalf("replay case: %v", err)
		}
		fw.ChildLoop(func(i int) string {
			br := &batchRes{}
			if pat := c.Dirty; pat != 0 { // a dirty-stack case is judged against the clean call
				c.Dirty = 0
				dirtyPatterns = []uint64{pat}
				br.runTuple(w, c, true)
			} else {
				br.runTuple(w, c, false)
			}
			return enc(br)
		})
	default:
		fw.Fatalf("unknown child mode %q", fw.ChildMode())
	}
}

type singleKey struct{ bi, k int }

func expandSingles(pl *plan, list string) ([]caseID, []singleKey) {
	var out []caseID
	var keys []singleKey
	for _, s := range strings.Split(list, ",") {
		if s == "" {
			continue
		}
		bi, err := strconv.Atoi(s)
		if err != nil || bi < 0 || bi >= len(pl.batches) {
			fw.Fatalf("bad singles list %q", list)
		}
		b := pl.batches[bi]
		for k := b.lo; k < b.hi; k++ {
			out = append(out, pl.caseOf(b, k))
			keys = append(keys, singleKey{bi, k - b.lo})
		}
	}
	return out, keys
}

// crashViolation classifies a child that died / hung while executing exactly case c.
func crashViolation(c caseID, cr *fw.Crash) viol {
	class := "crash"
	switch {
	case cr.Kind == "timeout":
		class = "hang"
	case strings.Contains(cr.Stderr, "out of memory") || strings.Contains(cr.Stderr, "cannot allocate memory"):
		class = "host-alloc"
	}
	return viol{sigFor(c.Fn, class, c.Args), fmt.Sprintf("worker process died (%s) during the call: %s", cr.Kind, fw.FirstLines(cr.Stderr, 3))}
}

// ---------------------------------------------------------------- parent

type agg struct {
	run        *fw.Run
	calls      int64
	nontriv    int64
	memChanged int64
	lowfree    int64
	rebuilds   int64
	maxAlloc   uint64
	maxCase    *caseID
	outcomes   map[string]int64            // by outcome
	perFn      map[string]map[string]int64 // fn -> outcome -> n
	perSlice   map[string]int64            // engine/state -> calls
	samples    map[int]*sampleRec
	crashCases int64
	dirtyCalls int64
	dirtySame  int64
	maxMapped  uint64
	fxID       map[string]uint32
	fxStr      []string
	fx         map[int][]uint32 // batch index -> per-tuple effect id (0 = missing)
}

func (a *agg) intern(s string) uint32 {
	if id, ok := a.fxID[s]; ok {
		return id
	}
	a.fxStr = append(a.fxStr, s)
	id := uint32(len(a.fxStr)) // ids start at 1
	a.fxID[s] = id
	return id
}

func (a *agg) setFx(pl *plan, bi, k int, s string) {
	v := a.fx[bi]
	if v == nil {
		v = make([]uint32, pl.batches[bi].hi-pl.batches[bi].lo)
		a.fx[bi] = v
	}
	v[k] = a.intern(s)
}

func newAgg(run *fw.Run) *agg {
	return &agg{run: run, outcomes: map[string]int64{}, perFn: map[string]map[string]int64{}, perSlice: map[string]int64{}, samples: map[int]*sampleRec{},
		fxID: map[string]uint32{}, fx: map[int][]uint32{}}
}

func (a *agg) violation(v viol, c caseID, count int64) {
	for k := int64(0); k < count; k++ {
		mem := ""
		if c.Variant != "" {
			mem = " with " + c.Variant + " in guest memory"
		}
		a.run.Violation(v.Sig, fmt.Sprintf("%s%v%s in state %s on the %s: %s", c.Fn, fmtArgs(c.Args), mem, c.State, c.Engine, v.What), c)
	}
}

func fmtArgs(a []uint64) string {
	s := make([]string, len(a))
	for i, v := range a {
		if v < 1<<16 {
			s[i] = strconv.FormatUint(v, 10)
		} else {
			s[i] = fmt.Sprintf("%#x", v)
		}
	}
	return "(" + strings.Join(s, ", ") + ")"
}

func (a *agg) merge(idx int, slice string, br *batchRes) {
	a.calls += br.N
	a.perSlice[slice] += br.N - br.DirtyCalls
	if br.DirtyCalls > 0 {
		a.perSlice[slice+"/dirty-stack"] += br.DirtyCalls
	}
	a.dirtyCalls += br.DirtyCalls
	if br.Mapped > a.maxMapped {
		a.maxMapped = br.Mapped
	}
	if idx >= 0 && os.Getenv("VERIF_C15_TRACE") != "" {
		fmt.Fprintf(os.Stderr, "batch %d %s mapped %d MiB\n", idx, slice, br.Mapped>>20)
	}
	a.dirtySame += br.DirtySame
	a.nontriv += br.Nontriv
	a.memChanged += br.MemChanged
	a.lowfree += br.Lowfree
	a.rebuilds += int64(br.Rebuilds)
	if br.MaxAlloc > a.maxAlloc || (br.MaxAlloc == a.maxAlloc && br.MaxCase != nil && a.maxCase != nil && fmt.Sprint(*br.MaxCase) < fmt.Sprint(*a.maxCase)) {
		a.maxAlloc, a.maxCase = br.MaxAlloc, br.MaxCase
	}
	for k, n := range br.Outcomes {
		i := strings.IndexByte(k, '|')
		fn, oc := k[:i], k[i+1:]
		a.outcomes[oc] += n
		if a.perFn[fn] == nil {
			a.perFn[fn] = map[string]int64{}
		}
		a.perFn[fn][oc] += n
	}
	for _, v := range br.Viols {
		a.violation(viol{v.Sig, v.What}, v.Case, v.Count)
	}
	if br.Sample != nil && idx >= 0 {
		a.samples[idx] = br.Sample
	}
}

func main() {
	if fw.IsChild() {
		childMain()
		return
	}
	if len(os.Args) > 2 && os.Args[1] == "replay" {
		replayMain(os.Args[2])
		return
	}
	if len(os.Args) > 2 && os.Args[1] == "plan" { // print the size of the enumeration of a tier and exit
		pl := buildPlan(os.Args[2])
		var n int64
		for _, b := range pl.batches {
			n += int64(b.hi-b.lo) * int64(b.callsPerTuple())
		}
		for fi, f := range fnTable {
			fmt.Printf("%-26s params=%d tuples/state=%d structured-inputs/state=%d\n", f.name, len(f.params), len(pl.tup[fi]), len(pl.sv[stOpens][fi]))
		}
		fmt.Printf("tier=%s batches=%d calls=%d\n", os.Args[2], len(pl.batches), n)
		return
	}
	run := fw.Start("C15", "exploration")
	if err := checkTable(); err != nil {
		fw.Fatalf("signature table: %v", err)
	}
	base, err := os.MkdirTemp("", "c15-")
	if err != nil {
		fw.Fatalf("%v", err)
	}
	fatal := func(format string, a ...any) {
		os.RemoveAll(base)
		fw.Fatalf(format, a...)
	}
	pl := buildPlan(run.Tier)
	env := []string{"VERIF_C15_BASE=" + base, "VERIF_C15_TIER=" + run.Tier, "VERIF_C15_DEADLINE=" + strconv.FormatInt(run.Deadline.UnixNano(), 10)}
	skipped := 0
	workers := runtime.NumCPU()
	if workers > 16 {
		workers = 16
	}
	a := newAgg(run)
	cappedRun := false
	capf := func() { cappedRun = true; run.Capped("budget") }
	stop := func() bool {
		if run.Expired() {
			capf()
			return true
		}
		return false
	}

	// phase A: batches
	var crashed []int
	var deaths []string
	t0 := time.Now()
	doneA := fw.Supervise(fw.SupOpts{N: len(pl.batches), Workers: workers, CaseTimeout: 120 * time.Second, UlimitVKB: 6 << 20, Env: env, Mode: "batch", Stop: stop},
		func(i int, res string, crash *fw.Crash) {
			if crash != nil {
				crashed = append(crashed, i)
				b := pl.batches[i]
				deaths = append(deaths, fmt.Sprintf("batch %d (%s %s %s sv=%v %d..%d): %s: %s", i, b.eng, stateName[b.st], fnTable[b.fn].name, b.sv, b.lo, b.hi, crash.Kind, fw.FirstLines(crash.Stderr, 3)))
				return
			}
			var br batchRes
			if err := json.Unmarshal([]byte(res), &br); err != nil {
				fatal("batch %d: bad child record: %v", i, err)
			}
			if br.Harness != "" {
				fatal("batch %d: %s", i, br.Harness)
			}
			if br.Skipped {
				skipped++
				capf()
				return
			}
			b := pl.batches[i]
			if len(br.Fx) != b.hi-b.lo {
				fatal("batch %d: %d effect records for %d tuples", i, len(br.Fx), b.hi-b.lo)
			}
			for k, fx := range br.Fx {
				a.setFx(pl, i, k, fx)
			}
			a.merge(i, b.eng+"/"+stateName[b.st], &br)
		})
	if doneA < len(pl.batches) {
		capf()
	}
	wallA := time.Since(t0).Seconds()

	// phase B: every call of a batch whose worker died is re-run as its own supervised case
	sort.Ints(crashed)
	var ids []string
	for _, bi := range crashed {
		ids = append(ids, strconv.Itoa(bi))
	}
	singles, skeys := expandSingles(pl, strings.Join(ids, ","))
	unrunDirty := int64(0)
	t1 := time.Now()
	if len(singles) > 0 {
		doneB := fw.Supervise(fw.SupOpts{N: len(singles), Workers: workers, CaseTimeout: 60 * time.Second, UlimitVKB: 6 << 20,
			Env: append(append([]string{}, env...), "VERIF_C15_SINGLES="+strings.Join(ids, ",")), Mode: "single", Stop: stop},
			func(i int, res string, crash *fw.Crash) {
				c := singles[i]
				slice := c.Engine + "/" + c.State
				if crash != nil {
					a.calls++
					a.perSlice[slice]++
					a.crashCases++
					a.nontriv++
					oc := "process-death:" + crash.Kind
					a.outcomes[oc]++
					if a.perFn[c.Fn] == nil {
						a.perFn[c.Fn] = map[string]int64{}
					}
					a.perFn[c.Fn][oc]++
					a.violation(crashViolation(c, crash), c, 1)
					a.setFx(pl, skeys[i].bi, skeys[i].k, oc)
					if pl.batches[skeys[i].bi].dirty {
						unrunDirty += int64(len(dirtyPatterns)) // the clean call already kills the worker
					}
					return
				}
				var br batchRes
				if err := json.Unmarshal([]byte(res), &br); err != nil {
					fatal("single %d: bad child record: %v", i, err)
				}
				if br.Harness != "" {
					fatal("single %d: %s", i, br.Harness)
				}
				if br.Skipped {
					skipped++
					capf()
					return
				}
				if len(br.Fx) != 1 {
					fatal("single %d: %d effect records", i, len(br.Fx))
				}
				a.setFx(pl, skeys[i].bi, skeys[i].k, br.Fx[0])
				a.merge(-1, slice, &br)
			})
		if doneB < len(singles) {
			capf()
		}
	}
	wallB := time.Since(t1).Seconds()

	// ---- engines must agree: the clean call of every tuple the compiler ran has the effect the
	// interpreter observed for the same tuple in the same state (a dirty-stack call equals its clean
	// call, checked in the worker, so it equals the interpreter's too).
	b2i := func(v bool) int {
		if v {
			return 1
		}
		return 0
	}
	twin := map[[4]int]int{}
	for i, b := range pl.batches {
		if b.eng == "interpreter" {
			twin[[4]int{b.st, b.fn, b.lo, b2i(b.sv)}] = i
		}
	}
	var xCompared, xDiffer, xMissing int64
	for i, b := range pl.batches {
		if b.eng != "compiler" {
			continue
		}
		ti, ok := twin[[4]int{b.st, b.fn, b.lo, b2i(b.sv)}]
		cf, tf := a.fx[i], a.fx[ti]
		for k := 0; k < b.hi-b.lo; k++ {
			if !ok || cf == nil || tf == nil || cf[k] == 0 || tf[k] == 0 {
				xMissing++
				continue
			}
			xCompared++
			if cf[k] != tf[k] {
				xDiffer++
				c := pl.caseOf(b, b.lo+k)
				a.violation(viol{c.Fn + ":outcome-differs-between-engines",
					fmt.Sprintf("compiler: %q, interpreter: %q", a.fxStr[cf[k]-1], a.fxStr[tf[k]-1])}, c, 1)
			}
		}
	}
	if xMissing > 0 && !cappedRun {
		fatal("%d tuples without an effect record although the run was not capped", xMissing)
	}

	// ---- is the dirty-stack variant effective? (harness-owned probe function with nine i32 parameters)
	probe := map[string]any{}
	if pw, err := newWorld(filepath.Join(base, "parent")); err != nil {
		fatal("probe world: %v", err)
	} else {
		for _, e := range pl.tp.engines {
			m, err := pw.probeMasks(e.name)
			if err != nil {
				fatal("dirty-stack probe on the %s: %v", e.name, err)
			}
			probe[e.name] = m
			if len(e.dirty) > 0 && (m["pattern_0xffffffffffffffff"] == 0 || m["clean"] != 0) {
				run.Note("dirty-stack variant is vacuous on the %s: probe masks %v (the trampoline no longer leaves stale upper halves, or the dirtier no longer reaches its slots)", e.name, m)
			}
		}
	}
	os.RemoveAll(base)

	// ---- evidence
	var planned int64
	for _, b := range pl.batches {
		planned += int64(b.hi-b.lo) * int64(b.callsPerTuple())
	}
	perFn := map[string]any{}
	var fnNames []string
	for _, f := range fnTable {
		fnNames = append(fnNames, f.name)
	}
	covered := 0
	for fi, f := range fnTable {
		m := a.perFn[f.name]
		var n int64
		for _, v := range m {
			n += v
		}
		if n > 0 {
			covered++
		}
		mode := "full-product"
		if len(f.params) > pl.tp.maxFull {
			mode = fmt.Sprintf("<=%d-deviations", pl.tp.maxDev)
		}
		perFn[f.name] = map[string]any{"params": len(f.params), "tuples_per_state": len(pl.tup[fi]), "structured_inputs_per_state": len(pl.sv[stOpens][fi]), "enumeration": mode, "calls": n, "outcomes": m}
	}
	var sidx []int
	for i := range a.samples {
		sidx = append(sidx, i)
	}
	sort.Ints(sidx)
	var samples []any
	if len(sidx) > 0 {
		for k := 0; k < 16; k++ {
			samples = append(samples, a.samples[sidx[k*len(sidx)/16]])
		}
	}
	alph := map[string]any{}
	for k, v := range kindAlphabet {
		alph[kindName[k]] = len(v)
	}
	engs := map[string]any{}
	for _, e := range pl.tp.engines {
		var s, d []string
		for _, st := range e.states {
			s = append(s, stateName[st])
		}
		for _, st := range e.dirty {
			d = append(d, stateName[st])
		}
		engs[e.name] = s
		if len(d) > 0 {
			engs[e.name+"+dirty-stack-variants"] = d
		}
	}
	pats := []string{}
	for _, p := range dirtyPatterns {
		pats = append(pats, fmt.Sprintf("%#x", p))
	}
	{ // one line that identifies every measured count of this run (for run-to-run comparison)
		dj, _ := json.Marshal([]any{a.calls, a.nontriv, a.outcomes, a.perFn, a.perSlice, a.memChanged, a.lowfree, a.rebuilds, len(crashed), len(singles), a.crashCases, a.dirtyCalls, a.dirtySame, xCompared, xDiffer, len(a.fxStr)})
		h := fnv.New64a()
		h.Write(dj)
		fmt.Printf("C15 counts-digest=%016x\n", h.Sum64())
	}
	run.Finish(fw.Coverage{
		Evaluations: a.calls, DistinctNontriv: a.nontriv,
		Rule: "one evaluation = one WASI call with one argument tuple in one descriptor-table state on one engine, on a fresh module instance (all tuples are distinct by construction); " +
			"non-trivial = the call succeeded (errno 0), ended in a trap, changed guest memory, changed the descriptor table or killed the worker (everything but a plain error return without effects)",
		Samples: samples, Exhaustive: a.calls+unrunDirty == planned, Outcomes: a.outcomes,
		Bounds: map[string]any{
			"functions": len(fnTable), "functions_covered": covered, "guest_memory_bytes": memSize,
			"full_product_up_to_params": pl.tp.maxFull, "max_deviations_otherwise": pl.tp.maxDev,
			"alphabet_sizes_without_default": alph, "engines_and_states": engs, "planned_calls": planned,
			"alloc_budget_bytes": allocBudget, "child_address_space_limit_kb": 6 << 20, "batch_size": batchSize,
		},
		Extra: map[string]any{
			"per_function": perFn, "calls_per_engine_state": a.perSlice, "calls_that_changed_guest_memory": a.memChanged,
			"lowest_free_followup_checked": a.lowfree, "host_dir_rebuilds": a.rebuilds,
			"max_host_alloc_bytes_in_surviving_call": a.maxAlloc, "max_host_alloc_case": a.maxCase,
			"worker_deaths_in_batch_phase": deaths, "max_worker_mapped_mib_approx": a.maxMapped >> 20, "batches": len(pl.batches), "cases_skipped_after_budget": skipped, "batches_whose_worker_died": len(crashed), "calls_rerun_one_per_process_slot": len(singles),
			"calls_that_killed_the_worker": a.crashCases, "phase_wall_s": map[string]float64{"batches": wallA, "singles": wallB},
			"dirty_stack": map[string]any{
				"patterns": pats, "dirtier_levels": dirtDepth + 1, "forwarding_functions": 2,
				"calls": a.dirtyCalls, "same_effect_as_clean_call": a.dirtySame, "differing": a.dirtyCalls - a.dirtySame,
				"not_run_because_the_clean_call_kills_the_worker": unrunDirty,
				"probe_upper_half_nonzero_mask_of_9_i32_slots": probe,
			},
			"engines_compared": map[string]any{"tuples_compared_compiler_vs_interpreter": xCompared, "differing": xDiffer, "not_compared_capped": xMissing, "distinct_effects": len(a.fxStr)},
		},
	}, []string{
		"the signature table (parameter kinds, output regions) is written from the WASI snapshot-01 documentation and checked against the host module's exported names and parameter types at start-up",
		"each call runs on a fresh module instance whose memory holds a fixed template; a changed byte whose new value equals the template byte is invisible to the diff",
		"default ModuleConfig (stdin EOF, fake clocks/sleep, deterministic random source) plus args, one env var and one writable directory mount; no sockets are pre-opened, so sock_* reach only their descriptor checks",
		"host allocation is the /gc/heap/allocs:bytes delta around the call in a single-goroutine worker; allocations outside the Go heap are covered only by the 6 GiB address-space limit",
		"effects compared across engines/workers are outcome, touched output regions and descriptor-table changes; changed bytes are compared (by hash) only between the clean and dirty-stack call of one tuple in one worker, and not for fd_filestat_get/path_filestat_get whose bytes carry host inode/atime",
		"the dirty-stack variant relies on the native stack layout of this compiler (amd64): its effectiveness is measured by a probe host function and reported, not assumed",
	})
}

func replayMain(file string) {
	b, err := os.ReadFile(file)
	if err != nil {
		fw.Fatalf("%v", err)
	}
	var rec struct {
		Signature string `json:"signature"`
		Replay    caseID `json:"replay"`
	}
	if err := json.Unmarshal(b, &rec); err != nil {
		fw.Fatalf("%v", err)
	}
	base, err := os.MkdirTemp("", "c15-")
	if err != nil {
		fw.Fatalf("%v", err)
	}
	cj, _ := json.Marshal(rec.Replay)
	fmt.Printf("replaying %s\n", cj)
	failed := false
	fw.Supervise(fw.SupOpts{N: 1, Workers: 1, CaseTimeout: 60 * time.Second, UlimitVKB: 6 << 20,
		Env: []string{"VERIF_C15_BASE=" + base, "VERIF_C15_CASE=" + string(cj)}, Mode: "replay"},
		func(i int, res string, crash *fw.Crash) {
			if crash != nil {
				v := crashViolation(rec.Replay, crash)
				fmt.Printf("FAILS signature=%s: %s\n", v.Sig, v.What)
				failed = true
				return
			}
			var br batchRes
			json.Unmarshal([]byte(res), &br)
			if br.Harness != "" {
				os.RemoveAll(base)
				fw.Fatalf("%s", br.Harness)
			}
			for k, n := range br.Outcomes {
				_ = n
				fmt.Printf("outcome %s, host allocation %d bytes\n", k, br.MaxAlloc)
			}
			for _, v := range br.Viols {
				fmt.Printf("FAILS signature=%s: %s\n", v.Sig, v.What)
				failed = true
			}
		})
	os.RemoveAll(base)
	if failed {
		os.Exit(1)
	}
	fmt.Println("case passes")
}
