// C15 — WASI calls are safe for any argument values.
//
// Exhaustive enumeration of argument tuples over per-parameter-kind boundary alphabets for all 46
// functions exported by wasi_snapshot_preview1 (full product for small arities, every choice of <= k
// deviating parameters from a well-formed default for the others) x 5 descriptor-table states, each
// call executed on the real host functions through a guest wrapper on a fresh module instance.
// Oracle per call: errno or documented trap; no Go runtime error; changed guest bytes lie inside the
// output regions designated by the signature table; the descriptor table, observed by follow-up
// calls, follows a small model; host allocation during the call stays within 16 x guest memory + 16 MiB.
// Cases run in supervised child processes (address-space limit 6 GiB): a fatal OOM, crash or hang
// is attributed to the exact tuple by re-running the affected batch one call per case.
package main

import (
	"encoding/json"
	"fmt"
	"os"
	"path/filepath"
	"runtime"
	"sort"
	"strconv"
	"strings"
	"time"

	"github.com/tetratelabs/wazero/verif/fw"
)

const batchSize = 256

type engPlan struct {
	name   string
	states []int
}

type tierPlan struct {
	maxFull, maxDev int
	engines         []engPlan
}

func planFor(tier string) tierPlan {
	all := []int{stFresh, stOpens, stClosedMiddle, stRenumbered, stReaddir}
	if tier == "thorough" {
		return tierPlan{5, 3, []engPlan{{"interpreter", all}, {"compiler", all}}}
	}
	return tierPlan{4, 2, []engPlan{{"interpreter", all}, {"compiler", []int{stOpens, stRenumbered}}}}
}

type batch struct {
	eng    string
	st, fn int
	lo, hi int
}

type plan struct {
	tp      tierPlan
	tup     [][][]uint8 // per function
	batches []batch
}

func buildPlan(tier string) *plan {
	pl := &plan{tp: planFor(tier)}
	for _, f := range fnTable {
		pl.tup = append(pl.tup, tuples(f, pl.tp.maxFull, pl.tp.maxDev))
	}
	for _, e := range pl.tp.engines {
		for _, st := range e.states {
			for fi := range fnTable {
				n := len(pl.tup[fi])
				for lo := 0; lo < n; lo += batchSize {
					hi := lo + batchSize
					if hi > n {
						hi = n
					}
					pl.batches = append(pl.batches, batch{e.name, st, fi, lo, hi})
				}
			}
		}
	}
	return pl
}

func (pl *plan) caseOf(b batch, k int) caseID {
	f := fnTable[b.fn]
	return caseID{Engine: b.eng, Fn: f.name, State: stateName[b.st], Args: argsOf(f, pl.tup[b.fn][k], b.st)}
}

// ---------------------------------------------------------------- child <-> parent records

type violRec struct {
	Sig   string `json:"sig"`
	What  string `json:"what"`
	Case  caseID `json:"case"`
	Count int64  `json:"count"`
}

type batchRes struct {
	N          int64            `json:"n"`
	Outcomes   map[string]int64 `json:"o"` // "fn|outcome"
	Viols      []*violRec       `json:"v,omitempty"`
	Nontriv    int64            `json:"nt"`
	MemChanged int64            `json:"mc"`
	MaxAlloc   uint64           `json:"ma"`
	MaxCase    *caseID          `json:"mcase,omitempty"`
	Lowfree    int64            `json:"lf"`
	Rebuilds   int              `json:"rb"`
	Harness    string           `json:"h,omitempty"`
	Skipped    bool             `json:"skipped,omitempty"` // the run's budget was used up before this case started
	Sample     *sampleRec       `json:"s,omitempty"`
}

type sampleRec struct {
	Case    caseID `json:"case"`
	Outcome string `json:"outcome"`
	Alloc   uint64 `json:"host_alloc_bytes"`
}

func (br *batchRes) add(c caseID, r caseRes) {
	br.N++
	if br.Outcomes == nil {
		br.Outcomes = map[string]int64{}
	}
	if r.harness != "" {
		if br.Harness == "" {
			br.Harness = fmt.Sprintf("%s (case %+v)", r.harness, c)
		}
		return
	}
	br.Outcomes[c.Fn+"|"+r.outcome]++
	if r.nontrivial {
		br.Nontriv++
	}
	if r.memChanged {
		br.MemChanged++
	}
	if r.lowfree == "checked" {
		br.Lowfree++
	}
	if r.alloc > br.MaxAlloc {
		br.MaxAlloc = r.alloc
		cc := c
		br.MaxCase = &cc
	}
	if br.Sample == nil {
		br.Sample = &sampleRec{c, r.outcome, r.alloc}
	}
outer:
	for _, v := range r.viols {
		for _, e := range br.Viols {
			if e.Sig == v.Sig {
				e.Count++
				continue outer
			}
		}
		br.Viols = append(br.Viols, &violRec{v.Sig, v.What, c, 1})
	}
}

// ---------------------------------------------------------------- child

func childMain() {
	base := os.Getenv("VERIF_C15_BASE")
	if base == "" {
		fw.Fatalf("child without VERIF_C15_BASE")
	}
	w, err := newWorld(filepath.Join(base, fmt.Sprintf("w%s-%d", os.Getenv("VERIF_CHILD_START"), os.Getpid())))
	if err != nil {
		fw.Fatalf("child world: %v", err)
	}
	// fw.Supervise polls its Stop callback only when it (re)starts a worker, so the budget is also
	// enforced here: past the deadline every remaining case answers "skipped" immediately.
	deadline, _ := strconv.ParseInt(os.Getenv("VERIF_C15_DEADLINE"), 10, 64)
	expired := func() bool { return deadline > 0 && time.Now().UnixNano() > deadline }
	enc := func(br *batchRes) string {
		br.Rebuilds = w.rebuilds
		w.rebuilds = 0
		b, _ := json.Marshal(br)
		return string(b)
	}
	switch fw.ChildMode() {
	case "batch":
		pl := buildPlan(os.Getenv("VERIF_C15_TIER"))
		fw.ChildLoop(func(i int) string {
			b := pl.batches[i]
			br := &batchRes{}
			if expired() {
				return `{"skipped":true}`
			}
			for k := b.lo; k < b.hi; k++ {
				c := pl.caseOf(b, k)
				br.add(c, w.runCase(c))
			}
			return enc(br)
		})
	case "single":
		pl := buildPlan(os.Getenv("VERIF_C15_TIER"))
		singles := expandSingles(pl, os.Getenv("VERIF_C15_SINGLES"))
		fw.ChildLoop(func(i int) string {
			c := singles[i]
			br := &batchRes{}
			if expired() {
				return `{"skipped":true}`
			}
			br.add(c, w.runCase(c))
			return enc(br)
		})
	case "replay":
		var c caseID
		if err := json.Unmarshal([]byte(os.Getenv("VERIF_C15_CASE")), &c); err != nil {
			fw.Fatalf("replay case: %v", err)
		}
		fw.ChildLoop(func(i int) string {
			br := &batchRes{}
			br.add(c, w.runCase(c))
			return enc(br)
		})
	default:
		fw.Fatalf("unknown child mode %q", fw.ChildMode())
	}
}

func expandSingles(pl *plan, list string) []caseID {
	var out []caseID
	for _, s := range strings.Split(list, ",") {
		if s == "" {
			continue
		}
		bi, err := strconv.Atoi(s)
		if err != nil || bi < 0 || bi >= len(pl.batches) {
			fw.Fatalf("bad singles list %q", list)
		}
		b := pl.batches[bi]
		for k := b.lo; k < b.hi; k++ {
			out = append(out, pl.caseOf(b, k))
		}
	}
	return out
}

// crashViolation classifies a child that died / hung while executing exactly case c.
func crashViolation(c caseID, cr *fw.Crash) viol {
	class := "crash"
	switch {
	case cr.Kind == "timeout":
		class = "hang"
	case strings.Contains(cr.Stderr, "out of memory") || strings.Contains(cr.Stderr, "cannot allocate memory"):
		class = "host-alloc"
	}
	return viol{sigFor(c.Fn, class, c.Args), fmt.Sprintf("worker process died (%s) during the call: %s", cr.Kind, fw.FirstLines(cr.Stderr, 3))}
}

// ---------------------------------------------------------------- parent

type agg struct {
	run        *fw.Run
	calls      int64
	nontriv    int64
	memChanged int64
	lowfree    int64
	rebuilds   int64
	maxAlloc   uint64
	maxCase    *caseID
	outcomes   map[string]int64            // by outcome
	perFn      map[string]map[string]int64 // fn -> outcome -> n
	perSlice   map[string]int64            // engine/state -> calls
	samples    map[int]*sampleRec
	crashCases int64
}

func newAgg(run *fw.Run) *agg {
	return &agg{run: run, outcomes: map[string]int64{}, perFn: map[string]map[string]int64{}, perSlice: map[string]int64{}, samples: map[int]*sampleRec{}}
}

func (a *agg) violation(v viol, c caseID, count int64) {
	for k := int64(0); k < count; k++ {
		a.run.Violation(v.Sig, fmt.Sprintf("%s%v in state %s on the %s: %s", c.Fn, fmtArgs(c.Args), c.State, c.Engine, v.What), c)
	}
}

func fmtArgs(a []uint64) string {
	s := make([]string, len(a))
	for i, v := range a {
		if v < 1<<16 {
			s[i] = strconv.FormatUint(v, 10)
		} else {
			s[i] = fmt.Sprintf("%#x", v)
		}
	}
	return "(" + strings.Join(s, ", ") + ")"
}

func (a *agg) merge(idx int, slice string, br *batchRes) {
	a.calls += br.N
	a.perSlice[slice] += br.N
	a.nontriv += br.Nontriv
	a.memChanged += br.MemChanged
	a.lowfree += br.Lowfree
	a.rebuilds += int64(br.Rebuilds)
	if br.MaxAlloc > a.maxAlloc || (br.MaxAlloc == a.maxAlloc && br.MaxCase != nil && a.maxCase != nil && fmt.Sprint(*br.MaxCase) < fmt.Sprint(*a.maxCase)) {
		a.maxAlloc, a.maxCase = br.MaxAlloc, br.MaxCase
	}
	for k, n := range br.Outcomes {
		i := strings.IndexByte(k, '|')
		fn, oc := k[:i], k[i+1:]
		a.outcomes[oc] += n
		if a.perFn[fn] == nil {
			a.perFn[fn] = map[string]int64{}
		}
		a.perFn[fn][oc] += n
	}
	for _, v := range br.Viols {
		a.violation(viol{v.Sig, v.What}, v.Case, v.Count)
	}
	if br.Sample != nil && idx >= 0 {
		a.samples[idx] = br.Sample
	}
}

func main() {
	if fw.IsChild() {
		childMain()
		return
	}
	if len(os.Args) > 2 && os.Args[1] == "replay" {
		replayMain(os.Args[2])
		return
	}
	if len(os.Args) > 2 && os.Args[1] == "plan" { // print the size of the enumeration of a tier and exit
		pl := buildPlan(os.Args[2])
		var n int64
		for _, b := range pl.batches {
			n += int64(b.hi - b.lo)
		}
		for fi, f := range fnTable {
			fmt.Printf("%-26s params=%d tuples/state=%d\n", f.name, len(f.params), len(pl.tup[fi]))
		}
		fmt.Printf("tier=%s batches=%d calls=%d\n", os.Args[2], len(pl.batches), n)
		return
	}
	run := fw.Start("C15", "exploration")
	if err := checkTable(); err != nil {
		fw.Fatalf("signature table: %v", err)
	}
	base, err := os.MkdirTemp("", "c15-")
	if err != nil {
		fw.Fatalf("%v", err)
	}
	fatal := func(format string, a ...any) {
		os.RemoveAll(base)
		fw.Fatalf(format, a...)
	}
	pl := buildPlan(run.Tier)
	env := []string{"VERIF_C15_BASE=" + base, "VERIF_C15_TIER=" + run.Tier, "VERIF_C15_DEADLINE=" + strconv.FormatInt(run.Deadline.UnixNano(), 10)}
	skipped := 0
	workers := runtime.NumCPU()
	if workers > 16 {
		workers = 16
	}
	a := newAgg(run)
	stop := func() bool {
		if run.Expired() {
			run.Capped("budget")
			return true
		}
		return false
	}

	// phase A: batches
	var crashed []int
	t0 := time.Now()
	doneA := fw.Supervise(fw.SupOpts{N: len(pl.batches), Workers: workers, CaseTimeout: 120 * time.Second, UlimitVKB: 6 << 20, Env: env, Mode: "batch", Stop: stop},
		func(i int, res string, crash *fw.Crash) {
			if crash != nil {
				crashed = append(crashed, i)
				return
			}
			var br batchRes
			if err := json.Unmarshal([]byte(res), &br); err != nil {
				fatal("batch %d: bad child record: %v", i, err)
			}
			if br.Harness != "" {
				fatal("batch %d: %s", i, br.Harness)
			}
			if br.Skipped {
				skipped++
				run.Capped("budget")
				return
			}
			b := pl.batches[i]
			a.merge(i, b.eng+"/"+stateName[b.st], &br)
		})
	if doneA < len(pl.batches) {
		run.Capped("budget")
	}
	wallA := time.Since(t0).Seconds()

	// phase B: every call of a batch whose worker died is re-run as its own supervised case
	sort.Ints(crashed)
	var singles []caseID
	var ids []string
	for _, bi := range crashed {
		ids = append(ids, strconv.Itoa(bi))
	}
	singles = expandSingles(pl, strings.Join(ids, ","))
	t1 := time.Now()
	if len(singles) > 0 {
		doneB := fw.Supervise(fw.SupOpts{N: len(singles), Workers: workers, CaseTimeout: 60 * time.Second, UlimitVKB: 6 << 20,
			Env: append(append([]string{}, env...), "VERIF_C15_SINGLES="+strings.Join(ids, ",")), Mode: "single", Stop: stop},
			func(i int, res string, crash *fw.Crash) {
				c := singles[i]
				slice := c.Engine + "/" + c.State
				if crash != nil {
					a.calls++
					a.perSlice[slice]++
					a.crashCases++
					a.nontriv++
					oc := "process-death:" + crash.Kind
					a.outcomes[oc]++
					if a.perFn[c.Fn] == nil {
						a.perFn[c.Fn] = map[string]int64{}
					}
					a.perFn[c.Fn][oc]++
					a.violation(crashViolation(c, crash), c, 1)
					return
				}
				var br batchRes
				if err := json.Unmarshal([]byte(res), &br); err != nil {
					fatal("single %d: bad child record: %v", i, err)
				}
				if br.Harness != "" {
					fatal("single %d: %s", i, br.Harness)
				}
				if br.Skipped {
					skipped++
					run.Capped("budget")
					return
				}
				a.merge(-1, slice, &br)
			})
		if doneB < len(singles) {
			run.Capped("budget")
		}
	}
	wallB := time.Since(t1).Seconds()
	os.RemoveAll(base)

	// ---- evidence
	var planned int64
	for _, b := range pl.batches {
		planned += int64(b.hi - b.lo)
	}
	perFn := map[string]any{}
	var fnNames []string
	for _, f := range fnTable {
		fnNames = append(fnNames, f.name)
	}
	covered := 0
	for fi, f := range fnTable {
		m := a.perFn[f.name]
		var n int64
		for _, v := range m {
			n += v
		}
		if n > 0 {
			covered++
		}
		mode := "full-product"
		if len(f.params) > pl.tp.maxFull {
			mode = fmt.Sprintf("<=%d-deviations", pl.tp.maxDev)
		}
		perFn[f.name] = map[string]any{"params": len(f.params), "tuples_per_state": len(pl.tup[fi]), "enumeration": mode, "calls": n, "outcomes": m}
	}
	var sidx []int
	for i := range a.samples {
		sidx = append(sidx, i)
	}
	sort.Ints(sidx)
	var samples []any
	if len(sidx) > 0 {
		for k := 0; k < 16; k++ {
			samples = append(samples, a.samples[sidx[k*len(sidx)/16]])
		}
	}
	alph := map[string]any{}
	for k, v := range kindAlphabet {
		alph[kindName[k]] = len(v)
	}
	engs := map[string]any{}
	for _, e := range pl.tp.engines {
		var s []string
		for _, st := range e.states {
			s = append(s, stateName[st])
		}
		engs[e.name] = s
	}
	run.Finish(fw.Coverage{
		Evaluations: a.calls, DistinctNontriv: a.nontriv,
		Rule: "one evaluation = one WASI call with one argument tuple in one descriptor-table state on one engine, on a fresh module instance (all tuples are distinct by construction); " +
			"non-trivial = the call succeeded (errno 0), ended in a trap, changed guest memory, changed the descriptor table or killed the worker (everything but a plain error return without effects)",
		Samples: samples, Exhaustive: a.calls == planned, Outcomes: a.outcomes,
		Bounds: map[string]any{
			"functions": len(fnTable), "functions_covered": covered, "guest_memory_bytes": memSize,
			"full_product_up_to_params": pl.tp.maxFull, "max_deviations_otherwise": pl.tp.maxDev,
			"alphabet_sizes_without_default": alph, "engines_and_states": engs, "planned_calls": planned,
			"alloc_budget_bytes": allocBudget, "child_address_space_limit_kb": 6 << 20, "batch_size": batchSize,
		},
		Extra: map[string]any{
			"per_function": perFn, "calls_per_engine_state": a.perSlice, "calls_that_changed_guest_memory": a.memChanged,
			"lowest_free_followup_checked": a.lowfree, "host_dir_rebuilds": a.rebuilds,
			"max_host_alloc_bytes_in_surviving_call": a.maxAlloc, "max_host_alloc_case": a.maxCase,
			"batches": len(pl.batches), "cases_skipped_after_budget": skipped, "batches_whose_worker_died": len(crashed), "calls_rerun_one_per_process_slot": len(singles),
			"calls_that_killed_the_worker": a.crashCases, "phase_wall_s": map[string]float64{"batches": wallA, "singles": wallB},
		},
	}, []string{
		"the signature table (parameter kinds, output regions) is written from the WASI snapshot-01 documentation and checked against the host module's exported names and parameter types at start-up",
		"each call runs on a fresh module instance whose memory holds a fixed template; a changed byte whose new value equals the template byte is invisible to the diff",
		"default ModuleConfig (stdin EOF, fake clocks/sleep, deterministic random source) plus args, one env var and one writable directory mount; no sockets are pre-opened, so sock_* reach only their descriptor checks",
		"host allocation is the /gc/heap/allocs:bytes delta around the call in a single-goroutine worker; allocations outside the Go heap are covered only by the 6 GiB address-space limit",
	})
}

func replayMain(file string) {
	b, err := os.ReadFile(file)
	if err != nil {
		fw.Fatalf("%v", err)
	}
	var rec struct {
		Signature string `json:"signature"`
		Replay    caseID `json:"replay"`
	}
	if err := json.Unmarshal(b, &rec); err != nil {
		fw.Fatalf("%v", err)
	}
	base, err := os.MkdirTemp("", "c15-")
	if err != nil {
		fw.Fatalf("%v", err)
	}
	cj, _ := json.Marshal(rec.Replay)
	fmt.Printf("replaying %s\n", cj)
	failed := false
	fw.Supervise(fw.SupOpts{N: 1, Workers: 1, CaseTimeout: 60 * time.Second, UlimitVKB: 6 << 20,
		Env: []string{"VERIF_C15_BASE=" + base, "VERIF_C15_CASE=" + string(cj)}, Mode: "replay"},
		func(i int, res string, crash *fw.Crash) {
			if crash != nil {
				v := crashViolation(rec.Replay, crash)
				fmt.Printf("FAILS signature=%s: %s\n", v.Sig, v.What)
				failed = true
				return
			}
			var br batchRes
			json.Unmarshal([]byte(res), &br)
			if br.Harness != "" {
				os.RemoveAll(base)
				fw.Fatalf("%s", br.Harness)
			}
			for k, n := range br.Outcomes {
				_ = n
				fmt.Printf("outcome %s, host allocation %d bytes\n", k, br.MaxAlloc)
			}
			for _, v := range br.Viols {
				fmt.Printf("FAILS signature=%s: %s\n", v.Sig, v.What)
				failed = true
			}
		})
	os.RemoveAll(base)
	if failed {
		os.Exit(1)
	}
	fmt.Println("case passes")
}
