package main

import (
	"encoding/binary"
	"fmt"
)

// Structured in-memory inputs. The integer-argument alphabets of sigs.go vary what the guest passes
// in registers; several WASI functions are driven by structures the guest places in its memory
// (poll subscriptions, iovec arrays, path bytes). For every function taking a pointer to such an
// input structure a small alphabet of memory templates is enumerated exhaustively: the structure is
// written at a well-formed (in-bounds) pointer on top of the base template, the pointer and the
// length/count argument are set accordingly, all other arguments keep their default.

type memPatch struct {
	Off   uint32 `json:"off"`
	Bytes []byte `json:"bytes"`
}

type variant struct {
	name    string
	patches []memPatch
	args    map[int]uint64 // argument overrides (values may be symbolic descriptors)
}

const (
	aPathA = 0x0400 // first path of a structured case (256 bytes reserved)
	aPathB = 0x0500 // second path (path_link, path_rename, path_symlink)
)

// ---- poll_oneoff subscriptions

type subElem struct {
	name string
	tag  byte
	fd   uint64 // fd_read / fd_write (may be symbolic)
	abs  bool   // clock: subscription_clock_abstime
}

var subAlphabet = []subElem{
	{name: "clock-rel-0ns", tag: 0},
	{name: "clock-abs", tag: 0, abs: true},
	{name: "fd_read(0)", tag: 1, fd: 0},
	{name: "fd_read(3)", tag: 1, fd: 3},
	{name: "fd_read(closed)", tag: 1, fd: symClosed},
	{name: "fd_write(1)", tag: 2, fd: 1},
	{name: "fd_write(3)", tag: 2, fd: 3},
	{name: "fd_write(closed)", tag: 2, fd: symClosed},
	{name: "type-3", tag: 3},
	{name: "type-255", tag: 255},
}

func encodeSub(pos int, e subElem, st int) []byte {
	b := make([]byte, 48)
	le := binary.LittleEndian
	le.PutUint64(b, 0x1111111111111111*uint64(pos+1)) // userdata
	b[8] = e.tag
	switch e.tag {
	case 0:
		le.PutUint32(b[16:], 1) // monotonic
		if e.abs {
			le.PutUint16(b[40:], 1)
		}
	case 1, 2:
		le.PutUint32(b[16:], uint32(resolveFd(e.fd, st)))
	}
	return b
}

// all sequences of length 1..maxLen over n symbols, in a fixed order
func sequences(n, maxLen int) [][]int {
	var out [][]int
	var rec func(cur []int)
	rec = func(cur []int) {
		if len(cur) > 0 {
			out = append(out, append([]int{}, cur...))
		}
		if len(cur) == maxLen {
			return
		}
		for i := 0; i < n; i++ {
			rec(append(cur, i))
		}
	}
	rec(nil)
	return out
}

func pollVariants(st int) []variant {
	var out []variant
	for _, seq := range sequences(len(subAlphabet), 3) {
		region := make([]byte, 4*48) // the element after the array is zero: an "uninitialised tail"
		name := ""
		for pos, ei := range seq {
			copy(region[48*pos:], encodeSub(pos, subAlphabet[ei], st))
			name += subAlphabet[ei].name + ","
		}
		for _, n := range []struct {
			tag string
			v   uint64
		}{{"exact", uint64(len(seq))}, {"+1", uint64(len(seq) + 1)}, {"0", 0}} {
			out = append(out, variant{name: "subs[" + name + "] n=" + n.tag,
				patches: []memPatch{{aSubs, region}}, args: map[int]uint64{0: aSubs, 2: n.v}})
		}
	}
	return out
}

// ---- iovec arrays

type iovElem struct {
	name     string
	ptr, len uint32
}

var iovAlphabet = []iovElem{
	{"valid", aData, 16},
	{"len0", aData, 0},
	{"ptr-out-of-bounds", memSize + 16, 8},
	{"len-huge", aData, 0xFFFFFFF0},
	{"ptr+len-wraps", 0xFFFFFFF8, 16},
	{"overlaps-iovec-array", aIovs, 24},
}

func iovVariants(ptrParam, lenParam int) []variant {
	var out []variant
	for _, seq := range sequences(len(iovAlphabet), 3) {
		region := make([]byte, 4*8) // zero tail
		name := ""
		for pos, ei := range seq {
			e := iovAlphabet[ei]
			p := e.ptr
			if e.name == "valid" {
				p += uint32(0x40 * pos)
			}
			binary.LittleEndian.PutUint32(region[8*pos:], p)
			binary.LittleEndian.PutUint32(region[8*pos+4:], e.len)
			name += e.name + ","
		}
		for _, extra := range []int{0, 1} {
			out = append(out, variant{name: fmt.Sprintf("iovs[%s] n=exact+%d", name, extra),
				patches: []memPatch{{aIovs, region}}, args: map[int]uint64{ptrParam: aIovs, lenParam: uint64(len(seq) + extra)}})
		}
	}
	return out
}

// ---- paths

var pathAlphabet = []struct {
	name  string
	bytes []byte
}{
	{"a", []byte("a")},
	{"empty", nil},
	{"/", []byte("/")},
	{"..", []byte("..")},
	{"a/../b", []byte("a/../b")},
	{"255-byte-name", func() []byte {
		b := make([]byte, 255)
		for i := range b {
			b[i] = 'n'
		}
		return b
	}()},
	{"NUL-in-the-middle", []byte("a\x00b")},
	{"invalid-UTF-8", []byte{0xff, 0xfe, 0x80}},
}

func pathVariants(pairs [][2]int) []variant {
	out := []variant{{name: "", args: map[int]uint64{}}}
	for j, pr := range pairs {
		at := uint32(aPathA + 0x100*j)
		var next []variant
		for _, v := range out {
			for _, pa := range pathAlphabet {
				nv := variant{name: v.name + fmt.Sprintf("path%d=%s ", j, pa.name), args: map[int]uint64{}}
				for k, a := range v.args {
					nv.args[k] = a
				}
				nv.patches = append(append([]memPatch{}, v.patches...), memPatch{at, pa.bytes})
				nv.args[pr[0]], nv.args[pr[1]] = uint64(at), uint64(len(pa.bytes))
				next = append(next, nv)
			}
		}
		out = next
	}
	return out
}

// ---- output-size boundaries
//
// For every function that writes variable-length output into a guest buffer of guest-given length the
// natural output length L is known from the prepared state, and the buffer length runs over
// {0, 1, L-1, L, L+1, 2L} with the buffer placed (a) in the middle of memory between 0xA5 sentinel bytes
// and (b) ending exactly at the end of linear memory.

const (
	aMid     = 0x8000 // buffer of placement (a)
	aMidFrom = 0x7f00 // sentinel region [aMidFrom, aMidTo)
	aMidTo   = 0x8500
)

var sentinel = func() []byte {
	b := make([]byte, aMidTo-aMidFrom)
	for i := range b {
		b[i] = 0xA5
	}
	return b
}()

// prepared symlinks: name (8 bytes) -> target length
var linkTargets = []struct {
	name   string
	target string
}{
	{"lnk001__", "a"},
	{"lnk016__", "0123456789abcdef"},
	{"symlink0", "subdir00/inner.txt"},
	{"lnk255__", string(bytesOf('t', 255))},
}

func bytesOf(c byte, n int) []byte {
	b := make([]byte, n)
	for i := range b {
		b[i] = c
	}
	return b
}

func boundaryLens(L int) []uint64 {
	var out []uint64
next:
	for _, v := range []int{0, 1, L - 1, L, L + 1, 2 * L} {
		if v < 0 {
			continue
		}
		for _, o := range out {
			if o == uint64(v) {
				continue next
			}
		}
		out = append(out, uint64(v))
	}
	return out
}

// placements of a buffer of n bytes: (a) between sentinels, (b) ending exactly at the end of memory
func placements(n uint64) []struct {
	tag string
	at  uint64
} {
	return []struct {
		tag string
		at  uint64
	}{{"mid", aMid}, {"end", memSize - n}}
}

func boundaryVariants(f *fn) []variant {
	var out []variant
	base := []memPatch{{aMidFrom, sentinel}}
	// buf/len style functions: (buffer param, length param, extra patches/args, natural lengths)
	bufLen := func(tag string, bufP, lenP int, L int, patches []memPatch, args map[int]uint64) {
		for _, n := range boundaryLens(L) {
			for _, pl := range placements(n) {
				a := map[int]uint64{bufP: pl.at, lenP: n}
				for k, v := range args {
					a[k] = v
				}
				out = append(out, variant{name: fmt.Sprintf("out-boundary %s L=%d len=%d at-%s", tag, L, n, pl.tag),
					patches: append(append([]memPatch{}, base...), patches...), args: a})
			}
		}
	}
	switch f.name {
	case "path_readlink":
		for _, l := range linkTargets {
			bufLen("readlink("+l.name+")", 3, 4, len(l.target), []memPatch{{aPathA, []byte(l.name)}}, map[int]uint64{1: aPathA, 2: uint64(len(l.name))})
		}
	case "fd_readdir":
		// subdir00 lists ".", "..", "inner.txt": dirents of 25, 26 and 33 bytes; 24 = header only
		for _, L := range []int{24, 25, 51, 84} {
			bufLen("readdir(subdir00)", 1, 2, L, nil, map[int]uint64{0: symDir})
		}
	case "fd_prestat_dir_name":
		bufLen("prestat_dir_name(/)", 1, 2, 1, nil, nil)
	case "random_get":
		bufLen("random", 0, 1, 16, nil, nil)
	case "fd_read", "fd_pread":
		// file.txt holds 100 bytes: one iovec of each boundary length
		for _, n := range boundaryLens(len(fileContent)) {
			for _, pl := range placements(n) {
				iov := make([]byte, 8)
				binary.LittleEndian.PutUint32(iov, uint32(pl.at))
				binary.LittleEndian.PutUint32(iov[4:], uint32(n))
				out = append(out, variant{name: fmt.Sprintf("out-boundary read(file.txt) L=%d len=%d at-%s", len(fileContent), n, pl.tag),
					patches: append(append([]memPatch{}, base...), memPatch{aIovs, iov}), args: map[int]uint64{1: aIovs, 2: 1}})
			}
		}
	case "args_get", "environ_get":
		ptrs, bytes := uint64(4*argc), uint64(argBytes)
		if f.name == "environ_get" {
			ptrs, bytes = 4*envc, envBytes
		}
		for _, c := range []struct {
			tag      string
			vec, buf uint64
		}{
			{"both-mid", aMid, aMid + 0x100},
			{"buf-fits-exactly-at-end", aMid, memSize - bytes},
			{"buf-one-byte-short-at-end", aMid, memSize - bytes + 1},
			{"vec-fits-exactly-at-end", memSize - ptrs, aMid},
			{"vec-one-byte-short-at-end", memSize - ptrs + 1, aMid},
			{"vec-then-buf-exactly-at-end", memSize - bytes - ptrs, memSize - bytes},
		} {
			out = append(out, variant{name: "out-boundary " + f.name + " " + c.tag, patches: base, args: map[int]uint64{0: c.vec, 1: c.buf}})
		}
	case "poll_oneoff":
		for n := uint64(1); n <= 3; n++ {
			for _, c := range []struct {
				tag string
				at  uint64
			}{{"mid", aMid}, {"exactly-at-end", memSize - 32*n}, {"one-byte-short-at-end", memSize - 32*n + 1}} {
				out = append(out, variant{name: fmt.Sprintf("out-boundary events n=%d %s", n, c.tag), patches: base, args: map[int]uint64{1: c.at, 2: n}})
			}
		}
	}
	return out
}

// structVariants lists the structured-input and output-boundary cases of f in state st (nil for
// functions with neither).
func structVariants(f *fn, st int) []variant {
	return append(structInputVariants(f, st), boundaryVariants(f)...)
}

func structInputVariants(f *fn, st int) []variant {
	if f.name == "poll_oneoff" {
		return pollVariants(st)
	}
	var paths [][2]int
	for i := 0; i+1 < len(f.params); i++ {
		if f.params[i+1].k != kLen {
			continue
		}
		switch f.params[i].k {
		case kIov:
			return iovVariants(i, i+1)
		case kPath:
			paths = append(paths, [2]int{i, i + 1})
		}
	}
	if len(paths) == 0 {
		return nil
	}
	vs := pathVariants(paths)
	if f.name == "path_open" { // each hostile path also with O_CREAT and O_DIRECTORY
		var out []variant
		for _, v := range vs {
			for _, ofl := range []uint64{0, 1, 2} {
				nv := variant{name: v.name + fmt.Sprintf("oflags=%d", ofl), patches: v.patches, args: map[int]uint64{4: ofl}}
				for k, a := range v.args {
					nv.args[k] = a
				}
				out = append(out, nv)
			}
		}
		return out
	}
	return vs
}

// structCase builds the concrete case: default arguments with the variant's overrides.
func structCase(f *fn, v variant, st int) ([]uint64, []memPatch) {
	args := make([]uint64, len(f.params))
	for i, pr := range f.params {
		args[i] = pr.def
		if o, ok := v.args[i]; ok {
			args[i] = o
		}
		args[i] = resolveFd(args[i], st)
	}
	var ps []memPatch
	for _, p := range v.patches {
		if len(p.Bytes) > 0 {
			ps = append(ps, p)
		}
	}
	return args, ps
}
