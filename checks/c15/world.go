package main

import (
	"bytes"
	"context"
	"encoding/binary"
	"errors"
	"fmt"
	"hash/fnv"
	"math"
	"os"
	"path/filepath"
	"reflect"
	"runtime"
	"runtime/metrics"
	"sort"
	"strings"

	"github.com/tetratelabs/wazero"
	"github.com/tetratelabs/wazero/api"
	"github.com/tetratelabs/wazero/imports/wasi_snapshot_preview1"
	"github.com/tetratelabs/wazero/internal/wasip1"
	"github.com/tetratelabs/wazero/internal/wasm"
	wsys "github.com/tetratelabs/wazero/sys"
	"github.com/tetratelabs/wazero/verif/wb"
)

const wasiMod = "wasi_snapshot_preview1"

// allocBudget: host allocation allowed during one call = 16 x guest memory + 16 MiB.
const allocBudget = 16*memSize + 16<<20

const probeMod, probeFn = "c15probe", "upper9"

// Stack patterns of the dirty-stack variant (0 = clean stack).
var dirtyPatterns = []uint64{0xFFFFFFFFFFFFFFFF, 0xA5A5A5A5A5A5A5A5}

const dirtDepth = 3 // the dirtier recurses this many levels below its first frame

// guestBin wraps every WASI import in an exported guest function of the same name and type, so
// that a call takes the engine's real guest->host path (memory view, bounds checks, panic recovery).
//
// Dirty-stack variant: "dirty:<fn>"(pattern i64, args...) first runs a stack dirtier — a function
// that derives 32 i64 values from `pattern` (rotations, so the compiler cannot fold them), keeps them
// live across a call (recursing dirtDepth levels down to a leaf), i.e. spills them over about 1 KiB of
// native stack — and then reaches the import through two nested guest->guest forwarding functions.
// On amd64 the compiler's host-call trampoline stores only the low 4 bytes of an i32 argument into
// its 8-byte slot, so after the dirtier the upper halves of the slots hold stale pattern bytes.
func guestBin() []byte {
	m := &wb.Module{}
	type imp struct {
		idx     uint32
		params  []byte
		results []byte
	}
	imps := make([]imp, len(fnTable), len(fnTable)+1)
	for i, f := range fnTable {
		var ps []byte
		for _, pr := range f.params {
			if pr.k.is64() {
				ps = append(ps, wb.I64)
			} else {
				ps = append(ps, wb.I32)
			}
		}
		rs := []byte{wb.I32}
		if f.noResult {
			rs = nil
		}
		imps[i] = imp{m.ImportFunc(wasiMod, f.name, ps, rs), ps, rs}
	}
	// harness-owned probe: reports which of its nine i32 slots have a non-zero upper half
	nine := bytes.Repeat([]byte{wb.I32}, 9)
	imps = append(imps, imp{m.ImportFunc(probeMod, probeFn, nine, []byte{wb.I64}), nine, []byte{wb.I64}})
	names := make([]string, 0, len(imps))
	for _, f := range fnTable {
		names = append(names, f.name)
	}
	names = append(names, probeFn)

	m.Mem = &wb.Limits{Min: memPages, Max: memPages, HasMax: true}
	for i, f := range fnTable {
		a := &wb.Asm{}
		for k := range f.params {
			a.LocalGet(uint32(k))
		}
		a.Call(imps[i].idx)
		m.ExportFunc(f.name, m.AddFunc(imps[i].params, imps[i].results, nil, a.B))
	}
	// leaf(p) = p + 1
	leaf := m.AddFunc([]byte{wb.I64}, []byte{wb.I64}, nil, (&wb.Asm{}).LocalGet(0).I64Const(1).Op(0x7c).B)
	// dirt(depth i32, p i64) i64
	dirt := leaf + 1
	const nl = 32
	d := &wb.Asm{}
	for i := 0; i < nl; i++ {
		d.LocalGet(1).I64Const(int64(i + 1)).Op(0x89).LocalSet(uint32(2 + i)) // i64.rotl
	}
	d.LocalGet(0).If(wb.I64).
		LocalGet(0).I32Const(1).Op(0x6b).LocalGet(1).Call(dirt).
		Else().
		LocalGet(1).Call(leaf).
		End().LocalSet(2 + nl)
	d.LocalGet(2 + nl)
	for i := 0; i < nl; i++ {
		d.LocalGet(uint32(2 + i)).Op(0x85) // i64.xor: every value is live across the call
	}
	if got := m.AddFunc([]byte{wb.I32, wb.I64}, []byte{wb.I64}, bytes.Repeat([]byte{wb.I64}, nl+1), d.B); got != dirt {
		panic("function index of the dirtier")
	}
	for i, im := range imps {
		fwd := func(callee uint32) uint32 {
			a := &wb.Asm{}
			for k := range im.params {
				a.LocalGet(uint32(k))
			}
			return m.AddFunc(im.params, im.results, nil, a.Call(callee).B)
		}
		f1 := fwd(fwd(im.idx))
		a := (&wb.Asm{}).I32Const(dirtDepth).LocalGet(0).Call(dirt).Drop()
		for k := range im.params {
			a.LocalGet(uint32(k + 1))
		}
		a.Call(f1)
		m.ExportFunc("dirty:"+names[i], m.AddFunc(append([]byte{wb.I64}, im.params...), im.results, nil, a.B))
		if names[i] == probeFn { // clean-stack wrapper of the probe
			c := &wb.Asm{}
			for k := range im.params {
				c.LocalGet(uint32(k))
			}
			m.ExportFunc(probeFn, m.AddFunc(im.params, im.results, nil, c.Call(im.idx).B))
		}
	}
	m.Exports = append(m.Exports, wb.Export{Name: "memory", Kind: wb.KindMemory, Idx: 0})
	return m.Encode()
}

// probeHost instantiates the probe module: upper9 returns a bit mask of the parameters whose
// 64-bit slot has a non-zero upper half when the host function looks at it.
func probeHost(ctx context.Context, rt wazero.Runtime) error {
	i32 := api.ValueTypeI32
	_, err := rt.NewHostModuleBuilder(probeMod).NewFunctionBuilder().
		WithGoModuleFunction(api.GoModuleFunc(func(_ context.Context, _ api.Module, stack []uint64) {
			var mask uint64
			for k := 0; k < 9; k++ {
				if stack[k]>>32 != 0 {
					mask |= 1 << k
				}
			}
			stack[0] = mask
		}), []api.ValueType{i32, i32, i32, i32, i32, i32, i32, i32, i32}, []api.ValueType{api.ValueTypeI64}).
		Export(probeFn).Instantiate(ctx)
	return err
}

// template is the content of guest memory before every call.
func buildTemplate() []byte {
	t := bytes.Repeat([]byte{'Z'}, memSize)
	le := binary.LittleEndian
	iov := func(at int, buf, l uint32) { le.PutUint32(t[at:], buf); le.PutUint32(t[at+4:], l) }
	lens := []uint32{32, 16, 0, 8, 4, 1, 64, 2}
	for i, l := range lens {
		iov(aIovs0+8*i, uint32(aData+0x100*i), l)
	}
	copy(t[aPathFile:], "file.txt")
	copy(t[aPathFil2:], "fil2.txt")
	copy(t[aPathDir:], "subdir00")
	copy(t[aPathNew:], "newname0")
	copy(t[aPathLink:], "symlink0")
	// subscriptions: 48 bytes each: userdata u64, tag u8 (+7 pad), union at +16
	sub := func(i int, tag byte, f func(u []byte)) {
		b := t[aSubs+48*i : aSubs+48*(i+1)]
		clear(b)
		le.PutUint64(b, 0x1111111111111111*uint64(i+1))
		b[8] = tag
		f(b[16:])
	}
	sub(0, 0, func(u []byte) { le.PutUint32(u, 1); le.PutUint64(u[8:], 1000) }) // clock monotonic, relative 1µs
	sub(1, 1, func(u []byte) { le.PutUint32(u, 0) })                            // fd_read stdin
	sub(2, 2, func(u []byte) { le.PutUint32(u, 1) })                            // fd_write stdout
	iov(aIovs, aData, 32)
	iov(aIovs+8, aData+0x100, 16)
	for i := 0; i < 8; i++ {
		iov(aEndIovs+8*i, uint32(aData+0x800+16*i), 8)
	}
	return t
}

// ---------------------------------------------------------------- host directory

const fil2Content = "second file content."
const fileContent = "0123456789abcdefghij0123456789abcdefghij0123456789abcdefghij0123456789abcdefghij0123456789abcdefghij"

func buildDir(dir string) error {
	ents, err := os.ReadDir(dir)
	if err != nil {
		return err
	}
	for _, e := range ents {
		if err := os.RemoveAll(filepath.Join(dir, e.Name())); err != nil {
			return err
		}
	}
	if err := os.WriteFile(filepath.Join(dir, "file.txt"), []byte(fileContent), 0o600); err != nil {
		return err
	}
	if err := os.WriteFile(filepath.Join(dir, "fil2.txt"), []byte(fil2Content), 0o600); err != nil {
		return err
	}
	if err := os.Mkdir(filepath.Join(dir, "subdir00"), 0o700); err != nil {
		return err
	}
	if err := os.WriteFile(filepath.Join(dir, "subdir00", "inner.txt"), []byte("inner"), 0o600); err != nil {
		return err
	}
	for _, l := range linkTargets { // symlinks with target lengths 1, 16, 18 and 255 (output-size boundaries)
		if err := os.Symlink(l.target, filepath.Join(dir, l.name)); err != nil {
			return err
		}
	}
	return nil
}

// fileIs reports whether path is a regular file with exactly this content (the size is checked
// first: a call may have turned the file into a multi-GiB sparse file).
func fileIs(path, content string) bool {
	fi, err := os.Lstat(path)
	if err != nil || !fi.Mode().IsRegular() || fi.Size() != int64(len(content)) {
		return false
	}
	b, err := os.ReadFile(path)
	return err == nil && string(b) == content
}

// dirPrint is a canonical listing (names, types, sizes, small contents, link targets; no times, no inodes).
func dirPrint(dir string) string {
	var sb strings.Builder
	var walk func(rel string)
	walk = func(rel string) {
		ents, err := os.ReadDir(filepath.Join(dir, rel))
		if err != nil {
			fmt.Fprintf(&sb, "!%s:%v\n", rel, err)
			return
		}
		for _, e := range ents {
			pth := filepath.Join(rel, e.Name())
			fi, err := os.Lstat(filepath.Join(dir, pth))
			if err != nil {
				fmt.Fprintf(&sb, "!%s\n", pth)
				continue
			}
			switch {
			case fi.Mode()&os.ModeSymlink != 0:
				tgt, _ := os.Readlink(filepath.Join(dir, pth))
				fmt.Fprintf(&sb, "L %q -> %q\n", pth, tgt)
			case fi.IsDir():
				fmt.Fprintf(&sb, "D %q\n", pth)
				walk(pth)
			default:
				fmt.Fprintf(&sb, "F %q %d", pth, fi.Size())
				if fi.Size() <= 4096 {
					b, _ := os.ReadFile(filepath.Join(dir, pth))
					fmt.Fprintf(&sb, " %q", b)
				}
				sb.WriteByte('\n')
			}
		}
	}
	walk("")
	return sb.String()
}

// ---------------------------------------------------------------- world

type engineRT struct {
	rt   wazero.Runtime
	code wazero.CompiledModule
}

type world struct {
	ctx      context.Context
	dir      string
	pristine string
	tmpl     []byte
	bin      []byte
	cfg      wazero.ModuleConfig
	rts      map[string]*engineRT
	sample   []metrics.Sample
	rebuilds int
	envCfg   [nStates]wazero.ModuleConfig
}

func newWorld(dir string) (*world, error) {
	w := &world{ctx: context.Background(), dir: dir, tmpl: buildTemplate(), bin: guestBin(), rts: map[string]*engineRT{},
		sample: []metrics.Sample{{Name: "/gc/heap/allocs:bytes"}}}
	if err := os.MkdirAll(dir, 0o700); err != nil {
		return nil, err
	}
	if err := buildDir(dir); err != nil {
		return nil, err
	}
	w.pristine = dirPrint(dir)
	// Default ModuleConfig (stdin is EOF and never blocks, stdout/stderr discard, sleeps are fake,
	// fake clocks, deterministic random source) plus args/environ and one writable directory mount.
	w.cfg = wazero.NewModuleConfig().WithName("").WithArgs("prog", "x").WithEnv("K", "V").
		WithFSConfig(wazero.NewFSConfig().WithDirMount(dir, "/"))
	return w, nil
}

// envPath is the host path mounted as "/" in environment state st (a sibling of the worker's directory).
func (w *world) envPath(st int) string { return w.dir + "-env-" + stateName[st] }

// prepEnv (re)creates the host side of environment state st before every case - a call may have
// created or changed the path (mkdir of "." below a missing root) - and returns the module
// configuration whose only difference from w.cfg is the host path behind the preopen.
func (w *world) prepEnv(st int) (wazero.ModuleConfig, error) {
	p := w.envPath(st)
	if err := os.RemoveAll(p); err != nil {
		return nil, err
	}
	switch st {
	case stPreRemoved:
		if err := os.Mkdir(p, 0o700); err != nil {
			return nil, err
		}
	case stPreIsFile:
		if err := os.WriteFile(p, []byte(fileContent), 0o600); err != nil {
			return nil, err
		}
	}
	if w.envCfg[st] == nil {
		w.envCfg[st] = wazero.NewModuleConfig().WithName("").WithArgs("prog", "x").WithEnv("K", "V").
			WithFSConfig(wazero.NewFSConfig().WithDirMount(p, "/"))
	}
	return w.envCfg[st], nil
}

func (w *world) engine(name string) (*engineRT, error) {
	if e := w.rts[name]; e != nil {
		return e, nil
	}
	var rc wazero.RuntimeConfig
	switch name {
	case "interpreter":
		rc = wazero.NewRuntimeConfigInterpreter()
	case "compiler":
		rc = wazero.NewRuntimeConfigCompiler()
	default:
		return nil, fmt.Errorf("unknown engine %q", name)
	}
	rt := wazero.NewRuntimeWithConfig(w.ctx, rc)
	if _, err := wasi_snapshot_preview1.Instantiate(w.ctx, rt); err != nil {
		return nil, err
	}
	if err := probeHost(w.ctx, rt); err != nil {
		return nil, err
	}
	code, err := rt.CompileModule(w.ctx, w.bin)
	if err != nil {
		return nil, fmt.Errorf("guest module rejected: %w", err)
	}
	e := &engineRT{rt, code}
	w.rts[name] = e
	return e, nil
}

// probeMasks calls the harness-owned probe function (nine i32 parameters) on a clean stack and
// through the dirty-stack variant with each pattern and returns, for each, the mask of parameters
// whose 64-bit slot had a non-zero upper half when the host function looked at it.
func (w *world) probeMasks(engine string) (map[string]uint64, error) {
	eng, err := w.engine(engine)
	if err != nil {
		return nil, err
	}
	mod, err := eng.rt.InstantiateModule(w.ctx, eng.code, w.cfg)
	if err != nil {
		return nil, err
	}
	defer mod.Close(w.ctx)
	args := []uint64{1, 2, 3, 4, 5, 6, 7, 8, 9}
	out := map[string]uint64{}
	r, err := mod.ExportedFunction(probeFn).Call(w.ctx, args...)
	if err != nil {
		return nil, err
	}
	out["clean"] = r[0]
	for _, p := range dirtyPatterns {
		r, err := mod.ExportedFunction("dirty:"+probeFn).Call(w.ctx, append([]uint64{p}, args...)...)
		if err != nil {
			return nil, err
		}
		out[fmt.Sprintf("pattern_%#x", p)] = r[0]
	}
	return out, nil
}

// checkTable compares the signature table with what the host module really exports.
func checkTable() error {
	ctx := context.Background()
	rt := wazero.NewRuntimeWithConfig(ctx, wazero.NewRuntimeConfigInterpreter())
	defer rt.Close(ctx)
	cm, err := wasi_snapshot_preview1.NewBuilder(rt).Compile(ctx)
	if err != nil {
		return err
	}
	defs := cm.ExportedFunctions()
	if len(defs) != len(fnTable) {
		return fmt.Errorf("host module exports %d functions, signature table has %d", len(defs), len(fnTable))
	}
	for _, f := range fnTable {
		d, ok := defs[f.name]
		if !ok {
			return fmt.Errorf("signature table lists %s which the host module does not export", f.name)
		}
		pt := d.ParamTypes()
		if len(pt) != len(f.params) {
			return fmt.Errorf("%s: %d params in table, %d exported", f.name, len(f.params), len(pt))
		}
		for i, t := range pt {
			if (t == api.ValueTypeI64) != f.params[i].k.is64() {
				return fmt.Errorf("%s: param %d type mismatch", f.name, i)
			}
		}
	}
	return nil
}

// ---------------------------------------------------------------- one case

type caseID struct {
	Engine string   `json:"engine"`
	Fn     string   `json:"fn"`
	State  string   `json:"state"`
	Args   []uint64 `json:"args"`
	// Mem: structured input written on top of the base memory template before the call (structs.go).
	Mem     []memPatch `json:"mem,omitempty"`
	Variant string     `json:"variant,omitempty"`
	// Dirty != 0: the call is made through "dirty:<fn>" with this stack pattern (compared with the clean call).
	Dirty uint64 `json:"dirty_stack_pattern,omitempty"`
	// direct != nil (attribution only): the host function is invoked directly with a stack slice in
	// which the upper half of parameter `param` is set to `upper`.
	direct *directSpec
}

type directSpec struct {
	param int
	upper uint32
}

type viol struct {
	Sig  string `json:"sig"`
	What string `json:"what"`
}

type caseRes struct {
	outcome    string
	viols      []viol
	nontrivial bool
	memChanged bool
	alloc      uint64
	lowfree    string
	harness    string // non-empty: harness error
	// fx: what the call did, in a form that is equal for equal behaviour on any engine and any
	// worker: outcome, which designated output regions were touched, descriptor-table effect.
	// fxStrong additionally hashes the changed bytes (comparable within one worker only).
	fx, fxStrong string
}

type inst struct {
	w   *world
	mod api.Module
	mem api.Memory
}

func (in *inst) call(name string, args ...uint64) (uint64, error) {
	r, err := in.mod.ExportedFunction(name).Call(in.w.ctx, args...)
	if err != nil {
		return 0, err
	}
	if len(r) == 0 {
		return 0, nil
	}
	return r[0], nil
}

func (in *inst) must(name string, want uint64, args ...uint64) error {
	r, err := in.call(name, args...)
	if err != nil {
		return fmt.Errorf("state setup %s%v: %v", name, args, err)
	}
	if r != want {
		return fmt.Errorf("state setup %s%v: errno %s", name, args, wasip1.ErrnoName(uint32(r)))
	}
	return nil
}

func stateIndex(name string) int {
	for i, n := range stateName {
		if n == name {
			return i
		}
	}
	return -1
}

// setup drives the instance into descriptor-table state st using WASI calls only.
func (in *inst) setup(st int) error {
	if st == stFresh || isEnvState(st) {
		return nil
	}
	in.mem.Write(0, in.w.tmpl[:0x400])
	open := func(path uint64, oflags uint64, want uint32) error {
		rights := uint64(66) // fd_read|fd_write
		if oflags&2 != 0 {
			rights = 0 // a directory cannot be opened for writing
		}
		if err := in.must("path_open", 0, 3, 1, path, pathLen, oflags, rights, 0, 0, aRes); err != nil {
			return err
		}
		if got, _ := in.mem.ReadUint32Le(aRes); got != want {
			return fmt.Errorf("state setup: path_open returned fd %d, want %d", got, want)
		}
		return nil
	}
	if err := open(aPathFile, 0, 4); err != nil {
		return err
	}
	if err := open(aPathFil2, 0, 5); err != nil {
		return err
	}
	if err := open(aPathDir, 2, 6); err != nil {
		return err
	}
	switch st {
	case stClosedMiddle:
		return in.must("fd_close", 0, 5)
	case stRenumbered:
		return in.must("fd_renumber", 0, 4, 9)
	case stReaddir:
		return in.must("fd_readdir", 0, 6, aBuf, 256, 0, aRes)
	}
	return nil
}

type probeRes struct {
	errno uint32
	ftype byte
}

func (p probeRes) valid() bool { return p.errno == 0 }
func (p probeRes) String() string {
	if p.errno != 0 {
		return wasip1.ErrnoName(p.errno)
	}
	return fmt.Sprintf("open(filetype=%d)", p.ftype)
}

// probe asks fd_fdstat_get about each descriptor (observation "via later calls").
func (in *inst) probe(fds []int32) (map[int32]probeRes, error) {
	out := make(map[int32]probeRes, len(fds))
	for _, fd := range fds {
		r, err := in.call("fd_fdstat_get", uint64(uint32(fd)), aRes)
		if err != nil {
			return nil, err
		}
		pr := probeRes{errno: uint32(r)}
		if r == 0 {
			b, _ := in.mem.ReadByte(aRes)
			pr.ftype = b
		}
		out[fd] = pr
	}
	return out, nil
}

var goRuntimeMarkers = []string{"runtime error", "recovered by wazero", "index out of range", "slice bounds out of range",
	"nil pointer dereference", "Go runtime stack trace", "invalid memory address"}

func isGoRuntimeError(err error) bool {
	var re runtime.Error
	if errors.As(err, &re) {
		return true
	}
	s := err.Error()
	for _, m := range goRuntimeMarkers {
		if strings.Contains(s, m) {
			return true
		}
	}
	return false
}

// sigFor builds the classifier signature: function + failure class, refined by the input class
// for the two defects already known so that any other failure of the same function stays distinct.
func sigFor(fn, class string, args []uint64) string {
	switch {
	case fn == "poll_oneoff" && class == "go-runtime-error" && len(args) == 4 && uint64(uint32(args[2]))*48 > math.MaxUint32:
		return "poll_oneoff:nsubscriptions*48-overflows-uint32:go-runtime-error"
	case fn == "fd_filestat_set_times" && class == "go-runtime-error" && len(args) == 4 && uint32(args[0]) <= 2:
		return "fd_filestat_set_times:stdio-descriptor:go-runtime-error"
	case fn == "fd_renumber" && class == "host-alloc" && len(args) == 2 && int32(uint32(args[1])) >= 1<<20:
		return "fd_renumber:to-far-beyond-table:host-alloc"
	}
	return fn + ":" + class
}

type span struct{ lo, hi uint64 } // [lo,hi)

// allowedSpans evaluates the output designation of f for concrete arguments on the pre-call memory.
func allowedSpans(f *fn, args []uint64, pre []byte) []span {
	var out []span
	a32 := func(i int) uint64 { return uint64(uint32(args[i])) }
	add := func(lo, n uint64) {
		if n == 0 || lo >= memSize {
			return
		}
		hi := lo + n
		if hi > memSize {
			hi = memSize
		}
		out = append(out, span{lo, hi})
	}
	for _, o := range f.outs {
		switch o.kind {
		case oSlot:
			add(a32(o.p), o.size)
		case oBuf:
			add(a32(o.p), a32(o.l))
		case oArr:
			add(a32(o.p), a32(o.l)*o.size)
		case oIov:
			base, cnt := a32(o.p), a32(o.l)
			for i := uint64(0); i < cnt; i++ {
				at := base + 8*i
				if at+8 > memSize {
					break
				}
				add(uint64(binary.LittleEndian.Uint32(pre[at:])), uint64(binary.LittleEndian.Uint32(pre[at+4:])))
			}
		}
	}
	return out
}

func inSpans(s []span, i uint64) bool {
	for _, x := range s {
		if i >= x.lo && i < x.hi {
			return true
		}
	}
	return false
}

func lowestFree(tab map[int32]probeRes, occupied int32) int32 {
	for fd := int32(0); ; fd++ {
		p, ok := tab[fd]
		if !ok {
			return -1 // beyond the contiguous probe window
		}
		if !p.valid() && fd != occupied {
			return fd
		}
	}
}

var probeBase = func() []int32 {
	var s []int32
	for i := int32(0); i < 16; i++ {
		s = append(s, i)
	}
	return append(s, 63, 64, 65, 1000, 1<<24, math.MaxInt32, -1)
}()

func (w *world) runCase(c caseID) (res caseRes) {
	fi, f := fnByName(c.Fn)
	st := stateIndex(c.State)
	if fi < 0 || st < 0 || len(c.Args) != len(f.params) {
		res.harness = fmt.Sprintf("bad case %+v", c)
		return
	}
	eng, err := w.engine(c.Engine)
	if err != nil {
		res.harness = err.Error()
		return
	}
	cfg := w.cfg
	if isEnvState(st) {
		var err error
		if cfg, err = w.prepEnv(st); err != nil {
			res.harness = "environment state: " + err.Error()
			return
		}
	}
	mod, err := eng.rt.InstantiateModule(w.ctx, eng.code, cfg)
	if err != nil {
		res.harness = "instantiate: " + err.Error()
		return
	}
	if st == stPreRemoved {
		if err := os.Remove(w.envPath(st)); err != nil {
			res.harness = "environment state: " + err.Error()
			return
		}
	}
	in := &inst{w: w, mod: mod, mem: mod.Memory()}
	defer func() {
		mod.Close(w.ctx)
		if f.mutates != 0 {
			// a descriptor-based mutator can only reach the two regular files the states open
			dirty := false
			if f.mutates == mutFd {
				dirty = !fileIs(filepath.Join(w.dir, "file.txt"), fileContent) || !fileIs(filepath.Join(w.dir, "fil2.txt"), fil2Content)
			} else {
				dirty = dirPrint(w.dir) != w.pristine
			}
			if dirty {
				w.rebuilds++
				if err := buildDir(w.dir); err != nil {
					res.harness = "rebuild dir: " + err.Error()
				}
			}
		}
	}()
	if in.mem.Size() != memSize {
		res.harness = "unexpected memory size"
		return
	}
	add := func(class, what string) {
		res.viols = append(res.viols, viol{sigFor(c.Fn, class, c.Args), what})
	}
	// The state is reached with well-formed WASI calls only; a Go runtime error there is a property
	// violation in its own right (reported under the state, not the function under test).
	setupFail := func(stage string, err error) {
		if isGoRuntimeError(err) {
			res.outcome = "setup-go-runtime-error"
			res.viols = append(res.viols, viol{"state-setup:" + c.State + ":go-runtime-error", stage + " with well-formed calls: " + firstLine(err.Error())})
			return
		}
		res.harness = stage + ": " + err.Error()
	}
	if err := in.setup(st); err != nil {
		setupFail("state setup", err)
		return
	}
	// descriptors to observe: fixed window + every descriptor-typed argument
	fds := append([]int32{}, probeBase...)
	argFds := map[int32]bool{}
	for i, pr := range f.params {
		if pr.k == kFd {
			fd := int32(uint32(c.Args[i]))
			if !argFds[fd] {
				argFds[fd] = true
				fds = append(fds, fd)
			}
		}
	}
	pre, err := in.probe(fds)
	if err != nil {
		setupFail("descriptor probe before the call", err)
		return
	}
	tmpl := w.tmpl
	if len(c.Mem) > 0 {
		tmpl = append([]byte{}, w.tmpl...)
		for _, mp := range c.Mem {
			if uint64(mp.Off)+uint64(len(mp.Bytes)) > memSize {
				res.harness = "memory patch out of range"
				return
			}
			copy(tmpl[mp.Off:], mp.Bytes)
		}
	}
	in.mem.Write(0, tmpl)

	// ---- the call, bracketed by the allocation counter
	var rs []uint64
	var cerr error
	switch {
	case c.direct != nil:
		rs, cerr = w.directCall(eng, mod, c)
	case c.Dirty != 0:
		fnc := mod.ExportedFunction("dirty:" + c.Fn)
		dargs := append([]uint64{c.Dirty}, c.Args...)
		metrics.Read(w.sample)
		a0 := w.sample[0].Value.Uint64()
		rs, cerr = fnc.Call(w.ctx, dargs...)
		metrics.Read(w.sample)
		res.alloc = w.sample[0].Value.Uint64() - a0
	default:
		fnc := mod.ExportedFunction(c.Fn)
		metrics.Read(w.sample)
		a0 := w.sample[0].Value.Uint64()
		rs, cerr = fnc.Call(w.ctx, c.Args...)
		metrics.Read(w.sample)
		res.alloc = w.sample[0].Value.Uint64() - a0
	}
	defer func() { res.fxStrong = res.fx + res.fxStrong }()
	res.fx = "?"
	// Every WASI result is an i32: decode it as the API documents (api.DecodeU32). The compiler's entry
	// stub stores an i32 result with a 4-byte store into the shared param/result slot, so the upper half
	// of the raw uint64 can still hold the upper half of the first parameter (e.g. the i64 stack pattern).
	if cerr == nil && len(rs) == 1 {
		rs[0] = uint64(uint32(rs[0]))
	}

	exited := false
	switch {
	case cerr != nil:
		var ee *wsys.ExitError
		switch {
		case errors.As(cerr, &ee):
			exited = true
			res.outcome = "trap:exit"
			res.nontrivial = true
			if c.Fn != "proc_exit" {
				add("unexpected-exit", fmt.Sprintf("call ended with %v", cerr))
			} else if ee.ExitCode() != uint32(c.Args[0]) {
				add("wrong-exit-code", fmt.Sprintf("exit code %d for rval %d", ee.ExitCode(), uint32(c.Args[0])))
			}
		case isGoRuntimeError(cerr):
			res.outcome = "go-runtime-error"
			add("go-runtime-error", "host raised a Go runtime error: "+firstLine(cerr.Error()))
		default:
			res.outcome = "other-error"
			add("undocumented-trap", "call failed with neither errno nor documented trap: "+firstLine(cerr.Error()))
		}
	case f.noResult:
		res.outcome = "returned-without-exit"
		add("proc_exit-returned", "proc_exit returned to the guest")
	case len(rs) != 1 || rs[0] >= 77:
		res.outcome = "invalid-errno"
		add("invalid-errno", fmt.Sprintf("result %v is not a WASI errno", rs))
	default:
		res.outcome = "errno:" + wasip1.ErrnoName(uint32(rs[0]))
		if rs[0] == 0 {
			res.nontrivial = true
		}
	}
	errno := uint64(1 << 32)
	if cerr == nil && len(rs) == 1 {
		errno = rs[0]
	}
	res.fx = res.outcome

	// ---- host allocation
	if res.alloc > allocBudget {
		add("host-alloc", fmt.Sprintf("host allocated %d bytes during the call (budget %d = 16 x guest memory + 16 MiB)", res.alloc, allocBudget))
	}

	// ---- guest memory: every changed byte must lie in a designated output region
	post, _ := in.mem.Read(0, memSize)
	var newFd int64 = -1
	if !bytes.Equal(post, tmpl) {
		res.memChanged, res.nontrivial = true, true
		spans := allowedSpans(f, c.Args, tmpl)
		bad, first, last := 0, -1, -1
		for base := 0; base < memSize; base += 4096 {
			if bytes.Equal(post[base:base+4096], tmpl[base:base+4096]) {
				continue
			}
			for i := base; i < base+4096; i++ {
				if post[i] != tmpl[i] && !inSpans(spans, uint64(i)) {
					if first < 0 {
						first = i
					}
					last = i
					bad++
				}
			}
		}
		if bad > 0 {
			add("write-outside-output", fmt.Sprintf("%d changed bytes outside the designated output regions %v: first at %#x, last at %#x", bad, spans, first, last))
		}
		// effect: which designated regions were touched (+ anything outside), and a hash of the changed bytes
		touched := make([]byte, len(spans))
		h := fnv.New64a()
		var rec [5]byte
		for base := 0; base < memSize; base += 4096 {
			if bytes.Equal(post[base:base+4096], tmpl[base:base+4096]) {
				continue
			}
			for i := base; i < base+4096; i++ {
				if post[i] == tmpl[i] {
					continue
				}
				for k, sp := range spans {
					if uint64(i) >= sp.lo && uint64(i) < sp.hi {
						touched[k] = 1
					}
				}
				binary.LittleEndian.PutUint32(rec[:], uint32(i))
				rec[4] = post[i]
				h.Write(rec[:])
			}
		}
		res.fx += fmt.Sprintf("|mem:%v outside:%v", touched, bad > 0)
		if !hostVaryingContent[c.Fn] {
			res.fxStrong = fmt.Sprintf("|bytes:%016x", h.Sum64())
		}
	}
	if c.Fn == "path_open" && errno == 0 {
		if v, ok := in.mem.ReadUint32Le(uint32(c.Args[8])); ok {
			newFd = int64(v)
		}
	}

	// ---- descriptor table
	if exited {
		return // the instance is closed by the documented exit; nothing left to observe
	}
	if newFd >= 0 {
		res.fx += fmt.Sprintf("|newfd:%d", newFd)
	}
	if newFd >= 0 {
		if _, ok := pre[int32(newFd)]; !ok {
			fds = append(fds, int32(newFd))
		}
	}
	postTab, err := in.probe(fds)
	if err != nil {
		add("instance-unusable", "follow-up call failed: "+firstLine(err.Error()))
		return
	}
	expect := make(map[int32]probeRes, len(pre))
	for k, v := range pre {
		expect[k] = v
	}
	skip := map[int32]bool{}
	occupied := int32(-1)
	switch {
	case c.Fn == "fd_close" && errno == 0:
		expect[int32(uint32(c.Args[0]))] = probeRes{errno: 8}
	case c.Fn == "fd_renumber" && errno == 0:
		from, to := int32(uint32(c.Args[0])), int32(uint32(c.Args[1]))
		if from != to { // renumbering a descriptor onto itself must leave the table as it is
			expect[to] = pre[from]
			expect[from] = probeRes{errno: 8}
		}
	case newFd >= 0:
		if lf := lowestFree(pre, -1); lf >= 0 && int64(lf) != newFd {
			add("fd-table:open-not-lowest-free", fmt.Sprintf("path_open returned fd %d, lowest free descriptor was %d", newFd, lf))
		}
		if p, ok := pre[int32(newFd)]; ok && p.valid() {
			add("fd-table:open-reused-live-fd", fmt.Sprintf("path_open returned fd %d which was open", newFd))
		}
		skip[int32(newFd)] = true
		if !postTab[int32(newFd)].valid() {
			add("fd-table:opened-fd-not-usable", fmt.Sprintf("fd %d returned by path_open does not stat: %v", newFd, postTab[int32(newFd)]))
		}
	}
	var keys []int32
	for k := range expect {
		keys = append(keys, k)
	}
	sort.Slice(keys, func(i, j int) bool { return keys[i] < keys[j] })
	changed := false
	for _, fd := range keys {
		if skip[fd] {
			continue
		}
		if got, want := postTab[fd], expect[fd]; got != want {
			cls := "fd-table:unrelated-descriptor-changed"
			if argFds[fd] {
				cls = "fd-table:argument-descriptor-state"
			}
			add(cls, fmt.Sprintf("descriptor %d: %v before the call, expected %v after it, observed %v", fd, pre[fd], want, got))
		}
		if postTab[fd] != pre[fd] {
			changed = true
			res.fx += fmt.Sprintf("|fd%d:%v", fd, postTab[fd])
		}
	}
	if changed || newFd >= 0 {
		res.nontrivial = true
	}

	// ---- lowest-free allocation continues: open "." through a directory that is still open
	res.lowfree = "skipped"
	if c.Dirty != 0 || c.direct != nil {
		return // variants are judged by comparison with the clean call
	}
	dirFd := int32(-1)
	for _, cand := range []int32{3, 6} {
		if p := postTab[cand]; p.valid() && p.ftype == 3 {
			dirFd = cand
			break
		}
	}
	if dirFd >= 0 {
		in.mem.Write(aBuf, []byte("."))
		r, err := in.call("path_open", uint64(dirFd), 1, aBuf, 1, 2, 0, 0, 0, aRes)
		if err != nil {
			add("instance-unusable", "follow-up path_open failed: "+firstLine(err.Error()))
			return
		}
		if r == 0 {
			got, _ := in.mem.ReadUint32Le(aRes)
			want := lowestFree(postTab, occupied)
			res.lowfree = "checked"
			if want >= 0 && int32(got) != want {
				add("fd-table:next-open-not-lowest-free", fmt.Sprintf("after the call the next path_open returned fd %d, lowest free descriptor is %d", got, want))
			}
			if r2, err := in.call("fd_fdstat_get", uint64(got), aRes); err != nil || r2 != 0 {
				add("fd-table:next-open-not-usable", fmt.Sprintf("fd %d from the follow-up path_open does not stat (errno %d, err %v)", got, r2, err))
			}
		}
	}
	return
}

// Functions whose output bytes legitimately differ between two runs in the same worker (inode,
// access time of the host files): their changed bytes are compared by region only.
var hostVaryingContent = map[string]bool{"fd_filestat_get": true, "path_filestat_get": true}

// directCall invokes the Go host function behind c.Fn directly (no engine in between) with a stack
// slice whose entry for parameter c.direct.param carries c.direct.upper in its upper half. It is used
// only to attribute a dirty-stack difference to one parameter.
func (w *world) directCall(eng *engineRT, mod api.Module, c caseID) (rs []uint64, err error) {
	// Runtime.Module wraps host modules in a struct embedding the api.Module (to forbid ExportedFunction)
	var hm *wasm.ModuleInstance
	switch v := eng.rt.Module(wasiMod).(type) {
	case *wasm.ModuleInstance:
		hm = v
	default:
		if rv := reflect.ValueOf(v); rv.Kind() == reflect.Struct && rv.NumField() == 1 && rv.Field(0).CanInterface() {
			hm, _ = rv.Field(0).Interface().(*wasm.ModuleInstance)
		}
	}
	if hm == nil {
		return nil, fmt.Errorf("host module instance not accessible")
	}
	var gf api.GoModuleFunction
	for i := range hm.Source.ExportSection {
		e := &hm.Source.ExportSection[i]
		if e.Type == wasm.ExternTypeFunc && e.Name == c.Fn {
			gf, _ = hm.Source.CodeSection[e.Index].GoFunc.(api.GoModuleFunction)
		}
	}
	if gf == nil {
		return nil, fmt.Errorf("no Go function behind %s", c.Fn)
	}
	stack := make([]uint64, len(c.Args)+1)
	for i, a := range c.Args {
		if !fnTableByName(c.Fn).params[i].k.is64() {
			a = uint64(uint32(a))
		}
		stack[i] = a
	}
	if c.direct.param >= 0 {
		stack[c.direct.param] |= uint64(c.direct.upper) << 32
	}
	defer func() {
		if r := recover(); r != nil {
			if e, ok := r.(error); ok {
				err = e
			} else {
				err = fmt.Errorf("%v", r)
			}
		}
	}()
	gf.Call(w.ctx, mod, stack)
	if fnTableByName(c.Fn).noResult {
		return nil, nil
	}
	return stack[:1], nil
}

func fnTableByName(n string) *fn { _, f := fnByName(n); return f }

// staleBitsViolation compares a dirty-stack call with the clean call of the same tuple (both made
// in this worker). On a difference it attributes it to a parameter by calling the host function
// directly with the upper half of one 32-bit parameter at a time set.
func (w *world) staleBitsViolation(clean caseID, cleanRes, dirtyRes caseRes, pattern uint64) *viol {
	if dirtyRes.fxStrong == cleanRes.fxStrong {
		return nil
	}
	f := fnTableByName(clean.Fn)
	param := "param?"
	name := ""
	base := clean
	base.direct = &directSpec{param: -1}
	ref := w.runCase(base)
	note := ""
	if ref.harness != "" || ref.outcome == "other-error" {
		note = fmt.Sprintf(" [direct invocation unavailable: %s %v]", ref.harness, ref.viols)
	}
	if ref.harness == "" {
	outer:
		for k, pr := range f.params {
			if pr.k.is64() {
				continue
			}
			for _, up := range []uint32{uint32(pattern >> 32), 0xFFFFFFFF, 0x80000000, 1} {
				v := clean
				v.direct = &directSpec{param: k, upper: up}
				if r := w.runCase(v); r.harness == "" && r.fxStrong != ref.fxStrong {
					param, name = fmt.Sprintf("param%d", k), " ("+pr.name+")"
					break outer
				}
			}
		}
	}
	return &viol{clean.Fn + ":depends-on-stale-upper-argument-bits:" + param,
		fmt.Sprintf("reached through two forwarding functions after a stack dirtier (pattern %#x) the call behaves differently from the clean-stack call with the same 32-bit argument values: clean %q, dirty %q; attributed to %s%s by invoking the host function with only that slot's upper half set%s",
			pattern, cleanRes.fxStrong, dirtyRes.fxStrong, param, name, note)}
}

func firstLine(s string) string {
	if i := strings.IndexByte(s, '\n'); i >= 0 {
		s = s[:i]
	}
	if len(s) > 300 {
		s = s[:300]
	}
	return s
}
