package main

// Signature table of the 46 functions exported by wasi_snapshot_preview1: parameter kinds
// (which select the boundary alphabet), a well-formed default tuple, and the regions of guest
// memory each signature designates for output. The table is written from the WASI snapshot-01
// documentation (docs.md), not derived from the implementation; at start-up it is compared
// against the host module's exported function definitions (names and parameter types).

const (
	memPages = 2
	memSize  = memPages * 65536

	// guest memory layout (template written before every call; background byte is 'Z')
	aIovs0    = 0x0000 // 8 iovecs, so that the boundary pointers 0 and 8 are iovec arrays too
	aPathFile = 0x0100 // "file.txt"
	aPathFil2 = 0x0110 // "fil2.txt"
	aPathDir  = 0x0120 // "subdir00"
	aPathNew  = 0x0130 // "newname0" (does not exist)
	aPathLink = 0x0140 // "symlink0" -> "subdir00/inner.txt"
	aSubs     = 0x0200 // 3 poll subscriptions (clock, fd_read stdin, fd_write stdout)
	aIovs     = 0x0300 // default iovec array (2 entries)
	aData     = 0x1000 // iovec targets
	aRes      = 0x2000 // default result slot
	aRes2     = 0x2080 // second result slot
	aBuf      = 0x3000 // default buffer
	aEndIovs  = memSize - 64 // 8 iovecs ending exactly at the end of memory

	pathLen = 8 // every prepared name is 8 bytes long

	argc, argBytes = 2, 7 // WithArgs("prog","x")
	envc, envBytes = 1, 4 // WithEnv("K","V")
)

type kind uint8

const (
	kPtr kind = iota // result / buffer pointer
	kPath            // pointer to a path string
	kIov             // pointer to an iovec / subscription array
	kLen             // length or count
	kFd
	kU64
	kLookup
	kOflags
	kFdflags
	kFst
	kRights
	kClock
	kWhence
	kAdvice
	kRiflags
	kSiflags
	kSdflags
	kExit
	kSig
)

var kindName = map[kind]string{kPtr: "pointer", kPath: "path-pointer", kIov: "array-pointer", kLen: "length", kFd: "fd", kU64: "u64",
	kLookup: "lookupflags", kOflags: "oflags", kFdflags: "fdflags", kFst: "fstflags", kRights: "rights", kClock: "clockid",
	kWhence: "whence", kAdvice: "advice", kRiflags: "riflags", kSiflags: "siflags", kSdflags: "sdflags", kExit: "exitcode", kSig: "signal"}

func (k kind) is64() bool { return k == kU64 || k == kRights }

// symbolic descriptors, resolved per descriptor-table state
const (
	symFile uint64 = 1<<40 + iota
	symDir
	symClosed
)

const all32 = 0xffffffff

var boundaryPtr = []uint64{0, 1, 8, memSize - 64, memSize - 8, memSize - 1, memSize, 1 << 31, 1<<32 - 8, 1<<32 - 1}

var kindAlphabet = map[kind][]uint64{
	kPtr:  boundaryPtr,
	kPath: append(append([]uint64{}, boundaryPtr...), aPathFile, aPathFil2, aPathDir, aPathNew, aPathLink),
	kIov:  append(append([]uint64{}, boundaryPtr...), aIovs, aSubs),
	// 2^28 * 48, 2^29 * 8 and 2^27 * 32 wrap to 0 in 32 bits; the +1 variants wrap to one element
	kLen:     {0, 1, 2, 8, 24, memSize, 1 << 28, 1<<28 + 1, 1 << 29, 1<<29 + 1, 1 << 30, 1 << 31, 1<<32 - 1},
	kFd:      {0, 1, 2, 3, symFile, symDir, symClosed, 63, 64, 1000, 1 << 24, 1<<31 - 1, all32},
	kU64:     {0, 1, 1 << 31, 1<<63 - 1, 1 << 63, 1<<64 - 1},
	kLookup:  {0, 1, 2, all32},
	kOflags:  {0, 1, 2, 4, 8, 16, all32},
	kFdflags: {0, 1, 2, 4, 8, 16, 32, all32},
	kFst:     {0, 1, 2, 4, 8, 16, all32},
	kRights:  {0, 2, 64, 66, 1<<64 - 1},
	kClock:   {0, 1, 2, 3, 4, all32},
	kWhence:  {0, 1, 2, 3, all32},
	kAdvice:  {0, 1, 2, 3, 4, 5, 6, all32},
	kRiflags: {0, 1, 2, 4, all32},
	kSiflags: {0, 1, all32},
	kSdflags: {0, 1, 2, 3, 4, all32},
	kExit:    {0, 1, all32},
	kSig:     {0, 1, all32},
}

type param struct {
	name string
	k    kind
	def  uint64
}

const (
	oSlot = iota // fixed-size result slot: [arg[p], arg[p]+size)
	oBuf         // byte buffer: [arg[p], arg[p]+arg[l])
	oArr         // array: [arg[p], arg[p]+arg[l]*size)
	oIov         // the buffers named by the iovec array (arg[p], arg[l] entries) as it is in memory before the call
)

type outSpec struct {
	kind int
	p, l int
	size uint64
}

type fn struct {
	name     string
	params   []param
	outs     []outSpec
	mutates  int  // may change the mounted host directory: mutFd (only through an open descriptor) or mutPath
	noResult bool // proc_exit
	alpha    [][]uint64
}

const (
	mutFd   = 1
	mutPath = 2
)

func p(name string, k kind, def uint64) param { return param{name, k, def} }

var fnTable = []*fn{
	{name: "args_get", params: []param{p("argv", kPtr, aRes), p("argv_buf", kPtr, aBuf)},
		outs: []outSpec{{oSlot, 0, 0, 4 * argc}, {oSlot, 1, 0, argBytes}}},
	{name: "args_sizes_get", params: []param{p("result.argc", kPtr, aRes), p("result.argv_len", kPtr, aRes2)},
		outs: []outSpec{{oSlot, 0, 0, 4}, {oSlot, 1, 0, 4}}},
	{name: "environ_get", params: []param{p("environ", kPtr, aRes), p("environ_buf", kPtr, aBuf)},
		outs: []outSpec{{oSlot, 0, 0, 4 * envc}, {oSlot, 1, 0, envBytes}}},
	{name: "environ_sizes_get", params: []param{p("result.environc", kPtr, aRes), p("result.environv_len", kPtr, aRes2)},
		outs: []outSpec{{oSlot, 0, 0, 4}, {oSlot, 1, 0, 4}}},
	{name: "clock_res_get", params: []param{p("id", kClock, 0), p("result.resolution", kPtr, aRes)},
		outs: []outSpec{{oSlot, 1, 0, 8}}},
	{name: "clock_time_get", params: []param{p("id", kClock, 0), p("precision", kU64, 0), p("result.timestamp", kPtr, aRes)},
		outs: []outSpec{{oSlot, 2, 0, 8}}},
	{name: "fd_advise", params: []param{p("fd", kFd, symFile), p("offset", kU64, 0), p("len", kU64, 1), p("advice", kAdvice, 0)}},
	{name: "fd_allocate", params: []param{p("fd", kFd, symFile), p("offset", kU64, 0), p("len", kU64, 1)}, mutates: mutFd},
	{name: "fd_close", params: []param{p("fd", kFd, symFile)}},
	{name: "fd_datasync", params: []param{p("fd", kFd, symFile)}},
	{name: "fd_fdstat_get", params: []param{p("fd", kFd, symFile), p("result.stat", kPtr, aRes)},
		outs: []outSpec{{oSlot, 1, 0, 24}}},
	{name: "fd_fdstat_set_flags", params: []param{p("fd", kFd, symFile), p("flags", kFdflags, 0)}},
	{name: "fd_fdstat_set_rights", params: []param{p("fd", kFd, symFile), p("fs_rights_base", kU64, 0), p("fs_rights_inheriting", kU64, 0)}},
	{name: "fd_filestat_get", params: []param{p("fd", kFd, symFile), p("result.filestat", kPtr, aRes)},
		outs: []outSpec{{oSlot, 1, 0, 64}}},
	{name: "fd_filestat_set_size", params: []param{p("fd", kFd, symFile), p("size", kU64, 1)}, mutates: mutFd},
	{name: "fd_filestat_set_times", params: []param{p("fd", kFd, symFile), p("atim", kU64, 1), p("mtim", kU64, 1), p("fst_flags", kFst, 1)}},
	{name: "fd_pread", params: []param{p("fd", kFd, symFile), p("iovs", kIov, aIovs), p("iovs_len", kLen, 2), p("offset", kU64, 0), p("result.nread", kPtr, aRes)},
		outs: []outSpec{{oIov, 1, 2, 0}, {oSlot, 4, 0, 4}}},
	{name: "fd_prestat_get", params: []param{p("fd", kFd, 3), p("result.prestat", kPtr, aRes)},
		outs: []outSpec{{oSlot, 1, 0, 8}}},
	{name: "fd_prestat_dir_name", params: []param{p("fd", kFd, 3), p("result.path", kPtr, aBuf), p("result.path_len", kLen, 1)},
		outs: []outSpec{{oBuf, 1, 2, 0}}},
	{name: "fd_pwrite", params: []param{p("fd", kFd, symFile), p("iovs", kIov, aIovs), p("iovs_len", kLen, 2), p("offset", kU64, 0), p("result.nwritten", kPtr, aRes)},
		outs: []outSpec{{oSlot, 4, 0, 4}}, mutates: mutFd},
	{name: "fd_read", params: []param{p("fd", kFd, symFile), p("iovs", kIov, aIovs), p("iovs_len", kLen, 2), p("result.nread", kPtr, aRes)},
		outs: []outSpec{{oIov, 1, 2, 0}, {oSlot, 3, 0, 4}}},
	{name: "fd_readdir", params: []param{p("fd", kFd, symDir), p("buf", kPtr, aBuf), p("buf_len", kLen, 256), p("cookie", kU64, 0), p("result.bufused", kPtr, aRes)},
		outs: []outSpec{{oBuf, 1, 2, 0}, {oSlot, 4, 0, 4}}},
	{name: "fd_renumber", params: []param{p("fd", kFd, symFile), p("to", kFd, symClosed)}},
	{name: "fd_seek", params: []param{p("fd", kFd, symFile), p("offset", kU64, 1), p("whence", kWhence, 0), p("result.newoffset", kPtr, aRes)},
		outs: []outSpec{{oSlot, 3, 0, 8}}},
	{name: "fd_sync", params: []param{p("fd", kFd, symFile)}},
	{name: "fd_tell", params: []param{p("fd", kFd, symFile), p("result.offset", kPtr, aRes)},
		outs: []outSpec{{oSlot, 1, 0, 8}}},
	{name: "fd_write", params: []param{p("fd", kFd, symFile), p("iovs", kIov, aIovs), p("iovs_len", kLen, 2), p("result.nwritten", kPtr, aRes)},
		outs: []outSpec{{oSlot, 3, 0, 4}}, mutates: mutFd},
	{name: "path_create_directory", params: []param{p("fd", kFd, 3), p("path", kPath, aPathNew), p("path_len", kLen, pathLen)}, mutates: mutPath},
	{name: "path_filestat_get", params: []param{p("fd", kFd, 3), p("flags", kLookup, 1), p("path", kPath, aPathFile), p("path_len", kLen, pathLen), p("result.filestat", kPtr, aRes)},
		outs: []outSpec{{oSlot, 4, 0, 64}}},
	{name: "path_filestat_set_times", params: []param{p("fd", kFd, 3), p("flags", kLookup, 1), p("path", kPath, aPathFile), p("path_len", kLen, pathLen),
		p("atim", kU64, 1), p("mtim", kU64, 1), p("fst_flags", kFst, 1)}},
	{name: "path_link", params: []param{p("old_fd", kFd, 3), p("old_flags", kLookup, 0), p("old_path", kPath, aPathFile), p("old_path_len", kLen, pathLen),
		p("new_fd", kFd, 3), p("new_path", kPath, aPathNew), p("new_path_len", kLen, pathLen)}, mutates: mutPath},
	{name: "path_open", params: []param{p("fd", kFd, 3), p("dirflags", kLookup, 1), p("path", kPath, aPathFile), p("path_len", kLen, pathLen), p("oflags", kOflags, 0),
		p("fs_rights_base", kRights, 66), p("fs_rights_inheriting", kRights, 0), p("fdflags", kFdflags, 0), p("result.opened_fd", kPtr, aRes)},
		outs: []outSpec{{oSlot, 8, 0, 4}}, mutates: mutPath},
	{name: "path_readlink", params: []param{p("fd", kFd, 3), p("path", kPath, aPathLink), p("path_len", kLen, pathLen), p("buf", kPtr, aBuf), p("buf_len", kLen, 256), p("result.bufused", kPtr, aRes)},
		outs: []outSpec{{oBuf, 3, 4, 0}, {oSlot, 5, 0, 4}}},
	{name: "path_remove_directory", params: []param{p("fd", kFd, 3), p("path", kPath, aPathDir), p("path_len", kLen, pathLen)}, mutates: mutPath},
	{name: "path_rename", params: []param{p("fd", kFd, 3), p("old_path", kPath, aPathFile), p("old_path_len", kLen, pathLen),
		p("new_fd", kFd, 3), p("new_path", kPath, aPathNew), p("new_path_len", kLen, pathLen)}, mutates: mutPath},
	{name: "path_symlink", params: []param{p("old_path", kPath, aPathFile), p("old_path_len", kLen, pathLen), p("fd", kFd, 3), p("new_path", kPath, aPathNew), p("new_path_len", kLen, pathLen)}, mutates: mutPath},
	{name: "path_unlink_file", params: []param{p("fd", kFd, 3), p("path", kPath, aPathFile), p("path_len", kLen, pathLen)}, mutates: mutPath},
	{name: "poll_oneoff", params: []param{p("in", kIov, aSubs), p("out", kPtr, aBuf), p("nsubscriptions", kLen, 3), p("result.nevents", kPtr, aRes)},
		outs: []outSpec{{oArr, 1, 2, 32}, {oSlot, 3, 0, 4}}},
	{name: "proc_exit", params: []param{p("rval", kExit, 0)}, noResult: true},
	{name: "proc_raise", params: []param{p("sig", kSig, 0)}},
	{name: "sched_yield"},
	{name: "random_get", params: []param{p("buf", kPtr, aBuf), p("buf_len", kLen, 24)},
		outs: []outSpec{{oBuf, 0, 1, 0}}},
	{name: "sock_accept", params: []param{p("fd", kFd, 3), p("flags", kFdflags, 0), p("result.fd", kPtr, aRes)},
		outs: []outSpec{{oSlot, 2, 0, 4}}},
	{name: "sock_recv", params: []param{p("fd", kFd, symFile), p("ri_data", kIov, aIovs), p("ri_data_len", kLen, 2), p("ri_flags", kRiflags, 0), p("result.ro_datalen", kPtr, aRes), p("result.ro_flags", kPtr, aRes2)},
		outs: []outSpec{{oIov, 1, 2, 0}, {oSlot, 4, 0, 4}, {oSlot, 5, 0, 2}}},
	{name: "sock_send", params: []param{p("fd", kFd, symFile), p("si_data", kIov, aIovs), p("si_data_len", kLen, 2), p("si_flags", kSiflags, 0), p("result.so_datalen", kPtr, aRes)},
		outs: []outSpec{{oSlot, 4, 0, 4}}},
	{name: "sock_shutdown", params: []param{p("fd", kFd, symFile), p("how", kSdflags, 1)}},
}

// alphabet of one parameter: default first, then the boundary values of its kind (deduplicated).
func alphabetOf(pr param) []uint64 {
	out := []uint64{pr.def}
next:
	for _, v := range kindAlphabet[pr.k] {
		for _, o := range out {
			if o == v {
				continue next
			}
		}
		out = append(out, v)
	}
	return out
}

func init() {
	for _, f := range fnTable {
		for _, pr := range f.params {
			f.alpha = append(f.alpha, alphabetOf(pr))
		}
	}
}

func fnByName(n string) (int, *fn) {
	for i, f := range fnTable {
		if f.name == n {
			return i, f
		}
	}
	return -1, nil
}

// ---------------------------------------------------------------- descriptor-table states

const (
	stFresh = iota
	stOpens
	stClosedMiddle
	stRenumbered
	stReaddir
	// environment states of the pre-opened directory (descriptor 3): the table is 0,1,2,3 and the host
	// directory behind 3 is not a usable directory. No other descriptor is open; the symbolic
	// descriptors "file" and "dir" resolve to the preopen itself, "closed" to 4.
	stPreMissing // the host path never existed
	stPreRemoved // existed when the module was instantiated, removed before the first WASI call
	stPreIsFile  // the host path is a regular file
	nStates
)

// envStatesEnabled switches the three preopen-environment states into the plans (false restores
// the enumeration exactly as it was before they were added).
const envStatesEnabled = true

var stateName = [nStates]string{"fresh", "after-open-x3", "after-close-of-middle", "after-renumber", "after-readdir",
	"preopen-missing", "preopen-removed-before-first-use", "preopen-is-a-file"}

func isEnvState(st int) bool { return st >= stPreMissing && st < nStates }

// In every non-fresh state: path_open file.txt -> 4, fil2.txt -> 5, subdir00 (O_DIRECTORY) -> 6.
// closed-middle: fd_close(5). renumbered: fd_renumber(4, 9). readdir: fd_readdir(6, ..., cookie 0).
func resolveFd(v uint64, st int) uint64 {
	if isEnvState(st) {
		switch v {
		case symFile, symDir:
			return 3
		case symClosed:
			return 4
		}
		return v
	}
	switch v {
	case symFile:
		if st == stRenumbered {
			return 9
		}
		return 4
	case symDir:
		return 6
	case symClosed:
		switch st {
		case stFresh, stClosedMiddle:
			return 5
		case stRenumbered:
			return 4
		}
		return 7
	}
	return v
}

// ---------------------------------------------------------------- tuple enumeration

// tuples returns the index vectors (positions in each parameter's alphabet; 0 = default) to
// evaluate: the full product when the function has at most maxFull parameters, otherwise every
// vector with at most maxDev non-default positions.
func tuples(f *fn, maxFull, maxDev int) [][]uint8 {
	n := len(f.params)
	var out [][]uint8
	if n <= maxFull {
		cur := make([]uint8, n)
		for {
			out = append(out, append([]uint8{}, cur...))
			i := n - 1
			for ; i >= 0; i-- {
				cur[i]++
				if int(cur[i]) < len(f.alpha[i]) {
					break
				}
				cur[i] = 0
			}
			if i < 0 {
				break
			}
		}
		return out
	}
	cur := make([]uint8, n)
	var rec func(start, left int)
	rec = func(start, left int) {
		out = append(out, append([]uint8{}, cur...))
		if left == 0 {
			return
		}
		for i := start; i < n; i++ {
			for v := 1; v < len(f.alpha[i]); v++ {
				cur[i] = uint8(v)
				rec(i+1, left-1)
			}
			cur[i] = 0
		}
	}
	rec(0, maxDev)
	return out
}

func argsOf(f *fn, idx []uint8, st int) []uint64 {
	a := make([]uint64, len(idx))
	for i, k := range idx {
		a[i] = resolveFd(f.alpha[i][k], st)
	}
	return a
}
