package main

// Sandbox guard: every linear memory of the modules under test lives in its own reservation
//
//	[4 GiB PROT_NONE][memory, readable/writable up to the current size][rest of the reservation + 4 GiB + 64 KiB PROT_NONE]
//
// so that an access displaced by up to +-2^32 (plus a 64 KiB static-offset overshoot) from any legal address
// faults instead of landing silently in the Go heap. Non-shared memories MOVE on every Reallocate (the pages are
// re-mapped with mremap, nothing is copied, so this also works for 4 GiB memories) and the abandoned range becomes
// PROT_NONE: a stale base pointer kept across a call or a memory.grow faults too. Shared memories must not move
// (wazero checks it); they grow in place with mprotect inside a reservation of their maximum size.
//
// For memories too large to compare byte by byte, touched() reports which 4 KiB pages of the memory are present in
// the page tables (mincore): every page the harness did not initialise itself must stay untouched - this sees stray
// reads as well as writes anywhere in the memory.

import (
	"fmt"
	"os"
	"strings"
	"syscall"
	"unsafe"

	"github.com/tetratelabs/wazero/experimental"
)

const (
	wasmPage = uint64(65536)
	guardLo  = uint64(4) << 30
	guardHi  = uint64(4)<<30 + 65536
	osPage   = uint64(4096)

	mremapMayMove   = 1
	mremapFixed     = 2
	mremapDontUnmap = 4 // Linux >= 5.7: the source range stays mapped (emptied), so no hole ever opens that another
	// thread's mmap (the Go runtime's) could be placed into before we fence it
	madvNoHuge    = 15
)

// transparent huge pages would make one touched byte populate 2 MiB; only relevant when the system forces them on
var thpAlways = func() bool {
	b, err := os.ReadFile("/sys/kernel/mm/transparent_hugepage/enabled")
	return err != nil || strings.Contains(string(b), "[always]")
}()

func sysMmap(addr uintptr, n uint64, prot, flags int) uintptr {
	p, _, e := syscall.Syscall6(syscall.SYS_MMAP, addr, uintptr(n), uintptr(prot), uintptr(flags), ^uintptr(0), 0)
	if e != 0 {
		harnessDie("mmap(%#x,%d): %v", addr, n, e)
	}
	return p
}

func sysMunmap(addr uintptr, n uint64) {
	if n == 0 {
		return
	}
	if _, _, e := syscall.Syscall(syscall.SYS_MUNMAP, addr, uintptr(n), 0); e != 0 {
		harnessDie("munmap(%#x,%d): %v", addr, n, e)
	}
}

func sysMprotect(addr uintptr, n uint64, prot int) {
	if n == 0 {
		return
	}
	if _, _, e := syscall.Syscall(syscall.SYS_MPROTECT, addr, uintptr(n), uintptr(prot)); e != 0 {
		harnessDie("mprotect(%#x,%d,%d): %v", addr, n, prot, e)
	}
}

func harnessDie(format string, a ...any) {
	panic("HARNESS-ERROR: " + fmt.Sprintf(format, a...))
}

// region is one reservation.
type region struct {
	start uintptr
	total uint64
	mem   uintptr // start + guardLo
	resv  uint64  // bytes reserved for the memory itself (>= size)
}

func reserve(resv uint64) region {
	total := guardLo + resv + guardHi
	p := sysMmap(0, total, syscall.PROT_NONE, syscall.MAP_PRIVATE|syscall.MAP_ANON|syscall.MAP_NORESERVE)
	return region{start: p, total: total, mem: p + uintptr(guardLo), resv: resv}
}

func (r region) release() { sysMunmap(r.start, r.total) }

// gAlloc is the experimental.MemoryAllocator. One per module instantiation.
type gAlloc struct {
	fixed bool // never move: shared memories, and large memories unless the batch asks for moves (mremap of GiBs is slow)
	mems  []*gMem
	notes []string // contract violations by wazero
}

type gMem struct {
	a     *gAlloc
	max   uint64
	cur   region
	size  uint64
	old   []region
	freed bool
	moves int

	// harness-only shrink: the next Reallocate returns the memory cut back to resetTo bytes (see inst.reset)
	resetTo    uint64
	resetArmed bool
}

func (a *gAlloc) Allocate(cap, max uint64) experimental.LinearMemory {
	m := &gMem{a: a, max: max}
	if cap > max {
		a.notes = append(a.notes, fmt.Sprintf("Allocate(cap=%d > max=%d)", cap, max))
	}
	if a.fixed {
		m.cur = reserve(max)
	} else {
		m.cur = reserve(0)
	}
	a.mems = append(a.mems, m)
	return m
}

func (m *gMem) slice() []byte {
	// A zero-length memory still gets a pointer into the reservation (never nil: nil means failure).
	full := unsafe.Slice((*byte)(unsafe.Pointer(m.cur.mem)), int(m.cur.resv))
	if m.a.fixed {
		// like wazero's own make([]byte, min, max) for memories that must not move: the capacity is the reservation
		return full[:m.size:m.cur.resv]
	}
	return full[:m.size:m.size]
}

func (m *gMem) Reallocate(size uint64) []byte {
	if m.freed {
		m.a.notes = append(m.a.notes, fmt.Sprintf("Reallocate(%d) after Free", size))
		return nil
	}
	if m.resetArmed {
		m.resetArmed = false
		return m.shrink(m.resetTo)
	}
	if size > m.max {
		m.a.notes = append(m.a.notes, fmt.Sprintf("Reallocate(%d) beyond max %d", size, m.max))
		return nil
	}
	if size%wasmPage != 0 {
		m.a.notes = append(m.a.notes, fmt.Sprintf("Reallocate(%d) not page aligned", size))
	}
	if size < m.size {
		m.a.notes = append(m.a.notes, fmt.Sprintf("Reallocate(%d) shrinks from %d", size, m.size))
		return nil
	}
	if m.a.fixed {
		sysMprotect(m.cur.mem+uintptr(m.size), size-m.size, syscall.PROT_READ|syscall.PROT_WRITE)
		if size > m.size && thpAlways {
			syscall.Syscall(syscall.SYS_MADVISE, m.cur.mem, uintptr(size), madvNoHuge)
		}
		m.size = size
		return m.slice()
	}
	// moving memory: fresh reservation exactly as large as the new size, pages carried over with mremap.
	nr := reserve(size)
	if m.size > 0 {
		p, _, e := syscall.Syscall6(syscall.SYS_MREMAP, m.cur.mem, uintptr(m.size), uintptr(m.size), mremapMayMove|mremapFixed|mremapDontUnmap, nr.mem, 0)
		if e != 0 || p != nr.mem {
			harnessDie("mremap: %v", e)
		}
		// the abandoned range becomes a fence: a stale base pointer faults
		sysMprotect(m.cur.mem, m.size, syscall.PROT_NONE)
	}
	sysMprotect(nr.mem+uintptr(m.size), size-m.size, syscall.PROT_READ|syscall.PROT_WRITE)
	if size > 0 && thpAlways {
		syscall.Syscall(syscall.SYS_MADVISE, nr.mem, uintptr(size), madvNoHuge)
	}
	m.old = append(m.old, m.cur)
	m.cur = nr
	m.size = size
	m.moves++
	return m.slice()
}

// shrink cuts the memory back to target bytes (target < size). Contents below target are kept; everything above is
// dropped, so that pages added by a later grow read as zero again.
func (m *gMem) shrink(target uint64) []byte {
	if m.a.fixed {
		tail := m.cur.mem + uintptr(target)
		n := m.size - target
		if _, _, e := syscall.Syscall(syscall.SYS_MADVISE, tail, uintptr(n), syscall.MADV_DONTNEED); e != 0 {
			harnessDie("madvise: %v", e)
		}
		sysMprotect(tail, n, syscall.PROT_NONE)
		m.size = target
		return m.slice()
	}
	nr := reserve(target)
	if target > 0 {
		p, _, e := syscall.Syscall6(syscall.SYS_MREMAP, m.cur.mem, uintptr(target), uintptr(target), mremapMayMove|mremapFixed|mremapDontUnmap, nr.mem, 0)
		if e != 0 || p != nr.mem {
			harnessDie("mremap(shrink): %v", e)
		}
	}
	// nothing refers to the earlier reservations between two cases: give them back
	m.cur.release()
	for _, r := range m.old {
		r.release()
	}
	m.old = nil
	m.cur = nr
	m.size = target
	return m.slice()
}

func (m *gMem) Free() {
	if m.freed {
		return
	}
	m.freed = true
	m.cur.release()
	for _, r := range m.old {
		r.release()
	}
	m.old = nil
}

// touchedPages calls fn for every 4 KiB page index of the memory that is present in the page tables.
var mincoreVec []byte

func (m *gMem) touchedPages(fn func(page uint64)) {
	if m.size == 0 {
		return
	}
	n := m.size / osPage
	if uint64(len(mincoreVec)) < n {
		mincoreVec = make([]byte, n)
	}
	vec := mincoreVec[:n]
	if _, _, e := syscall.Syscall(syscall.SYS_MINCORE, m.cur.mem, uintptr(m.size), uintptr(unsafe.Pointer(&vec[0]))); e != 0 {
		harnessDie("mincore: %v", e)
	}
	words := unsafe.Slice((*uint64)(unsafe.Pointer(&vec[0])), n/8)
	for wi, w := range words {
		if w&0x0101010101010101 == 0 {
			continue
		}
		for k := 0; k < 8; k++ {
			if vec[wi*8+k]&1 != 0 {
				fn(uint64(wi*8 + k))
			}
		}
	}
	for i := (n / 8) * 8; i < n; i++ {
		if vec[i]&1 != 0 {
			fn(i)
		}
	}
}
