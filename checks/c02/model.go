package main

import (
	"encoding/binary"
	"sort"
)

// ---------------------------------------------------------------- position-dependent fill pattern

func patWord(k uint64) uint64 {
	z := k*0x9E3779B97F4A7C15 + 0x632BE59BD9B4E019
	z = (z ^ (z >> 30)) * 0xBF58476D1CE4E5B9
	z = (z ^ (z >> 27)) * 0x94D049BB133111EB
	return z ^ (z >> 31)
}

func patByte(addr uint64) byte { return byte(patWord(addr>>3) >> (8 * (addr & 7))) }

// paint fills b (which starts at memory address addr, 8-aligned) with the pattern.
func paint(b []byte, addr uint64) {
	for i := 0; i+8 <= len(b); i += 8 {
		binary.LittleEndian.PutUint64(b[i:], patWord((addr+uint64(i))>>3))
	}
}

const chunk = uint64(65536)

// ---------------------------------------------------------------- reference memory

// memModel is the reference state of one linear memory: its size, which parts were painted with the pattern by the
// harness (everything else is zero: fresh pages) and the bytes written by the case being simulated.
type memModel struct {
	size     uint64
	maxPages uint64
	shared   bool
	small    bool
	painted  uint64          // small: [0, painted) holds the pattern
	hot      map[uint64]bool // large: painted 64 KiB chunks
	diff     []seg // writes of the case being simulated, in program order (later segments win)
}

type seg struct {
	addr uint64
	data []byte
}

func (m *memModel) clearDiff() { m.diff = m.diff[:0] }

// wrote reports whether the reference wrote the byte at addr.
func (m *memModel) wrote(addr uint64) bool {
	for _, s := range m.diff {
		if addr >= s.addr && addr < s.addr+uint64(len(s.data)) {
			return true
		}
	}
	return false
}

// applyDiff overlays the written bytes that fall into [at, at+len(dst)) onto dst.
func (m *memModel) applyDiff(dst []byte, at uint64) (any bool) {
	end := at + uint64(len(dst))
	for _, s := range m.diff {
		lo, hi := s.addr, s.addr+uint64(len(s.data))
		if lo < at {
			lo = at
		}
		if hi > end {
			hi = end
		}
		if lo < hi {
			copy(dst[lo-at:hi-at], s.data[lo-s.addr:hi-s.addr])
			any = true
		}
	}
	return
}

// restoreBase writes the base image (pattern or zero) back over every written byte that falls into [at, at+len(dst)).
func (m *memModel) restoreBase(dst []byte, at uint64) {
	end := at + uint64(len(dst))
	for _, s := range m.diff {
		lo, hi := s.addr, s.addr+uint64(len(s.data))
		if lo < at {
			lo = at
		}
		if hi > end {
			hi = end
		}
		for a := lo; a < hi; a++ {
			dst[a-at] = m.base(a)
		}
	}
}

func (m *memModel) base(addr uint64) byte {
	if m.small {
		if addr < m.painted {
			return patByte(addr)
		}
		return 0
	}
	if m.hot[addr/chunk] {
		return patByte(addr)
	}
	return 0
}

func (m *memModel) get(addr uint64) byte {
	for i := len(m.diff) - 1; i >= 0; i-- {
		if s := m.diff[i]; addr >= s.addr && addr < s.addr+uint64(len(s.data)) {
			return s.data[addr-s.addr]
		}
	}
	return m.base(addr)
}

func (m *memModel) read(addr, n uint64) []byte {
	b := make([]byte, n)
	for i := uint64(0); i < n; i++ {
		b[i] = m.base(addr + i)
	}
	m.applyDiff(b, addr)
	return b
}

func (m *memModel) write(addr uint64, b []byte) {
	m.diff = append(m.diff, seg{addr, append([]byte{}, b...)})
}

func (m *memModel) grow() {
	if m.size/wasmPage < m.maxPages {
		m.size += wasmPage
	}
}

// ---------------------------------------------------------------- simulation of a program

const (
	tNone      = ""
	tOOB       = "oob"
	tUnaligned = "unaligned"
	tNotShared = "not-shared"
)

type expectation struct {
	Traps      []string // acceptable trap kinds; empty = must return normally
	R0, R1, R2 uint64
	Ranges     [][2]uint64 // every address range (start, length) the reference touched or considered
	AccInB     bool        // the (last executed) access under test was in bounds
	AccRan     bool
	EA         uint64 // its effective address
	SkipHuge   bool   // in-bounds bulk operation too large to execute
}

type simulator struct {
	m      *memModel
	s      *fnSpec
	base   uint64
	cond   bool
	v, v2  uint64
	e      expectation
	halted bool
}

func (x *simulator) trap(kinds ...string) {
	x.e.Traps = kinds
	x.halted = true
}

func (x *simulator) run(steps []step) {
	for _, st := range steps {
		if x.halted {
			return
		}
		switch st.K {
		case sPre:
			ea := x.base + st.P
			x.e.Ranges = append(x.e.Ranges, [2]uint64{ea, 1})
			if ea+1 > x.m.size {
				x.trap(tOOB)
				return
			}
			x.e.R2 = x.e.R2<<8 | uint64(x.m.get(ea))
		case sAcc:
			x.access()
		case sCallNop, sTouch0:
		case sCallGrow, sGrow:
			x.m.grow()
		case sIf:
			if x.cond {
				x.run(st.A)
			} else {
				x.run(st.B)
			}
		case sLoop2:
			x.run(st.A)
			x.run(st.A)
		}
	}
}

func (x *simulator) access() {
	o, m := x.s.Op, x.m
	x.e.AccRan = true
	if o.bulk() {
		n := x.s.Off
		d := x.base
		x.e.EA = d
		x.e.Ranges = append(x.e.Ranges, [2]uint64{d, n}, [2]uint64{0, n})
		ok := d+n <= m.size
		switch o.Kind {
		case kCopyDst, kCopySrc:
			ok = ok && n <= m.size
		case kInit:
			ok = ok && initSrcOff+n <= segLen
		}
		x.e.AccInB = ok
		if !ok {
			x.trap(tOOB)
			return
		}
		if n > 1<<20 {
			x.e.SkipHuge = true
			x.halted = true
			return
		}
		switch o.Kind {
		case kFill:
			b := make([]byte, n)
			for i := range b {
				b[i] = byte(x.v)
			}
			m.write(d, b)
		case kCopyDst:
			m.write(d, m.read(0, n))
		case kCopySrc:
			m.write(0, m.read(d, n))
		case kInit:
			m.write(d, segBytes[initSrcOff:initSrcOff+n])
		}
		return
	}
	w := o.W
	ea := x.base + x.s.Off
	x.e.EA = ea
	x.e.Ranges = append(x.e.Ranges, [2]uint64{ea, w})
	inb := ea+w <= m.size
	x.e.AccInB = inb
	misaligned := o.atomic() && ea%w != 0
	notShared := o.Kind == kAWait && !m.shared
	if !inb || misaligned || notShared {
		var k []string
		if !inb {
			k = append(k, tOOB)
		}
		if misaligned {
			k = append(k, tUnaligned)
		}
		if notShared {
			k = append(k, tNotShared)
		}
		x.trap(k...)
		return
	}
	r0, r1, nw := o.effect(m.read(ea, w), x.v, x.v2)
	x.e.R0, x.e.R1 = r0, r1
	if nw != nil {
		m.write(ea, nw)
	}
}

// windows returns the 64 KiB chunks within +-64 KiB of every address the reference or a plausible wrong computation
// (32-bit wrap-around, sign confusion of base or offset) could have formed, restricted to [0, limit).
func windows(base uint64, s *fnSpec, e *expectation, limit uint64) []uint64 {
	set := map[uint64]bool{}
	addRange := func(a, n uint64) {
		if n > 1<<20 {
			n = 1 << 20
		}
		lo := int64(a) - int64(chunk)
		hi := a + n + chunk
		if lo < 0 {
			lo = 0
		}
		for c := uint64(lo) / chunk; c*chunk < hi && c*chunk < limit; c++ {
			set[c] = true
		}
	}
	w := s.width()
	for _, r := range e.Ranges {
		addRange(r[0], r[1])
		addRange(r[0]&maxU32, r[1])
		addRange((r[0]^1<<31)&maxU32, r[1])
	}
	addRange(base, w)
	addRange(s.Off, w)
	out := make([]uint64, 0, len(set))
	for c := range set {
		out = append(out, c)
	}
	sort.Slice(out, func(i, j int) bool { return out[i] < out[j] })
	return out
}
