package main

import (
	"bytes"
	"context"
	"encoding/json"
	"errors"
	"fmt"
	"os"
	"sort"
	"strings"
	"syscall"
	"time"

	"github.com/tetratelabs/wazero"
	"github.com/tetratelabs/wazero/api"
	"github.com/tetratelabs/wazero/experimental"
	"github.com/tetratelabs/wazero/internal/wasmruntime"
)

// ---------------------------------------------------------------- work description

type caseDesc struct {
	Engine    string `json:"engine"`
	Mem       string `json:"mem"`
	Pages     uint32 `json:"pages"`
	Op        string `json:"op"`
	Off       uint64 `json:"off"`
	Form      string `json:"form"`
	Placement string `json:"placement"`
	Base      uint32 `json:"base"` // the base value the program computes
	Cond      int    `json:"cond"`
	Move      bool   `json:"move,omitempty"` // large memory that moves on every grow
	DeclMax   bool   `json:"declmax,omitempty"` // unshared memory with a declared maximum (min < max)
	CapMax    string `json:"capmax,omitempty"`  // "" | "on" (WithMemoryCapacityFromMax) | "shared-cache" (compiled by a runtime with it, run by one without, same CompilationCache)
	Link      string `json:"link,omitempty"`    // declared-vs-defined memory type of an import (see links in gen.go); "" = identical
}

// memName is the memory-kind part of signatures: the kind of the DEFINITION, plus the link variant if any.
func memName(kind int, link string) string {
	if link != "" {
		return memKindNames[kind] + "(link:" + link + ")"
	}
	return memKindNames[kind]
}

func (c caseDesc) String() string {
	if c.Move {
		c.Mem += "(moving)"
	}
	if c.DeclMax {
		c.Mem += "(max declared)"
	}
	if c.CapMax != "" {
		c.Mem += "(capacity-from-max:" + c.CapMax + ")"
	}
	if c.Link != "" {
		c.Mem += "(link:" + c.Link + ")"
	}
	return fmt.Sprintf("%s mem=%s pages=%d %s off=%#x form=%s base=%#x placement=%s cond=%d", c.Engine, c.Mem, c.Pages, c.Op, c.Off, c.Form, c.Base, c.Placement, c.Cond)
}

type batch struct {
	Engine string    `json:"engine"`
	Kind   int       `json:"kind"`
	Pages  uint32    `json:"pages"`
	Op     string    `json:"op"`
	Offs   []uint64  `json:"offs"`
	Level  int       `json:"level"` // 0 = full product, 1 = reduced placements/forms, 2 = all placements x reduced forms, 3 = call/grow placements x reduced forms
	DeclMax bool     `json:"declmax,omitempty"`
	CapMax string    `json:"capmax,omitempty"`
	Link   string    `json:"link,omitempty"` // import link variant (declared vs defined memory type); Kind/DeclMax describe the definition
	Move   bool      `json:"move,omitempty"` // large memories: move on every grow (small ones always do)
	FewConst bool    `json:"fewconst,omitempty"` // quick tier: constant-base functions only for the decisive bases
	Prune  bool      `json:"prune,omitempty"` // quick tier: do not execute cases in which an earlier access traps before the access under test
	Only   *caseDesc `json:"only,omitempty"`
}

func (b *batch) huge() bool { return b.Pages > 64 }

func (b *batch) link() *linkDef {
	if b.Link == "" {
		return nil
	}
	l := linkByName(b.Link)
	if l == nil {
		harnessDie("unknown link %q", b.Link)
	}
	return l
}

// maxPages is the maximum of the memory the programs actually run on (the definition).
func (b *batch) maxPages() uint32 {
	if l := defLimits(b.Kind, b.Pages, b.DeclMax, b.link()); l.HasMax {
		return l.Max
	}
	return 65536
}

func (b *batch) sizes(pl *placement) (pre, final uint64) {
	pre = uint64(b.Pages) * wasmPage
	final = pre
	if pl.Grows && b.Pages < b.maxPages() {
		final += wasmPage
	}
	return
}

var fullForms = []form{fParam, fConst, fAdd2, fAddC, fShl1, fShl3, fWrap}
var reducedForms = []form{fParam, fConst}

func (b *batch) specs() []*fnSpec {
	op := opByName(b.Op)
	var pls []*placement
	// the zero-length-touch placements are generated for empty memories and for the capacity/maximum slice
	touch0 := b.Pages == 0 || b.Level == 3
	switch {
	case op.bulk():
		for _, n := range bulkPlacements {
			pls = append(pls, placementByName(n))
		}
		if touch0 {
			for _, n := range bulkTouch0Placements {
				pls = append(pls, placementByName(n))
			}
		}
	case b.Level == 3:
		for _, n := range capPlacements {
			pls = append(pls, placementByName(n))
		}
	case b.Level == 1:
		for _, n := range reducedPlacements {
			pls = append(pls, placementByName(n))
		}
	default:
		for _, pl := range placements {
			if !pl.Touch0 || touch0 {
				pls = append(pls, pl)
			}
		}
	}
	forms := fullForms
	if b.Level >= 1 {
		forms = reducedForms // level 2 = all placements x reduced forms
	}
	var out []*fnSpec
	for _, off := range b.Offs {
		for _, pl := range pls {
			proto := &fnSpec{Op: op, Off: off, Pl: pl}
			steps := pl.build(proto.ceil())
			if steps == nil {
				continue
			}
			if b.Only != nil && (b.Only.Off != off || b.Only.Placement != pl.Name) {
				continue
			}
			for _, f := range forms {
				if b.Only != nil && b.Only.Form != f.String() {
					continue
				}
				if f != fConst {
					out = append(out, &fnSpec{Op: op, Off: off, Pl: pl, Steps: steps, Form: f})
					continue
				}
				pre, final := b.sizes(pl)
				cb := baseAlphabet(final, pre, proto.accOff(), proto.width(), op.atomic())
				if b.FewConst {
					cb = decisiveBases(final, pre, proto.accOff(), proto.width())
				}
				for _, base := range cb {
					if b.Only != nil && b.Only.Base != base {
						continue
					}
					out = append(out, &fnSpec{Op: op, Off: off, Pl: pl, Steps: steps, Form: f, ConstBase: base})
				}
			}
		}
	}
	return out
}

type oneCase struct {
	spec    *fnSpec
	a, b    uint32
	x       uint64
	eff     uint32
	cond    int
	seq     int
	specIdx int
}

func (b *batch) desc(c *oneCase) caseDesc {
	return caseDesc{Engine: b.Engine, Mem: memKindNames[b.Kind], Pages: b.Pages, Op: b.Op, Off: c.spec.Off, Form: c.spec.Form.String(),
		Placement: c.spec.Pl.Name, Base: c.eff, Cond: c.cond, Move: b.Move, DeclMax: b.DeclMax, CapMax: b.CapMax, Link: b.Link}
}

// cases enumerates the static, deterministic case list of a batch.
func (b *batch) cases(specs []*fnSpec) []*oneCase {
	var out []*oneCase
	for si, s := range specs {
		var wants []uint32
		if s.Form == fConst {
			wants = []uint32{s.ConstBase}
		} else {
			pre, final := b.sizes(s.Pl)
			wants = baseAlphabet(final, pre, s.accOff(), s.width(), s.Op.atomic())
		}
		seen := map[uint32]bool{}
		for _, w := range wants {
			a, bb, x, eff := formArgs(s.Form, w)
			if seen[eff] {
				continue
			}
			seen[eff] = true
			if b.Only != nil && b.Only.Base != eff {
				continue
			}
			conds := []int{0}
			if s.Pl.Cond {
				conds = []int{1, 0}
			}
			for _, c := range conds {
				if b.Only != nil && b.Only.Cond != c {
					continue
				}
				out = append(out, &oneCase{spec: s, a: a, b: bb, x: x, eff: eff, cond: c, seq: len(out), specIdx: si})
			}
		}
	}
	return out
}

// ---------------------------------------------------------------- engines

var runtimes = map[string]wazero.Runtime{}

func engineConfig(engine string) wazero.RuntimeConfig {
	var cfg wazero.RuntimeConfig
	if engine == "compiler" {
		cfg = wazero.NewRuntimeConfigCompiler()
	} else {
		cfg = wazero.NewRuntimeConfigInterpreter()
	}
	return cfg.WithCoreFeatures(api.CoreFeaturesV2 | experimental.CoreFeaturesThreads)
}

// runtimeFor returns the (cached) runtime for an engine, optionally with WithMemoryCapacityFromMax(true).
func runtimeFor(engine string, capMax bool) wazero.Runtime {
	key := fmt.Sprintf("%s/%v", engine, capMax)
	if r, ok := runtimes[key]; ok {
		return r
	}
	r := wazero.NewRuntimeWithConfig(context.Background(), engineConfig(engine).WithMemoryCapacityFromMax(capMax))
	runtimes[key] = r
	return r
}

// ---------------------------------------------------------------- one instance under test

type inst struct {
	b       *batch
	rt      wazero.Runtime
	code    wazero.CompiledModule
	memCode wazero.CompiledModule
	alloc   *gAlloc
	gm      *gMem
	mod     api.Module
	memMod  api.Module
	m       *memModel
	ref     []byte            // small memories: expected image
	pat     map[uint64][]byte // large memories: cached pattern chunks
	known   map[uint64]bool   // large memories: chunks the harness itself has touched
	scratch []byte
}

func (in *inst) shared() bool { return in.b.Kind == mkShared || in.b.Kind == mkImportedShared }

// open instantiates the module under test (and the exporter of its memory). For link batches a rejected
// instantiation of the importer is a legitimate outcome and is returned; everything else is a harness error.
func (in *inst) open() (linkErr error) {
	ctx := context.Background()
	in.alloc = &gAlloc{fixed: in.shared() || (in.b.huge() && !in.b.Move)}
	actx := experimental.WithMemoryAllocator(ctx, in.alloc)
	var err error
	if in.memCode != nil {
		if in.memMod, err = in.rt.InstantiateModule(actx, in.memCode, wazero.NewModuleConfig().WithName("mem")); err != nil {
			harnessDie("instantiate memory module: %v", err)
		}
		if l := in.b.link(); l != nil && l.PreGrow > 0 {
			// the exporter's memory has grown past its declared minimum before the importer is linked to it
			if _, ok := in.memMod.Memory().Grow(l.PreGrow); !ok {
				harnessDie("pre-grow of the exported memory failed")
			}
		}
	}
	if in.mod, err = in.rt.InstantiateModule(actx, in.code, wazero.NewModuleConfig().WithName("")); err != nil {
		if in.b.Link == "" {
			harnessDie("instantiate: %v", err)
		}
		in.mod = nil
		in.memMod.Close(ctx)
		in.memMod = nil
		if len(in.alloc.mems) != 1 || !in.alloc.mems[0].freed {
			harnessDie("memory of the exporter not freed after a rejected link")
		}
		return err
	}
	if len(in.alloc.mems) != 1 {
		harnessDie("allocator saw %d memories", len(in.alloc.mems))
	}
	in.gm = in.alloc.mems[0]
	size := uint64(in.b.Pages) * wasmPage
	if in.gm.size != size {
		harnessDie("initial size %d, want %d", in.gm.size, size)
	}
	in.m = &memModel{size: size, maxPages: uint64(in.b.maxPages()), shared: in.shared(), small: !in.b.huge()}
	if in.m.small {
		real := in.gm.slice()
		paint(real, 0)
		in.ref = append(in.ref[:0], real...)
		in.m.painted = size
	} else {
		in.m.hot = map[uint64]bool{}
		in.known = map[uint64]bool{}
		if in.pat == nil {
			in.pat = map[uint64][]byte{}
		}
	}
	return nil
}

// reopen starts over with a fresh instance (the link was accepted before, so it must be accepted again).
func (in *inst) reopen() {
	in.close()
	if err := in.open(); err != nil {
		harnessDie("link %q accepted first and rejected later: %v", in.b.Link, err)
	}
}

func (in *inst) close() {
	ctx := context.Background()
	if in.mod != nil {
		in.mod.Close(ctx)
		in.mod = nil
	}
	if in.memMod != nil {
		in.memMod.Close(ctx)
		in.memMod = nil
	}
	if in.gm != nil && !in.gm.freed {
		harnessDie("memory not freed on module close")
	}
	in.gm = nil
}

func (in *inst) patChunk(c uint64) []byte {
	if p, ok := in.pat[c]; ok {
		return p
	}
	p := make([]byte, chunk)
	paint(p, c*chunk)
	in.pat[c] = p
	return p
}

// heat paints a chunk of a large memory with the pattern.
func (in *inst) heat(c uint64) {
	if in.m.hot[c] || (c+1)*chunk > in.gm.size {
		return
	}
	copy(in.gm.slice()[c*chunk:(c+1)*chunk], in.patChunk(c))
	in.m.hot[c] = true
	in.known[c] = true
}

// reset brings the memory back to its initial size after a case that grew it.
func (in *inst) reset() {
	want := uint64(in.b.Pages) * wasmPage
	if in.gm.size == want {
		in.m.size = want
		return
	}
	if in.gm.size/wasmPage >= in.m.maxPages {
		// cannot be shrunk through the grow hook: start over with a fresh instance
		in.reopen()
		return
	}
	// The allocator answers the next Reallocate with a buffer of the initial size: wazero publishes whatever
	// slice the allocator returns (base and length) to both engines, so this is a cheap, harness-only "shrink".
	in.gm.resetTo = want
	in.gm.resetArmed = true
	mem := in.mod.Memory()
	if _, ok := mem.Grow(1); !ok {
		harnessDie("reset grow failed")
	}
	if in.gm.resetArmed || in.gm.size != want {
		harnessDie("reset did not take effect (size %d)", in.gm.size)
	}
	in.m.size = want
	if in.m.small {
		if in.m.painted > want {
			in.m.painted = want
		}
		in.ref = in.ref[:want]
	} else {
		for c := range in.m.hot {
			if (c+1)*chunk > want {
				delete(in.m.hot, c)
			}
		}
		for c := range in.known {
			if (c+1)*chunk > want {
				delete(in.known, c)
			}
		}
	}
}

// ---------------------------------------------------------------- per-item result

type violationRec struct {
	Sig  string   `json:"sig"`
	What string   `json:"what"`
	Case caseDesc `json:"case"`
}

type itemResult struct {
	Cases    int64            `json:"cases"`
	Nontriv  int64            `json:"nontriv"`
	Skipped  int64            `json:"skipped"`
	Funcs    int64            `json:"funcs"`
	Out      map[string]int64 `json:"out"`
	Viol     []violationRec   `json:"viol,omitempty"`
	SigCount map[string]int64 `json:"sigcount,omitempty"`
	Sample   *caseDesc        `json:"sample,omitempty"`
	Notes    []string         `json:"notes,omitempty"`
	GenMs    int64            `json:"gen_ms"`
	CompMs   int64            `json:"comp_ms"`
	RunMs    int64            `json:"run_ms"`
}

func (r *itemResult) violation(sig, what string, c caseDesc) {
	r.Out["VIOLATION:"+strings.SplitN(sig, ":", 3)[1]]++
	if r.SigCount == nil {
		r.SigCount = map[string]int64{}
	}
	r.SigCount[sig]++
	if r.SigCount[sig] > 2 || len(r.Viol) >= 30 {
		return // counted; the first two per signature carry the details
	}
	r.Viol = append(r.Viol, violationRec{Sig: sig, What: what, Case: c})
}

func pagesClass(p uint64) string {
	switch {
	case p == 65536:
		return "65536"
	case p > 32768:
		return ">32768"
	}
	return "<=32768"
}

func classifyErr(err error) string {
	switch {
	case errors.Is(err, wasmruntime.ErrRuntimeOutOfBoundsMemoryAccess):
		return tOOB
	case errors.Is(err, wasmruntime.ErrRuntimeUnalignedAtomic):
		return tUnaligned
	case errors.Is(err, wasmruntime.ErrRuntimeExpectedSharedMemory):
		return tNotShared
	}
	if strings.Contains(err.Error(), "runtime error:") {
		return "go-panic"
	}
	return "error"
}

// faultSig is the signature of a crash (used by the supervisor, which only knows the case).
func faultSig(kind string, c caseDesc) string {
	pl := placementByName(c.Placement)
	msb := "base<2^31"
	if c.Base >= 1<<31 {
		msb = "base>=2^31"
	}
	pc := "checked"
	switch {
	case pl != nil && pl.Implied && pl.Barrier:
		pc = "implied-check+barrier"
	case pl != nil && pl.Implied:
		pc = "implied-check"
	}
	ip := pagesClass(uint64(c.Pages))
	if c.Pages == 0 {
		ip = "0"
	}
	// engine:fault:mem=<kind>:initial-pages=<class>:<placement>:form=<form>:<base class>:<check class>
	return fmt.Sprintf("%s:%s:mem=%s:initial-pages=%s:%s:form=%s:%s:%s", c.Engine, kind, memName(memKindByName(c.Mem), c.Link), ip, c.Placement, c.Form, msb, pc)
}

// ---------------------------------------------------------------- running one item

var (
	defV  = uint64(0x8877665544332211)
	defV2 = uint64(0xF0E1D2C3B4A59687)
)

// partialResult is the checkpoint a child leaves behind for the supervisor (see runItem).
type partialResult struct {
	Item int         `json:"item"`
	Next int         `json:"next"` // first case not covered by Res
	Res  *itemResult `json:"res"`
}

// runItem executes the cases of a batch from sequence number `from`, except those in skip. When partialPath is set
// the cumulative result is checkpointed there (every 512 cases and after every recorded violation), so that a crash
// loses neither verdicts nor counts: the supervisor merges the checkpoint and re-runs from its Next.
func runItem(b *batch, from int, skip []int, prog *progress, itemIdx int, touchEvery int, partialPath string) *itemResult {
	res := &itemResult{Out: map[string]int64{}}
	skipSet := map[int]bool{}
	for _, s := range skip {
		skipSet[s] = true
	}
	lastFlushViol := int64(0)
	checkpoint := func(next int) {
		if partialPath == "" {
			return
		}
		tmp := partialPath + ".tmp"
		if err := os.WriteFile(tmp, []byte(mustJSON(partialResult{Item: itemIdx, Next: next, Res: res})), 0o600); err != nil {
			harnessDie("checkpoint: %v", err)
		}
		if err := os.Rename(tmp, partialPath); err != nil {
			harnessDie("checkpoint: %v", err)
		}
	}
	checkpoint(from)
	specs := b.specs()
	cases := b.cases(specs)
	if len(cases) == 0 || from >= len(cases) {
		return res
	}
	ctx := context.Background()
	t0 := time.Now()
	bin := buildModule(b.Kind, b.Pages, b.DeclMax, b.link(), specs)
	res.GenMs = time.Since(t0).Milliseconds()
	t0 = time.Now()
	var rt wazero.Runtime
	if b.CapMax == "shared-cache" {
		// compiled by a runtime WITH capacity-from-max, executed by a runtime WITHOUT it; both share one
		// CompilationCache, whose key does not depend on the capacity setting, so the second runtime reuses the code.
		cache := wazero.NewCompilationCache()
		defer cache.Close(ctx)
		r1 := wazero.NewRuntimeWithConfig(ctx, engineConfig(b.Engine).WithMemoryCapacityFromMax(true).WithCompilationCache(cache))
		defer r1.Close(ctx)
		if _, err := r1.CompileModule(ctx, bin); err != nil {
			harnessDie("generated module rejected by the first runtime (%s %s): %v", b.Engine, b.Op, err)
		}
		rt = wazero.NewRuntimeWithConfig(ctx, engineConfig(b.Engine).WithCompilationCache(cache))
		defer rt.Close(ctx)
	} else {
		rt = runtimeFor(b.Engine, b.CapMax == "on")
	}
	code, err := rt.CompileModule(ctx, bin)
	res.CompMs = time.Since(t0).Milliseconds()
	t0 = time.Now()
	defer func() { res.RunMs = time.Since(t0).Milliseconds() }()
	if err != nil {
		harnessDie("generated module rejected (%s %s): %v", b.Engine, b.Op, err)
	}
	defer code.Close(ctx)
	in := &inst{b: b, rt: rt, code: code}
	if b.Kind == mkImported || b.Kind == mkImportedShared {
		if in.memCode, err = rt.CompileModule(ctx, buildMemModule(b.Kind, b.Pages, b.DeclMax, b.link())); err != nil {
			harnessDie("memory module rejected: %v", err)
		}
		defer in.memCode.Close(ctx)
	}
	res.Funcs = int64(len(specs))
	if lerr := in.open(); lerr != nil {
		// the link was rejected: no code of the importer can run, the property holds vacuously for this configuration.
		// One evaluation (the instantiation), never counted as non-trivial.
		res.Cases = 1
		res.Out["link-rejected:"+b.Link]++
		return res
	}
	if b.Link != "" {
		res.Out["link-accepted:"+b.Link]++
	}
	defer func() {
		if in.mod != nil {
			in.close()
		}
	}()
	sinceTouch := 0
	firstSinceTouch := -1
	var lastDesc caseDesc
	touchCheck := func(upTo *oneCase) {
		if in.m.small || in.gm.size == 0 {
			return
		}
		var stray []uint64
		in.gm.touchedPages(func(p uint64) {
			if !in.known[p*osPage/chunk] {
				stray = append(stray, p)
			}
		})
		if len(stray) > 0 {
			d := b.desc(upTo)
			res.violation(fmt.Sprintf("%s:stray-touch:pages=%s:%s:mem=%s", b.Engine, pagesClass(in.gm.size/wasmPage), upTo.spec.Op.Class, memName(b.Kind, b.Link)),
				fmt.Sprintf("pages of the linear memory that no access of cases %d..%d addresses were touched (4 KiB page numbers %v)", firstSinceTouch, upTo.seq, stray[:min(len(stray), 8)]), d)
			for _, p := range stray {
				in.known[p*osPage/chunk] = true
			}
		}
		sinceTouch, firstSinceTouch = 0, -1
	}
	sinceFlush := 0
	for _, c := range cases[from:] {
		// checkpoint only at points where nothing is pending (the page-table guard of large memories has just run)
		var nviol int64
		for _, n := range res.SigCount {
			nviol += n
		}
		if sinceFlush++; (sinceFlush >= 512 || (nviol != lastFlushViol && nviol <= 64)) && sinceTouch == 0 {
			checkpoint(c.seq)
			sinceFlush, lastFlushViol = 0, nviol
		}
		if skipSet[c.seq] {
			continue
		}
		s := c.spec
		in.reset()
		d := b.desc(c)
		lastDesc = d
		// dry run of the reference for the addresses only, paint their surroundings, then the real simulation
		sim := func() *simulator {
			in.m.clearDiff()
			x := &simulator{m: in.m, s: s, base: uint64(c.eff), cond: c.cond != 0, v: defV, v2: defV2}
			return x
		}
		startSize := in.m.size
		x := sim()
		x.run(s.Steps)
		var wins []uint64
		if !in.m.small {
			limit := in.m.size
			wins = windows(uint64(c.eff), s, &x.e, limit)
			in.m.size = startSize
			for _, w := range wins {
				in.heat(w)
			}
		}
		in.m.size = startSize
		if b.Prune && !x.e.AccRan && len(x.e.Traps) > 0 {
			res.Out["pruned:earlier-access-traps-first(quick tier)"]++
			in.m.clearDiff()
			continue
		}
		if x.e.SkipHuge {
			res.Skipped++
			res.Out["skipped:in-bounds-bulk>1MiB"]++
			in.m.clearDiff()
			continue
		}
		x = sim()
		if s.Op.Kind == kACmpxchg || s.Op.Kind == kAWait {
			ea := uint64(c.eff) + s.Off
			if ea+s.Op.W <= in.m.size {
				x.v = le(in.m.read(ea, s.Op.W))
			} else {
				x.v &= mask(s.Op.W)
			}
		}
		x.run(s.Steps)
		exp := &x.e

		prog.set(itemIdx, c.seq)
		fn := in.mod.ExportedFunction(s.Export)
		got, err := fn.Call(ctx, uint64(c.a), uint64(c.b), uint64(c.cond), x.v, x.v2, c.x)
		prog.set(itemIdx, -1-c.seq)

		res.Cases++
		if exp.AccRan {
			res.Nontriv++
		}
		if res.Sample == nil && exp.AccRan && exp.AccInB {
			dd := d
			res.Sample = &dd
		}
		// signature = engine:class:pages=<class>[:end==2^32]:<op class>:mem=<kind>; for out-of-bounds traps the reference
		// does not allow, the memory kind is the discriminating attribute and comes first (no end marker).
		violated := false
		viol := func(class, what string) {
			violated = true
			pc := "pages=" + pagesClass(in.m.size/wasmPage)
			var attrs string
			if class == "spurious-oob" || class == "wrong-trap-oob" {
				attrs = fmt.Sprintf("%s:mem=%s:%s", pc, memName(b.Kind, b.Link), s.Op.Class)
			} else {
				if exp.AccRan && exp.EA+s.width() == 1<<32 {
					pc += ":end==2^32"
				}
				attrs = fmt.Sprintf("%s:%s:mem=%s", pc, s.Op.Class, memName(b.Kind, b.Link))
			}
			res.violation(b.Engine+":"+class+":"+attrs, d.String()+": "+what, d)
		}
		// 1. outcome
		outcome := ""
		poisoned := false
		if err != nil {
			k := classifyErr(err)
			outcome = "trap:" + k
			// a failure that is not a wasm trap (recovered Go panic, ...) may leave the instance inconsistent - e.g. the
			// interpreter's atomic operations panic while holding the memory mutex and every later atomic operation on
			// that memory would deadlock: continue with a fresh instance so that the next cases are not blamed.
			poisoned = k == "go-panic" || k == "error"
			switch {
			case len(exp.Traps) == 0:
				if k == tOOB {
					viol("spurious-oob", fmt.Sprintf("in-bounds program (size %d bytes) trapped out-of-bounds", in.m.size))
				} else {
					viol("unexpected-"+k, "in-bounds program failed: "+firstLine(err.Error()))
				}
			default:
				ok := false
				for _, t := range exp.Traps {
					ok = ok || t == k
				}
				if !ok {
					viol("wrong-trap-"+k, fmt.Sprintf("expected trap %v, got: %s", exp.Traps, firstLine(err.Error())))
				}
			}
		} else {
			outcome = "returned"
			if len(exp.Traps) != 0 {
				viol("missing-trap", fmt.Sprintf("expected trap %v (ea=%#x width=%d size=%#x) but the call returned %#x", exp.Traps, exp.EA, s.width(), in.m.size, got))
			} else if len(got) != 3 || got[0] != exp.R0 || got[1] != exp.R1 || got[2] != exp.R2 {
				viol("wrong-result", fmt.Sprintf("returned %#x, reference (%#x %#x %#x) for ea=%#x", got, exp.R0, exp.R1, exp.R2, exp.EA))
			}
		}
		if exp.AccRan {
			if exp.AccInB {
				outcome += ":acc-in-bounds"
			} else {
				outcome += ":acc-out-of-bounds"
			}
		} else {
			outcome += ":acc-not-reached"
		}
		res.Out[outcome]++
		// 2. memory: size, content
		if in.gm.size != in.m.size {
			viol("size-mismatch", fmt.Sprintf("memory is %d bytes after the case, reference %d", in.gm.size, in.m.size))
			in.reopen()
			continue
		}
		if msg := in.verify(wins); msg != "" && !violated {
			// (after a wrong outcome the memory necessarily differs from the reference image: one report per case)
			viol("memory-mismatch", msg)
		}
		if len(in.alloc.notes) > 0 {
			res.Notes = append(res.Notes, in.alloc.notes...)
			in.alloc.notes = nil
		}
		if poisoned {
			if !in.m.small {
				touchCheck(c)
			}
			in.reopen()
		}
		// 3. page-granular guard for large memories
		if !in.m.small {
			if firstSinceTouch < 0 {
				firstSinceTouch = c.seq
			}
			sinceTouch++
			if sinceTouch >= touchEvery {
				touchCheck(c)
			}
		}
	}
	if sinceTouch > 0 {
		touchCheck(cases[len(cases)-1])
	}
	// all painted chunks of a large memory must still hold the pattern
	if !in.m.small && in.gm != nil {
		in.reset()
		real := in.gm.slice()
		var bad []uint64
		for c := range in.m.hot {
			if (c+1)*chunk <= uint64(len(real)) && !bytes.Equal(real[c*chunk:(c+1)*chunk], in.patChunk(c)) {
				bad = append(bad, c)
			}
		}
		if len(bad) > 0 {
			sort.Slice(bad, func(i, j int) bool { return bad[i] < bad[j] })
			res.violation(fmt.Sprintf("%s:memory-mismatch-batch:pages=%s:%s:mem=%s", b.Engine, pagesClass(uint64(b.Pages)), opByName(b.Op).Class, memName(b.Kind, b.Link)),
				fmt.Sprintf("after the batch, 64 KiB chunks %v no longer hold the fill pattern although every case restored what it was allowed to write", bad), lastDesc)
		}
	}
	return res
}

func firstLine(s string) string {
	if i := strings.IndexByte(s, '\n'); i >= 0 {
		s = s[:i]
	}
	if len(s) > 160 {
		s = s[:160]
	}
	return s
}

// verify compares the real memory with the reference image (pattern + the writes the reference performed) and
// restores the pattern. Returns "" when equal.
func (in *inst) verify(wins []uint64) string {
	m := in.m
	real := in.gm.slice()
	msg := ""
	if m.small {
		for uint64(len(in.ref)) < m.size {
			in.ref = append(in.ref, 0)
		}
		ref := in.ref[:m.size]
		m.applyDiff(ref, 0)
		if !bytes.Equal(real, ref) {
			msg = describeDiff(real, ref, 0, m)
			// repair: repaint everything
			paint(real[:m.painted], 0)
			clear(real[m.painted:])
		} else {
			m.restoreBase(real, 0)
		}
		m.restoreBase(ref, 0)
		m.clearDiff()
		return msg
	}
	set := map[uint64]bool{}
	for _, c := range wins {
		set[c] = true
	}
	for _, s := range m.diff {
		for c := s.addr / chunk; c*chunk < s.addr+uint64(len(s.data)); c++ {
			set[c] = true
		}
	}
	if in.scratch == nil {
		in.scratch = make([]byte, chunk)
	}
	for c := range set {
		if (c+1)*chunk > uint64(len(real)) {
			continue
		}
		in.known[c] = true
		rc := real[c*chunk : (c+1)*chunk]
		expc := in.scratch
		if m.hot[c] {
			copy(expc, in.patChunk(c))
		} else {
			clear(expc)
		}
		dirty := m.applyDiff(expc, c*chunk)
		if !bytes.Equal(rc, expc) {
			if msg == "" {
				msg = describeDiff(rc, expc, c*chunk, m)
			}
			if m.hot[c] {
				copy(rc, in.patChunk(c))
			} else {
				clear(rc)
			}
		} else if dirty {
			m.restoreBase(rc, c*chunk)
		}
	}
	m.clearDiff()
	return msg
}

func describeDiff(real, exp []byte, at uint64, m *memModel) string {
	var addrs []string
	n := 0
	for i := range real {
		if real[i] != exp[i] {
			n++
			if len(addrs) < 6 {
				addrs = append(addrs, fmt.Sprintf("[%#x]=%#02x want %#02x (reference wrote here: %v)", at+uint64(i), real[i], exp[i], m.wrote(at+uint64(i))))
			}
		}
	}
	return fmt.Sprintf("%d bytes of the linear memory differ from the reference image: %s", n, strings.Join(addrs, ", "))
}

// ---------------------------------------------------------------- progress page shared with the supervisor

type progress struct {
	b []byte
}

func openProgress(path string, create bool) *progress {
	flags := syscall.O_RDWR
	if create {
		flags |= syscall.O_CREAT
	}
	fd, err := syscall.Open(path, flags, 0o600)
	if err != nil {
		harnessDie("progress file: %v", err)
	}
	defer syscall.Close(fd)
	if err := syscall.Ftruncate(fd, 4096); err != nil {
		harnessDie("progress file: %v", err)
	}
	b, err := syscall.Mmap(fd, 0, 4096, syscall.PROT_READ|syscall.PROT_WRITE, syscall.MAP_SHARED)
	if err != nil {
		harnessDie("progress mmap: %v", err)
	}
	return &progress{b: b}
}

func (p *progress) set(item, seq int) {
	if p == nil {
		return
	}
	le64 := func(off int, v int64) {
		for i := 0; i < 8; i++ {
			p.b[off+i] = byte(uint64(v) >> (8 * i))
		}
	}
	le64(0, int64(item))
	le64(8, int64(seq))
}

func (p *progress) get() (item, seq int) {
	rd := func(off int) int64 {
		var v uint64
		for i := 0; i < 8; i++ {
			v |= uint64(p.b[off+i]) << (8 * i)
		}
		return int64(v)
	}
	return int(rd(0)), int(rd(8))
}

func mustJSON(v any) string {
	b, err := json.Marshal(v)
	if err != nil {
		harnessDie("json: %v", err)
	}
	return string(b)
}
