// C02 — guest memory accesses never leave the linear memory.
//
// Bounded-exhaustive exploration of memory-access programs on the real engines: every load/store/SIMD/atomic/bulk
// opcode x static offset x dynamic base x base form x placement (relative to earlier checks, calls, memory.grow,
// control-flow merges) x memory size x memory kind x engine (+ two configuration slices: capacity/maximum, and import
// links whose declared memory type differs from the defined one). Oracle = reference model (in bounds iff
// base+offset+width <= size in 64-bit arithmetic; pattern-filled memory; exact result, exact bytes written).
// Sandbox guard: memories live in mmap reservations fenced by 4 GiB PROT_NONE on both sides (alloc.go); every item
// runs in a supervised child so that SIGSEGV/SIGBUS is attributed to the case in flight.
package main

import (
	"encoding/json"
	"fmt"
	"os"
	"path/filepath"
	"runtime"
	"runtime/pprof"
	"sort"
	"strconv"
	"strings"
	"sync"
	"time"

	"github.com/tetratelabs/wazero/verif/fw"
)

// ---------------------------------------------------------------- plan

// representative operations (one or two per lowering class) get the full product in the quick tier
var repOps = []string{
	"i32.load", "i64.load8_s", "i64.store", "i32.store16", "f64.load",
	"v128.load", "v128.store", "v128.load16_lane", "v128.store32_lane", "v128.load32x2_u", "v128.load8_splat",
	"i64.atomic.rmw.add", "i32.atomic.rmw16.cmpxchg_u", "i32.atomic.load", "i64.atomic.store32", "memory.atomic.wait32",
}

var quickRepOps = []string{
	"i32.load", "i64.store", "v128.load", "v128.store", "v128.load16_lane", "v128.store32_lane",
	"i64.atomic.rmw.add", "i32.atomic.rmw16.cmpxchg_u",
}

// thorough tier: these operations are additionally run on LARGE memories that move on every grow
var moveOps = []string{"i32.load", "i64.store", "v128.load", "i64.atomic.rmw.add", "memory.fill"}

func isIn(list []string, s string) bool {
	for _, x := range list {
		if x == s {
			return true
		}
	}
	return false
}

type item struct {
	Batch batch `json:"batch"`
	From  int   `json:"from"`
	Skip  []int `json:"skip,omitempty"` // cases that killed an earlier child (already attributed): not executed again
}

func buildPlan(quick bool) []item {
	sizes := []uint32{0, 1, 2, 32768, 32769, 65535, 65536}
	reps := repOps
	if quick {
		sizes = []uint32{1, 2, 32769}
		reps = quickRepOps
	}
	var items []item
	add := func(engine string, kind int, pages uint32, op *opDef, level int, move bool) {
		b := batch{Engine: engine, Kind: kind, Pages: pages, Op: op.Name, Level: level, Move: move}
		// quick tier: programs whose FIRST access already traps are only run for two operations
		b.FewConst = quick
		b.Prune = quick && op.Name != "i32.load" && op.Name != "i64.store"
		split := b.huge() && level != 1 && !op.bulk()
		if split {
			for _, off := range offsetAlphabet {
				bb := b
				bb.Offs = []uint64{off}
				items = append(items, item{Batch: bb})
			}
		} else {
			b.Offs = offsetAlphabet
			items = append(items, item{Batch: b})
		}
	}
	for _, op := range allOps {
		for _, pages := range sizes {
			for _, engine := range []string{"compiler", "interpreter"} {
				for kind := mkLocal; kind <= mkImportedShared; kind++ {
					rep := isIn(reps, op.Name) || op.bulk()
					var level int
					switch {
					case kind == mkLocal && rep:
						level = 0
					case kind == mkLocal && quick:
						level = 1
					case kind == mkLocal:
						level = 2
					case quick && !rep:
						continue
					case quick:
						level = 1
					case rep:
						level = 2
					default:
						level = 1
					}
					add(engine, kind, pages, op, level, false)
					if !quick && kind == mkLocal && pages > 64 && isIn(moveOps, op.Name) {
						add(engine, kind, pages, op, level, true)
					}
				}
			}
		}
	}
	// capacity/maximum slice: {capacity-from-max off, on, compiled-with/run-without through a shared cache} x
	// {no declared max, declared max with min<max, min=0 with declared max} on module-defined unshared memories that
	// MOVE on every grow, for the placements around calls and growth.
	capOps, capOffs, capPages := []string{"i32.load", "i64.store", "i64.atomic.rmw.add", "memory.fill"}, []uint64{0, 1, 1<<16 - 1, 1 << 16}, []uint32{1}
	if !quick {
		capOps, capOffs, capPages = append(append([]string{}, repOps...), "memory.fill", "memory.copy(dst)", "memory.copy(src)", "memory.init"), offsetAlphabet, []uint32{1, 2}
	}
	type capCfg struct {
		pages   uint32
		declMax bool
		capMax  string
	}
	var cfgs []capCfg
	for _, pg := range capPages {
		cfgs = append(cfgs, capCfg{pg, false, "on"}, capCfg{pg, true, ""}, capCfg{pg, true, "on"}, capCfg{pg, true, "shared-cache"})
	}
	cfgs = append(cfgs, capCfg{0, true, ""}, capCfg{0, true, "on"}, capCfg{0, true, "shared-cache"})
	// ... and an initially EMPTY shared memory (base pointer of an empty buffer; shared memories are never re-loaded after calls)
	cfgs = append(cfgs, capCfg{0, false, "shared-memory"})
	for _, name := range capOps {
		for _, c := range cfgs {
			for _, engine := range []string{"compiler", "interpreter"} {
				b := batch{Engine: engine, Kind: mkLocal, Pages: c.pages, Op: name, Offs: capOffs, Level: 3, DeclMax: c.declMax, CapMax: c.capMax}
				if c.capMax == "shared-memory" {
					b.Kind, b.CapMax = mkShared, ""
				}
				b.FewConst = quick
				b.Prune = quick && name != "i32.load" && name != "i64.store"
				items = append(items, item{Batch: b})
			}
		}
	}
	// link slice: the memory type the importer DECLARES differs from what the exporter DEFINES (see links in gen.go):
	// spec-compatible widenings, a memory that has grown before the import, and every single-attribute
	// incompatibility (shared flag both ways, maximum, minimum). A rejected instantiation is a legitimate outcome
	// (nothing runs); an accepted one gets the call/grow placements on a memory that moves on every grow (unshared
	// definitions) and is decided by the reference model of the DEFINED memory.
	linkPages := []uint32{1}
	if !quick {
		linkPages = []uint32{1, 2}
	}
	for _, name := range capOps {
		for _, l := range links {
			for _, pg := range linkPages {
				for _, engine := range []string{"compiler", "interpreter"} {
					b := batch{Engine: engine, Kind: l.DefKind, Pages: pg, Op: name, Offs: capOffs, Level: 3, DeclMax: l.DefMax, Link: l.Name}
					b.FewConst = quick
					b.Prune = quick && name != "i32.load" && name != "i64.store"
					items = append(items, item{Batch: b})
				}
			}
		}
	}
	return items
}

// filterPlan restricts the plan for debugging: C02_FILTER="op=i32.load;pages=1;engine=compiler;kind=local;level=0".
// A filtered run is reported as not exhaustive.
func filterPlan(items []item, f string) []item {
	if f == "" {
		return items
	}
	var out []item
next:
	for _, it := range items {
		for _, kv := range strings.Split(f, ";") {
			k, v, _ := strings.Cut(kv, "=")
			var have string
			switch k {
			case "op":
				have = it.Batch.Op
			case "pages":
				have = strconv.Itoa(int(it.Batch.Pages))
			case "engine":
				have = it.Batch.Engine
			case "kind":
				have = memKindNames[it.Batch.Kind]
			case "level":
				have = strconv.Itoa(it.Batch.Level)
			case "capmax":
				have = it.Batch.CapMax
			case "declmax":
				have = strconv.FormatBool(it.Batch.DeclMax)
			case "link":
				have = it.Batch.Link
			case "slice":
				have = map[bool]string{true: "link", false: "main"}[it.Batch.Link != ""]
			}
			if have != v {
				continue next
			}
		}
		out = append(out, it)
	}
	return out
}

// ---------------------------------------------------------------- child

func childMain() {
	var items []item
	raw, err := os.ReadFile(os.Getenv("C02_ITEMS"))
	if err != nil {
		harnessDie("items: %v", err)
	}
	if err := json.Unmarshal(raw, &items); err != nil {
		harnessDie("items: %v", err)
	}
	start, _ := strconv.Atoi(os.Getenv("VERIF_CHILD_START"))
	stride, _ := strconv.Atoi(os.Getenv("VERIF_CHILD_STRIDE"))
	if stride < 1 {
		stride = 1
	}
	prog := openProgress(filepath.Join(os.Getenv("C02_DIR"), fmt.Sprintf("w-%s-%d", fw.ChildMode(), start%stride)), true)
	partial := filepath.Join(os.Getenv("C02_DIR"), fmt.Sprintf("partial-%s-%d.json", fw.ChildMode(), start%stride))
	touchEvery, _ := strconv.Atoi(os.Getenv("C02_TOUCH_EVERY"))
	if touchEvery < 1 {
		touchEvery = 1
	}
	if pf := os.Getenv("C02_PROF"); pf != "" {
		f, _ := os.Create(fmt.Sprintf("%s.%d", pf, os.Getpid()))
		pprof.StartCPUProfile(f)
		defer pprof.StopCPUProfile()
		n, _ := strconv.Atoi(os.Getenv("VERIF_CHILD_N"))
		for i := start; i < n; i += stride {
			runItem(&items[i].Batch, items[i].From, items[i].Skip, prog, i, touchEvery, "")
		}
		pprof.StopCPUProfile()
		f.Close()
		os.Exit(3)
	}
	fw.ChildLoop(func(i int) string {
		it := items[i]
		prog.set(i, -1<<40)
		r := runItem(&it.Batch, it.From, it.Skip, prog, i, touchEvery, partial)
		return mustJSON(r)
	})
}

// ---------------------------------------------------------------- supervisor

type agg struct {
	mu        sync.Mutex
	run       *fw.Run
	outcomes  *fw.Counter
	samples   *fw.Sampler
	cases     int64
	nontriv   int64
	skipped   int64
	funcs     int64
	items     int64
	crashes   int64
	genMs     int64
	compMs    int64
	runMs     int64
	resumes   []item
	perConfig map[string]int64
	notes     map[string]bool
	dir       string
	sigCount  map[string]int64
	first     map[string]caseDesc // first case per violation signature (for the confirmation pass)
	known     []fw.Finding
}

func (a *agg) fatalf(format string, args ...any) {
	os.RemoveAll(a.dir)
	fw.Fatalf(format, args...)
}

// tooMany stops the exploration early once plenty of unknown violations are on record (the run fails anyway).
func (a *agg) tooMany() bool {
	if os.Getenv("C02_NO_EARLY_STOP") != "" {
		return false
	}
	a.mu.Lock()
	defer a.mu.Unlock()
	n := int64(0)
	for s, c := range a.sigCount {
		if !a.isKnown(s) {
			n += c
		}
	}
	return n >= 60
}

func (a *agg) remember(sig string, d caseDesc) {
	if _, ok := a.first[sig]; !ok {
		a.first[sig] = d
	}
}

// isKnown mirrors fw's matching of open findings (exact signature or prefix pattern ending in '*').
func (a *agg) isKnown(sig string) bool {
	for _, f := range a.known {
		if f.Property != "C02" || f.Status != "open" {
			continue
		}
		if f.Signature == sig || (strings.HasSuffix(f.Signature, "*") && strings.HasPrefix(sig, strings.TrimSuffix(f.Signature, "*"))) {
			return true
		}
	}
	return false
}

func loadFindings() []fw.Finding {
	var out []fw.Finding
	for _, p := range []string{filepath.Join(fw.Root, "known_findings.json"), filepath.Join(fw.Root, "checks", "c02", "findings.json")} {
		b, err := os.ReadFile(p)
		if err != nil {
			continue
		}
		var fs []fw.Finding
		if json.Unmarshal(b, &fs) == nil {
			out = append(out, fs...)
		}
	}
	return out
}

// runSingle executes exactly one case in a fresh supervised child and reports whether it fails.
func (a *agg) runSingle(c caseDesc, tag string) (failed bool, what string) {
	b := batch{Engine: c.Engine, Kind: memKindByName(c.Mem), Pages: c.Pages, Op: c.Op, Offs: []uint64{c.Off}, Level: 0, Only: &c, Move: c.Move, DeclMax: c.DeclMax, CapMax: c.CapMax, Link: c.Link}
	if c.Link != "" {
		b.Level = 3 // the link slice is generated at level 3
	}
	if c.Pages != 0 && placementByName(c.Placement) != nil && placementByName(c.Placement).Touch0 {
		b.Level = 3 // the zero-length-touch placements are only generated there (and for empty memories)
	}
	path := filepath.Join(a.dir, "items-"+tag+".json")
	if err := os.WriteFile(path, []byte(mustJSON([]item{{Batch: b}})), 0o600); err != nil {
		a.fatalf("items file: %v", err)
	}
	fw.Supervise(fw.SupOpts{N: 1, Workers: 1, CaseTimeout: 15 * time.Minute, Mode: tag,
		Env: []string{"C02_ITEMS=" + path, "C02_DIR=" + a.dir, "C02_TOUCH_EVERY=1"}},
		func(i int, res string, crash *fw.Crash) {
			if crash != nil {
				failed, what = true, fmt.Sprintf("process died (%s): %s", crash.Kind, fw.FirstLines(crash.Stderr, 4))
				return
			}
			var r itemResult
			json.Unmarshal([]byte(res), &r)
			what = fmt.Sprintf("cases=%d outcomes=%v", r.Cases, r.Out)
			if r.Cases == 0 {
				failed, what = true, "the case is not part of the enumeration"
			}
			for _, v := range r.Viol {
				failed = true
				what += fmt.Sprintf("\n  VIOLATION %s: %s", v.Sig, v.What)
			}
		})
	return
}

// confirm re-runs the first case of every unknown violation signature in a fresh process. A failure that does not
// reproduce is a harness problem, never a verdict (DESIGN 1.6).
func (a *agg) confirm() {
	if a.run.Violations() == 0 {
		return
	}
	var sigs []string
	for s := range a.first {
		if !a.isKnown(s) && !strings.Contains(s, ":stray-touch:") && !strings.Contains(s, ":memory-mismatch-batch:") {
			sigs = append(sigs, s)
		}
	}
	sort.Strings(sigs)
	if len(sigs) > 12 {
		sigs = sigs[:12]
	}
	// A tree that lets accesses leave the memory (a stale base after a moved buffer, say) depends on the state of the
	// heap, so one of several signatures may fail to reproduce in a fresh process: that is only a harness problem when
	// NO signature reproduces. Unreproduced ones are named; the reproduced ones carry the verdict.
	confirmed := 0
	var firstUnrep string
	for k, s := range sigs {
		failed, what := a.runSingle(a.first[s], fmt.Sprintf("confirm%d", k))
		if !failed {
			if firstUnrep == "" {
				firstUnrep = fmt.Sprintf("violation %s (%s) did not reproduce in a fresh process: %s", s, a.first[s], what)
			}
			fmt.Printf("NOT REPRODUCED in a fresh process: %s\n", s)
			continue
		}
		confirmed++
		fmt.Printf("CONFIRMED in a fresh process: %s\n", s)
	}
	if confirmed == 0 && firstUnrep != "" {
		a.fatalf("%s", firstUnrep)
	}
}

func (a *agg) handle(pool string, items []item, workers int, i int, res string, crash *fw.Crash) {
	a.mu.Lock()
	defer a.mu.Unlock()
	it := items[i]
	b := &it.Batch
	key := fmt.Sprintf("%s/%s/%d-pages", b.Engine, memKindNames[b.Kind], b.Pages)
	if b.Move {
		key += "/moving"
	}
	if b.DeclMax {
		key += "/max-declared"
	}
	if b.CapMax != "" {
		key += "/capacity-from-max:" + b.CapMax
	}
	if b.Link != "" {
		key += "/link:" + b.Link
	}
	if crash != nil {
		prog := openProgress(filepath.Join(a.dir, fmt.Sprintf("w-%s-%d", pool, i%workers)), false)
		pi, seq := prog.get()
		if strings.Contains(crash.Stderr, "HARNESS-ERROR") {
			a.fatalf("child failed on item %d (%s): %s", i, mustJSON(b), crash.Stderr)
		}
		if pi != i {
			a.fatalf("child crashed on item %d but the progress page names item %d: %s", i, pi, crash.Stderr)
		}
		cases := b.cases(b.specs())
		inCall := seq >= 0
		if !inCall {
			seq = -1 - seq
		}
		if seq < 0 || seq >= len(cases) {
			a.fatalf("child crashed on item %d outside any case (%s): %s", i, mustJSON(b), crash.Stderr)
		}
		d := b.desc(cases[seq])
		// a fault in generated code surfaces in several shapes (SIGSEGV report, "unexpected fault address", a
		// corrupted-stack abort of the Go runtime): all of them are "the process died in this guest call".
		kind := "fault"
		if crash.Kind == "timeout" {
			kind = "hang"
		}
		if !inCall {
			kind += "-after-case"
		}
		a.crashes++
		a.cases++
		a.nontriv++
		a.perConfig[key]++
		a.outcomes.Inc("process-" + kind)
		a.remember(faultSig(kind, d), d)
		a.sigCount[faultSig(kind, d)]++
		a.run.Violation(faultSig(kind, d), fmt.Sprintf("%s: the process died (%s) while executing this case: %s", d, kind, fw.FirstLines(crash.Stderr, 3)), d)
		// what the dead child had verified since its last checkpoint is lost: take over the checkpointed part and
		// run the remainder again in a later pass, without the case that killed it.
		from := it.From
		var pr partialResult
		if raw, err := os.ReadFile(filepath.Join(a.dir, fmt.Sprintf("partial-%s-%d.json", pool, i%workers))); err == nil &&
			json.Unmarshal(raw, &pr) == nil && pr.Item == i && pr.Res != nil {
			a.absorb(b, key, pr.Res)
			from = pr.Next
		}
		if from < len(cases) {
			a.resumes = append(a.resumes, item{Batch: *b, From: from, Skip: append(append([]int{}, it.Skip...), seq)})
		}
		return
	}
	var r itemResult
	if err := json.Unmarshal([]byte(res), &r); err != nil {
		a.fatalf("bad child result for item %d: %v: %.200s", i, err, res)
	}
	a.items++
	a.absorb(b, key, &r)
}

// absorb merges the (complete or checkpointed) result of an item.
func (a *agg) absorb(b *batch, key string, r *itemResult) {
	a.genMs += r.GenMs
	a.compMs += r.CompMs
	a.runMs += r.RunMs
	a.cases += r.Cases
	a.nontriv += r.Nontriv
	a.skipped += r.Skipped
	a.funcs += r.Funcs
	a.perConfig[key] += r.Cases
	for k, v := range r.Out {
		a.outcomes.AddN(k, v)
	}
	if r.Sample != nil {
		a.samples.Add(*r.Sample)
	}
	for _, n := range r.Notes {
		a.notes[n] = true
	}
	detailed := map[string]int64{}
	for _, v := range r.Viol {
		a.remember(v.Sig, v.Case)
		a.run.Violation(v.Sig, v.What, v.Case)
		detailed[v.Sig]++
	}
	for sig, n := range r.SigCount {
		a.sigCount[sig] += n
		for k := detailed[sig]; k < n; k++ {
			a.run.Violation(sig, "(further occurrence in "+mustJSON(b)+")", nil)
		}
	}
}

func supervisePool(a *agg, pool string, items []item, workers int, touchEvery int) {
	pass := 0
	for len(items) > 0 {
		if a.run.Expired() {
			a.run.Capped("budget")
			return
		}
		path := filepath.Join(a.dir, fmt.Sprintf("items-%s-%d.json", pool, pass))
		if err := os.WriteFile(path, []byte(mustJSON(items)), 0o600); err != nil {
			a.fatalf("items file: %v", err)
		}
		w := workers
		if w > len(items) {
			w = len(items)
		}
		cur := items
		done := fw.Supervise(fw.SupOpts{N: len(cur), Workers: w, CaseTimeout: 15 * time.Minute, Mode: pool,
			Env:  []string{"C02_ITEMS=" + path, "C02_DIR=" + a.dir, "C02_TOUCH_EVERY=" + strconv.Itoa(touchEvery)},
			Stop: func() bool { return a.run.Expired() || a.tooMany() }},
			func(i int, res string, crash *fw.Crash) { a.handle(pool, cur, w, i, res, crash) })
		if a.tooMany() {
			a.run.Capped("stopped early: 60 unknown violations already recorded")
			return
		}
		if done < len(cur) {
			a.run.Capped("budget")
		}
		a.mu.Lock()
		items = a.resumes
		a.resumes = nil
		a.mu.Unlock()
		pass++
	}
}

func main() {
	if fw.IsChild() {
		childMain()
		return
	}
	run := fw.Start("C02", "exploration")
	dir, err := os.MkdirTemp("", "c02-")
	if err != nil {
		fw.Fatalf("tempdir: %v", err)
	}
	defer os.RemoveAll(dir)
	a := &agg{run: run, outcomes: fw.NewCounter(), samples: fw.NewSampler(12), perConfig: map[string]int64{}, notes: map[string]bool{}, dir: dir,
		first: map[string]caseDesc{}, known: loadFindings(), sigCount: map[string]int64{}}

	if len(os.Args) > 2 && os.Args[1] == "replay" {
		replay(a, os.Args[2])
		return
	}

	plan := filterPlan(buildPlan(run.Quick()), os.Getenv("C02_FILTER"))
	var small, huge []item
	for _, it := range plan {
		if it.Batch.huge() {
			huge = append(huge, it)
		} else {
			small = append(small, it)
		}
	}
	if os.Getenv("C02_FILTER") != "" {
		run.Capped("filtered plan (debugging)")
	}
	touchEvery := 64
	nSmall := runtime.NumCPU() - 4
	if nSmall < 2 {
		nSmall = 2
	}
	var wg sync.WaitGroup
	wg.Add(2)
	go func() { defer wg.Done(); supervisePool(a, "huge", huge, 4, touchEvery) }()
	go func() { defer wg.Done(); supervisePool(a, "small", small, nSmall, touchEvery) }()
	wg.Wait()
	if os.Getenv("C02_SIGDUMP") != "" {
		var ks []string
		for k := range a.sigCount {
			ks = append(ks, k)
		}
		sort.Strings(ks)
		for _, k := range ks {
			fmt.Printf("SIG %8d %s known=%v first=%s\n", a.sigCount[k], k, a.isKnown(k), a.first[k])
		}
	}
	a.confirm()

	bounds := map[string]any{
		"operations": len(allOps), "static_offsets": offsetAlphabet, "placements": len(placements), "base_forms": int(nForms), "import_links": len(links),
		"items": a.items, "functions_compiled": a.funcs, "cases_per_engine_memkind_pages": a.perConfig,
	}
	var notes []string
	for n := range a.notes {
		notes = append(notes, n)
	}
	sort.Strings(notes)
	os.RemoveAll(dir)
	run.Finish(fw.Coverage{
		Evaluations: a.cases, DistinctNontriv: a.nontriv,
		Rule:       "a case = (engine, memory kind, pages, opcode, static offset, base form, placement, effective base, condition); all cases are distinct by construction (bases de-duplicated on the value the program computes); non-trivial = the reference reaches the access under test (not cut short by a trapping earlier access or an untaken branch)",
		Samples:    a.samples.List(),
		Exhaustive: true, Outcomes: a.outcomes.Map(), Bounds: bounds,
		Extra: map[string]any{"child_cpu_ms": map[string]int64{"generate": a.genMs, "compile": a.compMs, "execute_and_compare": a.runMs}, "process_crashes_attributed": a.crashes, "failure_signatures": a.sigCount, "skipped_in_bounds_bulk_over_1MiB": a.skipped, "allocator_contract_notes": notes},
	}, []string{
		"the guard detects displaced accesses up to +-4 GiB (+64 KiB) from the memory and stale bases of moved memories; an access displaced further, or into another mapping by an unrelated wild pointer, is only seen if it faults or changes a compared byte",
		"large memories (> 64 pages) are compared in 64 KiB windows around every address the reference or a 32-bit-wrapping / sign-confusing computation could form, plus a page-table (mincore) guard over the whole memory every few cases and a full comparison of all painted chunks per batch",
		"when an atomic access is both misaligned and out of bounds either trap is accepted; memory.atomic.wait on unshared memory may report any of its applicable traps",
		"in-bounds bulk operations longer than 1 MiB are not executed (counted as skipped)",
		"the harness shrinks a grown memory between cases by answering a Grow(1) with a shorter buffer from its own allocator (engines re-read base and length from the allocator's slice)",
	})
}

// ---------------------------------------------------------------- replay

func replay(a *agg, file string) {
	raw, err := os.ReadFile(file)
	if err != nil {
		a.fatalf("replay: %v", err)
	}
	var doc struct {
		Signature string    `json:"signature"`
		What      string    `json:"what"`
		Replay    *caseDesc `json:"replay"`
	}
	if err := json.Unmarshal(raw, &doc); err != nil || doc.Replay == nil {
		a.fatalf("replay: %s has no replayable case (%v)", file, err)
	}
	c := doc.Replay
	if opByName(c.Op) == nil || memKindByName(c.Mem) < 0 || placementByName(c.Placement) == nil || formByName(c.Form) < 0 {
		a.fatalf("replay: unknown op, memory kind, placement or form in %s", file)
	}
	fmt.Printf("replaying %s\n  recorded: %s: %s\n", *c, doc.Signature, doc.What)
	failed, what := a.runSingle(*c, "replay")
	fmt.Printf("  now: %s\n", what)
	os.RemoveAll(a.dir)
	if failed {
		os.Exit(1)
	}
	fmt.Println("  the case passes now")
	os.Exit(0)
}
