package main

import (
	"fmt"
	"sort"

	"github.com/tetratelabs/wazero/verif/wb"
)

// ---------------------------------------------------------------- programs

type stepKind int

const (
	sPre stepKind = iota // i32.load8_u at static offset P of the same base value
	sAcc                 // the access under test
	sCallNop
	sCallGrow // call to a local function that grows the memory by one page (moves it)
	sGrow     // memory.grow 1 inline
	sIf       // if (c) A else B
	sLoop2    // loop executing A twice
	sTouch0   // memory.copy(0, 0, 0): in bounds on every memory (even an empty one), makes the function load the memory base in straight-line code (memory.fill would open new blocks)
)

type step struct {
	K    stepKind
	P    uint64
	A, B []step
}

// placement = program shape around the access under test.
type placement struct {
	Name    string
	Grows   bool // contains a memory.grow (directly or in a callee)
	Cond    bool // uses the condition parameter (run with c=0 and c=1)
	Implied bool // on every path an earlier access of the same base value has a ceiling >= the ceiling of the access under test
	Touch0  bool // starts with a zero-length bulk operation (only generated for configurations that ask for it)
	Barrier bool // a call, memory.grow, control-flow merge or loop header lies between that earlier access and the access under test
	build   func(ceil uint64) []step
}

const maxU32 = uint64(1)<<32 - 1

// pre-offsets relative to the ceiling (= static offset + width) of the access under test
func preS0(ceil uint64) (uint64, bool) { return 0, ceil > 1 }
func preS1(ceil uint64) (uint64, bool) {
	if ceil >= 3 && ceil-2 <= maxU32 {
		return ceil - 2, true
	}
	return preS0(ceil)
}
func preE(ceil uint64) (uint64, bool) { return ceil - 1, ceil >= 1 && ceil-1 <= maxU32 }
func preL(ceil uint64) (uint64, bool) { return ceil, ceil <= maxU32 }

func seq(parts ...any) []step {
	var out []step
	for _, p := range parts {
		switch x := p.(type) {
		case step:
			out = append(out, x)
		case []step:
			out = append(out, x...)
		case nil:
			return nil
		}
	}
	return out
}

func pre(f func(uint64) (uint64, bool), ceil uint64) any {
	p, ok := f(ceil)
	if !ok {
		return nil
	}
	return step{K: sPre, P: p}
}

var acc = step{K: sAcc}

// ifs builds a diamond; an arm that is nil is invalid (the whole placement is dropped), none is the empty arm.
var none = []step{}

func ifs(a, b any) any {
	if a == nil || b == nil {
		return nil
	}
	return step{K: sIf, A: seq(a), B: seq(b)}
}

var placements = []*placement{
	{Name: "first", build: func(c uint64) []step { return seq(acc) }},
	{Name: "same-block:pre-smaller0", build: func(c uint64) []step { return seq(pre(preS0, c), acc) }},
	{Name: "same-block:pre-smaller1", build: func(c uint64) []step {
		if p, _ := preS1(c); p == 0 {
			return nil // identical to pre-smaller0
		}
		return seq(pre(preS1, c), acc)
	}},
	{Name: "same-block:pre-equal", Implied: true, build: func(c uint64) []step { return seq(pre(preE, c), acc) }},
	{Name: "same-block:pre-larger", Implied: true, build: func(c uint64) []step { return seq(pre(preL, c), acc) }},
	{Name: "call:pre-equal", Implied: true, Barrier: true, build: func(c uint64) []step { return seq(pre(preE, c), step{K: sCallNop}, acc) }},
	{Name: "call:pre-smaller", build: func(c uint64) []step { return seq(pre(preS1, c), step{K: sCallNop}, acc) }},
	{Name: "call:same-access-twice", Implied: true, Barrier: true, build: func(c uint64) []step { return seq(acc, step{K: sCallNop}, acc) }},
	{Name: "callgrow:pre-equal", Grows: true, Implied: true, Barrier: true, build: func(c uint64) []step { return seq(pre(preE, c), step{K: sCallGrow}, acc) }},
	{Name: "callgrow:pre-smaller0", Grows: true, build: func(c uint64) []step { return seq(pre(preS0, c), step{K: sCallGrow}, acc) }},
	{Name: "grow:pre-equal", Grows: true, Implied: true, Barrier: true, build: func(c uint64) []step { return seq(pre(preE, c), step{K: sGrow}, acc) }},
	{Name: "grow:pre-smaller0", Grows: true, build: func(c uint64) []step { return seq(pre(preS0, c), step{K: sGrow}, acc) }},
	{Name: "diamond:smaller|larger", Cond: true, build: func(c uint64) []step { return seq(ifs(pre(preS1, c), pre(preL, c)), acc) }},
	{Name: "diamond:equal|larger", Cond: true, Implied: true, Barrier: true, build: func(c uint64) []step { return seq(ifs(pre(preE, c), pre(preL, c)), acc) }},
	{Name: "diamond:equal|none", Cond: true, build: func(c uint64) []step { return seq(ifs(pre(preE, c), none), acc) }},
	{Name: "successor:pre-equal", Cond: true, Implied: true, build: func(c uint64) []step { return seq(pre(preE, c), ifs(acc, none)) }},
	{Name: "loop:pre-equal", Implied: true, Barrier: true, build: func(c uint64) []step { return seq(pre(preE, c), step{K: sLoop2, A: []step{acc}}) }},
	{Name: "loop:pre-smaller", build: func(c uint64) []step { return seq(pre(preS1, c), step{K: sLoop2, A: []step{acc}}) }},
	{Name: "loop:access+callgrow", Grows: true, build: func(c uint64) []step {
		return seq(step{K: sLoop2, A: []step{acc, {K: sCallGrow}}})
	}},
	// a zero-length bulk copy is the only "touch" that succeeds on an empty memory (whose base pointer is nil until it grows)
	{Name: "touch0:grow", Grows: true, Touch0: true, build: func(c uint64) []step { return seq(step{K: sTouch0}, step{K: sGrow}, acc) }},
	{Name: "touch0:callgrow", Grows: true, Touch0: true, build: func(c uint64) []step { return seq(step{K: sTouch0}, step{K: sCallGrow}, acc) }},
}

// placements of the capacity/maximum configuration slice (level 3): everything around calls and growth, plus a few others
var capPlacements = []string{"first", "same-block:pre-equal", "call:pre-equal", "call:pre-smaller", "call:same-access-twice",
	"callgrow:pre-equal", "callgrow:pre-smaller0", "grow:pre-equal", "grow:pre-smaller0", "diamond:equal|larger",
	"loop:access+callgrow", "touch0:grow", "touch0:callgrow"}

func placementByName(n string) *placement {
	for _, p := range placements {
		if p.Name == n {
			return p
		}
	}
	return nil
}

// reduced placement set for the non-representative operations / memory kinds
var reducedPlacements = []string{"first", "call:pre-equal", "grow:pre-smaller0", "diamond:smaller|larger"}

// bulk operations never consult the known-safe-bounds cache; only reload-related placements make sense
var bulkPlacements = []string{"first", "call:pre-equal", "call:same-access-twice", "callgrow:pre-smaller0", "grow:pre-equal", "loop:access+callgrow"}
var bulkTouch0Placements = []string{"touch0:grow", "touch0:callgrow"}

// ---------------------------------------------------------------- base forms

type form int

const (
	fParam form = iota
	fConst
	fAdd2
	fAddC
	fShl1
	fShl3
	fWrap
	nForms
)

var formNames = [...]string{"param", "const", "a+b", "a+const", "a<<1", "a<<3", "wrap_i64"}

func (f form) String() string { return formNames[f] }

func formByName(n string) form {
	for i, s := range formNames {
		if s == n {
			return form(i)
		}
	}
	return -1
}

const (
	add2B  = uint32(0x80000001)
	addC   = uint32(16)
	wrapHi = uint64(0xDEADBEEF) << 32
)

// formArgs returns the arguments (a, b, x) that make the function compute the wanted base, and the base actually
// produced (shift forms can only produce multiples of 2^k).
func formArgs(f form, want uint32) (a, b uint32, x uint64, eff uint32) {
	switch f {
	case fParam:
		return want, 0, 0, want
	case fConst:
		return 0, 0, 0, want
	case fAdd2:
		return want - add2B, add2B, 0, want
	case fAddC:
		return want - addC, 0, 0, want
	case fShl1:
		return want>>1 | 0x80000000, 0, 0, want &^ 1
	case fShl3:
		return want>>3 | 0xE0000000, 0, 0, want &^ 7
	case fWrap:
		return 0, 0, uint64(want) | wrapHi, want
	}
	panic("form")
}

// emitBase emits the prologue that leaves the base in a local and returns that local.
func emitBase(a *wb.Asm, f form, constBase uint32) uint32 {
	switch f {
	case fParam:
		return lA
	case fConst:
		a.I32Const(int32(constBase)).LocalSet(lT)
	case fAdd2:
		a.LocalGet(lA).LocalGet(lB).Op(0x6a).LocalSet(lT)
	case fAddC:
		a.LocalGet(lA).I32Const(int32(addC)).Op(0x6a).LocalSet(lT)
	case fShl1:
		a.LocalGet(lA).I32Const(1).Op(0x74).LocalSet(lT)
	case fShl3:
		a.LocalGet(lA).I32Const(3).Op(0x74).LocalSet(lT)
	case fWrap:
		a.LocalGet(lX).Op(0xa7).LocalSet(lT)
	}
	return lT
}

// ---------------------------------------------------------------- function specs and module

type fnSpec struct {
	Op        *opDef
	Off       uint64 // static offset (bulk: length)
	Form      form
	ConstBase uint32
	Pl        *placement
	Steps     []step
	Export    string
}

func (s *fnSpec) width() uint64 {
	if s.Op.bulk() {
		return s.Off
	}
	return s.Op.W
}

// accOff is the static offset of the access under test (0 for bulk operations, whose "offset slot" is the length).
func (s *fnSpec) accOff() uint64 {
	if s.Op.bulk() {
		return 0
	}
	return s.Off
}

func (s *fnSpec) ceil() uint64 { return s.accOff() + s.width() }

const (
	fnNop   = 0
	fnGrow1 = 1
)

func emitSteps(a *wb.Asm, s *fnSpec, steps []step, bl uint32) {
	for _, st := range steps {
		switch st.K {
		case sPre:
			emitPre(a, st.P, bl)
		case sAcc:
			emitAcc(a, s.Op, s.Off, bl)
		case sCallNop:
			a.Call(fnNop)
		case sCallGrow:
			a.Call(fnGrow1)
		case sGrow:
			a.I32Const(1).MemoryGrow().Drop()
		case sTouch0:
			a.I32Const(0).I32Const(0).I32Const(0).MemoryCopy()
		case sIf:
			a.LocalGet(lC).If(wb.Void)
			emitSteps(a, s, st.A, bl)
			a.Else()
			emitSteps(a, s, st.B, bl)
			a.End()
		case sLoop2:
			a.I32Const(0).LocalSet(lCnt)
			a.Loop(wb.Void)
			emitSteps(a, s, st.A, bl)
			a.LocalGet(lCnt).I32Const(1).Op(0x6a).LocalTee(lCnt).I32Const(2).Op(0x49).BrIf(0)
			a.End()
		}
	}
}

func (s *fnSpec) body() []byte {
	a := &wb.Asm{}
	bl := emitBase(a, s.Form, s.ConstBase)
	emitSteps(a, s, s.Steps, bl)
	a.LocalGet(lR0).LocalGet(lR1).LocalGet(lR2)
	return a.B
}

// memory kinds
const (
	mkLocal = iota
	mkImported
	mkShared
	mkImportedShared
)

var memKindNames = [...]string{"local", "imported", "shared", "imported-shared"}

func memKindByName(n string) int {
	for i, s := range memKindNames {
		if s == n {
			return i
		}
	}
	return -1
}

// memLimits: shared memories always declare a maximum; unshared ones only when declMax is set (min < max).
func memLimits(kind int, pages uint32, declMax bool) wb.Limits {
	l := wb.Limits{Min: pages}
	if declMax && (kind == mkLocal || kind == mkImported) {
		l.HasMax = true
		l.Max = pages + 16
		if l.Max > 65536 {
			l.Max = 65536
		}
	}
	if kind == mkShared || kind == mkImportedShared {
		l.HasMax, l.Shared = true, true
		l.Max = pages + 16
		if l.Max > 65536 {
			l.Max = 65536
		}
	}
	return l
}

func maxPagesOf(kind int, pages uint32, declMax bool) uint32 {
	if l := memLimits(kind, pages, declMax); l.HasMax {
		return l.Max
	}
	return 65536
}

// ---------------------------------------------------------------- link dimension (declared vs defined memory type)

// A link = what the importing module DECLARES for its memory import vs what the exporting module DEFINES (and how far
// the exporter's memory has grown before the importer is instantiated). The code of the importer is compiled from the
// declaration alone (shared => "never moves", limits), the memory it runs on is the definition: every assumption
// the compiler derives from the declaration must be enforced by the import matching or not be relied upon. The link
// alphabet contains the spec-compatible widenings (which must execute correctly) AND every single-attribute
// incompatibility (which wazero may reject - nothing executes - but if it links them, the property must still hold).
type linkDef struct {
	Name    string
	DefKind int    // mkImported (definition unshared, moves on grow) | mkImportedShared (definition shared)
	DefMax  bool   // unshared definition: with a declared maximum (pages+16)
	PreGrow uint32 // the exporter's memory is grown by this many pages before the importer is instantiated
	Decl    func(def wb.Limits, pages uint32) wb.Limits
}

func capMaxPages(l wb.Limits) wb.Limits {
	if l.HasMax && l.Max > 65536 {
		l.Max = 65536
	}
	if l.HasMax && l.Max < l.Min {
		l.Max = l.Min
	}
	return l
}

var links = []*linkDef{
	// spec-compatible declarations that differ from the definition
	{Name: "decl-nomax|def-max", DefKind: mkImported, DefMax: true, Decl: func(d wb.Limits, p uint32) wb.Limits { return wb.Limits{Min: p} }},
	{Name: "decl-min-smaller|def-max", DefKind: mkImported, DefMax: true, Decl: func(d wb.Limits, p uint32) wb.Limits { d.Min = 0; return d }},
	{Name: "decl-max-larger|def-max", DefKind: mkImported, DefMax: true, Decl: func(d wb.Limits, p uint32) wb.Limits { d.Max += 16; return d }},
	{Name: "decl-min=current|def-grown", DefKind: mkImported, DefMax: true, PreGrow: 1, Decl: func(d wb.Limits, p uint32) wb.Limits { d.Min = p; return d }},
	{Name: "decl-shared-wider|def-shared", DefKind: mkImportedShared, Decl: func(d wb.Limits, p uint32) wb.Limits { d.Min = 0; d.Max += 16; return d }},
	{Name: "decl-shared-min=current|def-shared-grown", DefKind: mkImportedShared, PreGrow: 1, Decl: func(d wb.Limits, p uint32) wb.Limits { d.Min = p; return d }},
	// incompatible in exactly one attribute: sharedness
	{Name: "decl-shared|def-unshared-max", DefKind: mkImported, DefMax: true, Decl: func(d wb.Limits, p uint32) wb.Limits { d.Shared = true; return d }},
	{Name: "decl-shared|def-unshared-nomax", DefKind: mkImported, Decl: func(d wb.Limits, p uint32) wb.Limits {
		return wb.Limits{Min: p, HasMax: true, Max: p + 16, Shared: true}
	}},
	{Name: "decl-unshared-max|def-shared", DefKind: mkImportedShared, Decl: func(d wb.Limits, p uint32) wb.Limits { d.Shared = false; return d }},
	{Name: "decl-unshared-nomax|def-shared", DefKind: mkImportedShared, Decl: func(d wb.Limits, p uint32) wb.Limits { return wb.Limits{Min: p} }},
	// ... the maximum (a declaration with max == min says "this memory never grows")
	{Name: "decl-max=min|def-max", DefKind: mkImported, DefMax: true, Decl: func(d wb.Limits, p uint32) wb.Limits { d.Max = p; return d }},
	{Name: "decl-max-smaller|def-max", DefKind: mkImported, DefMax: true, Decl: func(d wb.Limits, p uint32) wb.Limits { d.Max = p + 1; return d }},
	{Name: "decl-max|def-nomax", DefKind: mkImported, Decl: func(d wb.Limits, p uint32) wb.Limits { return wb.Limits{Min: p, HasMax: true, Max: p + 16} }},
	{Name: "decl-max=min|def-nomax", DefKind: mkImported, Decl: func(d wb.Limits, p uint32) wb.Limits { return wb.Limits{Min: p, HasMax: true, Max: p} }},
	{Name: "decl-shared-max=min|def-shared", DefKind: mkImportedShared, Decl: func(d wb.Limits, p uint32) wb.Limits { d.Max = p; return d }},
	// ... the minimum (a declaration with a larger minimum says "the first min pages always exist")
	{Name: "decl-min-larger|def-max", DefKind: mkImported, DefMax: true, Decl: func(d wb.Limits, p uint32) wb.Limits { d.Min = p + 1; return d }},
	{Name: "decl-min-larger|def-nomax", DefKind: mkImported, Decl: func(d wb.Limits, p uint32) wb.Limits { return wb.Limits{Min: p + 2} }},
	{Name: "decl-shared-min-larger|def-shared", DefKind: mkImportedShared, Decl: func(d wb.Limits, p uint32) wb.Limits { d.Min = p + 1; return d }},
}

func linkByName(n string) *linkDef {
	for _, l := range links {
		if l.Name == n {
			return l
		}
	}
	return nil
}

// defLimits: the limits of the memory definition (of the module itself, or of the exporting module). `pages` is the
// size at the time the module under test is instantiated.
func defLimits(kind int, pages uint32, declMax bool, link *linkDef) wb.Limits {
	l := memLimits(kind, pages, declMax)
	if link != nil && link.PreGrow > 0 {
		l.Min = pages - link.PreGrow
	}
	return l
}

// declLimits: the limits the module under test declares for its memory (import).
func declLimits(kind int, pages uint32, declMax bool, link *linkDef) wb.Limits {
	def := defLimits(kind, pages, declMax, link)
	if link == nil {
		return def
	}
	return capMaxPages(link.Decl(def, pages))
}

func buildModule(kind int, pages uint32, declMax bool, link *linkDef, specs []*fnSpec) []byte {
	m := &wb.Module{}
	lim := declLimits(kind, pages, declMax, link)
	if kind == mkImported || kind == mkImportedShared {
		m.Imports = append(m.Imports, wb.Import{Module: "mem", Name: "memory", Kind: wb.KindMemory, Mem: lim})
	} else {
		m.Mem = &lim
	}
	m.AddFunc(nil, nil, nil, (&wb.Asm{}).Nop().B)
	m.AddFunc(nil, nil, nil, (&wb.Asm{}).I32Const(1).MemoryGrow().Drop().B)
	needSeg := false
	for i, s := range specs {
		idx := m.AddFunc(fnParams, fnResults, fnLocals, s.body())
		s.Export = fmt.Sprintf("f%d", i)
		m.ExportFunc(s.Export, idx)
		if s.Op.Kind == kInit {
			needSeg = true
		}
	}
	if needSeg {
		m.DataCount = true
		m.Datas = []wb.Data{{Passive: true, Bytes: segBytes}}
	}
	return m.Encode()
}

func buildMemModule(kind int, pages uint32, declMax bool, link *linkDef) []byte {
	m := &wb.Module{}
	lim := defLimits(kind, pages, declMax, link)
	m.Mem = &lim
	m.Exports = append(m.Exports, wb.Export{Name: "memory", Kind: wb.KindMemory, Idx: 0})
	return m.Encode()
}

// ---------------------------------------------------------------- alphabets

var offsetAlphabet = []uint64{0, 1, 7, 1<<16 - 1, 1 << 16, 1<<31 - 1, 1 << 31, 1<<32 - 1}

// baseAlphabet returns the dynamic bases for an access of width w at static offset off on a memory of `size` bytes
// (size2 = a second relevant size, e.g. the size before a grow; 0 = none).
func baseAlphabet(size, size2 uint64, off, w uint64, atomic bool) []uint32 {
	set := map[uint32]bool{}
	add := func(v int64) { set[uint32(uint64(v))] = true } // wraps modulo 2^32
	for _, v := range []int64{0, 1, 1<<31 - 1, 1 << 31, 1<<31 + 1, 1<<32 - int64(w), 1<<32 - 1} {
		add(v)
	}
	rel := func(sz uint64) {
		s, W, O := int64(sz), int64(w), int64(off)
		for _, v := range []int64{s - W - 1, s - W, s - W + 1, s - 1, s} {
			add(v)
		}
		// the same boundaries shifted by the static offset, plus the half-straddling address of two-part accesses
		for _, v := range []int64{s - O - W - 1, s - O - W, s - O - W + 1, s - O - 1, s - O} {
			add(v)
		}
		if W >= 2 {
			add(s - W/2)
			add(s - O - W/2)
		}
		if atomic {
			add(s - 2*W)
			add(s - O - 2*W)
		}
	}
	rel(size)
	if size2 != 0 && size2 != size {
		rel(size2)
	}
	out := make([]uint32, 0, len(set))
	for v := range set {
		out = append(out, v)
	}
	sort.Slice(out, func(i, j int) bool { return out[i] < out[j] })
	return out
}

// decisiveBases is the reduced base set used for constant-base functions in the quick tier (every constant base costs
// one compiled function): 0, the last in-bounds and first out-of-bounds base for this offset and width (for both
// relevant sizes), 2^31-1, 2^31 and 2^32-w.
func decisiveBases(size, size2 uint64, off, w uint64) []uint32 {
	set := map[uint32]bool{}
	add := func(v int64) { set[uint32(uint64(v))] = true }
	add(0)
	add(1<<31 - 1)
	add(1 << 31)
	add(1<<32 - int64(w))
	for _, sz := range []uint64{size, size2} {
		if sz == 0 && size != 0 {
			continue
		}
		add(int64(sz) - int64(off) - int64(w))
		add(int64(sz) - int64(off) - int64(w) + 1)
	}
	out := make([]uint32, 0, len(set))
	for v := range set {
		out = append(out, v)
	}
	sort.Slice(out, func(i, j int) bool { return out[i] < out[j] })
	return out
}
