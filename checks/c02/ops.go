package main

import (
	"encoding/binary"
	"fmt"

	"github.com/tetratelabs/wazero/verif/wb"
)

// ---------------------------------------------------------------- operation alphabet

type opKind int

const (
	kLoad opKind = iota
	kStore
	kVLoad
	kVLoadLane
	kVStore
	kVStoreLane
	kALoad
	kAStore
	kARmw
	kACmpxchg
	kAWait
	kANotify
	kFill
	kCopyDst
	kCopySrc
	kInit
)

// v128 load sub-kinds
const (
	vFull = iota
	vExt8s
	vExt8u
	vExt16s
	vExt16u
	vExt32s
	vExt32u
	vSplat
	vZero
)

// rmw sub-kinds
const (
	rAdd = iota
	rSub
	rAnd
	rOr
	rXor
	rXchg
)

type opDef struct {
	Name   string
	Kind   opKind
	Prefix byte   // 0, 0xfd, 0xfe, 0xfc
	Code   uint32 // opcode / sub-opcode
	W      uint64 // bytes accessed (bulk: the length operand, taken from the "offset" slot)
	VT     byte   // value type of the result (loads) / operand (stores)
	Signed bool
	Sub    int
	Align  uint32 // alignment exponent in the memarg
	Class  string // lowering class (for signatures and reduced products)
}

func (o *opDef) bulk() bool   { return o.Kind >= kFill }
func (o *opDef) atomic() bool { return o.Kind >= kALoad && o.Kind <= kANotify }
func (o *opDef) writes() bool {
	switch o.Kind {
	case kStore, kVStore, kVStoreLane, kAStore, kARmw, kACmpxchg, kFill, kCopyDst, kCopySrc, kInit:
		return true
	}
	return false
}

func log2(w uint64) uint32 {
	n := uint32(0)
	for w > 1 {
		w >>= 1
		n++
	}
	return n
}

var allOps = func() []*opDef {
	var ops []*opDef
	add := func(o opDef) { ops = append(ops, &o) }
	// 14 scalar loads, 9 scalar stores
	type sl struct {
		n      string
		c      uint32
		w      uint64
		vt     byte
		signed bool
	}
	for _, l := range []sl{
		{"i32.load", 0x28, 4, wb.I32, false}, {"i64.load", 0x29, 8, wb.I64, false}, {"f32.load", 0x2a, 4, wb.F32, false}, {"f64.load", 0x2b, 8, wb.F64, false},
		{"i32.load8_s", 0x2c, 1, wb.I32, true}, {"i32.load8_u", 0x2d, 1, wb.I32, false}, {"i32.load16_s", 0x2e, 2, wb.I32, true}, {"i32.load16_u", 0x2f, 2, wb.I32, false},
		{"i64.load8_s", 0x30, 1, wb.I64, true}, {"i64.load8_u", 0x31, 1, wb.I64, false}, {"i64.load16_s", 0x32, 2, wb.I64, true}, {"i64.load16_u", 0x33, 2, wb.I64, false},
		{"i64.load32_s", 0x34, 4, wb.I64, true}, {"i64.load32_u", 0x35, 4, wb.I64, false},
	} {
		add(opDef{Name: l.n, Kind: kLoad, Code: l.c, W: l.w, VT: l.vt, Signed: l.signed, Class: "load"})
	}
	for _, l := range []sl{
		{"i32.store", 0x36, 4, wb.I32, false}, {"i64.store", 0x37, 8, wb.I64, false}, {"f32.store", 0x38, 4, wb.F32, false}, {"f64.store", 0x39, 8, wb.F64, false},
		{"i32.store8", 0x3a, 1, wb.I32, false}, {"i32.store16", 0x3b, 2, wb.I32, false}, {"i64.store8", 0x3c, 1, wb.I64, false}, {"i64.store16", 0x3d, 2, wb.I64, false},
		{"i64.store32", 0x3e, 4, wb.I64, false},
	} {
		add(opDef{Name: l.n, Kind: kStore, Code: l.c, W: l.w, VT: l.vt, Class: "store"})
	}
	// v128
	add(opDef{Name: "v128.load", Kind: kVLoad, Prefix: 0xfd, Code: 0, W: 16, VT: wb.V128, Sub: vFull, Class: "v128.load"})
	for i, n := range []string{"v128.load8x8_s", "v128.load8x8_u", "v128.load16x4_s", "v128.load16x4_u", "v128.load32x2_s", "v128.load32x2_u"} {
		add(opDef{Name: n, Kind: kVLoad, Prefix: 0xfd, Code: uint32(1 + i), W: 8, VT: wb.V128, Sub: vExt8s + i, Class: "v128.load_ext"})
	}
	for i, w := range []uint64{1, 2, 4, 8} {
		add(opDef{Name: fmt.Sprintf("v128.load%d_splat", w*8), Kind: kVLoad, Prefix: 0xfd, Code: uint32(7 + i), W: w, VT: wb.V128, Sub: vSplat, Class: "v128.load_splat"})
	}
	add(opDef{Name: "v128.load32_zero", Kind: kVLoad, Prefix: 0xfd, Code: 92, W: 4, VT: wb.V128, Sub: vZero, Class: "v128.load_zero"})
	add(opDef{Name: "v128.load64_zero", Kind: kVLoad, Prefix: 0xfd, Code: 93, W: 8, VT: wb.V128, Sub: vZero, Class: "v128.load_zero"})
	add(opDef{Name: "v128.store", Kind: kVStore, Prefix: 0xfd, Code: 11, W: 16, VT: wb.V128, Class: "v128.store"})
	for i, w := range []uint64{1, 2, 4, 8} {
		add(opDef{Name: fmt.Sprintf("v128.load%d_lane", w*8), Kind: kVLoadLane, Prefix: 0xfd, Code: uint32(84 + i), W: w, VT: wb.V128, Sub: int(16/w) - 1, Class: "v128.load_lane"})
	}
	for i, w := range []uint64{1, 2, 4, 8} {
		add(opDef{Name: fmt.Sprintf("v128.store%d_lane", w*8), Kind: kVStoreLane, Prefix: 0xfd, Code: uint32(88 + i), W: w, VT: wb.V128, Sub: int(16/w) - 1, Class: "v128.store_lane"})
	}
	// atomics
	add(opDef{Name: "memory.atomic.notify", Kind: kANotify, Prefix: 0xfe, Code: 0x00, W: 4, VT: wb.I32, Align: 2, Class: "atomic.notify"})
	add(opDef{Name: "memory.atomic.wait32", Kind: kAWait, Prefix: 0xfe, Code: 0x01, W: 4, VT: wb.I32, Align: 2, Class: "atomic.wait"})
	add(opDef{Name: "memory.atomic.wait64", Kind: kAWait, Prefix: 0xfe, Code: 0x02, W: 8, VT: wb.I64, Align: 3, Class: "atomic.wait"})
	type at struct {
		t  string
		w  uint64
		vt byte
		nm string // narrow suffix
	}
	widths := []at{{"i32", 4, wb.I32, ""}, {"i64", 8, wb.I64, ""}, {"i32", 1, wb.I32, "8"}, {"i32", 2, wb.I32, "16"}, {"i64", 1, wb.I64, "8"}, {"i64", 2, wb.I64, "16"}, {"i64", 4, wb.I64, "32"}}
	for i, a := range widths {
		n := a.t + ".atomic.load"
		if a.nm != "" {
			n += a.nm + "_u"
		}
		add(opDef{Name: n, Kind: kALoad, Prefix: 0xfe, Code: uint32(0x10 + i), W: a.w, VT: a.vt, Align: log2(a.w), Class: "atomic.load"})
	}
	for i, a := range widths {
		add(opDef{Name: a.t + ".atomic.store" + a.nm, Kind: kAStore, Prefix: 0xfe, Code: uint32(0x17 + i), W: a.w, VT: a.vt, Align: log2(a.w), Class: "atomic.store"})
	}
	for r, rn := range []string{"add", "sub", "and", "or", "xor", "xchg"} {
		for i, a := range widths {
			n := a.t + ".atomic.rmw" + a.nm + "." + rn
			if a.nm != "" {
				n += "_u"
			}
			add(opDef{Name: n, Kind: kARmw, Prefix: 0xfe, Code: uint32(0x1e + 7*r + i), W: a.w, VT: a.vt, Sub: r, Align: log2(a.w), Class: "atomic.rmw"})
		}
	}
	for i, a := range widths {
		n := a.t + ".atomic.rmw" + a.nm + ".cmpxchg"
		if a.nm != "" {
			n += "_u"
		}
		add(opDef{Name: n, Kind: kACmpxchg, Prefix: 0xfe, Code: uint32(0x48 + i), W: a.w, VT: a.vt, Align: log2(a.w), Class: "atomic.cmpxchg"})
	}
	// bulk: W is per-case (the length operand)
	add(opDef{Name: "memory.fill", Kind: kFill, Prefix: 0xfc, Code: 11, Class: "bulk"})
	add(opDef{Name: "memory.copy(dst)", Kind: kCopyDst, Prefix: 0xfc, Code: 10, Class: "bulk"})
	add(opDef{Name: "memory.copy(src)", Kind: kCopySrc, Prefix: 0xfc, Code: 10, Class: "bulk"})
	add(opDef{Name: "memory.init", Kind: kInit, Prefix: 0xfc, Code: 8, Class: "bulk"})
	return ops
}()

func opByName(n string) *opDef {
	for _, o := range allOps {
		if o.Name == n {
			return o
		}
	}
	return nil
}

// passive data segment used by memory.init (position dependent, never zero)
const segLen = 65536 + 64

var segBytes = func() []byte {
	b := make([]byte, segLen)
	for i := range b {
		b[i] = byte(0x80 | (i*7+i>>8)&0x7f)
	}
	return b
}()

const initSrcOff = 3 // memory.init reads the segment from this offset

// ---------------------------------------------------------------- code generation for one access

// locals of every generated function
const (
	lA   = 0 // i32
	lB   = 1 // i32
	lC   = 2 // i32 condition
	lV   = 3 // i64 operand
	lV2  = 4 // i64 second operand
	lX   = 5 // i64 source of the wrapped base
	lT   = 6 // i32 base
	lCnt = 7 // i32 loop counter
	lR0  = 8 // i64 results
	lR1  = 9
	lR2  = 10
	lVec = 11 // v128 scratch
)

var fnParams = []byte{wb.I32, wb.I32, wb.I32, wb.I64, wb.I64, wb.I64}
var fnResults = []byte{wb.I64, wb.I64, wb.I64}
var fnLocals = []byte{wb.I32, wb.I32, wb.I64, wb.I64, wb.I64, wb.V128}

func pushOperand(a *wb.Asm, vt byte) {
	switch vt {
	case wb.I32:
		a.LocalGet(lV).Op(0xa7)
	case wb.I64:
		a.LocalGet(lV)
	case wb.F32:
		a.LocalGet(lV).Op(0xa7).Op(0xbe)
	case wb.F64:
		a.LocalGet(lV).Op(0xbf)
	case wb.V128:
		a.LocalGet(lV).Simd(18).LocalGet(lV2).Simd(30).Op(1)
	}
}

// popResult stores the value on the stack into r0 (and r1 for vectors).
func popResult(a *wb.Asm, vt byte) {
	switch vt {
	case wb.I32:
		a.Op(0xad).LocalSet(lR0)
	case wb.I64:
		a.LocalSet(lR0)
	case wb.F32:
		a.Op(0xbc).Op(0xad).LocalSet(lR0)
	case wb.F64:
		a.Op(0xbd).LocalSet(lR0)
	case wb.V128:
		a.LocalSet(lVec)
		a.LocalGet(lVec).Simd(29).Op(0).LocalSet(lR0)
		a.LocalGet(lVec).Simd(29).Op(1).LocalSet(lR1)
	}
}

// emitAcc emits the access under test with static offset off (bulk: length off) on the base held in local bl.
func emitAcc(a *wb.Asm, o *opDef, off uint64, bl uint32) {
	memarg := func() {
		switch o.Prefix {
		case 0:
			a.Mem(byte(o.Code), o.Align, off)
		case 0xfd:
			a.SimdMem(o.Code, o.Align, off)
		case 0xfe:
			a.AtomicMem(o.Code, o.Align, off)
		}
	}
	if o.Kind != kCopySrc {
		a.LocalGet(bl)
	}
	switch o.Kind {
	case kLoad, kVLoad, kALoad:
		memarg()
		popResult(a, o.VT)
	case kStore, kVStore, kAStore:
		pushOperand(a, o.VT)
		memarg()
	case kVLoadLane:
		pushOperand(a, wb.V128)
		memarg()
		a.Op(byte(o.Sub))
		popResult(a, wb.V128)
	case kVStoreLane:
		pushOperand(a, wb.V128)
		memarg()
		a.Op(byte(o.Sub))
	case kARmw:
		pushOperand(a, o.VT)
		memarg()
		popResult(a, o.VT)
	case kACmpxchg:
		pushOperand(a, o.VT)
		if o.VT == wb.I32 {
			a.LocalGet(lV2).Op(0xa7)
		} else {
			a.LocalGet(lV2)
		}
		memarg()
		popResult(a, o.VT)
	case kAWait:
		pushOperand(a, o.VT)
		a.I64Const(0)
		memarg()
		popResult(a, wb.I32)
	case kANotify:
		pushOperand(a, wb.I32)
		memarg()
		popResult(a, wb.I32)
	case kFill:
		a.LocalGet(lV).Op(0xa7).I32Const(int32(uint32(off))).MemoryFill()
	case kCopyDst:
		a.I32Const(0).I32Const(int32(uint32(off))).MemoryCopy()
	case kCopySrc:
		a.I32Const(0).LocalGet(bl).I32Const(int32(uint32(off))).MemoryCopy()
	case kInit:
		a.I32Const(initSrcOff).I32Const(int32(uint32(off))).MemoryInit(0)
	}
}

// emitPre emits i32.load8_u at static offset p of the same base value and shifts the byte into r2.
func emitPre(a *wb.Asm, p uint64, bl uint32) {
	a.LocalGet(lR2).I64Const(8).Op(0x86)
	a.LocalGet(bl).Mem(0x2d, 0, p).Op(0xad)
	a.Op(0x84).LocalSet(lR2)
}

// ---------------------------------------------------------------- reference semantics of one access

func le(b []byte) uint64 {
	var t [8]byte
	copy(t[:], b)
	return binary.LittleEndian.Uint64(t[:])
}

func put(v uint64, w uint64) []byte {
	var t [8]byte
	binary.LittleEndian.PutUint64(t[:], v)
	return append([]byte{}, t[:w]...)
}

func mask(w uint64) uint64 {
	if w >= 8 {
		return ^uint64(0)
	}
	return uint64(1)<<(8*w) - 1
}

func sext(v uint64, w uint64) uint64 {
	sh := 64 - 8*w
	return uint64(int64(v<<sh) >> sh)
}

// effect computes, from the old bytes of the accessed range, the result values and the new bytes (nil = no write).
// v, v2 are the operands passed to the function.
func (o *opDef) effect(old []byte, v, v2 uint64) (r0, r1 uint64, nw []byte) {
	w := o.W
	resMask := ^uint64(0)
	if o.VT == wb.I32 || o.VT == wb.F32 {
		resMask = 0xffffffff
	}
	vec := func() []byte {
		b := make([]byte, 16)
		binary.LittleEndian.PutUint64(b, v)
		binary.LittleEndian.PutUint64(b[8:], v2)
		return b
	}
	switch o.Kind {
	case kLoad:
		x := le(old)
		if o.Signed {
			x = sext(x, w)
		}
		return x & resMask, 0, nil
	case kStore, kAStore:
		return 0, 0, put(v, w)
	case kVLoad:
		out := make([]byte, 16)
		switch o.Sub {
		case vFull:
			copy(out, old)
		case vExt8s, vExt8u:
			for i := 0; i < 8; i++ {
				x := uint64(old[i])
				if o.Sub == vExt8s {
					x = sext(x, 1)
				}
				binary.LittleEndian.PutUint16(out[2*i:], uint16(x))
			}
		case vExt16s, vExt16u:
			for i := 0; i < 4; i++ {
				x := le(old[2*i : 2*i+2])
				if o.Sub == vExt16s {
					x = sext(x, 2)
				}
				binary.LittleEndian.PutUint32(out[4*i:], uint32(x))
			}
		case vExt32s, vExt32u:
			for i := 0; i < 2; i++ {
				x := le(old[4*i : 4*i+4])
				if o.Sub == vExt32s {
					x = sext(x, 4)
				}
				binary.LittleEndian.PutUint64(out[8*i:], x)
			}
		case vSplat:
			for i := uint64(0); i < 16; i += w {
				copy(out[i:], old[:w])
			}
		case vZero:
			copy(out, old[:w])
		}
		return le(out[:8]), le(out[8:]), nil
	case kVLoadLane:
		b := vec()
		copy(b[uint64(o.Sub)*w:], old[:w])
		return le(b[:8]), le(b[8:]), nil
	case kVStore:
		return 0, 0, vec()
	case kVStoreLane:
		b := vec()
		return 0, 0, append([]byte{}, b[uint64(o.Sub)*w:uint64(o.Sub)*w+w]...)
	case kALoad:
		return le(old), 0, nil
	case kARmw:
		x := le(old)
		m := mask(w)
		var n uint64
		switch o.Sub {
		case rAdd:
			n = x + v
		case rSub:
			n = x - v
		case rAnd:
			n = x & v
		case rOr:
			n = x | v
		case rXor:
			n = x ^ v
		case rXchg:
			n = v
		}
		return x, 0, put(n&m, w)
	case kACmpxchg:
		x := le(old)
		// operands are always passed with the bits above the access width clear (numeric wrapping is C05's business)
		if x == v&mask(w) {
			return x, 0, put(v2&mask(w), w)
		}
		return x, 0, nil
	case kAWait:
		if le(old) == v&mask(w) {
			return 2, 0, nil // timed out immediately (timeout 0)
		}
		return 1, 0, nil
	case kANotify:
		return 0, 0, nil
	}
	panic("effect: kind")
}
