// C17 — read-only mounts cannot be modified by the guest.
//
// Exhaustive enumeration, on the real WASI host functions driven from a real guest, of
//   - single steps: every WASI path / descriptor operation on the mount root, path_open with ALL
//     combinations of oflags (2^4) x fdflags (2^5) x rights {0,READ,WRITE,READ|WRITE,all ones} x
//     lookupflags (2) x every path of a fixed alphabet;
//   - two-step words: every path_open that succeeded, followed by every mutating descriptor operation
//     on the new descriptor and every mutating path operation relative to it (thorough: three steps);
//
// for the three mount kinds that promise immutability (WithReadOnlyDirMount, WithFSMount(os.DirFS),
// WithFSMount(fstest.MapFS)). State invariant after EVERY step (including the closing fd_close): the
// recursive snapshot of the host sandbox — the mount and everything next to it — equals the initial
// one. At the end of every shard every file is read through the mount and must deliver its content.
package main

import (
	"bytes"
	"encoding/json"
	"fmt"
	"os"
	"runtime"
	"runtime/pprof"
	"sort"
	"strings"
	"sync"
	"sync/atomic"
	"time"

	"github.com/tetratelabs/wazero/internal/wasip1"
	"github.com/tetratelabs/wazero/verif/fw"
)

// ---------------------------------------------------------------- alphabets

var basePaths = []string{
	"file.txt", "empty", "dir", "dir/child.txt", "link", "linkout", "dangle", // each node
	"missing", "dir/missing", // missing
	"./file.txt", "./new", // ./x
	"dir/", "file.txt/", "missing/", // trailing slash
	".", // the mount root itself
}

// symPaths: symlink to a directory (with trailing slash, through it, "/."), symlink chains, a dangling
// symlink inside the mount, symlinks to "." and "..", and a new name behind a directory symlink.
var symPaths = []string{"dirlink", "dirlink/", "dirlink/child.txt", "dirlink/.", "dirlink/new", "link2", "dirlink2", "danglein", "dotlink", "uplink"}

var quickPaths = append(append([]string{}, basePaths...), symPaths...)

func isSymPath(p string) bool {
	for _, q := range symPaths {
		if p == q {
			return true
		}
	}
	return false
}

var thoroughExtraPaths = []string{"/file.txt", "../outside.txt", "dir/../new2", "link/", "dir/.", "", "dangle/", "linkout/",
	"dirlink2/", "dirlink2/child.txt", "dotlink/", "dotlink/dirlink/child.txt", "uplink/", "uplink/outside.txt", "danglein/", "link2/"}

var allRights = []uint64{0, rRead, rWrite, rRead | rWrite, rAll}

const (
	fstA    = wasip1.FstflagsAtim
	fstANow = wasip1.FstflagsAtimNow
	fstM    = wasip1.FstflagsMtim
	fstMNow = wasip1.FstflagsMtimNow
)

// fdTails: words appended after a successful path_open, acting on the new descriptor.
func fdTails(thorough bool) [][]step {
	t := [][]step{
		{{Op: "fd_write", Fd: "new"}},
		{{Op: "fd_pwrite", Fd: "new", A: 0}},
		{{Op: "fd_pwrite", Fd: "new", A: 100}},
		{{Op: "fd_allocate", Fd: "new", A: 0, B: 100}},
		{{Op: "fd_filestat_set_size", Fd: "new", A: 0}},
		{{Op: "fd_filestat_set_size", Fd: "new", A: 100}},
		{{Op: "fd_filestat_set_times", Fd: "new", Fst: fstA | fstM}},
		{{Op: "fd_filestat_set_times", Fd: "new", Fst: fstMNow}},
		{{Op: "fd_filestat_set_times", Fd: "new", Fst: fstA}},
		{{Op: "fd_fdstat_set_flags", Fd: "new", Fdflags: wasip1.FD_APPEND}, {Op: "fd_write", Fd: "new"}},
		{{Op: "fd_renumber", Fd: "new"}, {Op: "fd_write", Fd: "ren"}},
		{{Op: "fd_sync", Fd: "new"}},
		{{Op: "fd_datasync", Fd: "new"}},
	}
	if thorough {
		for fst := uint16(0); fst < 16; fst++ {
			if fst != fstA|fstM && fst != fstMNow && fst != fstA {
				t = append(t, []step{{Op: "fd_filestat_set_times", Fd: "new", Fst: fst}})
			}
		}
		for ff := uint16(0); ff < 32; ff++ {
			if ff != wasip1.FD_APPEND {
				t = append(t, []step{{Op: "fd_fdstat_set_flags", Fd: "new", Fdflags: ff}, {Op: "fd_write", Fd: "new"}})
			}
		}
		for _, sz := range []int64{3, 1 << 40, -1} {
			t = append(t, []step{{Op: "fd_filestat_set_size", Fd: "new", A: sz}})
		}
		t = append(t,
			[]step{{Op: "fd_allocate", Fd: "new", A: 100, B: 1 << 20}},
			[]step{{Op: "fd_allocate", Fd: "new", A: 0, B: 1}},
			[]step{{Op: "fd_pwrite", Fd: "new", A: 1 << 40}},
			[]step{{Op: "fd_advise", Fd: "new", A: 4}},
			[]step{{Op: "fd_fdstat_set_rights", Fd: "new", Rights: rAll}, {Op: "fd_write", Fd: "new"}},
			[]step{{Op: "fd_seek", Fd: "new", A: 2}, {Op: "fd_write", Fd: "new"}},
			[]step{{Op: "fd_read", Fd: "new"}, {Op: "fd_write", Fd: "new"}},
			[]step{{Op: "fd_readdir", Fd: "new"}, {Op: "fd_filestat_set_times", Fd: "new", Fst: fstM}},
		)
	}
	return t
}

// pathTails: mutating path operations RELATIVE TO the new descriptor. For a descriptor that is not a
// directory every one of them stops at the ENOTDIR test in atPath before it looks at the path, so one
// path per operation is enumerated there; directories get the full set.
func pathTails(isDir, thorough, ext bool) [][]step {
	q := []string{"nd"}
	if isDir || thorough {
		q = []string{"child.txt", "file.txt", "dir", "nd"}
		if ext {
			q = []string{"child.txt", "file.txt", "dir", "dirlink", "nd"}
		}
	}
	var t [][]step
	one := func(s step) { s.Fd = "new"; t = append(t, []step{s}) }
	for _, p := range q {
		one(step{Op: "path_create_directory", Path: p})
		one(step{Op: "path_remove_directory", Path: p})
		one(step{Op: "path_unlink_file", Path: p})
		one(step{Op: "path_rename", Path: p, Path2: "nd2"})
		one(step{Op: "path_link", Path: p, Path2: "nd2"})
		if p == "nd" || p == "child.txt" {
			one(step{Op: "path_symlink", Path: p, Path2: "child.txt"})
		}
		for lk := uint16(0); lk < 2; lk++ {
			one(step{Op: "path_filestat_set_times", Path: p, Lookup: lk, Fst: fstA | fstM})
		}
		for _, of := range []uint16{0, wasip1.O_CREAT, wasip1.O_TRUNC} {
			one(step{Op: "path_open", Path: p, Lookup: 1, Oflags: of, Rights: rRead})
		}
	}
	return t
}

// rootPathOps: every path operation as a single step on the mount root.
func rootPathOps(paths []string) []step {
	var s []step
	for _, p := range paths {
		s = append(s,
			step{Op: "path_create_directory", Path: p},
			step{Op: "path_remove_directory", Path: p},
			step{Op: "path_unlink_file", Path: p},
			step{Op: "path_readlink", Path: p})
		for lk := uint16(0); lk < 2; lk++ {
			s = append(s, step{Op: "path_filestat_get", Path: p, Lookup: lk})
			for fst := uint16(0); fst < 16; fst++ {
				s = append(s, step{Op: "path_filestat_set_times", Path: p, Lookup: lk, Fst: fst})
			}
		}
		for _, q := range paths {
			s = append(s, step{Op: "path_rename", Path: p, Path2: q})
			s = append(s, step{Op: "path_link", Path: p, Path2: q, Lookup: 0}, step{Op: "path_link", Path: p, Path2: q, Lookup: 1})
		}
		for _, tgt := range []string{"file.txt", "../outside.txt", "x"} {
			s = append(s, step{Op: "path_symlink", Path: p, Path2: tgt})
		}
	}
	return s
}

// rootFdOps: every descriptor operation as a single step on the mount root descriptor itself.
func rootFdOps() []step {
	s := []step{
		{Op: "fd_write"}, {Op: "fd_pwrite"}, {Op: "fd_pwrite", A: 100}, {Op: "fd_read"}, {Op: "fd_pread"},
		{Op: "fd_allocate", A: 0, B: 100}, {Op: "fd_allocate", A: 100, B: 1 << 40}, {Op: "fd_advise", A: 4},
		{Op: "fd_filestat_set_size", A: 0}, {Op: "fd_filestat_set_size", A: 3}, {Op: "fd_filestat_set_size", A: 100}, {Op: "fd_filestat_set_size", A: -1},
		{Op: "fd_fdstat_set_rights", Rights: 0}, {Op: "fd_fdstat_set_rights", Rights: rAll},
		{Op: "fd_sync"}, {Op: "fd_datasync"}, {Op: "fd_seek", A: 0}, {Op: "fd_seek", A: 5}, {Op: "fd_tell"},
		{Op: "fd_fdstat_get"}, {Op: "fd_filestat_get"}, {Op: "fd_prestat_get"}, {Op: "fd_prestat_dir_name"}, {Op: "fd_readdir"},
	}
	for fst := uint16(0); fst < 16; fst++ {
		s = append(s, step{Op: "fd_filestat_set_times", Fst: fst})
	}
	for ff := uint16(0); ff < 32; ff++ {
		s = append(s, step{Op: "fd_fdstat_set_flags", Fdflags: ff})
	}
	s = append(s, step{Op: "fd_renumber"}, step{Op: "fd_close"}) // may kill the preopen: the world is re-instantiated afterwards
	return s
}

// ---------------------------------------------------------------- explorer

const errSlots = 80

type stats struct {
	byOp      [][errSlots]int64 // [op index][errno] (errno clamped; last slot = trap)
	outcomes  map[string]int64
	steps     int64
	words     int64
	nontriv   int64
	opensOK   int64
	opensExt  int64
	derivs    int64
	derivRO   int64
	derivRW   int64
	dirOpens  int64
	reads     int64
	resets    int64
	fullSnaps int64
}

func newStats() *stats {
	return &stats{outcomes: map[string]int64{}, byOp: make([][errSlots]int64, len(wasiFuncs))}
}

type explorer struct {
	run       *fw.Run
	tmp       string
	thorough  bool
	fullEvery int
	opIdx     map[string]int
	samples   *fw.Sampler
	mu        sync.Mutex
	total     [nKinds]*stats
	nonrepro  atomic.Int64
	confirmed sync.Map // signature -> *atomic.Int64 occurrences
	child     *neighResult // set in a child process (neigh.go): violations and notes are collected and returned to the supervisor
	provWords [nProvs]atomic.Int64
	capped    atomic.Bool
	neighExtra map[string]int64
}

func (e *explorer) merge(kind int, s *stats) {
	e.mu.Lock()
	defer e.mu.Unlock()
	t := e.total[kind]
	for k, v := range s.outcomes {
		t.outcomes[k] += v
	}
	for i := range s.byOp {
		for en, v := range s.byOp[i] {
			if v != 0 {
				if en == errSlots-1 {
					en = trapErr
				}
				t.outcomes[wasiFuncs[i].name+":"+errName(uint32(en))] += v
			}
		}
	}
	t.steps += s.steps
	t.words += s.words
	t.nontriv += s.nontriv
	t.opensOK += s.opensOK
	t.opensExt += s.opensExt
	t.derivs += s.derivs
	t.derivRO += s.derivRO
	t.derivRW += s.derivRW
	t.dirOpens += s.dirOpens
	t.reads += s.reads
	t.resets += s.resets
	t.fullSnaps += s.fullSnaps
}

func errName(e uint32) string {
	if e == trapErr {
		return "TRAP"
	}
	if e == 0 {
		return "OK"
	}
	return wasip1.ErrnoName(e)
}

// argClass: the part of the signature that names the input class of the failing step.
func argClass(s step) string {
	if s.Op != "path_open" {
		return ""
	}
	return ":" + bitNames((s.Oflags&1)|(s.Oflags>>2)&2, []string{"CREAT", "TRUNC"}) + ":rights=" + rightsName(s.Rights)
}

type replayCase struct {
	Mount string `json:"mount"`
	Cross bool   `json:"cross,omitempty"` // a writable WithDirMount is mounted next to the immutable one
	Prov  string `json:"provenance,omitempty"`
	Base  bool   `json:"base_tree,omitempty"`   // the small tree without the additional symlinks
	Neigh bool   `json:"neighbour,omitempty"`   // neighbour word (neigh.go): descriptors "new"/"ren"/"rw" belong to the writable mount
	Deriv []dop  `json:"derivation,omitempty"`  // kind "deriv": the FSConfig derivation
	Idx   int    `json:"mount_index,omitempty"` // kind "deriv": index of the mount under test (preopen 3+index)
	Word  []step `json:"word"`
}

func (w *world) rcase(word []step) replayCase {
	pn := ""
	if w.prov != pDirect {
		pn = provNames[w.prov]
	}
	return replayCase{kindNames[w.kind], w.cross, pn, !w.ext, w.neigh, w.deriv, w.derivIdx, append([]step{}, word...)}
}

// crossOps: operations with two descriptors, one on a WRITABLE mount ("rw": w.txt, wd/) and one on the
// immutable mount — moving or hard-linking entries across the mount boundary in both directions.
func crossOps(paths []string) []step {
	var s []step
	for _, p := range paths {
		s = append(s,
			step{Op: "path_rename", Fd: "rw", Path: "w.txt", Fd2: "pre", Path2: p},
			step{Op: "path_rename", Fd: "rw", Path: "wd", Fd2: "pre", Path2: p},
			step{Op: "path_rename", Fd: "pre", Path: p, Fd2: "rw", Path2: "got"},
			step{Op: "path_rename", Fd: "pre", Path: p, Fd2: "rw", Path2: "w.txt"},
		)
		for lk := uint16(0); lk < 2; lk++ {
			s = append(s,
				step{Op: "path_link", Fd: "rw", Path: "w.txt", Fd2: "pre", Path2: p, Lookup: lk},
				step{Op: "path_link", Fd: "pre", Path: p, Fd2: "rw", Path2: "got", Lookup: lk},
			)
		}
	}
	return s
}

// runWord executes the word from the baseline state, evaluates the invariant after every step, then
// closes what the word opened (each fd_close is a step too). It returns the errnos of the word's own
// steps and whether the invariant held throughout.
func (e *explorer) runWord(w *world, st *stats, word []step) ([]uint32, bool) {
	errs := make([]uint32, 0, len(word))
	executed := make([]step, 0, len(word)+2)
	st.words++
	do := func(s step) (uint32, bool) {
		en := w.exec(s)
		executed = append(executed, s)
		st.steps++
		if slot := en; slot < errSlots-1 {
			st.byOp[e.opIdx[s.Op]][slot]++
		} else {
			st.byOp[e.opIdx[s.Op]][errSlots-1]++
		}
		if !bytes.Equal(w.fingerprint(), w.baseFP) {
			e.changed(w, st, executed, w.snapshot())
			return en, false
		}
		return en, true
	}
	for _, s := range word {
		en, ok := do(s)
		errs = append(errs, en)
		if !ok {
			return errs, false
		}
	}
	for len(w.open) > 0 {
		sym := "new"
		if w.open[0] == renFD {
			sym = "ren"
		}
		en, ok := do(step{Op: "fd_close", Fd: sym})
		if !ok {
			return errs, false
		}
		if en != 0 { // cannot close: start over with a fresh instance (tree is unchanged)
			w.instantiate()
			break
		}
	}
	// unconditional full recursive re-read (names, symlink targets, content hashes) every fullEvery words
	if w.sinceFull++; w.sinceFull >= e.fullEvery {
		w.sinceFull = 0
		st.fullSnaps++
		if cur := w.snapshot(); cur != w.baseline {
			e.note("full snapshot differs although every per-step fingerprint since the last full snapshot (<= %d words) matched", e.fullEvery)
			e.changed(w, st, executed, cur)
			return errs, false
		}
	}
	return errs, true
}

// changed: the invariant failed after the last executed step. Re-run the word on a fresh tree and a
// fresh instance; only a reproduced change is reported.
func (e *explorer) changed(w *world, st *stats, executed []step, cur string) {
	effect, detail := diffSnap(w.baseline, cur)
	last := executed[len(executed)-1]
	sig := w.sigPrefix() + ":" + last.Op + w.fdSide(last) + argClass(last) + ":" + effect
	w.freshTree()
	st.resets++
	at, eff2 := len(executed)-1, effect
	if e.confirmations(sig) <= confirmPerSignature { // every signature is confirmed by replay on its first occurrences
		at, eff2 = replayWord(w, executed, nil)
		w.freshTree()
		st.resets++
	}
	var names []string
	for _, s := range executed {
		names = append(names, s.String())
	}
	if w.kind == kDeriv {
		detail = derivString(w.deriv) + fmt.Sprintf(", mount %d under test: ", w.derivIdx) + detail
	}
	what := fmt.Sprintf("mount=%s word=[%s]: step %d changed the host state: %s", kindNames[w.kind], strings.Join(names, " ; "), len(executed), detail)
	if at != len(executed)-1 || eff2 != effect {
		e.nonrepro.Add(1)
		e.note("NOT REPRODUCED (first run: %s; second run: change at step %d effect %q): %s", effect, at+1, eff2, what)
		return
	}
	st.outcomes["CHANGED:"+sig]++
	e.violation(sig, what, w.rcase(executed))
}

const confirmPerSignature = 16

func (e *explorer) confirmations(sig string) int64 {
	v, _ := e.confirmed.LoadOrStore(sig, new(atomic.Int64))
	return v.(*atomic.Int64).Add(1)
}

// sigPrefix: mount kind, plus the configuration provenance when it is not the direct one.
func (w *world) sigPrefix() string {
	if w.neigh {
		return kindNames[w.kind] + "+neighbour"
	}
	if w.kind == kDeriv {
		return derivClass(derivModel(w.deriv), w.derivIdx)
	}
	if w.prov != pDirect {
		return kindNames[w.kind] + "@" + provNames[w.prov]
	}
	return kindNames[w.kind]
}

// replayWord runs the steps on the world's current (fresh) state and returns the index of the first
// step after which the snapshot differs (-1 if none) and the effect class.
func replayWord(w *world, word []step, log func(string)) (int, string) {
	for i, s := range word {
		en := w.exec(s)
		cur := w.snapshot()
		if log != nil {
			log(fmt.Sprintf("step %d: %s -> %s", i+1, s, errName(en)))
		}
		if cur != w.baseline {
			eff, detail := diffSnap(w.baseline, cur)
			if log != nil {
				log(fmt.Sprintf("  HOST STATE CHANGED (%s): %s", eff, detail))
			}
			return i, eff
		}
	}
	return -1, ""
}

// finalRead: every file is still readable through the mount with its content.
func (e *explorer) finalRead(w *world, st *stats) {
	for _, pc := range readable(w.kind, w.ext) {
		got, en := w.readThrough(pc[0])
		st.reads++
		st.outcomes["read-through:"+errName(en)]++
		if en != 0 || got != pc[1] {
			e.violation(w.sigPrefix()+":read-through-mount:"+pc[0],
				fmt.Sprintf("mount=%s: reading %q through the mount after the shard gives errno=%s content=%q, want %q", kindNames[w.kind], pc[0], errName(en), got, pc[1]),
				w.rcase(nil))
		}
	}
	if cur := w.snapshot(); cur != w.baseline {
		_, detail := diffSnap(w.baseline, cur)
		e.violation(w.sigPrefix()+":read-through-mount:changed", "reading through the mount changed the host state: "+detail, w.rcase(nil))
		w.freshTree()
	}
}

func nontrivial(errs []uint32) bool {
	// a word is non-trivial when its last step got past argument validation, i.e. reached the mounted
	// file system object or the descriptor table with a live descriptor.
	switch errs[len(errs)-1] {
	case uint32(wasip1.ErrnoInval), uint32(wasip1.ErrnoFault), uint32(wasip1.ErrnoPerm), uint32(wasip1.ErrnoNotdir), trapErr:
		return false
	}
	return true
}

// extendedFdflags: for the additional mount kinds (dualfs, rwfile, subfs, richfs) the quick tier runs the
// complete single-step flag product but extends a successful open to two-step words only for these
// fdflags values (none, APPEND, NONBLOCK, DSYNC|RSYNC|SYNC, all); thorough extends all 32.
var extendedFdflags = map[uint16]bool{0: true, wasip1.FD_APPEND: true, wasip1.FD_NONBLOCK: true,
	wasip1.FD_DSYNC | wasip1.FD_RSYNC | wasip1.FD_SYNC: true, 31: true}

// openShard: all oflags x fdflags for one (mount, path, lookup, rights); each successful open is
// followed by every tail.
func (e *explorer) openShard(kind int, path string, lookup uint16, rights uint64) {
	st := newStats()
	symPath := isSymPath(path)
	// the extended tree (6 more symlinks, 60% more lstat work per step) is used where it matters: symlink
	// paths and opens that can yield a directory descriptor; thorough uses it everywhere
	ext := e.thorough || symPath || path == "." || path == "dir" || path == "dir/"
	w := newWorld(kind, e.tmp, false, pDirect, ext)
	defer func() { w.close(); e.merge(kind, st) }()
	fdT := fdTails(e.thorough)
	for of := uint16(0); of < 16; of++ {
		for ff := uint16(0); ff < 32; ff++ {
			if e.run.Expired() {
				e.capped.Store(true)
				return
			}
			open := step{Op: "path_open", Path: path, Lookup: lookup, Oflags: of, Fdflags: ff, Rights: rights}
			// single step (+ a descriptor query that tells what was opened)
			errs, ok := e.runWord(w, st, []step{open, {Op: "fd_fdstat_get", Fd: "new"}})
			if nontrivial(errs[:1]) {
				st.nontriv++
			}
			e.samples.Add(w.rcase([]step{open}))
			if !ok || errs[0] != 0 {
				continue
			}
			st.opensOK++
			if !e.thorough && kind > kMapFS && !extendedFdflags[ff] {
				continue // additional mount kinds, quick tier: sequences for a subset of fdflags (all oflags x rights x paths)
			}
			if !e.thorough && symPath && kind != kRODir {
				// symlink paths, quick tier: full sequences on rodir; dirfs fdflags 0/APPEND; dualfs fdflags 0;
				// the other kinds (no symlink semantics of their own: MapFS has none, the rest are os.DirFS
				// underneath like dirfs) run the single-step flag product only
				if !(kind == kDirFS && (ff == 0 || ff == wasip1.FD_APPEND)) && !(kind == kDualFS && ff == 0) {
					continue
				}
			}
			st.opensExt++
			isDir := errs[1] == 0 && w.bufFiletype() == wasip1.FILETYPE_DIRECTORY
			if isDir {
				st.dirOpens++
			}
			tails := append(append([][]step{}, fdT...), pathTails(isDir, e.thorough, w.ext)...)
			for _, t := range tails {
				word := append([]step{open}, t...)
				errs, _ := e.runWord(w, st, word)
				if len(errs) == len(word) && nontrivial(errs) {
					st.nontriv++
				}
			}
			if e.thorough && ff == 0 { // two descriptors: open ; second open ; descriptor op on either
				base := fdTails(false)
				seconds := []step{
					{Op: "path_open", Path: path, Lookup: 1, Rights: rRead},
					{Op: "path_open", Path: "dir", Lookup: 1, Oflags: wasip1.O_DIRECTORY, Rights: rRead},
					{Op: "path_open", Path: "file.txt", Lookup: 1, Fdflags: wasip1.FD_APPEND, Rights: rRead},
				}
				for _, second := range seconds {
					for _, t := range base {
						for _, target := range []string{"new", "new2"} {
							word := []step{open, second}
							for _, ts := range t {
								if ts.Fd == "new" {
									ts.Fd = target
								}
								word = append(word, ts)
							}
							errs, _ := e.runWord(w, st, word)
							if len(errs) == len(word) && nontrivial(errs) {
								st.nontriv++
							}
						}
					}
				}
			}
			if e.thorough && ff == 0 { // three-step words: open ; descriptor op ; descriptor op
				base := fdTails(false)
				for _, t1 := range base {
					for _, t2 := range base {
						if t1[0].Op == "fd_renumber" { // afterwards the descriptor is "ren"
							continue
						}
						word := append(append([]step{open}, t1...), t2...)
						errs, _ := e.runWord(w, st, word)
						if len(errs) == len(word) && nontrivial(errs) {
							st.nontriv++
						}
					}
				}
			}
		}
	}
	e.finalRead(w, st)
	st.resets += int64(w.resets)
}

// provOpenShard: under a non-direct configuration provenance, path_open with the flag/right combinations
// that ask for modification (and plain read opens), each successful one followed by every tail.
func (e *explorer) provOpenShard(kind, prov int, paths []string) {
	st := newStats()
	w := newWorld(kind, e.tmp, false, prov, false)
	defer func() { w.close(); e.merge(kind, st); e.provWords[prov].Add(st.words) }()
	fdT := fdTails(false)
	for _, p := range paths {
		for _, r := range []uint64{rRead, rWrite, rRead | rWrite} {
			for _, of := range []uint16{0, wasip1.O_CREAT, wasip1.O_TRUNC, wasip1.O_CREAT | wasip1.O_TRUNC, wasip1.O_CREAT | wasip1.O_EXCL, wasip1.O_DIRECTORY} {
				for _, ff := range []uint16{0, wasip1.FD_APPEND} {
					if e.run.Expired() {
						e.capped.Store(true)
						return
					}
					open := step{Op: "path_open", Path: p, Lookup: 1, Oflags: of, Fdflags: ff, Rights: r}
					errs, ok := e.runWord(w, st, []step{open, {Op: "fd_fdstat_get", Fd: "new"}})
					if nontrivial(errs[:1]) {
						st.nontriv++
					}
					if !ok || errs[0] != 0 {
						continue
					}
					st.opensOK++
					st.opensExt++
					isDir := errs[1] == 0 && w.bufFiletype() == wasip1.FILETYPE_DIRECTORY
					if isDir {
						st.dirOpens++
					}
					for _, t := range append(append([][]step{}, fdT...), pathTails(isDir, false, false)...) {
						word := append([]step{open}, t...)
						errs, _ := e.runWord(w, st, word)
						if len(errs) == len(word) && nontrivial(errs) {
							st.nontriv++
						}
					}
				}
			}
		}
	}
	e.finalRead(w, st)
}

// rootShard: single-step path and descriptor operations on the mount root.
func (e *explorer) rootShard(kind int, ops []step, fdOps, cross bool) {
	e.rootShardProv(kind, ops, fdOps, cross, pDirect)
}

func (e *explorer) rootShardProv(kind int, ops []step, fdOps, cross bool, prov int) {
	st := newStats()
	w := newWorld(kind, e.tmp, cross, prov, true)
	defer func() { e.provWords[prov].Add(st.words) }()
	defer func() { w.close(); e.merge(kind, st) }()
	for _, s := range ops {
		if e.run.Expired() {
			e.capped.Store(true)
			return
		}
		errs, _ := e.runWord(w, st, []step{s})
		if nontrivial(errs) {
			st.nontriv++
		}
		e.samples.Add(w.rcase([]step{s}))
		if cross {
			w.resetRW()
		}
		if fdOps && !w.preopenAlive() {
			st.outcomes["preopen-lost-after:"+s.Op]++
			w.instantiate()
		}
	}
	e.finalRead(w, st)
}

// ---------------------------------------------------------------- main

func main() {
	if len(os.Args) > 2 && os.Args[1] == "replay" {
		replayMain(os.Args[2])
		return
	}
	if fw.IsChild() {
		neighChild()
		return
	}
	run := fw.Start("C17", "exploration")
	tmp, err := os.MkdirTemp("", "c17-")
	must(err)
	cleanupRoot = tmp
	e := &explorer{run: run, tmp: tmp, thorough: run.Thorough(), samples: fw.NewSampler(14)}
	for k := range e.total {
		e.total[k] = newStats()
	}
	e.opIdx = map[string]int{}
	for i, f := range wasiFuncs {
		e.opIdx[f.name] = i
	}
	e.fullEvery = 8
	if e.thorough {
		e.fullEvery = 1
	}
	paths := append([]string{}, quickPaths...)
	if e.thorough {
		paths = append(paths, thoroughExtraPaths...)
	}

	var shards []func()
	for kind := 0; kind < kDeriv; kind++ {
		kind := kind
		for _, p := range paths {
			for lk := uint16(0); lk < 2; lk++ {
				for _, r := range allRights {
					p, lk, r := p, lk, r
					shards = append(shards, func() { e.openShard(kind, p, lk, r) })
				}
			}
		}
		rp := rootPathOps(paths)
		const chunk = 400
		for i := 0; i < len(rp); i += chunk {
			part := rp[i:min(i+chunk, len(rp))]
			shards = append(shards, func() { e.rootShard(kind, part, false, false) })
		}
		shards = append(shards, func() { e.rootShard(kind, rootFdOps(), true, false) })
		shards = append(shards, func() { e.rootShard(kind, crossOps(paths), false, true) })
		// configuration provenance: the same mount built in other, equivalent ways (quickPaths in both tiers)
		for prov := 1; prov < nProvs && kind <= kDualFS; prov++ { // provenances: the three standard kinds and dualfs
			prov := prov
			pr := rootPathOps(basePaths)
			for i := 0; i < len(pr); i += chunk {
				part := pr[i:min(i+chunk, len(pr))]
				shards = append(shards, func() { e.rootShardProv(kind, part, false, false, prov) })
			}
			shards = append(shards, func() { e.rootShardProv(kind, rootFdOps(), true, false, prov) })
			for i := 0; i < len(basePaths); i += 5 {
				part := basePaths[i:min(i+5, len(basePaths))]
				shards = append(shards, func() { e.provOpenShard(kind, prov, part) })
			}
		}
	}
	if pf := os.Getenv("C17_CPUPROFILE"); pf != "" { // developer aid only
		f, err := os.Create(pf)
		must(err)
		pprof.StartCPUProfile(f)
		defer pprof.StopCPUProfile()
	}
	// configuration derivations (both tiers: all 6 174 derivations of <= 3 calls)
	ds := allDerivations()
	for i := 0; i < len(ds); i += 100 {
		part := ds[i:min(i+100, len(ds))]
		shards = append(shards, func() { e.derivShard(part) })
	}
	t0 := time.Now()
	if os.Getenv("C17_ONLY") == "neigh" { // developer aid only: measure the neighbour family alone
		shards = shards[:1]
	}
	fw.Parallel(len(shards), runtime.NumCPU(), func(i int) { shards[i]() })
	// neighbour words: one child process per worker, one world at a time per process (host descriptor numbers
	// are process-wide, so this family must not share a process with concurrently running worlds)
	neighCases := e.neighSupervise()
	wall := time.Since(t0).Seconds()
	pprof.StopCPUProfile()
	os.RemoveAll(tmp)
	if e.capped.Load() {
		run.Capped("budget")
	}
	if n := e.nonrepro.Load(); n > 0 {
		// only a harness error when nothing else was found (a state-dependent breakage, e.g. a stale host descriptor
		// number, can produce changes that do not reproduce next to changes that do; those carry the verdict)
		if run.Violations() == 0 {
			fw.Fatalf("%d host-state changes did not reproduce on a fresh tree (harness nondeterminism); see notes", n)
		}
		run.Note("%d host-state changes did not reproduce on a fresh tree and were dropped", n)
	}

	outcomes := map[string]int64{}
	bounds := map[string]any{
		"paths": paths, "oflags": "all 16", "fdflags": "all 32", "rights": []string{"0", "READ", "WRITE", "READ|WRITE", "ALL"}, "lookupflags": "0,1",
		"fd_tails": len(fdTails(e.thorough)), "path_tails_dir": len(pathTails(true, e.thorough, true)), "path_tails_nondir": len(pathTails(false, e.thorough, true)),
		"neighbour_words": neighBounds(e.thorough, neighCases), "provenances": provNames[:], "three_step_words": e.thorough, "two_descriptor_words": e.thorough, "full_snapshot_every_words": e.fullEvery, "shards": len(shards), "explore_wall_s": float64(int(wall*10)) / 10,
	}
	var steps, words, nontriv, reads, opensOK int64
	perKind := map[string]any{}
	for k, t := range e.total {
		for o, v := range t.outcomes {
			outcomes[o] += v
		}
		steps += t.steps
		words += t.words
		nontriv += t.nontriv
		reads += t.reads
		opensOK += t.opensExt
		perKind[kindNames[k]] = map[string]int64{"words": t.words, "steps_checked": t.steps, "nontrivial_words": t.nontriv,
			"successful_path_open_classes": t.opensOK, "extended_to_sequences": t.opensExt, "of_which_directories": t.dirOpens, "read_through_checks": t.reads, "tree_recreations": t.resets, "full_snapshots": t.fullSnaps}
	}
	provWords := map[string]int64{}
	for i := 1; i < nProvs; i++ {
		provWords[provNames[i]] = e.provWords[i].Load()
	}
	provWords[provNames[0]] = words
	for i := 1; i < nProvs; i++ {
		provWords[provNames[0]] -= e.provWords[i].Load()
	}
	// keep the evidence readable: outcome histogram sorted, CHANGED:* kept verbatim
	keys := make([]string, 0, len(outcomes))
	for k := range outcomes {
		keys = append(keys, k)
	}
	sort.Strings(keys)
	run.Finish(fw.Coverage{
		Evaluations: steps, DistinctNontriv: nontriv,
		Rule:    "one evaluation = one WASI call executed through the guest followed by a full snapshot comparison; a case is a (mount, word) tuple, every tuple is enumerated exactly once; non-trivial = the word's last step was not stopped by argument validation (errno other than EINVAL/EFAULT/EPERM/ENOTDIR)",
		Samples: e.samples.List(), Exhaustive: true, Outcomes: outcomes, Bounds: bounds,
		Extra: map[string]any{"derivations": map[string]int64{"derivations": e.total[kDeriv].derivs, "readonly_mounts_attacked": e.total[kDeriv].derivRO, "writable_mounts_twin_checked": e.total[kDeriv].derivRW},
			"neighbour_words": e.neighExtra, "words_per_provenance": provWords, "words": words, "successful_open_classes_extended_to_sequences": opensOK, "read_through_checks": reads, "per_mount": perKind},
	}, []string{
		"the host kernel is trusted for lstat/readdir/read used by the snapshot; atime is excluded (kernel updates it on reads) except for the poison value the guest tries to set",
		"one guest thread; concurrency between guests on the same mount is not exercised",
		"words start from the initial state (tree unchanged by the invariant, descriptors closed); a repeated path_open inside longer words is checked like any other step",
		"interpreter engine only: the WASI host functions and sysfs are engine-independent Go code",
		"linux/amd64 host (ext4 temp dir); other platforms' sysfs variants are not exercised",
	})
}

func replayMain(file string) {
	b, err := os.ReadFile(file)
	must(err)
	var doc struct {
		Signature string     `json:"signature"`
		Replay    replayCase `json:"replay"`
	}
	if err := json.Unmarshal(b, &doc); err != nil {
		fw.Fatalf("%s: %v", file, err)
	}
	tmp, err := os.MkdirTemp("", "c17-replay-")
	must(err)
	w := newWorld(kindByName(doc.Replay.Mount), tmp, doc.Replay.Cross, provByName(doc.Replay.Prov), !doc.Replay.Base)
	if doc.Replay.Neigh {
		w.neigh = true
		w.instantiate() // the baseline snapshot may have used the preopens: start from an untouched instance
	}
	if w.kind == kDeriv {
		w.setDerivation(doc.Replay.Deriv)
		w.pre, w.derivIdx = uint64(preFD+doc.Replay.Idx), doc.Replay.Idx
		fmt.Printf("derivation %s, mount %d under test; model: %v\n", derivString(doc.Replay.Deriv), doc.Replay.Idx, derivModel(doc.Replay.Deriv))
	}
	fmt.Printf("replaying %s on mount %s\n", doc.Signature, doc.Replay.Mount)
	at, _ := replayWord(w, doc.Replay.Word, func(s string) { fmt.Println(s) })
	bad := at >= 0
	if w.kind != kDeriv && (len(doc.Replay.Word) == 0 || !bad) {
		for _, pc := range readable(w.kind, w.ext) {
			got, en := w.readThrough(pc[0])
			fmt.Printf("read %q through the mount -> %s %q\n", pc[0], errName(en), got)
			if en != 0 || got != pc[1] {
				bad = true
			}
		}
	}
	w.close()
	os.RemoveAll(tmp)
	if bad {
		fmt.Println("REPLAY: still fails")
		os.Exit(1)
	}
	fmt.Println("REPLAY: host state unchanged")
}
