package main

// Neighbour words (added after seeded change c17-9 was missed).
//
// The property quantifies over ALL sequences of WASI calls — including calls whose descriptor belongs to a
// WRITABLE mount configured next to the immutable one. Such calls are allowed to change the writable
// mount; they must never change anything under the immutable mount. Between the two mounts the host
// process shares resources that wazero caches per open file (raw host descriptor numbers, host paths,
// directory streams); a stale cache on the writable side makes a legitimate write land on whatever host
// object the immutable mount acquired in the meantime. This family enumerates
//
//	S ; P ; R{1..n} ; T
//
//	S  which descriptor of the writable mount is used: its preopen, an opened directory ("wd", "."), an opened file
//	P  one operation (or reopen + renumber) on that descriptor that makes wazero touch / replace its host descriptor
//	   (fd_readdir, fd_readdir twice = rewind, fd_fdstat_set_flags, fd_seek, fd_read, fd_renumber, ...) or nothing
//	R  1..n (quick 2, thorough 3) operations that make the IMMUTABLE mount acquire, replace or release host
//	   descriptors (first use of its lazily opened preopen, fd_readdir, path_open of file / directory / ".",
//	   open+close, open+readdir, path_filestat_get)
//	T  one mutating operation through the writable descriptor (every descriptor mutator, and the path
//	   mutators relative to it)
//
// under the usual invariant after every step: the sandbox holding the immutable mount is unchanged. Every
// word starts on a FRESH guest instance (preopens are opened lazily, cached host descriptors live in the
// instance), and the family runs in child processes that execute one world at a time: host descriptor
// numbers are allocated process-wide (lowest free number), so sharing the process with other concurrently
// running worlds would make the reuse pattern — and with it the verdict — depend on scheduling.

import (
	"encoding/json"
	"fmt"
	"os"
	"runtime"
	"time"

	"github.com/tetratelabs/wazero/internal/wasip1"
	"github.com/tetratelabs/wazero/verif/fw"
)

// fdSide marks, in a signature, that the failing step went through a descriptor of the writable neighbour.
func (w *world) fdSide(s step) string {
	if !w.neigh {
		return ""
	}
	switch s.Fd {
	case "new", "ren", "rw":
		return "@rw"
	}
	return "@ro"
}

type neighSource struct {
	name string
	open []step // steps that produce the descriptor ("new"), empty for the preopen
	fd   string // symbolic descriptor used by P and T
	dir  bool
}

var neighSources = []neighSource{
	{"rw-preopen", nil, "rw", true},
	{"rw-dir", []step{{Op: "path_open", Fd: "rw", Path: "wd", Lookup: 1, Oflags: wasip1.O_DIRECTORY, Rights: rRead}}, "new", true},
	{"rw-dot", []step{{Op: "path_open", Fd: "rw", Path: ".", Lookup: 1, Rights: rRead}}, "new", true},
	{"rw-file", []step{{Op: "path_open", Fd: "rw", Path: "w.txt", Lookup: 1, Rights: rRead | rWrite}}, "new", false},
}

type neighPrefix struct {
	name  string
	steps []step // Fd is filled in with the source's descriptor
	ren   bool   // afterwards the descriptor is "ren"
}

// neighPrefixes: operations on the writable descriptor that may make the host file behind it be reopened,
// repositioned or renumbered (same set in both tiers).
func neighPrefixes(src neighSource, thorough bool) []neighPrefix {
	var one []neighPrefix
	if src.dir {
		one = []neighPrefix{
			{"none", nil, false},
			{"fd_readdir", []step{{Op: "fd_readdir"}}, false},
			{"fd_readdir*2", []step{{Op: "fd_readdir"}, {Op: "fd_readdir"}}, false},
			{"fd_filestat_get", []step{{Op: "fd_filestat_get"}}, false},
			{"fd_sync", []step{{Op: "fd_sync"}}, false},
		}
	} else {
		one = []neighPrefix{
			{"none", nil, false},
			{"set_flags(APPEND)", []step{{Op: "fd_fdstat_set_flags", Fdflags: wasip1.FD_APPEND}}, false},
			{"set_flags(0)", []step{{Op: "fd_fdstat_set_flags", Fdflags: 0}}, false},
			{"set_flags(NONBLOCK)", []step{{Op: "fd_fdstat_set_flags", Fdflags: wasip1.FD_NONBLOCK}}, false},
			{"fd_seek", []step{{Op: "fd_seek", A: 2}}, false},
			{"fd_read", []step{{Op: "fd_read"}}, false},
			{"fd_filestat_get", []step{{Op: "fd_filestat_get"}}, false},
		}
	}
	out := append([]neighPrefix{}, one...)
	_ = thorough // ordered pairs of prefix operations were dropped: 20 M words, beyond the thorough budget
	if src.fd == "new" { // not for the preopen: renumbering a preopen is C16's subject
		out = append(out, neighPrefix{"fd_renumber", []step{{Op: "fd_renumber"}}, true})
		if src.dir {
			out = append(out, neighPrefix{"fd_readdir;fd_renumber", []step{{Op: "fd_readdir"}, {Op: "fd_renumber"}}, true})
		} else {
			out = append(out, neighPrefix{"set_flags(APPEND);fd_renumber", []step{{Op: "fd_fdstat_set_flags", Fdflags: wasip1.FD_APPEND}, {Op: "fd_renumber"}}, true})
		}
	}
	return out
}

// neighROLetters: operations on the IMMUTABLE mount that acquire, replace or release host descriptors.
var neighROLetters = [][]step{
	{{Op: "fd_filestat_get", Fd: "pre"}}, // first use of the lazily opened preopen
	{{Op: "fd_readdir", Fd: "pre"}},      // first use + re-open of the directory stream
	{{Op: "path_open", Fd: "pre", Path: "file.txt", Lookup: 1, Rights: rRead}},
	{{Op: "path_open", Fd: "pre", Path: "dir", Lookup: 1, Oflags: wasip1.O_DIRECTORY, Rights: rRead}},
	{{Op: "path_open", Fd: "pre", Path: ".", Lookup: 1, Rights: rRead}},
	{{Op: "path_open", Fd: "pre", Path: "empty", Lookup: 1, Rights: rRead | rWrite}},
	{{Op: "path_filestat_get", Fd: "pre", Path: "dir/child.txt", Lookup: 1}},
	{{Op: "path_open", Fd: "pre", Path: "file.txt", Lookup: 1, Rights: rRead}, {Op: "fd_close", Fd: "last"}},
	{{Op: "path_open", Fd: "pre", Path: "dir", Lookup: 1, Oflags: wasip1.O_DIRECTORY, Rights: rRead}, {Op: "fd_readdir", Fd: "last"}},
}

// neighROSeqs: all sequences of 1..n letters.
func neighROSeqs(n int) [][]step {
	var out [][]step
	var rec func(cur []step, d int)
	rec = func(cur []step, d int) {
		if d > 0 {
			out = append(out, append([]step{}, cur...))
		}
		if d == n {
			return
		}
		for _, l := range neighROLetters {
			rec(append(append([]step{}, cur...), l...), d+1)
		}
	}
	rec(nil, 0)
	return out
}

// neighTails: mutating operations through the writable descriptor (Fd filled in by the caller).
func neighTails(dir, thorough bool) [][]step {
	t := [][]step{
		{{Op: "fd_filestat_set_times", Fst: fstA | fstM}},
		{{Op: "fd_filestat_set_times", Fst: fstMNow}},
		{{Op: "fd_filestat_set_times", Fst: fstA}},
		{{Op: "fd_filestat_set_times", Fst: fstM | fstANow}},
		{{Op: "fd_write"}},
		{{Op: "fd_pwrite", A: 0}},
		{{Op: "fd_filestat_set_size", A: 0}},
		{{Op: "fd_filestat_set_size", A: 100}},
		{{Op: "fd_allocate", A: 0, B: 100}},
		{{Op: "fd_sync"}},
		{{Op: "fd_datasync"}},
		{{Op: "fd_fdstat_set_flags", Fdflags: wasip1.FD_APPEND}, {Op: "fd_write"}},
	}
	if thorough {
		for fst := uint16(0); fst < 16; fst++ {
			if fst != fstA|fstM && fst != fstMNow && fst != fstA && fst != fstM|fstANow {
				t = append(t, []step{{Op: "fd_filestat_set_times", Fst: fst}})
			}
		}
		t = append(t, []step{{Op: "fd_pwrite", A: 100}}, []step{{Op: "fd_advise", A: 4}}, []step{{Op: "fd_read"}, {Op: "fd_write"}})
	}
	if dir { // path mutators relative to the writable descriptor (ENOTDIR before anything else for a file)
		t = append(t,
			[]step{{Op: "path_create_directory", Path: "nd"}},
			[]step{{Op: "path_remove_directory", Path: "wd"}},
			[]step{{Op: "path_unlink_file", Path: "w.txt"}},
			[]step{{Op: "path_rename", Path: "w.txt", Path2: "file.txt"}},
			[]step{{Op: "path_link", Path: "w.txt", Path2: "dir"}},
			[]step{{Op: "path_symlink", Path: "file.txt", Path2: "w.txt"}},
			[]step{{Op: "path_filestat_set_times", Path: ".", Lookup: 1, Fst: fstA | fstM}},
			[]step{{Op: "path_filestat_set_times", Path: "w.txt", Lookup: 1, Fst: fstA | fstM}},
			[]step{{Op: "path_open", Path: "file.txt", Lookup: 1, Oflags: wasip1.O_CREAT | wasip1.O_TRUNC, Rights: rRead | rWrite}},
		)
	}
	return t
}

// neighKinds: immutable mounts whose files are host descriptors. MapFS owns no host descriptor, so nothing a
// neighbour does can reach it through a host resource; it is not part of this family.
func neighKinds(thorough bool) []int {
	if thorough {
		return []int{kRODir, kDirFS, kDualFS, kRWFile, kSubFS, kRichFS}
	}
	return []int{kRODir, kDirFS, kDualFS}
}

type neighCase struct {
	kind int
	src  neighSource
	pre  neighPrefix
}

func neighCases(thorough bool) []neighCase {
	var cs []neighCase
	for _, k := range neighKinds(thorough) {
		for _, s := range neighSources {
			for _, p := range neighPrefixes(s, thorough) {
				cs = append(cs, neighCase{k, s, p})
			}
		}
	}
	return cs
}

func neighROLen(thorough bool) int {
	if thorough {
		return 3
	}
	return 2
}

func neighBounds(thorough bool, cases int) map[string]any {
	var kn, sn []string
	for _, k := range neighKinds(thorough) {
		kn = append(kn, kindNames[k])
	}
	for _, s := range neighSources {
		sn = append(sn, s.name)
	}
	return map[string]any{"mount_kinds": kn, "writable_descriptor_sources": sn, "cases_source_x_prefix_x_kind": cases,
		"ro_letters": len(neighROLetters), "ro_sequence_max": neighROLen(thorough), "ro_sequences": len(neighROSeqs(neighROLen(thorough))),
		"tails_dir": len(neighTails(true, thorough)), "tails_file": len(neighTails(false, thorough)), "fresh_instance_per_word": true, "process": "child processes, one world at a time"}
}

type neighViol struct {
	Sig    string     `json:"sig"`
	What   string     `json:"what"`
	Replay replayCase `json:"replay"`
}

type neighResult struct {
	Kind      int              `json:"kind"`
	Steps     int64            `json:"steps"`
	Words     int64            `json:"words"`
	Nontriv   int64            `json:"nontriv"`
	TailOK    int64            `json:"tail_ok"` // words whose mutating tail on the writable descriptor returned success
	Resets    int64            `json:"resets"`
	FullSnaps int64            `json:"full"`
	Reads     int64            `json:"reads"`
	Outcomes  map[string]int64 `json:"outcomes"`
	Viols     []neighViol      `json:"viols,omitempty"`
	Notes     []string         `json:"notes,omitempty"`
	Nonrepro  int64            `json:"nonrepro,omitempty"`
}

func (e *explorer) violation(sig, what string, replay any) {
	if e.child != nil {
		rc, _ := replay.(replayCase)
		if len(e.child.Viols) < 64 {
			e.child.Viols = append(e.child.Viols, neighViol{sig, what, rc})
		}
		return
	}
	e.run.Violation(sig, what, replay)
}

func (e *explorer) note(format string, a ...any) {
	if e.child != nil {
		if len(e.child.Notes) < 16 {
			e.child.Notes = append(e.child.Notes, fmt.Sprintf(format, a...))
		}
		return
	}
	e.run.Note(format, a...)
}

// neighShard: one (kind, source, prefix) case = all R sequences x all tails.
func (e *explorer) neighShard(c neighCase) {
	st := newStats()
	w := newWorld(c.kind, e.tmp, true, pDirect, true)
	w.neigh = true
	defer func() { w.close(); e.merge(c.kind, st) }()
	tfd := c.src.fd
	if c.pre.ren {
		tfd = "ren"
	}
	head := append([]step{}, c.src.open...)
	for _, s := range c.pre.steps {
		s.Fd = c.src.fd
		head = append(head, s)
	}
	tails := neighTails(c.src.dir, e.thorough)
	for _, ro := range neighROSeqs(neighROLen(e.thorough)) {
		for _, t := range tails {
			word := append(append([]step{}, head...), ro...)
			for _, s := range t {
				s.Fd = tfd
				word = append(word, s)
			}
			w.instantiate() // fresh instance: preopens not yet opened, no cached host descriptor
			errs, _ := e.runWord(w, st, word)
			if len(errs) == len(word) {
				if nontrivial(errs) {
					st.nontriv++
				}
				if errs[len(errs)-1] == 0 {
					e.child.TailOK++
				}
			}
			w.resetRW()
		}
	}
	w.instantiate()
	e.finalRead(w, st)
	st.resets += int64(w.resets)
}

// neighChild: child process; case i = neighCases[i]; the result travels back as one JSON line.
func neighChild() {
	run := fw.Start("C17", "exploration") // tier only; nothing is written by the child
	tmp := os.Getenv("C17_TMP")
	if tmp == "" {
		fw.Fatalf("child without C17_TMP")
	}
	tmp = fmt.Sprintf("%s/child-%d", tmp, os.Getpid()) // world directory names are numbered per process
	must(os.Mkdir(tmp, 0o755))
	runtime.GOMAXPROCS(2) // one world at a time; the second P is for the runtime's own goroutines
	thorough := run.Thorough()
	cases := neighCases(thorough)
	fw.ChildLoop(func(i int) string {
		e := &explorer{tmp: tmp, thorough: thorough, samples: fw.NewSampler(0), child: &neighResult{Kind: cases[i].kind}}
		for k := range e.total {
			e.total[k] = newStats()
		}
		e.opIdx = map[string]int{}
		for j, f := range wasiFuncs {
			e.opIdx[f.name] = j
		}
		e.fullEvery = 8
		if thorough {
			e.fullEvery = 1
		}
		e.neighShard(cases[i])
		t := e.total[cases[i].kind]
		r := e.child
		r.Steps, r.Words, r.Nontriv, r.Resets, r.FullSnaps, r.Reads, r.Outcomes = t.steps, t.words, t.nontriv, t.resets, t.fullSnaps, t.reads, t.outcomes
		r.Nonrepro = e.nonrepro.Load()
		b, err := json.Marshal(r)
		if err != nil {
			return "ERR " + err.Error()
		}
		return string(b)
	})
}

// neighSupervise runs all cases in child processes and merges their results. Returns the number of cases.
func (e *explorer) neighSupervise() int {
	cases := neighCases(e.thorough)
	extra := map[string]int64{"cases": int64(len(cases))}
	e.neighExtra = extra
	done := fw.Supervise(fw.SupOpts{N: len(cases), Workers: runtime.NumCPU(), CaseTimeout: 20 * time.Minute, Mode: "neigh",
		Env: []string{"C17_TMP=" + e.tmp}, Deadline: e.run.Deadline, Stop: e.run.Expired},
		func(i int, res string, crash *fw.Crash) {
			if crash != nil {
				os.RemoveAll(e.tmp)
				fw.Fatalf("neighbour-word child crashed on case %d (%s): %s", i, crash.Kind, fw.FirstLines(crash.Stderr, 12))
			}
			var r neighResult
			if err := json.Unmarshal([]byte(res), &r); err != nil {
				fw.Fatalf("neighbour-word child, case %d: bad result %q: %v", i, fw.FirstLines(res, 2), err)
			}
			st := newStats()
			st.steps, st.words, st.nontriv, st.resets, st.fullSnaps, st.reads = r.Steps, r.Words, r.Nontriv, r.Resets, r.FullSnaps, r.Reads
			for k, v := range r.Outcomes {
				st.outcomes[k] = v
			}
			e.merge(r.Kind, st)
			e.mu.Lock()
			extra["words"] += r.Words
			extra["steps_checked"] += r.Steps
			extra["nontrivial_words"] += r.Nontriv
			extra["words_whose_writable_tail_succeeded"] += r.TailOK
			extra["cases_done"]++
			e.mu.Unlock()
			e.nonrepro.Add(r.Nonrepro)
			for _, n := range r.Notes {
				e.run.Note("%s", n)
			}
			for _, v := range r.Viols {
				e.run.Violation(v.Sig, v.What, v.Replay)
			}
		})
	if done < len(cases) {
		e.capped.Store(true)
	}
	fmt.Printf("C17 neighbour words: cases=%d/%d words=%d steps=%d nontrivial=%d writable-tail-succeeded=%d\n", done, len(cases),
		extra["words"], extra["steps_checked"], extra["nontrivial_words"], extra["words_whose_writable_tail_succeeded"])
	return len(cases)
}
