package main

import (
	"fmt"
	"os"
	"path/filepath"
	"strings"
	"time"

	"github.com/tetratelabs/wazero"
	"github.com/tetratelabs/wazero/internal/wasip1"
)

// Configuration derivations: the read-only mount under test is reached through EVERY FSConfig derivation
// of at most three calls over {WithDirMount, WithReadOnlyDirMount, WithFSMount(os.DirFS)} x guest paths
// {"/", "/a", "/b"} x host directories {A, B}. That includes overriding an already mounted guest path at
// the first / middle / last position (RW->RO, RO->RW, RO->RO with the other directory).
//
// Reference model of the derivation history (deliberately boring): an ordered list of mounts; a call
// with a guest path that is already present replaces that entry IN PLACE, otherwise it is appended.
// Preopens are numbered 3, 4, 5 in list order. Every mount the history says is read-only must refuse
// one representative mutating word per WASI function (state invariant on both host directories); every
// mount the history says is writable must accept mkdir + rmdir in the directory the history names
// (sanity twin: shows that the descriptor under test really is the mount the model thinks it is).

type dop struct {
	Kind  string `json:"kind"`  // "rw" = WithDirMount, "ro" = WithReadOnlyDirMount, "fs" = WithFSMount(os.DirFS)
	Dir   string `json:"dir"`   // "A" | "B"
	Guest string `json:"guest"` // "/", "/a", "/b"
}

func (d dop) String() string {
	switch d.Kind {
	case "rw":
		return fmt.Sprintf("WithDirMount(%s,%q)", d.Dir, d.Guest)
	case "ro":
		return fmt.Sprintf("WithReadOnlyDirMount(%s,%q)", d.Dir, d.Guest)
	}
	return fmt.Sprintf("WithFSMount(os.DirFS(%s),%q)", d.Dir, d.Guest)
}

func derivString(d []dop) string {
	var p []string
	for _, o := range d {
		p = append(p, o.String())
	}
	return "NewFSConfig()." + strings.Join(p, ".")
}

var derivAlphabet = func() []dop {
	var a []dop
	for _, k := range []string{"rw", "ro", "fs"} {
		for _, dir := range []string{"A", "B"} {
			for _, g := range []string{"/", "/a", "/b"} {
				a = append(a, dop{k, dir, g})
			}
		}
	}
	return a
}()

// allDerivations: every word of length 1..3 over the alphabet.
func allDerivations() [][]dop {
	var out [][]dop
	var rec func(prefix []dop, left int)
	rec = func(prefix []dop, left int) {
		if len(prefix) > 0 {
			out = append(out, append([]dop{}, prefix...))
		}
		if left == 0 {
			return
		}
		for _, o := range derivAlphabet {
			rec(append(prefix, o), left-1)
		}
	}
	rec(nil, 3)
	return out
}

type dmount struct {
	dop
	Overrode string // kind of the entry it replaced in place ("" = appended)
}

// derivModel: the mount list the derivation history describes.
func derivModel(d []dop) []dmount {
	var l []dmount
next:
	for _, o := range d {
		for i := range l {
			if l[i].Guest == o.Guest {
				l[i] = dmount{o, l[i].Kind}
				continue next
			}
		}
		l = append(l, dmount{o, ""})
	}
	return l
}

// derivClass: the input class used in signatures — what the mount under test is, where it sits in the
// mount list and what it replaced.
func derivClass(m []dmount, i int) string {
	ov := "appended"
	if m[i].Overrode != "" {
		ov = "overrode-" + m[i].Overrode
	}
	return fmt.Sprintf("deriv(%s,pos=%d/%d,%s)", m[i].Kind, i+1, len(m), ov)
}

// Host tree of a derivation world: <base>/A and <base>/B, each with file.txt, dir/child.txt and an empty
// directory edir (so that rmdir WOULD succeed on a writable mount).
func makeDerivTree(base string) {
	for i, d := range []string{"A", "B"} {
		r := filepath.Join(base, d)
		must(os.MkdirAll(filepath.Join(r, "dir"), 0o755))
		must(os.Mkdir(filepath.Join(r, "edir"), 0o755))
		must(os.WriteFile(filepath.Join(r, "file.txt"), []byte(contFile+d), 0o644))
		must(os.WriteFile(filepath.Join(r, "dir", "child.txt"), []byte(contChild), 0o644))
		for j, p := range []string{"file.txt", "dir/child.txt", "dir", "edir", ""} {
			t := oldTime.Add(time.Duration(10*i+j) * time.Hour)
			must(os.Chtimes(filepath.Join(r, p), t, t))
		}
	}
	must(os.Chtimes(base, oldTime, oldTime))
}

// derivFSConfig executes the derivation on the real FSConfig.
func (w *world) derivFSConfig() wazero.FSConfig {
	if w.derivFC != nil {
		return w.derivFC // the SAME value is used for every module of this derivation
	}
	fc := wazero.NewFSConfig()
	for _, o := range w.deriv {
		dir := filepath.Join(w.base, o.Dir)
		switch o.Kind {
		case "rw":
			fc = fc.WithDirMount(dir, o.Guest)
		case "ro":
			fc = fc.WithReadOnlyDirMount(dir, o.Guest)
		case "fs":
			fc = fc.WithFSMount(os.DirFS(dir), o.Guest)
		}
	}
	w.derivFC = fc
	return fc
}

// setDerivation switches the world to another derivation (the host tree is at its baseline).
func (w *world) setDerivation(d []dop) {
	w.deriv, w.derivFC = d, nil
	w.pre = preFD
	w.instantiate()
}

// rebaseline accepts the current host state as the new initial state (after the writable twin touched it).
func (w *world) rebaseline() {
	// put the old mtimes back on the directories the twin touched, so that a later change can never
	// coincide with the baseline timestamp even on a coarse clock
	for i, d := range []string{"A", "B"} {
		t := oldTime.Add(time.Duration(10*i+4) * time.Hour)
		must(os.Chtimes(filepath.Join(w.base, d), t, t))
	}
	w.baseline = w.snapshot()
	w.known = knownPaths(w.base, w.baseline)
	w.indexKnown()
	w.sinceFull = 0
	w.baseFP = append([]byte{}, w.fingerprint()...)
}

// derivWords: one representative mutating word per WASI function, rooted at the mount under test.
func derivWords() [][]step {
	openR := step{Op: "path_open", Path: "file.txt", Lookup: 1, Rights: rRead}
	openRW := step{Op: "path_open", Path: "file.txt", Lookup: 1, Rights: rRead | rWrite}
	w := [][]step{
		{{Op: "path_create_directory", Path: "nd"}},
		{{Op: "path_remove_directory", Path: "edir"}},
		{{Op: "path_unlink_file", Path: "file.txt"}},
		{{Op: "path_rename", Path: "file.txt", Path2: "moved"}},
		{{Op: "path_link", Path: "file.txt", Path2: "hard", Lookup: 1}},
		{{Op: "path_symlink", Path: "sl", Path2: "file.txt"}},
		{{Op: "path_filestat_set_times", Path: "file.txt", Lookup: 1, Fst: fstA | fstM}},
		{{Op: "path_filestat_set_times", Path: "file.txt", Lookup: 0, Fst: fstM}},
		{{Op: "path_open", Path: "newfile", Lookup: 1, Oflags: wasip1.O_CREAT, Rights: rRead}},
		{{Op: "path_open", Path: "newfile", Lookup: 1, Oflags: wasip1.O_CREAT, Rights: rRead | rWrite}},
		{{Op: "path_open", Path: "file.txt", Lookup: 1, Oflags: wasip1.O_TRUNC, Rights: rRead}},
		{{Op: "path_open", Path: "file.txt", Lookup: 1, Oflags: wasip1.O_TRUNC, Rights: rWrite}},
		{{Op: "path_open", Path: "file.txt", Lookup: 1, Fdflags: wasip1.FD_APPEND, Rights: 0}, {Op: "fd_write", Fd: "new"}},
	}
	for _, o := range []step{openR, openRW} {
		w = append(w,
			[]step{o, {Op: "fd_write", Fd: "new"}},
			[]step{o, {Op: "fd_pwrite", Fd: "new", A: 3}},
			[]step{o, {Op: "fd_allocate", Fd: "new", A: 0, B: 100}},
			[]step{o, {Op: "fd_filestat_set_size", Fd: "new", A: 0}},
			[]step{o, {Op: "fd_filestat_set_times", Fd: "new", Fst: fstA | fstM}},
			[]step{o, {Op: "fd_fdstat_set_flags", Fd: "new", Fdflags: wasip1.FD_APPEND}, {Op: "fd_write", Fd: "new"}},
			[]step{o, {Op: "fd_renumber", Fd: "new"}, {Op: "fd_write", Fd: "ren"}},
			[]step{o, {Op: "fd_sync", Fd: "new"}},
			[]step{o, {Op: "fd_datasync", Fd: "new"}},
		)
	}
	return w
}

// second module from the same FSConfig value: a few words only
func derivWordsSecond() [][]step {
	return [][]step{
		{{Op: "path_create_directory", Path: "nd"}},
		{{Op: "path_unlink_file", Path: "file.txt"}},
		{{Op: "path_open", Path: "newfile", Lookup: 1, Oflags: wasip1.O_CREAT, Rights: rRead | rWrite}},
		{{Op: "path_open", Path: "file.txt", Lookup: 1, Rights: rRead | rWrite}, {Op: "fd_write", Fd: "new"}},
	}
}

// prestatName returns the preopen name of fd (or "" and the errno).
func (w *world) prestatName(fd uint64) (string, uint32) {
	if e := w.call("fd_prestat_get", fd, mBuf); e != 0 {
		return "", e
	}
	n, _ := w.mem.ReadUint32Le(mBuf + 4)
	if e := w.call("fd_prestat_dir_name", fd, mBuf+16, uint64(n)); e != 0 {
		return "", e
	}
	b, _ := w.mem.Read(mBuf+16, n)
	return string(b), 0
}

// derivCheck runs one derivation: mount table vs model, read-only mounts refuse the words, writable
// mounts accept mkdir+rmdir; then the same with a second module created from the same FSConfig value.
func (e *explorer) derivCheck(w *world, st *stats, d []dop, words, words2 [][]step) {
	model := derivModel(d)
	for round := 0; round < 2; round++ {
		if round == 0 {
			w.setDerivation(d)
		} else {
			w.secondModule() // first one stays open
			words = words2
		}
		// the mount table is what the history says
		for i, m := range model {
			name, en := w.prestatName(uint64(preFD + i))
			st.outcomes["deriv-preopen-name:"+errName(en)]++
			if en != 0 || name != m.Guest {
				e.run.Violation(derivClass(model, i)+":preopen-differs-from-history",
					fmt.Sprintf("%s: preopen %d is %q (errno %s), the derivation history says %q", derivString(d), preFD+i, name, errName(en), m.Guest),
					w.rcase(nil))
			}
		}
		if en := w.call("fd_prestat_get", uint64(preFD+len(model)), mBuf); en == 0 {
			e.run.Violation("deriv:extra-preopen", derivString(d)+": more preopens than mounts in the history", w.rcase(nil))
		}
		for i, m := range model {
			w.pre, w.derivIdx = uint64(preFD+i), i
			if m.Kind == "rw" {
				continue
			}
			st.derivRO++
			for _, word := range words {
				errs, _ := e.runWord(w, st, word)
				if nontrivial(errs) {
					st.nontriv++
				}
			}
		}
		// sanity twin: writable mounts are writable, in the directory the history names
		touched := false
		for i, m := range model {
			if m.Kind != "rw" {
				continue
			}
			w.pre, w.derivIdx = uint64(preFD+i), i
			st.derivRW++
			host := filepath.Join(w.base, m.Dir, "twin")
			e1 := w.exec(step{Op: "path_create_directory", Path: "twin"})
			_, err1 := os.Lstat(host)
			e2 := w.exec(step{Op: "path_remove_directory", Path: "twin"})
			_, err2 := os.Lstat(host)
			touched = true
			st.steps += 2
			st.outcomes["deriv-twin-mkdir:"+errName(e1)]++
			st.outcomes["deriv-twin-rmdir:"+errName(e2)]++
			if e1 != 0 || err1 != nil || e2 != 0 || err2 == nil {
				e.run.Violation(derivClass(model, i)+":writable-mount-not-writable",
					fmt.Sprintf("%s: mount %d (%s) is writable according to the history, but mkdir/rmdir \"twin\" gave %s/%s (host dir %s: created=%v removed=%v)",
						derivString(d), i, m.dop, errName(e1), errName(e2), m.Dir, err1 == nil, err2 != nil), w.rcase(nil))
				os.RemoveAll(host)
			}
		}
		if touched {
			w.rebaseline()
		}
	}
	w.dropSecond()
}

func (e *explorer) derivShard(ds [][]dop) {
	st := newStats()
	w := newWorld(kDeriv, e.tmp, false, pDirect, false)
	defer func() { w.close(); e.merge(kDeriv, st) }()
	words, words2 := derivWords(), derivWordsSecond()
	for _, d := range ds {
		if e.run.Expired() {
			e.capped.Store(true)
			return
		}
		st.derivs++
		e.derivCheck(w, st, d, words, words2)
		e.samples.Add(map[string]any{"derivation": derivString(d)})
	}
}
