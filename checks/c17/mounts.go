package main

import (
	"io/fs"
	"os"
	"path/filepath"

	experimentalsys "github.com/tetratelabs/wazero/experimental/sys"
	"github.com/tetratelabs/wazero/internal/sysfs"
)

// Unusual but legitimate values handed to WithFSMount. The property promises that a Go fs.FS mount is
// immutable "whatever the dynamic type" of the value.

// dualFS implements BOTH io/fs.FS and experimental/sys.FS (a host helper that embeds a writable
// sysfs.DirFS and adds Open so that the same value can be served elsewhere as an fs.FS). WithFSMount must
// still treat it as an fs.FS, i.e. wrap it in the read-only adapter and use Open only.
type dualFS struct {
	experimentalsys.FS       // writable methods underneath
	ro                 fs.FS // what Open serves
}

func (d *dualFS) Open(name string) (fs.File, error) { return d.ro.Open(name) }

func newDualFS(dir string) fs.FS { return &dualFS{FS: sysfs.DirFS(dir), ro: os.DirFS(dir)} }

// rwFileFS is an fs.FS whose files are *os.File values opened O_RDWR: they carry Write, WriteAt, Truncate,
// Chmod, Sync, ReadFrom, ... wazero documents that io.Writer of the returned files is passed through
// ("fs.FS does not restrict the ability to overwrite returned files via io.Writer"); everything else
// (Truncate, Chmod, times, Sync) must stay unreachable.
type rwFileFS struct{ dir string }

func (r rwFileFS) Open(name string) (fs.File, error) {
	if !fs.ValidPath(name) {
		return nil, &fs.PathError{Op: "open", Path: name, Err: fs.ErrInvalid}
	}
	full := filepath.Join(r.dir, filepath.FromSlash(name))
	if st, err := os.Stat(full); err == nil && !st.IsDir() {
		if f, err := os.OpenFile(full, os.O_RDWR, 0); err == nil {
			return f, nil
		}
	}
	return os.Open(full)
}

// richFS embeds an fs.FS and adds the optional interfaces ReadDirFS, StatFS, ReadFileFS and SubFS-free
// helpers — more methods must not mean more rights.
type richFS struct {
	fs.FS
	dir string
}

func (r richFS) ReadDir(name string) ([]fs.DirEntry, error) { return fs.ReadDir(r.FS, name) }
func (r richFS) Stat(name string) (fs.FileInfo, error)      { return fs.Stat(r.FS, name) }
func (r richFS) ReadFile(name string) ([]byte, error)       { return fs.ReadFile(r.FS, name) }

// Extra, deliberately tempting methods with the names of the sys.FS mutators but other signatures are NOT
// added: they would not compile into either interface and prove nothing.

func newSubFS(base string) fs.FS {
	s, err := fs.Sub(os.DirFS(base), "mnt")
	must(err)
	return s
}

var (
	_ experimentalsys.FS = (*dualFS)(nil)
	_ fs.FS              = (*dualFS)(nil)
	_ fs.ReadDirFS       = richFS{}
	_ fs.StatFS          = richFS{}
)
