package main

import (
	"context"
	"encoding/binary"
	"fmt"
	"io/fs"
	"os"
	"path/filepath"
	"sort"
	"sync/atomic"
	"testing/fstest"
	"time"

	"github.com/tetratelabs/wazero"
	"github.com/tetratelabs/wazero/api"
	"github.com/tetratelabs/wazero/imports/wasi_snapshot_preview1"
	"github.com/tetratelabs/wazero/internal/wasip1"
	"github.com/tetratelabs/wazero/verif/fw"
	"github.com/tetratelabs/wazero/verif/wb"
)

// ---------------------------------------------------------------- mounts

const (
	kRODir  = iota // WithReadOnlyDirMount(dir, "/")
	kDirFS         // WithFSMount(os.DirFS(dir), "/")
	kMapFS         // WithFSMount(fstest.MapFS{...}, "/")
	kDualFS        // WithFSMount(value implementing io/fs.FS AND experimental/sys.FS (writable underneath), "/")
	kRWFile        // WithFSMount(fs.FS whose files are *os.File opened O_RDWR, "/")
	kSubFS         // WithFSMount(fs.Sub(os.DirFS(sandbox), "mnt"), "/")
	kRichFS        // WithFSMount(struct embedding os.DirFS + ReadDirFS/StatFS/ReadFileFS, "/")
	kDeriv         // mount list produced by an FSConfig derivation (deriv.go); the mount under test is w.pre
	nKinds
)

var kindNames = [nKinds]string{"rodir", "dirfs", "mapfs", "dualfs", "rwfile", "subfs", "richfs", "deriv"}

func kindByName(n string) int {
	for i, k := range kindNames {
		if k == n {
			return i
		}
	}
	fw.Fatalf("unknown mount kind %q", n)
	return 0
}

// The fixed host tree. Every world owns a private sandbox directory <tmp>/wN/ holding
//
//	outside.txt                     (target of mnt/linkout; must never change)
//	mnt/file.txt  mnt/empty  mnt/dir/child.txt
//	mnt/link    -> file.txt
//	mnt/linkout -> ../outside.txt   (points out of the mount)
//	mnt/dangle  -> ../created-outside (dangling, points out of the mount: O_CREAT through it would
//	                                 create a file NEXT TO the mount)
//
// and the snapshot covers the whole sandbox, i.e. the mount and everything next to it.
const (
	contFile    = "hello, world"
	contChild   = "child"
	contOutside = "OUTSIDE"
)

var (
	oldTime    = time.Date(2001, 1, 1, 0, 0, 0, 0, time.UTC) // mtimes of the tree: far from "now" and from wazero's fake clock (2022)
	poisonTime = time.Date(1999, 1, 1, 0, 0, 0, 0, time.UTC) // value the guest tries to set; never produced by the kernel
)

var cleanupRoot string // temp root of this run; removed before a harness error exits

func must(err error) {
	if err != nil {
		if cleanupRoot != "" {
			os.RemoveAll(cleanupRoot)
		}
		fw.Fatalf("harness I/O: %v", err)
	}
}

func makeTree(base string, ext bool) {
	mnt := filepath.Join(base, "mnt")
	must(os.MkdirAll(filepath.Join(mnt, "dir"), 0o755))
	must(os.WriteFile(filepath.Join(base, "outside.txt"), []byte(contOutside), 0o644))
	must(os.WriteFile(filepath.Join(mnt, "file.txt"), []byte(contFile), 0o644))
	must(os.WriteFile(filepath.Join(mnt, "empty"), nil, 0o644))
	must(os.WriteFile(filepath.Join(mnt, "dir", "child.txt"), []byte(contChild), 0o644))
	must(os.Symlink("file.txt", filepath.Join(mnt, "link")))
	must(os.Symlink("../outside.txt", filepath.Join(mnt, "linkout")))
	must(os.Symlink("../created-outside", filepath.Join(mnt, "dangle")))
	if ext {
		must(os.Symlink("dir", filepath.Join(mnt, "dirlink")))      // symlink -> directory inside the mount
		must(os.Symlink("link", filepath.Join(mnt, "link2")))       // symlink -> symlink -> file
		must(os.Symlink("dirlink", filepath.Join(mnt, "dirlink2"))) // symlink -> symlink -> directory
		must(os.Symlink("nowhere", filepath.Join(mnt, "danglein"))) // dangling inside the mount
		must(os.Symlink(".", filepath.Join(mnt, "dotlink")))        // symlink -> "."
		must(os.Symlink("..", filepath.Join(mnt, "uplink")))        // symlink -> ".." (the sandbox, i.e. out of the mount)
	}
	for i, p := range []string{"outside.txt", "mnt/file.txt", "mnt/empty", "mnt/dir/child.txt", "mnt/dir", "mnt", ""} {
		t := oldTime.Add(time.Duration(i) * time.Hour)
		must(os.Chtimes(filepath.Join(base, p), t, t))
	}
}

func makeMapFS(ext bool) fstest.MapFS {
	m := fstest.MapFS{
		"file.txt":      {Data: []byte(contFile), Mode: 0o644, ModTime: oldTime},
		"empty":         {Data: []byte{}, Mode: 0o644, ModTime: oldTime.Add(time.Hour)},
		"dir":           {Mode: fs.ModeDir | 0o755, ModTime: oldTime.Add(2 * time.Hour)},
		"dir/child.txt": {Data: []byte(contChild), Mode: 0o644, ModTime: oldTime.Add(3 * time.Hour)},
		"link":          {Data: []byte("file.txt"), Mode: fs.ModeSymlink | 0o777, ModTime: oldTime.Add(4 * time.Hour)},
		"linkout":       {Data: []byte("../outside.txt"), Mode: fs.ModeSymlink | 0o777, ModTime: oldTime.Add(5 * time.Hour)},
		"dangle":        {Data: []byte("../created-outside"), Mode: fs.ModeSymlink | 0o777, ModTime: oldTime.Add(6 * time.Hour)},
	}
	if !ext {
		return m
	}
	more := fstest.MapFS{
		"dirlink":  {Data: []byte("dir"), Mode: fs.ModeSymlink | 0o777, ModTime: oldTime.Add(7 * time.Hour)},
		"link2":    {Data: []byte("link"), Mode: fs.ModeSymlink | 0o777, ModTime: oldTime.Add(8 * time.Hour)},
		"dirlink2": {Data: []byte("dirlink"), Mode: fs.ModeSymlink | 0o777, ModTime: oldTime.Add(9 * time.Hour)},
		"danglein": {Data: []byte("nowhere"), Mode: fs.ModeSymlink | 0o777, ModTime: oldTime.Add(10 * time.Hour)},
		"dotlink":  {Data: []byte("."), Mode: fs.ModeSymlink | 0o777, ModTime: oldTime.Add(11 * time.Hour)},
		"uplink":   {Data: []byte(".."), Mode: fs.ModeSymlink | 0o777, ModTime: oldTime.Add(12 * time.Hour)},
	}
	for k, v := range more {
		m[k] = v
	}
	return m
}

// files that must stay readable through the mount, with their content (symlinks that leave the mount
// are not read: whether they resolve is a sandboxing question, not this property).
func readable(kind int, ext bool) [][2]string {
	r := [][2]string{{"file.txt", contFile}, {"empty", ""}, {"dir/child.txt", contChild}, {"./dir/../file.txt", contFile}}
	if kind != kMapFS {
		// MapFS (go1.23) has no symlink resolution
		r = append(r, [2]string{"link", contFile})
		if ext {
			r = append(r, [2]string{"link2", contFile}, [2]string{"dirlink/child.txt", contChild},
				[2]string{"dirlink2/child.txt", contChild}, [2]string{"dotlink/file.txt", contFile})
		}
	}
	return r
}

// ---------------------------------------------------------------- guest

type wasiSig struct {
	name   string
	params []byte
}

var (
	i32 = wb.I32
	i64 = wb.I64
)

var wasiFuncs = []wasiSig{
	{"fd_advise", []byte{i32, i64, i64, i32}},
	{"fd_allocate", []byte{i32, i64, i64}},
	{"fd_close", []byte{i32}},
	{"fd_datasync", []byte{i32}},
	{"fd_fdstat_get", []byte{i32, i32}},
	{"fd_fdstat_set_flags", []byte{i32, i32}},
	{"fd_fdstat_set_rights", []byte{i32, i64, i64}},
	{"fd_filestat_get", []byte{i32, i32}},
	{"fd_filestat_set_size", []byte{i32, i64}},
	{"fd_filestat_set_times", []byte{i32, i64, i64, i32}},
	{"fd_pread", []byte{i32, i32, i32, i64, i32}},
	{"fd_prestat_get", []byte{i32, i32}},
	{"fd_prestat_dir_name", []byte{i32, i32, i32}},
	{"fd_pwrite", []byte{i32, i32, i32, i64, i32}},
	{"fd_read", []byte{i32, i32, i32, i32}},
	{"fd_readdir", []byte{i32, i32, i32, i64, i32}},
	{"fd_renumber", []byte{i32, i32}},
	{"fd_seek", []byte{i32, i64, i32, i32}},
	{"fd_sync", []byte{i32}},
	{"fd_tell", []byte{i32, i32}},
	{"fd_write", []byte{i32, i32, i32, i32}},
	{"path_create_directory", []byte{i32, i32, i32}},
	{"path_filestat_get", []byte{i32, i32, i32, i32, i32}},
	{"path_filestat_set_times", []byte{i32, i32, i32, i32, i64, i64, i32}},
	{"path_link", []byte{i32, i32, i32, i32, i32, i32, i32}},
	{"path_open", []byte{i32, i32, i32, i32, i32, i64, i64, i32, i32}},
	{"path_readlink", []byte{i32, i32, i32, i32, i32, i32}},
	{"path_remove_directory", []byte{i32, i32, i32}},
	{"path_rename", []byte{i32, i32, i32, i32, i32, i32}},
	{"path_symlink", []byte{i32, i32, i32, i32, i32}},
	{"path_unlink_file", []byte{i32, i32, i32}},
}

// guestBin exports one wrapper per WASI import with the same signature (a guest function that forwards
// its parameters), so that every call really crosses the guest->host boundary.
var guestBin = func() []byte {
	m := &wb.Module{}
	imps := make([]uint32, len(wasiFuncs))
	for i, f := range wasiFuncs {
		imps[i] = m.ImportFunc("wasi_snapshot_preview1", f.name, f.params, []byte{i32})
	}
	m.Mem = &wb.Limits{Min: 1}
	for i, f := range wasiFuncs {
		a := &wb.Asm{}
		for p := range f.params {
			a.LocalGet(uint32(p))
		}
		a.Call(imps[i])
		m.ExportFunc(f.name, m.AddFunc(f.params, []byte{i32}, nil, a.B))
	}
	m.Exports = append(m.Exports, wb.Export{Name: "memory", Kind: wb.KindMemory, Idx: 0})
	return m.Encode()
}()

// guest memory layout
const (
	mRes    = 0    // u32/u64 results (opened fd, nwritten, ...)
	mIovW   = 64   // iovec {mData, 3}
	mIovR   = 80   // iovec {mBuf, 64}
	mData   = 256  // "XYZ"
	mPath1  = 1024 // first path
	mPath2  = 2048 // second path
	mBuf    = 4096 // stat / read / readdir buffer
	preFD   = 3
	renFD   = 9
	trapErr = 0xffff // pseudo errno: the call did not return normally
)

// ---------------------------------------------------------------- world

var worldSeq atomic.Int64

// world = one runtime + one guest instance + one private host tree (or MapFS) for one mount kind.
type world struct {
	kind      int
	ext       bool  // extended tree: additionally the directory symlink, symlink chains, dangling-inside, "." and ".." symlinks
	deriv     []dop // kDeriv: the FSConfig derivation
	derivFC   wazero.FSConfig
	derivIdx  int        // kDeriv: index of the mount under test
	first     api.Module // kDeriv: first module of the same FSConfig, kept open
	prov      int        // configuration provenance (pDirect ...)
	sibDir    string     // MapFS + provenance: host directory the discarded writable siblings point at
	neigh     bool       // neighbour words (neigh.go): "new"/"ren"/"rw" are descriptors of the WRITABLE mount
	cross     bool       // a writable WithDirMount(rwDir, "/rw") is preopened first (fd 3); the immutable mount is fd 4
	rwDir     string
	pre       uint64 // descriptor of the immutable mount's root
	tmpRoot   string
	base      string // sandbox directory (host kinds)
	mapfs     fstest.MapFS
	rt        wazero.Runtime
	code      wazero.CompiledModule
	mod       api.Module
	mem       api.Memory
	fns       map[string]api.Function
	baseline  string   // full snapshot of the initial state
	baseFP    []byte   // fingerprint of the initial state
	known     []string // absolute paths of the entries in baseline (host kinds)
	fpBuf     []byte
	knownDir  []int   // O_PATH descriptor of the directory containing known[i]
	knownName []*byte // NUL-terminated last path element of known[i]
	dirFDs    []int
	sinceFull int      // words since the last unconditional full snapshot
	open      []uint32 // descriptors opened by the current word, in order
	resets    int
}

var bg = context.Background()

// Configuration provenance: several ways of building the SAME mount configuration that must be
// equivalent. The siblings are derived and thrown away; they are never instantiated.
const (
	pDirect            = iota // NewFSConfig().WithX(dir, "/")
	pSiblingAfter             // ro := ...WithX(dir,"/"); then writable siblings are derived from ro and discarded
	pSiblingSecondPath        // same with a second guest path: "/rw" writable first, immutable mount at "/ro" (fd 4)
	pReplacedBase             // base has a WRITABLE mount at the guest path, WithX replaces it; more siblings derived from base afterwards
	pModuleSibling            // mc := NewModuleConfig().WithFSConfig(ro); writable siblings derived from mc and discarded
	nProvs
)

var provNames = [nProvs]string{"direct", "sibling-after", "sibling-second-path", "replaced-base", "moduleconfig-sibling"}

func provByName(n string) int {
	for i, k := range provNames {
		if k == n || (n == "" && i == 0) {
			return i
		}
	}
	fw.Fatalf("unknown provenance %q", n)
	return 0
}

func newWorld(kind int, tmpRoot string, cross bool, prov int, ext bool) *world {
	if prov == pSiblingSecondPath {
		cross = true
	}
	w := &world{kind: kind, tmpRoot: tmpRoot, cross: cross, pre: preFD, prov: prov, ext: ext}
	if prov != pDirect && kind == kMapFS {
		// the writable siblings of a MapFS mount point at this (empty) host directory; it is part of the snapshot
		w.sibDir = filepath.Join(tmpRoot, fmt.Sprintf("sib%d", worldSeq.Add(1)))
		must(os.Mkdir(w.sibDir, 0o755))
	}
	if cross {
		w.pre = preFD + 1
		w.rwDir = filepath.Join(tmpRoot, fmt.Sprintf("rw%d", worldSeq.Add(1)))
		must(os.Mkdir(w.rwDir, 0o755))
		w.resetRW()
	}
	w.rt = wazero.NewRuntimeWithConfig(bg, wazero.NewRuntimeConfigInterpreter())
	if _, err := wasi_snapshot_preview1.Instantiate(bg, w.rt); err != nil {
		fw.Fatalf("wasi: %v", err)
	}
	code, err := w.rt.CompileModule(bg, guestBin)
	if err != nil {
		fw.Fatalf("guest module rejected: %v", err)
	}
	w.code = code
	w.freshTree()
	return w
}

// freshTree (re)creates the host tree / map in a NEW sandbox, re-instantiates the guest on it and
// takes the baseline snapshot.
func (w *world) freshTree() {
	if w.base != "" {
		os.RemoveAll(w.base)
	}
	if w.kind == kMapFS {
		w.mapfs = makeMapFS(w.ext)
	} else {
		w.base = filepath.Join(w.tmpRoot, fmt.Sprintf("w%d", worldSeq.Add(1)))
		must(os.Mkdir(w.base, 0o755))
		if w.kind == kDeriv {
			makeDerivTree(w.base)
			w.derivFC = nil // host paths changed
		} else {
			makeTree(w.base, w.ext)
		}
	}
	if w.cross {
		w.resetRW()
	}
	if w.sibDir != "" { // a guest that wrongly got hold of it may even have removed it
		must(os.RemoveAll(w.sibDir))
		must(os.Mkdir(w.sibDir, 0o755))
	}
	w.instantiate()
	w.baseline = w.snapshot()
	if w.kind != kMapFS {
		w.known = knownPaths(w.base, w.baseline)
		w.indexKnown()
	} else {
		w.known = w.known[:0]
		for k := range w.mapfs {
			w.known = append(w.known, k)
		}
		sort.Strings(w.known)
	}
	w.sinceFull = 0
	w.baseFP = append([]byte{}, w.fingerprint()...)
}

// resetRW restores the content of the writable neighbour mount (it is legitimately changed by words).
func (w *world) resetRW() {
	ents, err := os.ReadDir(w.rwDir)
	must(err)
	for _, e := range ents {
		must(os.RemoveAll(filepath.Join(w.rwDir, e.Name())))
	}
	must(os.WriteFile(filepath.Join(w.rwDir, "w.txt"), []byte("writable"), 0o644))
	must(os.Mkdir(filepath.Join(w.rwDir, "wd"), 0o755))
}

// immutable adds the mount under test to fc at the guest path.
func (w *world) immutable(fc wazero.FSConfig, guest string) wazero.FSConfig {
	switch w.kind {
	case kRODir:
		return fc.WithReadOnlyDirMount(filepath.Join(w.base, "mnt"), guest)
	case kDirFS:
		return fc.WithFSMount(os.DirFS(filepath.Join(w.base, "mnt")), guest)
	case kDualFS:
		return fc.WithFSMount(newDualFS(filepath.Join(w.base, "mnt")), guest)
	case kRWFile:
		return fc.WithFSMount(rwFileFS{filepath.Join(w.base, "mnt")}, guest)
	case kSubFS:
		return fc.WithFSMount(newSubFS(w.base), guest)
	case kRichFS:
		return fc.WithFSMount(richFS{os.DirFS(filepath.Join(w.base, "mnt")), filepath.Join(w.base, "mnt")}, guest)
	}
	return fc.WithFSMount(w.mapfs, guest)
}

// writableDir: what a writable sibling configuration mounts — the SAME host directory for the host kinds.
func (w *world) writableDir() string {
	if w.kind == kMapFS {
		return w.sibDir
	}
	return filepath.Join(w.base, "mnt")
}

// moduleConfig builds the configuration the guest is instantiated with, along the world's provenance.
func (w *world) moduleConfig() wazero.ModuleConfig {
	if w.kind == kDeriv {
		return wazero.NewModuleConfig().WithName("").WithFSConfig(w.derivFSConfig())
	}
	base := wazero.NewFSConfig()
	guest := "/"
	if w.cross {
		base = base.WithDirMount(w.rwDir, "/rw")
		guest = "/ro"
	}
	mc := wazero.NewModuleConfig().WithName("")
	switch w.prov {
	case pDirect:
		return mc.WithFSConfig(w.immutable(base, guest))
	case pSiblingAfter, pSiblingSecondPath:
		ro := w.immutable(base, guest)
		wd := w.writableDir()
		_ = ro.WithDirMount(wd, guest)
		_ = ro.WithDirMount(wd, guest+"/")
		_ = ro.WithDirMount(wd, "/third")
		_ = ro.WithDirMount(wd, "/third").WithDirMount(wd, guest)
		return mc.WithFSConfig(ro)
	case pReplacedBase:
		wd := w.writableDir()
		b2 := base.WithDirMount(wd, guest)
		ro := w.immutable(b2, guest)
		_ = b2.WithDirMount(wd, guest)
		_ = b2.WithDirMount(wd, "/third")
		return mc.WithFSConfig(ro)
	case pModuleSibling:
		wd := w.writableDir()
		ro := w.immutable(base, guest)
		m2 := mc.WithFSConfig(ro)
		_ = m2.WithFSConfig(base.WithDirMount(wd, guest))
		_ = m2.WithFSConfig(ro.WithDirMount(wd, guest))
		_ = m2.WithFS(os.DirFS(wd))
		return m2
	}
	fw.Fatalf("unknown provenance %d", w.prov)
	return nil
}

// secondModule instantiates another guest from the same configuration while the first stays open.
func (w *world) secondModule() {
	w.dropSecond()
	w.first, w.mod = w.mod, nil
	w.instantiate()
}

func (w *world) dropSecond() {
	if w.first != nil {
		w.first.Close(bg)
		w.first = nil
	}
}

func (w *world) instantiate() {
	if w.mod != nil {
		w.mod.Close(bg)
	}
	mod, err := w.rt.InstantiateModule(bg, w.code, w.moduleConfig())
	if err != nil {
		fw.Fatalf("instantiate guest: %v", err)
	}
	w.mod, w.mem = mod, mod.Memory()
	w.fns = map[string]api.Function{}
	for _, f := range wasiFuncs {
		w.fns[f.name] = mod.ExportedFunction(f.name)
	}
	w.open = w.open[:0]
	// constant guest data
	w.mem.Write(mData, []byte("XYZ"))
	w.mem.WriteUint32Le(mIovW, mData)
	w.mem.WriteUint32Le(mIovW+4, 3)
	w.mem.WriteUint32Le(mIovR, mBuf)
	w.mem.WriteUint32Le(mIovR+4, 64)
}

func (w *world) close() {
	if w.mod != nil {
		w.mod.Close(bg)
	}
	w.dropSecond()
	w.rt.Close(bg)
	w.closeDirFDs()
	if w.base != "" {
		os.RemoveAll(w.base)
	}
	if w.rwDir != "" {
		os.RemoveAll(w.rwDir)
	}
	if w.sibDir != "" {
		os.RemoveAll(w.sibDir)
	}
}

func (w *world) call(name string, args ...uint64) uint32 {
	r, err := w.fns[name].Call(bg, args...)
	if err != nil {
		return trapErr
	}
	return uint32(r[0])
}

func (w *world) putPath(at uint32, s string) (uint64, uint64) {
	if len(s) > 1000 {
		fw.Fatalf("path too long")
	}
	w.mem.Write(at, []byte(s))
	return uint64(at), uint64(len(s))
}

// ---------------------------------------------------------------- steps

// step is one WASI call. Fd is symbolic: "" / "pre" = the preopened root of the immutable mount, "new" =
// the first descriptor opened by this word, "new2" = the second, "ren" = target of fd_renumber (9),
// "rw" = root of the writable neighbour mount (cross worlds only), "bad" = 77. Fd2 is the second
// descriptor of path_rename / path_link (default: same as Fd).
type step struct {
	Op      string `json:"op"`
	Fd      string `json:"fd,omitempty"`
	Fd2     string `json:"fd2,omitempty"`
	Path    string `json:"path,omitempty"`
	Path2   string `json:"path2,omitempty"`
	Lookup  uint16 `json:"lookup,omitempty"`
	Oflags  uint16 `json:"oflags,omitempty"`
	Fdflags uint16 `json:"fdflags,omitempty"`
	Rights  uint64 `json:"rights,omitempty"`
	Fst     uint16 `json:"fst,omitempty"`
	A       int64  `json:"a,omitempty"`
	B       int64  `json:"b,omitempty"`
}

func (s step) String() string {
	o := s.Op + "(" + s.fdName()
	switch s.Op {
	case "path_open":
		o += fmt.Sprintf(",%q,lookup=%d,oflags=%s,fdflags=%s,rights=%s", s.Path, s.Lookup, oflagNames(s.Oflags), fdflagNames(s.Fdflags), rightsName(s.Rights))
	case "path_rename", "path_link", "path_symlink":
		o += fmt.Sprintf(",%q,%q", s.Path, s.Path2)
		if s.Fd2 != "" {
			o += ",fd2=" + s.Fd2
		}
		if s.Op == "path_link" {
			o += fmt.Sprintf(",lookup=%d", s.Lookup)
		}
	case "path_filestat_set_times":
		o += fmt.Sprintf(",%q,lookup=%d,fst=%#x", s.Path, s.Lookup, s.Fst)
	case "fd_filestat_set_times":
		o += fmt.Sprintf(",fst=%#x", s.Fst)
	case "fd_fdstat_set_flags":
		o += "," + fdflagNames(s.Fdflags)
	case "fd_allocate", "fd_filestat_set_size", "fd_pwrite", "fd_pread", "fd_seek", "fd_advise":
		o += fmt.Sprintf(",%d,%d", s.A, s.B)
	default:
		if s.Path != "" || s.Op[:4] == "path" {
			o += fmt.Sprintf(",%q", s.Path)
			if s.Op == "path_filestat_get" {
				o += fmt.Sprintf(",lookup=%d", s.Lookup)
			}
		}
	}
	return o + ")"
}

func (s step) fdName() string {
	if s.Fd == "" {
		return "pre"
	}
	return s.Fd
}

func bitNames(v uint16, names []string) string {
	o := ""
	for i, n := range names {
		if v&(1<<i) != 0 {
			if o != "" {
				o += "+"
			}
			o += n
		}
	}
	if o == "" {
		return "-"
	}
	return o
}

func oflagNames(v uint16) string { return bitNames(v, []string{"CREAT", "DIRECTORY", "EXCL", "TRUNC"}) }
func fdflagNames(v uint16) string {
	return bitNames(v, []string{"APPEND", "DSYNC", "NONBLOCK", "RSYNC", "SYNC"})
}

const (
	rRead  = uint64(wasip1.RIGHT_FD_READ)
	rWrite = uint64(wasip1.RIGHT_FD_WRITE)
	rAll   = ^uint64(0)
)

func rightsName(r uint64) string {
	switch r {
	case 0:
		return "0"
	case rRead:
		return "READ"
	case rWrite:
		return "WRITE"
	case rRead | rWrite:
		return "READ|WRITE"
	case rAll:
		return "ALL"
	}
	return fmt.Sprintf("%#x", r)
}

func (w *world) fd(sym string) uint64 {
	switch sym {
	case "", "pre":
		return w.pre
	case "rw":
		return preFD
	case "new":
		if len(w.open) > 0 {
			return uint64(w.open[0])
		}
		return 78 // nothing open: behaves like a bad descriptor
	case "new2":
		if len(w.open) > 1 {
			return uint64(w.open[1])
		}
		return 78
	case "last":
		if len(w.open) > 0 {
			return uint64(w.open[len(w.open)-1])
		}
		return 78
	case "ren":
		return renFD
	case "bad":
		return 77
	}
	fw.Fatalf("unknown fd symbol %q", sym)
	return 0
}

// exec performs one step and returns the WASI errno (or trapErr).
func (w *world) exec(s step) uint32 {
	fd := w.fd(s.Fd)
	fd2 := fd
	if s.Fd2 != "" {
		fd2 = w.fd(s.Fd2)
	}
	at, mt := uint64(poisonTime.UnixNano()), uint64(poisonTime.UnixNano())
	switch s.Op {
	case "path_open":
		p, n := w.putPath(mPath1, s.Path)
		w.mem.WriteUint32Le(mRes, 0xdeadbeef)
		e := w.call(s.Op, fd, uint64(s.Lookup), p, n, uint64(s.Oflags), s.Rights, s.Rights, uint64(s.Fdflags), mRes)
		if e == 0 {
			nfd, _ := w.mem.ReadUint32Le(mRes)
			w.open = append(w.open, nfd)
		}
		return e
	case "fd_write":
		return w.call(s.Op, fd, mIovW, 1, mRes)
	case "fd_pwrite":
		return w.call(s.Op, fd, mIovW, 1, uint64(s.A), mRes)
	case "fd_read":
		return w.call(s.Op, fd, mIovR, 1, mRes)
	case "fd_pread":
		return w.call(s.Op, fd, mIovR, 1, uint64(s.A), mRes)
	case "fd_allocate":
		return w.call(s.Op, fd, uint64(s.A), uint64(s.B))
	case "fd_advise":
		return w.call(s.Op, fd, 0, 0, uint64(s.A))
	case "fd_filestat_set_size":
		return w.call(s.Op, fd, uint64(s.A))
	case "fd_filestat_set_times":
		return w.call(s.Op, fd, at, mt, uint64(s.Fst))
	case "fd_fdstat_set_flags":
		return w.call(s.Op, fd, uint64(s.Fdflags))
	case "fd_fdstat_set_rights":
		return w.call(s.Op, fd, s.Rights, s.Rights)
	case "fd_renumber":
		e := w.call(s.Op, fd, renFD)
		if e == 0 {
			for i, o := range w.open {
				if uint64(o) == fd {
					w.open[i] = renFD
				}
			}
		}
		return e
	case "fd_sync", "fd_datasync":
		return w.call(s.Op, fd)
	case "fd_close":
		e := w.call(s.Op, fd)
		if e == 0 {
			for i, o := range w.open {
				if uint64(o) == fd {
					w.open = append(w.open[:i], w.open[i+1:]...)
					break
				}
			}
		}
		return e
	case "fd_seek":
		return w.call(s.Op, fd, uint64(s.A), 0, mRes)
	case "fd_tell":
		return w.call(s.Op, fd, mRes)
	case "fd_fdstat_get", "fd_filestat_get", "fd_prestat_get":
		return w.call(s.Op, fd, mBuf)
	case "fd_prestat_dir_name":
		return w.call(s.Op, fd, mBuf, 1)
	case "fd_readdir":
		return w.call(s.Op, fd, mBuf, 512, 0, mRes)
	case "path_create_directory", "path_remove_directory", "path_unlink_file":
		p, n := w.putPath(mPath1, s.Path)
		return w.call(s.Op, fd, p, n)
	case "path_rename":
		p, n := w.putPath(mPath1, s.Path)
		q, m := w.putPath(mPath2, s.Path2)
		return w.call(s.Op, fd, p, n, fd2, q, m)
	case "path_link":
		p, n := w.putPath(mPath1, s.Path)
		q, m := w.putPath(mPath2, s.Path2)
		return w.call(s.Op, fd, uint64(s.Lookup), p, n, fd2, q, m)
	case "path_symlink": // Path2 = link target text, Path = where the link is created
		q, m := w.putPath(mPath2, s.Path2)
		p, n := w.putPath(mPath1, s.Path)
		return w.call(s.Op, q, m, fd, p, n)
	case "path_filestat_set_times":
		p, n := w.putPath(mPath1, s.Path)
		return w.call(s.Op, fd, uint64(s.Lookup), p, n, at, mt, uint64(s.Fst))
	case "path_filestat_get":
		p, n := w.putPath(mPath1, s.Path)
		return w.call(s.Op, fd, uint64(s.Lookup), p, n, mBuf)
	case "path_readlink":
		p, n := w.putPath(mPath1, s.Path)
		return w.call(s.Op, fd, p, n, mBuf, 256, mRes)
	}
	fw.Fatalf("unknown op %q", s.Op)
	return 0
}

// newIsDir reports the WASI filetype of the first opened descriptor as left in mBuf by fd_fdstat_get.
func (w *world) bufFiletype() byte {
	b, _ := w.mem.Read(mBuf, 1)
	return b[0]
}

// preopenAlive: the mount root descriptor still answers fd_prestat_get.
func (w *world) preopenAlive() bool {
	return w.call("fd_prestat_get", w.pre, mBuf) == 0
}

// readThrough opens p read-only through the mount and returns what fd_read delivers.
func (w *world) readThrough(p string) (string, uint32) {
	pp, n := w.putPath(mPath1, p)
	if e := w.call("path_open", w.pre, uint64(wasip1.LOOKUP_SYMLINK_FOLLOW), pp, n, 0, rRead, rRead, 0, mRes); e != 0 {
		return "", e
	}
	nfd, _ := w.mem.ReadUint32Le(mRes)
	defer w.call("fd_close", uint64(nfd))
	if e := w.call("fd_read", uint64(nfd), mIovR, 1, mRes); e != 0 {
		return "", e
	}
	k, _ := w.mem.ReadUint32Le(mRes)
	b, _ := w.mem.Read(mBuf, k)
	return string(b), 0
}

var _ = binary.LittleEndian
