package main

import (
	"crypto/sha256"
	"encoding/binary"
	"encoding/hex"
	"fmt"
	"io/fs"
	"os"
	"path/filepath"
	"sort"
	"strings"
	"syscall"
	"unsafe"
)

// snapshot returns the canonical recursive state of everything the guest must not change.
//
// Host kinds: every entry of the sandbox (the mount AND what lies next to it), one line each:
//
//	relpath | type+perm | size (files, symlinks) | mtime ns | ctime ns | inode | nlink | symlink target | SHA-256 of content | atime-poisoned?
//
// atime itself is excluded (the kernel updates it on reads, including the reads of this snapshot and of
// the guest; relatime makes that state-dependent) — instead the line records whether atime equals the
// poison value the guest tries to set, which the kernel never produces on its own. Directory sizes are
// excluded (file-system internal). ctime/inode/nlink are included: they cannot be forged back and reads
// do not touch them, so any inode modification (write, truncate, chmod, link, utimens) shows.
//
// MapFS kind: sorted keys with mode, modtime, Sys and SHA-256 of Data.
func (w *world) snapshot() string {
	var sb strings.Builder
	if w.kind == kMapFS {
		keys := make([]string, 0, len(w.mapfs))
		for k := range w.mapfs {
			keys = append(keys, k)
		}
		sort.Strings(keys)
		for _, k := range keys {
			f := w.mapfs[k]
			if f == nil {
				fmt.Fprintf(&sb, "%s|nil\n", k)
				continue
			}
			h := sha256.Sum256(f.Data)
			fmt.Fprintf(&sb, "%s|%v|%d|%d|%v|%s\n", k, f.Mode, len(f.Data), f.ModTime.UnixNano(), f.Sys, hex.EncodeToString(h[:8]))
		}
		for _, n := range w.sibNames() {
			fmt.Fprintf(&sb, "~sibling-host-dir/%s|present\n", n)
		}
		return sb.String()
	}
	snapDir(&sb, w.base, ".")
	return sb.String()
}

func snapDir(sb *strings.Builder, base, rel string) {
	full := filepath.Join(base, rel)
	var st syscall.Stat_t
	if err := syscall.Lstat(full, &st); err != nil {
		fmt.Fprintf(sb, "%s|lstat-error %v\n", rel, err)
		return
	}
	mode := st.Mode
	poisoned := st.Atim.Sec == poisonTime.Unix()
	switch mode & syscall.S_IFMT {
	case syscall.S_IFDIR:
		fmt.Fprintf(sb, "%s|d%o|-|%d|%d|%d|%d|||%v\n", rel, mode&0o7777, st.Mtim.Nano(), st.Ctim.Nano(), st.Ino, st.Nlink, poisoned)
		ents, err := os.ReadDir(full) // sorted by name
		if err != nil {
			fmt.Fprintf(sb, "%s|readdir-error %v\n", rel, err)
			return
		}
		for _, e := range ents {
			snapDir(sb, base, filepath.Join(rel, e.Name()))
		}
	case syscall.S_IFLNK:
		t, _ := os.Readlink(full)
		fmt.Fprintf(sb, "%s|l%o|%d|%d|%d|%d|%d|%s||%v\n", rel, mode&0o7777, st.Size, st.Mtim.Nano(), st.Ctim.Nano(), st.Ino, st.Nlink, t, poisoned)
	case syscall.S_IFREG:
		hs := "not-read (larger than 1 MiB)" // e.g. a sparse file after a pwrite at 2^40: the size already differs
		if st.Size <= 1<<20 {
			b, err := os.ReadFile(full)
			h := sha256.Sum256(b)
			hs = hex.EncodeToString(h[:])
			if err != nil {
				hs = "read-error " + err.Error()
			}
		}
		fmt.Fprintf(sb, "%s|f%o|%d|%d|%d|%d|%d||%s|%v\n", rel, mode&0o7777, st.Size, st.Mtim.Nano(), st.Ctim.Nano(), st.Ino, st.Nlink, hs, poisoned)
	default:
		fmt.Fprintf(sb, "%s|other %o|%d|%d|%d|%d|%d|||%v\n", rel, mode, st.Size, st.Mtim.Nano(), st.Ctim.Nano(), st.Ino, st.Nlink, poisoned)
	}
}

// diffSnap classifies the difference between two snapshots: effect is "created" (entries added only),
// "removed" (entries removed only), "replaced" (both) or "modified" (same names, different attributes
// or content); detail lists the entries concerned.
func diffSnap(before, after string) (effect, detail string) {
	parse := func(s string) map[string]string {
		m := map[string]string{}
		for _, l := range strings.Split(strings.TrimSuffix(s, "\n"), "\n") {
			k, v, _ := strings.Cut(l, "|")
			m[k] = v
		}
		return m
	}
	a, b := parse(before), parse(after)
	var added, removed, changed []string
	for k, v := range b {
		if ov, ok := a[k]; !ok {
			added = append(added, k)
		} else if ov != v {
			changed = append(changed, fmt.Sprintf("%s [%s -> %s]", k, ov, v))
		}
	}
	for k := range a {
		if _, ok := b[k]; !ok {
			removed = append(removed, k)
		}
	}
	sort.Strings(added)
	sort.Strings(removed)
	sort.Strings(changed)
	switch {
	case len(added) > 0 && len(removed) > 0:
		effect = "replaced"
	case len(added) > 0:
		effect = "created"
	case len(removed) > 0:
		effect = "removed"
	default:
		effect = "modified"
	}
	var parts []string
	if len(added) > 0 {
		parts = append(parts, "added "+strings.Join(added, ","))
	}
	if len(removed) > 0 {
		parts = append(parts, "removed "+strings.Join(removed, ","))
	}
	if len(changed) > 0 {
		parts = append(parts, "changed "+strings.Join(changed, "; "))
	}
	return effect, strings.Join(parts, " | ")
}

var _ fs.FileMode

// fingerprint is the cheap per-step form of the invariant for host kinds: one lstat per entry known at
// baseline time (mode, size, mtime, ctime, inode, nlink, atime-poisoned), no directory listing and no
// content read. It is sound for a single WASI call on a POSIX host: adding, removing or renaming an
// entry updates mtime/ctime of the containing directory (which is in the list), and writing, truncating,
// chmod, link or utimens on an inode updates its ctime and/or mtime (all tree mtimes are set to 2001, so
// "now", wazero's fake clock and the poison value all differ). The full snapshot (names, symlink targets,
// SHA-256) is re-evaluated unconditionally every fullEvery words, at the end of every shard and whenever
// the fingerprint differs — i.e. the recursive snapshot is maintained incrementally (an entry is re-read
// only when its lstat tuple changed) and cross-checked by periodic unconditional re-reads.
func (w *world) fingerprint() []byte {
	if w.kind == kMapFS {
		// complete by itself: number of keys plus, for every baseline key, mode, modtime, Sys-presence and
		// the Data bytes themselves.
		buf := append(w.fpBuf[:0], byte(len(w.mapfs)))
		for _, k := range w.known {
			f := w.mapfs[k]
			if f == nil {
				buf = append(buf, 0xff)
				continue
			}
			tag := byte(1)
			if f.Sys != nil {
				tag = 2
			}
			buf = append(buf, tag)
			buf = binary.LittleEndian.AppendUint32(buf, uint32(len(f.Data)))
			buf = append(buf, f.Data...)
			buf = binary.LittleEndian.AppendUint32(buf, uint32(f.Mode))
			buf = binary.LittleEndian.AppendUint64(buf, uint64(f.ModTime.UnixNano()))
		}
		for _, n := range w.sibNames() {
			buf = append(append(buf, 3), n...)
		}
		w.fpBuf = buf
		return buf
	}
	buf := w.fpBuf[:0]
	var st syscall.Stat_t
	for i := range w.known {
		// lstat relative to an O_PATH descriptor of the containing directory taken at baseline time
		// (one path component instead of five; raw syscall: fstatat on a local fs does not block)
		if _, _, e := syscall.RawSyscall6(syscall.SYS_NEWFSTATAT, uintptr(w.knownDir[i]), uintptr(unsafe.Pointer(w.knownName[i])),
			uintptr(unsafe.Pointer(&st)), atSymlinkNofollow, 0, 0); e != 0 {
			buf = append(buf, 0xff)
			continue
		}
		p := byte(0)
		if st.Atim.Sec == poisonTime.Unix() {
			p = 1
		}
		buf = append(buf, 1, p)
		buf = binary.LittleEndian.AppendUint32(buf, st.Mode)
		if st.Mode&syscall.S_IFMT != syscall.S_IFDIR {
			buf = binary.LittleEndian.AppendUint64(buf, uint64(st.Size))
		}
		buf = binary.LittleEndian.AppendUint64(buf, uint64(st.Mtim.Nano()))
		buf = binary.LittleEndian.AppendUint64(buf, uint64(st.Ctim.Nano()))
		buf = binary.LittleEndian.AppendUint64(buf, st.Ino)
		buf = binary.LittleEndian.AppendUint64(buf, uint64(st.Nlink))
	}
	w.fpBuf = buf
	return buf
}

const (
	atSymlinkNofollow = 0x100
	oPath             = 0x200000
)

// indexKnown opens an O_PATH descriptor for every directory that contains a known entry and records
// (dirfd, name) for each entry. A directory that is later removed or replaced keeps its old descriptor:
// its entries then answer ENOENT / stale data and the parent's own mtime has changed — both differ from
// the baseline fingerprint.
func (w *world) indexKnown() {
	w.closeDirFDs()
	dirs := map[string]int{}
	w.knownDir, w.knownName = w.knownDir[:0], w.knownName[:0]
	for _, p := range w.known {
		d := filepath.Dir(p)
		fd, ok := dirs[d]
		if !ok {
			var err error
			fd, err = syscall.Open(d, oPath|syscall.O_DIRECTORY|syscall.O_CLOEXEC, 0)
			must(err)
			dirs[d] = fd
			w.dirFDs = append(w.dirFDs, fd)
		}
		n, err := syscall.BytePtrFromString(filepath.Base(p))
		must(err)
		w.knownDir = append(w.knownDir, fd)
		w.knownName = append(w.knownName, n)
	}
}

func (w *world) closeDirFDs() {
	for _, fd := range w.dirFDs {
		syscall.Close(fd)
	}
	w.dirFDs = w.dirFDs[:0]
}

// knownPaths lists the absolute paths of every entry in a full snapshot.
func knownPaths(base, snap string) []string {
	var o []string
	for _, l := range strings.Split(strings.TrimSuffix(snap, "\n"), "\n") {
		k, _, _ := strings.Cut(l, "|")
		o = append(o, filepath.Join(base, k))
	}
	return o
}

// sibNames: entries of the host directory that the discarded writable siblings of a MapFS mount point at
// (must stay empty: the guest was given the MapFS, not that directory).
func (w *world) sibNames() []string {
	if w.sibDir == "" {
		return nil
	}
	ents, err := os.ReadDir(w.sibDir)
	if err != nil {
		return []string{"<directory gone: " + err.Error() + ">"}
	}
	var o []string
	for _, e := range ents {
		o = append(o, e.Name())
	}
	return o
}
