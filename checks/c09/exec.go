package main

// Execution of one history on a fresh test world in lockstep with the twin world, and the classifier.

import (
	"fmt"
	"sort"
	"strings"

	"github.com/tetratelabs/wazero/verif/fw"
)

type stepFail struct {
	Step  int    `json:"step"`  // index of the operation; len(ops) for the probe phase
	Site  string `json:"site"`  // "A.call_t", "B.reenter", "store:3", "op:close-cache", ...
	Phase string `json:"phase"` // "op" | "probe" | "probe-after-gc"
	Kind  string `json:"kind"`  // diverged | go-runtime-error | go-panic | spurious-error | crash | timeout
	Test  string `json:"test"`  // what the world under test answered
	Twin  string `json:"twin"`  // what the twin answered
}

type caseResult struct {
	Status string         `json:"status"` // ok | operr (last operation failed with an ordinary error) | fail | prefix-error
	OpOut  string         `json:"op_out,omitempty"`
	Fail   *stepFail      `json:"fail,omitempty"`
	Probes int            `json:"probes"`
	Outs   map[string]int `json:"outs,omitempty"` // histogram of comparison classes
	// second open finding (does not end the history): trap probes whose stack trace lacks exactly the frame of a module
	// whose compiled code was closed
	Known2   int    `json:"known2,omitempty"`
	Known2Ex string `json:"known2_ex,omitempty"`
}

func (s state) anyClosed() bool {
	if s.RtClosed || s.CacheClosed {
		return true
	}
	for x := 0; x < nMods; x++ {
		if s.Inst[x] == instClosed || s.Comp[x] {
			return true
		}
	}
	return false
}

func opSite(o op) string {
	switch o.K {
	case kReenter:
		return modNames[o.X] + ".reenter"
	case kHostReenter:
		return "G.call_f1{close inside H.f1}"
	case kStore:
		return fmt.Sprintf("store:%d", o.X)
	case kRefMake:
		return "refmake:" + [...]string{"R.mk", "R.burst", "R.init", "R.getref->T.put2", "R.mkg", "T.clr0"}[o.X]
	case kFailInst:
		return fmt.Sprintf("failing-instantiation:%s:%d", failKindNames[o.X], o.A)
	}
	return "op:" + strings.SplitN(o.String(), "{", 2)[0]
}

func badKind(out string) string {
	switch {
	case strings.HasPrefix(out, "goerr:"):
		return "go-runtime-error"
	case strings.HasPrefix(out, "panic:"):
		return "go-panic"
	}
	return "diverged"
}

// judge compares the answer of the world under test with the twin's: equal, or an ordinary error once something
// has been closed. Returns "" when acceptable, else the failure kind.
func judge(test, twin string, s state) (class, kind string) {
	if isBad(test) {
		return "", badKind(test)
	}
	if test == twin {
		if strings.HasPrefix(test, "trap:") || strings.HasPrefix(test, "T:") {
			return "same-trap", ""
		}
		return "same-value", ""
	}
	if isOrdinary(test) {
		if s.anyClosed() {
			return "ordinary-error", ""
		}
		return "", "spurious-error"
	}
	return "", "diverged"
}

const knownSig2 = "stacktrace:frame-of-closed-compiled-module-missing"

// frameModule maps the first frame of a trap probe's stack trace (the function finally reached) to its module.
func frameModule(line string) int {
	for i, p := range []string{".g(", ".k(", ".c(", ".d(", ".r("} {
		if strings.HasPrefix(line, p) {
			return [...]int{mA, mB, mC, mD, mR}[i]
		}
	}
	return -1
}

// explainedByClosedCode: the world under test's trap text equals the twin's with exactly the frame of the reached
// function removed, and the model says why: that function's module M was deleted from the wazevo engine
// (CompiledModule.Close of M, or the engine was closed), M is not the entry module y and not a direct import of y
// (wazevo/call_engine.go addFrame can only fall back to those). The compiled code itself is still alive and runs.
func explainedByClosedCode(test, twin string, s state, y int) bool {
	if !strings.HasPrefix(test, "T:") || !strings.HasPrefix(twin, "T:") {
		return false
	}
	tl := strings.Split(twin, " | ")
	for i, l := range tl {
		if l != "wasm stack trace:" || i+1 >= len(tl) {
			continue
		}
		m := frameModule(tl[i+1])
		if m < 0 || m == y || (y == mB && m == mA) {
			return false
		}
		if !(s.CacheClosed || (m != mD && s.Comp[m])) {
			return false
		}
		d := append(append([]string{}, tl[:i+1]...), tl[i+2:]...)
		return strings.Join(d, " | ") == test
	}
	return false
}

// twinHost keeps one twin runtime per engine for the life of the child process: nothing is ever closed in the twin,
// so only its instances are per history.
type twinHost struct {
	w [2]*world
}

func (t *twinHost) get(eng int) *world {
	if t.w[eng] == nil {
		t.w[eng] = newWorld(false, eng, false, [nMods]bool{true, true, true, true, true, true, true, true, true}, 0, false, 0)
	}
	return t.w[eng]
}

func (t *twinHost) release(eng int, tainted bool) {
	w := t.w[eng]
	if w == nil {
		return
	}
	if tainted {
		// the world under test misbehaved in this process: do not trust shared state, rebuild the twin
		w.teardown()
		t.w[eng] = nil
		return
	}
	for _, x := range []int{mR, mT, mG, mH, mN, mM, mC, mB, mA} {
		if w.inst[x] != nil {
			w.inst[x].Close(bgctx)
			w.inst[x] = nil
		}
	}
}

var twins twinHost

// twinTrace is what the twin world answered: it is produced BEFORE the world under test executes anything, so no
// forced collection of this history can run while the twin's objects of this history matter (GOGC=off: the only
// collections are the forced ones). "Nothing is closed, dropped or collected" holds for the twin by construction,
// also for objects the host has no handle to (a failed instantiation's instance).
type twinTrace struct {
	ops    []string
	probes map[string]string
}

// runTwin executes the operations of h and then exactly the probe calls the world under test will make in state ps
// (both phases, same order): functions count their calls in their private memory, so the two worlds must make the
// same calls to give the same answers.
func runTwin(tw *world, h history, ps state) (tt twinTrace) {
	tt.probes = map[string]string{}
	tw.shape = h.Init.Shape // which binary of R the persistent twin instantiates
	for _, c := range h.Init.Mods {
		if r := tw.do(op{K: kInst, X: modIndex(byte(c))}); r != "ok" {
			fw.Fatalf("twin: initial graph %q: instantiate %c: %s", h.Init.Mods, c, r)
		}
	}
	for _, o := range h.Ops {
		r := "ok"
		switch o.K {
		case kInst:
			if tw.inst[o.X] == nil {
				r = tw.do(o)
			}
		case kStore, kReenter, kFailInst, kGrowGuest, kGrowHost, kMemWrite, kHostReenter, kRefMake:
			r = tw.do(o)
		}
		tt.ops = append(tt.ops, r)
	}
	for _, phase := range probePhases {
		for x := 0; x < nMods; x++ {
			if ps.Inst[x] == instNone || ps.Drop[x] || tw.inst[x] == nil {
				continue
			}
			for _, fn := range probesOf(ps, x) {
				for mode, sfx := range probeModes {
					tt.probes[modNames[x]+"."+fn+sfx+"#"+phase] = tw.probe(x, fn, uint64(mode))
				}
			}
		}
	}
	return tt
}

var probePhases = []string{"probe", "probe-after-gc"}
var probeModes = []string{"", "!trap"} // site suffix for mode 0 (value) and mode 1 (the function finally reached traps)

// execHistory runs h on engine eng. mark is called before every step that can fault.
func execHistory(h history, eng int, mark func(step int, site, phase string)) (res caseResult) {
	res.Outs = map[string]int{}
	mark(-1, "twin", "twin")
	tw := twins.get(eng)
	tt := runTwin(tw, h, h.final())
	// only modules the history can touch are compiled (an uninstantiated, unmentioned module is not part of the world)
	var need [nMods]bool
	for _, c := range h.Init.Mods {
		need[modIndex(byte(c))] = true
	}
	for _, o := range h.Ops {
		if o.K == kInst {
			need[o.X] = true
		}
	}
	w := newWorld(true, eng, h.Init.NoCache, need, h.compileOrder(), h.Init.HostVia, h.Init.Shape)
	tainted := false
	defer func() {
		w.teardown()
		twins.release(eng, tainted || res.Status == "fail")
	}()
	s := h.Init.state()
	for _, c := range h.Init.Mods {
		o := op{K: kInst, X: modIndex(byte(c))}
		if a := w.do(o); a != "ok" {
			fw.Fatalf("initial graph %q: instantiate %c: %s", h.Init.Mods, c, a)
		}
	}
	fail := func(step int, site, phase, kind, test, twin string) caseResult {
		res.Status = "fail"
		res.Fail = &stepFail{step, site, phase, kind, test, twin}
		return res
	}
	for k, o := range h.Ops {
		last := k == len(h.Ops)-1
		site := opSite(o)
		mark(k, site, "op")
		test := w.do(o)
		res.OpOut = test
		if isBad(test) {
			return fail(k, site, "op", badKind(test), test, "")
		}
		operr := false
		switch o.K {
		case kInst:
			if test != "ok" {
				operr = true // ordinary failure to instantiate; the twin skips the operation as well
			} else if t := tt.ops[k]; t != "ok" {
				fw.Fatalf("twin: %s: %s", o, t)
			}
		case kFresh, kCloseInst, kCloseComp, kCloseCache, kCloseRt, kDrop, kGC, kCloseFiller:
			operr = test != "ok"
		case kGrowGuest, kGrowHost, kMemWrite:
			// not a close / drop / collection: the twin grows and writes too
			t := tt.ops[k]
			if !strings.HasPrefix(t, "v:") && t != "ok" {
				fw.Fatalf("twin: %s: %s", o, t)
			}
			cl, kind := judge(test, t, s)
			if kind != "" {
				return fail(k, site, "op", kind, test, t)
			}
			operr = cl == "ordinary-error"
		case kStore, kRefMake:
			t := tt.ops[k]
			if t != "ok" {
				fw.Fatalf("twin: %s: %s", o, t)
			}
			cl, kind := judge(test, t, s)
			if kind != "" {
				return fail(k, site, "op", kind, test, t)
			}
			operr = cl == "ordinary-error"
		case kFailInst:
			// the twin instantiates the same module the same way: it fails there too and its table write persists
			t := tt.ops[k]
			if !strings.HasPrefix(t, "inst-failed:") {
				fw.Fatalf("twin: %s: %s", o, t)
			}
			switch {
			case test == t:
				res.Outs["failing-instantiation:same-error"]++
			case strings.HasPrefix(test, "inst-failed:") && isOrdinary(strings.TrimPrefix(test, "inst-failed:")) && s.anyClosed():
				operr = true
			default:
				return fail(k, site, "op", "diverged", test, t)
			}
		case kReenter, kHostReenter:
			t := tt.ops[k]
			if !strings.HasPrefix(t, "v:") {
				fw.Fatalf("twin: %s: %s", o, t)
			}
			// judged in the state AFTER the close the host function performed
			cl, kind := judge(test, t, s.apply(o))
			if kind != "" {
				return fail(k, site, "op", kind, test, t)
			}
			res.Outs["outstanding-call:"+cl]++
		}
		if operr {
			res.Outs["op-ordinary-error"]++
			if !last {
				res.Status = "prefix-error"
				res.Fail = &stepFail{Step: k, Site: site, Phase: "op", Kind: "prefix-error", Test: test}
				return res
			}
			res.Status = "operr"
			if o.K == kStore || o.K == kRefMake || o.K == kFailInst || o.K == kGrowGuest || o.K == kGrowHost || o.K == kMemWrite {
				return res // the slot may or may not have been written: no probes
			}
		} else {
			s = s.apply(o)
		}
	}
	if n := len(h.Ops); res.Status == "operr" && n > 0 && h.Ops[n-1].K == kInst {
		// the last instantiation failed in the world under test: the twin that matches is the one that never attempted it
		// (a complete fresh twin run, still before the collection below)
		twins.release(eng, false)
		h2 := history{Init: h.Init, Ops: h.Ops[:n-1]}
		tt = runTwin(tw, h2, s)
	}
	// probes: every call the host can still make, before and after a forced collection.
	hostClosureCheck := func(phase string) *caseResult {
		// the state object H's Go closures capture must not be finalized while a guest importing them is reachable
		if w.hostCollected != nil && w.hostCollected.Load() && s.reachable()[mG] {
			r := fail(len(h.Ops), "H.closures", phase, "host-closure-collected-while-importer-live", "finalizer of the closures' state ran", "state alive")
			return &r
		}
		return nil
	}
	for _, phase := range probePhases {
		if phase == "probe-after-gc" {
			mark(len(h.Ops), "forced-gc", phase)
			w.collect()
		}
		if r := hostClosureCheck(phase); r != nil {
			return *r
		}
		for x := 0; x < nMods; x++ {
			if s.Inst[x] == instNone || s.Drop[x] {
				continue
			}
			for _, fn := range probesOf(s, x) {
				for mode, sfx := range probeModes {
					site := modNames[x] + "." + fn + sfx
					mark(len(h.Ops), site, phase)
					test := w.probe(x, fn, uint64(mode))
					twin := tt.probes[site+"#"+phase]
					res.Probes++
					cl, kind := judge(test, twin, s)
					if kind == "diverged" && explainedByClosedCode(test, twin, s, x) {
						res.Known2++
						if res.Known2Ex == "" {
							res.Known2Ex = fmt.Sprintf("%s (%s): %q instead of %q", site, phase, test, twin)
						}
						cl, kind = "known:stack-frame-of-closed-code-missing", ""
					}
					if kind != "" {
						return fail(len(h.Ops), site, phase, kind, test, twin)
					}
					res.Outs[cl+sfx]++
				}
			}
		}
		// nothing may have written into memory that was collected and handed out again
		mark(len(h.Ops), "sentinel-blocks", phase)
		if bad := w.checkSentinels(); bad != "" {
			return fail(len(h.Ops), "sentinel-blocks", phase, "wrote-into-collected-memory", bad, "")
		}
	}
	if res.Status == "" {
		res.Status = "ok"
	}
	return res
}

// ---------------------------------------------------------------- classifier

const knownSig = "rawref:no-import-edge:owner-closed-and-collected"

func ownerName(x int) string {
	if x == mD {
		return "D"
	}
	return modNames[x]
}

func modStatus(s state, x int) string {
	if x == mD {
		return "instantiation-failed,import-edge-to-A.tab"
	}
	st := [...]string{"none", "open", "closed"}[s.Inst[x]]
	if s.Comp[x] {
		st += "+code-closed"
	}
	if s.Drop[x] {
		st += "+dropped"
	}
	if x == mR && s.Shape != 0 {
		st += ",module-shape=" + shapeDefs[s.Shape].Name
	}
	return st
}

// classify maps a failure to a signature built from the minimal failing step: the call site, the state of the
// executing instance, what the slots it reads hold and the state of their owners, and the failure kind.
// s is the model state in which the failing call ran (after the operation, for operations).
func classify(s state, eng int, f stepFail) (sig string, known bool) {
	slots := siteSlots[strings.TrimSuffix(f.Site, "!trap")]
	dang := map[int]bool{}
	for _, d := range s.dangling() {
		dang[d] = true
	}
	for _, sl := range slots {
		if dang[sl] {
			// reference held only as a raw slot of an instance with no import edge to the owner; the owner is
			// closed and unreachable for the collector (DESIGN §6 #16)
			return knownSig, true
		}
	}
	var parts []string
	parts = append(parts, engineNames[eng], f.Site)
	if i := strings.IndexByte(f.Site, '.'); i == 1 {
		x := modIndex(f.Site[0])
		parts = append(parts, "exec="+modStatus(s, x))
	}
	sort.Ints(slots)
	for _, sl := range slots {
		fn := s.Slots[sl]
		d := slotNames[sl] + "=" + fnNames[fn]
		if fn != fNull {
			d += "(owner " + ownerName(fnOwner[fn]) + ":" + modStatus(s, fnOwner[fn]) + ")"
		}
		parts = append(parts, d)
	}
	if s.RtClosed {
		parts = append(parts, "runtime-closed")
	}
	if s.CacheClosed {
		parts = append(parts, "engine-closed")
	}
	parts = append(parts, f.Phase, f.Kind)
	return strings.Join(parts, ":"), false
}
