package main

// The real worlds: wazero runtimes holding modules A, B, C (+ host module env), the operations of the
// alphabet executed through the public API, the probes (calls compared with the twin) and the forced GC.

import (
	"bytes"
	"context"
	"errors"
	"fmt"
	"regexp"
	"runtime"
	"strings"
	"sync/atomic"
	"time"

	"github.com/tetratelabs/wazero"
	"github.com/tetratelabs/wazero/api"
	"github.com/tetratelabs/wazero/internal/wasmruntime"
	"github.com/tetratelabs/wazero/sys"
	"github.com/tetratelabs/wazero/verif/fw"
	"github.com/tetratelabs/wazero/verif/wb"
)

var engineNames = [2]string{"compiler", "interpreter"}

const (
	valA = 101
	valB = 202
	valC = 303
	valR = 707
)

var (
	i32   = []byte{wb.I32}
	fref  = []byte{wb.FuncRef}
	binA  = buildA()
	binB  = buildB()
	binC  = buildC()
	bins  = [nMods][]byte{binA, binB, binC, buildM(), buildN(), nil /* H is a host module */, buildG(), buildT(), buildR(shFull)}
	bgctx = context.Background()
)

// Every module has a PRIVATE linear memory (one page, neither exported nor imported) holding a marker pattern: 16
// words spread over the page (64 bytes) and a call counter. Its functions g / k / c increment the counter (a write)
// and return  val + 1000*counter + (sum of the 16 marker words XOR the expected sum)  (reads): any change of what the
// closed-or-not owner's memory holds shows in the value compared with the twin.
const (
	memCells   = 16
	cellStride = 4096
	cellBase   = 64
	counterOff = 40000
)

func markerWord(mod, i int) uint32 { return 0x9E3779B1*uint32(i+1) + 0x01000193*uint32(mod+1) }

func addPrivateMemory(m *wb.Module, mod int) {
	m.Mem = &wb.Limits{Min: 1, Max: 1, HasMax: true}
	for i := 0; i < memCells; i++ {
		w := markerWord(mod, i)
		m.Datas = append(m.Datas, wb.Data{Offset: wb.CI32(int32(cellBase + i*cellStride)), Bytes: []byte{byte(w), byte(w >> 8), byte(w >> 16), byte(w >> 24)}})
	}
}

// valueBody(mode): mode != 0 => unreachable (trap probe, before anything is written);
// otherwise counter++ ; return val + 1000*counter + (sum(cells) ^ expected)
func valueBody(mod int, val int32) []byte {
	a := &wb.Asm{}
	a.LocalGet(0).If(wb.Void).Unreachable().End()
	a.I32Const(0).I32Const(0).Mem(0x28, 2, counterOff).I32Const(1).Op(0x6a).Mem(0x36, 2, counterOff)
	a.I32Const(0).Mem(0x28, 2, counterOff).I32Const(1000).Op(0x6c).I32Const(val).Op(0x6a)
	var exp uint32
	for i := 0; i < memCells; i++ {
		exp += markerWord(mod, i)
		a.I32Const(0).Mem(0x28, 2, uint64(cellBase+i*cellStride))
		if i > 0 {
			a.Op(0x6a)
		}
	}
	a.I32Const(int32(exp)).Op(0x73).Op(0x6a)
	return a.B
}

// slotOrZero emits: table[tbl][0] is null ? 0 : call_indirect table[tbl][0]
func slotOrZero(a *wb.Asm, t0, tbl uint32) *wb.Asm {
	return a.I32Const(0).TableGet(tbl).RefIsNull().If(wb.I32).I32Const(0).Else().I32Const(0).I32Const(0).CallIndirect(t0, tbl).End()
}

func buildA() []byte {
	m := &wb.Module{}
	hook := m.ImportFunc("env", "hook", i32, nil)
	t0 := m.Type(i32, i32)
	m.Tables = []wb.Table{{Elem: wb.FuncRef, Lim: wb.Limits{Min: 2, Max: 2, HasMax: true}}}
	glob := m.AddGlobal(wb.FuncRef, true, wb.CRefNull(wb.FuncRef))
	addPrivateMemory(m, mA)
	g := m.AddFunc(i32, i32, nil, valueBody(mA, valA))
	m.ExportFunc("g", g)
	m.ExportFunc("getref", m.AddFunc(nil, fref, nil, (&wb.Asm{}).RefFunc(g).B))
	m.ExportFunc("put_t", m.AddFunc(fref, nil, nil, (&wb.Asm{}).I32Const(0).LocalGet(0).TableSet(0).B))
	m.ExportFunc("put_g", m.AddFunc(fref, nil, nil, (&wb.Asm{}).LocalGet(0).GlobalSet(glob).B))
	m.ExportFunc("self_t", m.AddFunc(nil, nil, nil, (&wb.Asm{}).I32Const(0).RefFunc(g).TableSet(0).B))
	m.ExportFunc("call_t", m.AddFunc(i32, i32, nil, (&wb.Asm{}).LocalGet(0).I32Const(0).CallIndirect(t0, 0).B))
	m.ExportFunc("call_glob", m.AddFunc(i32, i32, nil, (&wb.Asm{}).I32Const(1).GlobalGet(glob).TableSet(0).LocalGet(0).I32Const(1).CallIndirect(t0, 0).B))
	re := (&wb.Asm{}).LocalGet(0).Call(hook).I32Const(0).Call(g)
	slotOrZero(re, t0, 0).I32Const(1000).Op(0x6c).Op(0x6a)
	m.ExportFunc("reenter", m.AddFunc(i32, i32, nil, re.B))
	m.Exports = append(m.Exports, wb.Export{Name: "tab", Kind: wb.KindTable, Idx: 0})
	m.Elems = []wb.Elem{{Mode: 2, Funcs: []uint32{g}}}
	nameExports(m)
	return m.Encode()
}

func buildB() []byte {
	m := &wb.Module{}
	hook := m.ImportFunc("env", "hook", i32, nil)
	impG := m.ImportFunc("A", "g", i32, i32)
	m.Imports = append(m.Imports, wb.Import{Module: "A", Name: "tab", Kind: wb.KindTable, Table: wb.Table{Elem: wb.FuncRef, Lim: wb.Limits{Min: 2}}})
	t0 := m.Type(i32, i32)
	m.Tables = []wb.Table{{Elem: wb.FuncRef, Lim: wb.Limits{Min: 2, Max: 2, HasMax: true}}} // table index 1 (private)
	glob := m.AddGlobal(wb.FuncRef, true, wb.CRefNull(wb.FuncRef))
	addPrivateMemory(m, mB)
	k := m.AddFunc(i32, i32, nil, valueBody(mB, valB))
	m.ExportFunc("k", k)
	m.ExportFunc("call_g", m.AddFunc(i32, i32, nil, (&wb.Asm{}).LocalGet(0).Call(impG).B))
	m.ExportFunc("getref", m.AddFunc(nil, fref, nil, (&wb.Asm{}).RefFunc(k).B))
	m.ExportFunc("getref_imp", m.AddFunc(nil, fref, nil, (&wb.Asm{}).RefFunc(impG).B))
	m.ExportFunc("put_at_k", m.AddFunc(nil, nil, nil, (&wb.Asm{}).I32Const(0).RefFunc(k).TableSet(0).B))
	m.ExportFunc("put_at_imp", m.AddFunc(nil, nil, nil, (&wb.Asm{}).I32Const(0).RefFunc(impG).TableSet(0).B))
	m.ExportFunc("put_pt_imp", m.AddFunc(nil, nil, nil, (&wb.Asm{}).I32Const(0).RefFunc(impG).TableSet(1).B))
	m.ExportFunc("put_g_imp", m.AddFunc(nil, nil, nil, (&wb.Asm{}).RefFunc(impG).GlobalSet(glob).B))
	m.ExportFunc("put_pt", m.AddFunc(fref, nil, nil, (&wb.Asm{}).I32Const(0).LocalGet(0).TableSet(1).B))
	m.ExportFunc("put_g", m.AddFunc(fref, nil, nil, (&wb.Asm{}).LocalGet(0).GlobalSet(glob).B))
	m.ExportFunc("call_at", m.AddFunc(i32, i32, nil, (&wb.Asm{}).LocalGet(0).I32Const(0).CallIndirect(t0, 0).B))
	m.ExportFunc("call_pt", m.AddFunc(i32, i32, nil, (&wb.Asm{}).LocalGet(0).I32Const(0).CallIndirect(t0, 1).B))
	m.ExportFunc("call_glob", m.AddFunc(i32, i32, nil, (&wb.Asm{}).I32Const(1).GlobalGet(glob).TableSet(1).LocalGet(0).I32Const(1).CallIndirect(t0, 1).B))
	re := (&wb.Asm{}).LocalGet(0).Call(hook).I32Const(0).Call(impG)
	slotOrZero(re, t0, 0).I32Const(1000).Op(0x6c).Op(0x6a)
	slotOrZero(re, t0, 1).I32Const(1000000).Op(0x6c).Op(0x6a)
	m.ExportFunc("reenter", m.AddFunc(i32, i32, nil, re.B))
	m.Elems = []wb.Elem{{Mode: 2, Funcs: []uint32{impG, k}}}
	nameExports(m)
	return m.Encode()
}

func buildC() []byte {
	m := &wb.Module{}
	hook := m.ImportFunc("env", "hook", i32, nil)
	t0 := m.Type(i32, i32)
	m.Tables = []wb.Table{{Elem: wb.FuncRef, Lim: wb.Limits{Min: 2, Max: 2, HasMax: true}}}
	addPrivateMemory(m, mC)
	c := m.AddFunc(i32, i32, nil, valueBody(mC, valC))
	m.ExportFunc("c", c)
	m.ExportFunc("getref", m.AddFunc(nil, fref, nil, (&wb.Asm{}).RefFunc(c).B))
	m.ExportFunc("put_pt", m.AddFunc(fref, nil, nil, (&wb.Asm{}).I32Const(0).LocalGet(0).TableSet(0).B))
	m.ExportFunc("call_pt", m.AddFunc(i32, i32, nil, (&wb.Asm{}).LocalGet(0).I32Const(0).CallIndirect(t0, 0).B))
	re := (&wb.Asm{}).LocalGet(0).Call(hook).I32Const(0).Call(c)
	slotOrZero(re, t0, 0).I32Const(1000).Op(0x6c).Op(0x6a)
	m.ExportFunc("reenter", m.AddFunc(i32, i32, nil, re.B))
	m.Elems = []wb.Elem{{Mode: 2, Funcs: []uint32{c}}}
	nameExports(m)
	return m.Encode()
}

// lastPageAddr emits: mode(local 0) != 0 ? (memory.size-1)*65536+100 : 100
func lastPageAddr(a *wb.Asm) *wb.Asm {
	return a.LocalGet(0).If(wb.I32).MemorySize().I32Const(1).Op(0x6b).I32Const(16).Op(0x74).I32Const(100).Op(0x6a).Else().I32Const(100).End()
}

// buildM: defines and exports a growable memory (1..3 pages; default capacity, so growth reallocates the buffer) and
// ld(addr); ld0(mode) loads from the first / last page as M itself sees the memory.
func buildM() []byte {
	m := &wb.Module{}
	m.Mem = &wb.Limits{Min: 1, Max: 3, HasMax: true}
	m.Datas = []wb.Data{{Offset: wb.CI32(100), Bytes: []byte{0x11, 0x11, 0, 0}}}
	m.ExportFunc("ld", m.AddFunc(i32, i32, nil, (&wb.Asm{}).LocalGet(0).Mem(0x28, 2, 0).B))
	m.ExportFunc("ld0", m.AddFunc(i32, i32, nil, lastPageAddr(&wb.Asm{}).Mem(0x28, 2, 0).B))
	m.Exports = append(m.Exports, wb.Export{Name: "mem", Kind: wb.KindMemory, Idx: 0})
	nameExports(m)
	return m.Encode()
}

// buildN: imports M's memory and M.ld; grows the memory, writes into it, reads it itself (rd) and through M's
// function reached by import (call_ld) and by table slot (call_ld_t).
func buildN() []byte {
	m := &wb.Module{}
	ld := m.ImportFunc("M", "ld", i32, i32)
	m.Imports = append(m.Imports, wb.Import{Module: "M", Name: "mem", Kind: wb.KindMemory, Mem: wb.Limits{Min: 1, Max: 3, HasMax: true}})
	t0 := m.Type(i32, i32)
	m.Tables = []wb.Table{{Elem: wb.FuncRef, Lim: wb.Limits{Min: 1, Max: 1, HasMax: true}}}
	m.Elems = []wb.Elem{{Mode: 0, TableIdx: 0, Offset: wb.CI32(0), Funcs: []uint32{ld}}}
	m.ExportFunc("call_ld", m.AddFunc(i32, i32, nil, lastPageAddr(&wb.Asm{}).Call(ld).B))
	m.ExportFunc("call_ld_t", m.AddFunc(i32, i32, nil, lastPageAddr(&wb.Asm{}).I32Const(0).CallIndirect(t0, 0).B))
	m.ExportFunc("rd", m.AddFunc(i32, i32, nil, lastPageAddr(&wb.Asm{}).Mem(0x28, 2, 0).B))
	m.ExportFunc("grow", m.AddFunc(nil, i32, nil, (&wb.Asm{}).I32Const(1).MemoryGrow().B))
	// wr(): mem[100] = 0x2200+size ; mem[last page + 100] = 0x3300+size  (local 0 is used as the mode of lastPageAddr)
	wr := (&wb.Asm{}).I32Const(100).I32Const(0x2200).MemorySize().Op(0x6a).Mem(0x36, 2, 0)
	wr.I32Const(1).LocalSet(0)
	lastPageAddr(wr).I32Const(0x3300).MemorySize().Op(0x6a).Mem(0x36, 2, 0)
	m.ExportFunc("wr", m.AddFunc(nil, nil, []byte{wb.I32}, wr.B))
	nameExports(m)
	return m.Encode()
}

// buildG: imports the three Go functions of host module H; calls them directly and f1 through a table slot.
func buildG() []byte {
	m := &wb.Module{}
	f1 := m.ImportFunc("H", "f1", i32, i32)
	f2 := m.ImportFunc("H", "f2", i32, i32)
	f3 := m.ImportFunc("H", "f3", i32, i32)
	t0 := m.Type(i32, i32)
	m.Tables = []wb.Table{{Elem: wb.FuncRef, Lim: wb.Limits{Min: 1, Max: 1, HasMax: true}}}
	m.Elems = []wb.Elem{{Mode: 0, TableIdx: 0, Offset: wb.CI32(0), Funcs: []uint32{f1}}}
	m.ExportFunc("call_f1", m.AddFunc(i32, i32, nil, (&wb.Asm{}).LocalGet(0).Call(f1).B))
	m.ExportFunc("call_f2", m.AddFunc(i32, i32, nil, (&wb.Asm{}).LocalGet(0).Call(f2).B))
	m.ExportFunc("call_f3", m.AddFunc(i32, i32, nil, (&wb.Asm{}).LocalGet(0).Call(f3).B))
	m.ExportFunc("call_t", m.AddFunc(i32, i32, nil, (&wb.Asm{}).LocalGet(0).I32Const(0).CallIndirect(t0, 0).B))
	nameExports(m)
	return m.Encode()
}

// buildT: the table owner of graph TR. Exports a 3-slot funcref table, calls through every slot (call_t0..2), and has
// the two stores that do not need R's code: put2(ref) (host-mediated) and clr0() (T.tab[0] = null).
func buildT() []byte {
	m := &wb.Module{}
	t0 := m.Type(i32, i32)
	m.Tables = []wb.Table{{Elem: wb.FuncRef, Lim: wb.Limits{Min: 3, Max: 3, HasMax: true}}}
	for i := int32(0); i < 3; i++ {
		m.ExportFunc(fmt.Sprintf("call_t%d", i), m.AddFunc(i32, i32, nil, (&wb.Asm{}).LocalGet(0).I32Const(i).CallIndirect(t0, 0).B))
	}
	m.ExportFunc("put2", m.AddFunc(fref, nil, nil, (&wb.Asm{}).I32Const(2).LocalGet(0).TableSet(0).B))
	m.ExportFunc("clr0", m.AddFunc(nil, nil, nil, (&wb.Asm{}).I32Const(0).RefNull(wb.FuncRef).TableSet(0).B))
	m.Exports = append(m.Exports, wb.Export{Name: "tab", Kind: wb.KindTable, Idx: 0})
	nameExports(m)
	return m.Encode()
}

// buildR: the referencer of graph TR. ONE function r that references lead to, and many ways of making references to
// it: at instantiation an ACTIVE element segment with a duplicate entry (T.tab[0..1] = [r, r]), a funcref global
// initialised with ref.func r and a PASSIVE segment of refBurst duplicates; afterwards mk (one ref.func + table.set),
// burst (refBurst of them in a loop), init (table.init from the passive segment), mkg (global.set ref.func r) and
// getref (the reference goes through the host). Every reference is a separate record of R's module engine; the
// earlier ones must stay valid whatever is made later.
func buildR(shape int) []byte {
	sd := shapeDefs[shape]
	m := &wb.Module{}
	m.Imports = append(m.Imports, wb.Import{Module: "T", Name: "tab", Kind: wb.KindTable, Table: wb.Table{Elem: wb.FuncRef, Lim: wb.Limits{Min: 3}}})
	t0 := m.Type(i32, i32)
	if sd.OwnTable {
		m.Tables = []wb.Table{{Elem: wb.FuncRef, Lim: wb.Limits{Min: 1, Max: 1, HasMax: true}}} // table index 1 (private; used by call_glob)
	}
	var r uint32
	if sd.Mem {
		addPrivateMemory(m, mR)
		r = m.AddFunc(i32, i32, nil, valueBody(mR, valR))
	} else {
		// no memory section: r is a constant function (mode != 0 traps as everywhere)
		r = m.AddFunc(i32, i32, nil, (&wb.Asm{}).LocalGet(0).If(wb.Void).Unreachable().End().I32Const(valR).B)
	}
	var glob uint32
	if sd.Global {
		if sd.GlobalNull {
			glob = m.AddGlobal(wb.FuncRef, true, wb.CRefNull(wb.FuncRef))
		} else {
			glob = m.AddGlobal(wb.FuncRef, true, wb.CRefFunc(r))
		}
	}
	m.ExportFunc("r", r) // exported: ref.func r is valid in function bodies also when no element segment declares it
	m.ExportFunc("mk", m.AddFunc(nil, nil, nil, (&wb.Asm{}).I32Const(2).RefFunc(r).TableSet(0).B))
	// burst: for i := refBurst; i != 0; i-- { T.tab[2] = ref.func r }
	burst := (&wb.Asm{}).I32Const(refBurst).LocalSet(0).Loop(wb.Void).
		I32Const(2).RefFunc(r).TableSet(0).
		LocalGet(0).I32Const(1).Op(0x6b).LocalTee(0).BrIf(0).End()
	m.ExportFunc("burst", m.AddFunc(nil, nil, []byte{wb.I32}, burst.B))
	passiveIdx := uint32(0) // index of the passive segment in the element section
	if sd.Active {
		passiveIdx = 1
	}
	if sd.Passive {
		m.ExportFunc("init", m.AddFunc(nil, nil, nil, (&wb.Asm{}).I32Const(1).I32Const(0).I32Const(2).TableInit(passiveIdx, 0).B))
	}
	if sd.Global {
		m.ExportFunc("mkg", m.AddFunc(nil, nil, nil, (&wb.Asm{}).RefFunc(r).GlobalSet(glob).B))
	}
	m.ExportFunc("getref", m.AddFunc(nil, fref, nil, (&wb.Asm{}).RefFunc(r).B))
	m.ExportFunc("call_t0", m.AddFunc(i32, i32, nil, (&wb.Asm{}).LocalGet(0).I32Const(0).CallIndirect(t0, 0).B))
	if sd.Global {
		m.ExportFunc("call_glob", m.AddFunc(i32, i32, nil, (&wb.Asm{}).I32Const(0).GlobalGet(glob).TableSet(1).LocalGet(0).I32Const(0).CallIndirect(t0, 1).B))
	}
	dup := make([]uint32, refBurst)
	for i := range dup {
		dup[i] = r
	}
	if sd.Active {
		m.Elems = append(m.Elems, wb.Elem{Mode: 0, TableIdx: 0, Offset: wb.CI32(0), Funcs: []uint32{r, r}})
	}
	if sd.Passive {
		m.Elems = append(m.Elems, wb.Elem{Mode: 1, Funcs: dup})
	}
	if sd.ActiveOwn {
		m.Elems = append(m.Elems, wb.Elem{Mode: 0, TableIdx: 1, Offset: wb.CI32(0), Funcs: []uint32{r}})
	}
	if sd.Decl {
		m.Elems = append(m.Elems, wb.Elem{Mode: 2, Funcs: []uint32{r}})
	}
	nameExports(m)
	return m.Encode()
}

// rBins: R in every module shape (rBins[shFull] == bins[mR]).
var rBins = func() (b [nShapes][]byte) {
	for sh := range b {
		b[sh] = buildR(sh)
	}
	return
}()

// hostState is what H's three Go closures capture. Nothing else references it once the harness dropped H, so its
// finalizer tells whether the closures were collected.
type hostState struct {
	val uint32
	pad [7]uint64
}

var errHostAsked = errors.New("host function was asked to fail")

const valD = 404

// buildD: imports A.tab, ACTIVE element segment A.tab[0] = d, and then fails to instantiate in the given way.
// variant only makes the binary (and so the module ID in the engine) distinct per API path.
func buildD(kind, variant int) []byte {
	m := &wb.Module{}
	var exit uint32
	if kind == failStartExit {
		exit = m.ImportFunc("env", "exit", nil, nil)
	}
	m.Imports = append(m.Imports, wb.Import{Module: "A", Name: "tab", Kind: wb.KindTable, Table: wb.Table{Elem: wb.FuncRef, Lim: wb.Limits{Min: 2}}})
	d := m.AddFunc(i32, i32, nil, (&wb.Asm{}).LocalGet(0).If(wb.Void).Unreachable().End().I32Const(valD).B)
	m.FuncNames = map[uint32]string{d: "d"}
	m.Elems = []wb.Elem{{Mode: 0, TableIdx: 0, Offset: wb.CI32(0), Funcs: []uint32{d}}}
	switch kind {
	case failStartTrap:
		st := m.AddFunc(nil, nil, nil, (&wb.Asm{}).Unreachable().B)
		m.Start = &st
	case failDataOOB:
		m.Mem = &wb.Limits{Min: 1, Max: 1, HasMax: true}
		m.Datas = []wb.Data{{Offset: wb.CI32(65535), Bytes: []byte{1, 2}}}
	case failStartExit:
		st := m.AddFunc(nil, nil, nil, (&wb.Asm{}).Call(exit).B)
		m.Start = &st
	}
	m.Customs = []wb.Custom{{Name: "variant", Data: []byte{byte(variant)}}}
	return m.Encode()
}

var failBins = func() (b [nFailKinds][nVias][]byte) {
	for k := 0; k < nFailKinds; k++ {
		for v := 0; v < nVias; v++ {
			b[k][v] = buildD(k, v)
		}
	}
	return
}()

// nameExports gives every exported function its export name in the name section (wasm stack traces show them).
func nameExports(m *wb.Module) {
	m.FuncNames = map[uint32]string{}
	for _, e := range m.Exports {
		if e.Kind == wb.KindFunc {
			m.FuncNames[e.Idx] = e.Name
		}
	}
}

// fillerBin: a module with code that nobody instantiates; it only occupies a place in the engine's bookkeeping.
func fillerBin(n int) []byte {
	m := &wb.Module{}
	m.ExportFunc("f", m.AddFunc(nil, i32, nil, (&wb.Asm{}).I32Const(int32(9000+n)).B))
	return m.Encode()
}

const nFillers = 4

var fillerBins = func() (b [nFillers][]byte) {
	for i := range b {
		b[i] = fillerBin(i)
	}
	return
}()

func freshBin(n int) []byte {
	m := &wb.Module{}
	m.ExportFunc("v", m.AddFunc(nil, i32, nil, (&wb.Asm{}).I32Const(int32(7000+n)).B))
	return m.Encode()
}

// probes per module: exported functions (mode i32) -> i32; every probe is called with mode 0 (value) and mode 1 (the
// function finally reached traps: the FULL error text, wasm stack trace included, must equal the twin's).
var probeFns = [nMods][]string{
	{"g", "call_t", "call_glob"},
	{"k", "call_g", "call_at", "call_pt", "call_glob"},
	{"c", "call_pt"},
	{"ld0"},                        // M: mode 0 = address 100, mode 1 = offset 100 of the last page (as M sees the size)
	{"rd", "call_ld", "call_ld_t"}, // N: own load, M.ld through the import, M.ld through N's table slot
	{},                             // H: a host module has no guest-callable probes of its own
	{"call_f1", "call_f2", "call_f3", "call_t"}, // G: H's closures through the imports and through G's table slot; mode 1: the closure panics with an error
	{"call_t0", "call_t1", "call_t2"},           // T: call_indirect through every slot of its exported table (R's references)
	{"r", "call_t0", "call_glob"},               // R: own function, through the imported table, through its funcref global
}

// slots a call site reads (for classification)
var siteSlots = map[string][]int{
	"A.call_t": {sAt}, "A.call_glob": {sAg}, "A.reenter": {sAt},
	"B.call_at": {sAt}, "B.call_pt": {sBt}, "B.call_glob": {sBg}, "B.reenter": {sAt, sBt},
	"C.call_pt": {sCt}, "C.reenter": {sCt},
	"T.call_t0": {sTt0}, "T.call_t1": {sTt1}, "T.call_t2": {sTt2}, "R.call_t0": {sTt0}, "R.call_glob": {sRg},
}

// ---------------------------------------------------------------- world

type world struct {
	test     bool // false: twin (closes, drops and collections removed)
	eng      int
	cache    wazero.CompilationCache
	rt       wazero.Runtime
	comp     [nMods]wazero.CompiledModule
	inst     [nMods]api.Module
	fresh    []api.Module
	failC    [nFailKinds]wazero.CompiledModule // kept compiled modules of D (never closed, never dropped)
	fill     [nFillers]wazero.CompiledModule   // filler compiled modules (world under test only)
	hbuilder wazero.HostModuleBuilder          // H's builder (dropped with H)
	hstate   *hostState                        // harness reference to the closures' state (dropped with H)
	shape    int                               // module shape of R (graph TR); the persistent twin switches it per history
	compR    [nShapes]wazero.CompiledModule    // twin only: one compiled module of R per shape, compiled on first use
	hostVia  bool                              // instantiate H with builder.Instantiate instead of Compile + InstantiateModule
	// set by the finalizer of hstate
	hostCollected *atomic.Bool
	pendingH      int      // close action H.f1's closure performs at its next invocation (-1: none)
	sentinels     [][]byte // blocks of the size of a linear memory, allocated right after each forced collection
	freshN        int
	pending       int // close action the host function performs at its next invocation (-1: none)
	pendX         int
	hookRan       bool
}

func rtConfig(eng int) wazero.RuntimeConfig {
	if eng == 0 {
		return wazero.NewRuntimeConfigCompiler()
	}
	return wazero.NewRuntimeConfigInterpreter()
}

// newWorld creates runtime (+cache) and compiles, in one of two orders, the needed ones of A, B, C, the host module
// and (world under test) the fillers:  order 0: A, B, env, F1..F4, C   order 1: C, F4..F1, env, B, A.
// Code segments are mmap'd monotonically in a fresh process, so whichever direction the kernel uses, in both orders a
// live module that is reachable through call_indirect from a non-importer (A or C) has the highest code address and
// the fillers lie in the middle of wazevo's address-sorted module list.
func newWorld(test bool, eng int, noCache bool, need [nMods]bool, order int, hostVia bool, shape int) *world {
	w := &world{test: test, eng: eng, pending: -1, pendingH: -1, hostVia: hostVia && test, shape: shape}
	cfg := rtConfig(eng)
	if !noCache {
		w.cache = wazero.NewCompilationCache()
		cfg = cfg.WithCompilationCache(w.cache)
	}
	w.rt = wazero.NewRuntimeWithConfig(bgctx, cfg)
	compile := func(x int) {
		if !need[x] {
			return
		}
		if x == mH {
			w.buildHost()
			return
		}
		var err error
		bin := bins[x]
		if x == mR {
			bin = rBins[shape]
		}
		if w.comp[x], err = w.rt.CompileModule(bgctx, bin); err != nil {
			fw.Fatalf("compile %s: %v", modNames[x], err)
		}
	}
	env := func() {
		_, err := w.rt.NewHostModuleBuilder("env").NewFunctionBuilder().
			WithGoFunction(api.GoFunc(func(ctx context.Context, stack []uint64) { w.hook() }), []api.ValueType{api.ValueTypeI32}, nil).
			Export("hook").NewFunctionBuilder().
			// what wasi proc_exit does: close the calling module with an exit code, then unwind with sys.ExitError.
			// Module behaviour, not a history operation: the twin does the same.
			WithGoModuleFunction(api.GoModuleFunc(func(ctx context.Context, mod api.Module, stack []uint64) {
				_ = mod.CloseWithExitCode(ctx, 3)
				panic(sys.NewExitError(3))
			}), nil, nil).
			Export("exit").Instantiate(bgctx)
		if err != nil {
			fw.Fatalf("host module: %v", err)
		}
	}
	fillers := func(rev bool) {
		if !test {
			return
		}
		for k := 0; k < nFillers; k++ {
			i := k
			if rev {
				i = nFillers - 1 - k
			}
			var err error
			if w.fill[i], err = w.rt.CompileModule(bgctx, fillerBins[i]); err != nil {
				fw.Fatalf("compile filler %d: %v", i, err)
			}
		}
	}
	if order == 0 {
		compile(mA)
		compile(mB)
		env()
		fillers(false)
		compile(mC)
	} else {
		compile(mC)
		fillers(true)
		env()
		compile(mB)
		compile(mA)
	}
	compile(mM)
	compile(mN)
	compile(mH)
	compile(mG)
	compile(mT)
	compile(mR)
	return w
}

// buildHost creates host module H: three Go closures over one heap-allocated state object —
// f1 api.GoFunction (also the "call outstanding" close), f2 api.GoModuleFunction, f3 reflection-based WithFunc.
// mode != 0 makes them panic with an error value.
func (w *world) buildHost() {
	st := &hostState{val: 501}
	flag := &atomic.Bool{}
	runtime.SetFinalizer(st, func(*hostState) { flag.Store(true) })
	w.hostCollected = flag
	w.hstate = st
	b := w.rt.NewHostModuleBuilder("H")
	b.NewFunctionBuilder().WithGoFunction(api.GoFunc(func(ctx context.Context, stack []uint64) {
		if w.test && w.pendingH >= 0 {
			a := w.pendingH
			w.pendingH = -1
			w.closeAction(a, mH)
			w.collect()
		}
		if stack[0] != 0 {
			panic(errHostAsked)
		}
		stack[0] = uint64(st.val)
	}), []api.ValueType{api.ValueTypeI32}, []api.ValueType{api.ValueTypeI32}).Export("f1")
	b.NewFunctionBuilder().WithGoModuleFunction(api.GoModuleFunc(func(ctx context.Context, mod api.Module, stack []uint64) {
		if stack[0] != 0 {
			panic(errHostAsked)
		}
		stack[0] = uint64(st.val + 1)
	}), []api.ValueType{api.ValueTypeI32}, []api.ValueType{api.ValueTypeI32}).Export("f2")
	b.NewFunctionBuilder().WithFunc(func(ctx context.Context, mode uint32) uint32 {
		if mode != 0 {
			panic(errHostAsked)
		}
		return st.val + 2
	}).Export("f3")
	w.hbuilder = b
	if !w.hostVia {
		var err error
		if w.comp[mH], err = b.Compile(bgctx); err != nil {
			fw.Fatalf("compile host module H: %v", err)
		}
	}
}

// hook is the host function imported by every module: the "call outstanding" close.
func (w *world) hook() {
	w.hookRan = true
	if !w.test || w.pending < 0 {
		return
	}
	a := w.pending
	w.pending = -1
	w.closeAction(a, w.pendX)
	w.collect()
}

func (w *world) closeAction(a, x int) error {
	switch a {
	case aCloseInst:
		return w.inst[x].Close(bgctx)
	case aCloseComp:
		return w.comp[x].Close(bgctx)
	case aCloseRt:
		return w.rt.Close(bgctx)
	case aCloseCache:
		return w.cache.Close(bgctx)
	}
	return nil
}

// outcome canonicalises a call result. Classes: "v:<n>", "ok", "trap:<sentinel>", "exit:<code>" (sys.ExitError),
// "closed" (closed-module / closed-runtime error), "goerr:..." (Go runtime error surfaced), "err:..." (anything else).
func outcome(res []uint64, err error) string {
	if err == nil {
		if len(res) == 0 {
			return "ok"
		}
		return fmt.Sprintf("v:%d", uint32(res[0]))
	}
	var re runtime.Error
	if errors.As(err, &re) || strings.Contains(err.Error(), "runtime error:") {
		return "goerr:" + firstLine(err.Error())
	}
	var ee *sys.ExitError
	if errors.As(err, &ee) {
		return fmt.Sprintf("exit:%d", ee.ExitCode())
	}
	for _, t := range []*wasmruntime.Error{wasmruntime.ErrRuntimeInvalidTableAccess, wasmruntime.ErrRuntimeIndirectCallTypeMismatch,
		wasmruntime.ErrRuntimeUnreachable, wasmruntime.ErrRuntimeStackOverflow, wasmruntime.ErrRuntimeOutOfBoundsMemoryAccess,
		wasmruntime.ErrRuntimeIntegerDivideByZero, wasmruntime.ErrRuntimeIntegerOverflow, wasmruntime.ErrRuntimeInvalidConversionToInteger} {
		if errors.Is(err, t) {
			return "trap:" + t.Error()
		}
	}
	if strings.Contains(err.Error(), "closed") {
		return "closed"
	}
	return "err:" + firstLine(err.Error())
}

func firstLine(s string) string {
	if i := strings.IndexByte(s, '\n'); i >= 0 {
		s = s[:i]
	}
	if len(s) > 160 {
		s = s[:160]
	}
	return s
}

func isOrdinary(o string) bool { return strings.HasPrefix(o, "exit:") || o == "closed" }
func isBad(o string) bool {
	return strings.HasPrefix(o, "goerr:") || strings.HasPrefix(o, "panic:") || strings.HasPrefix(o, "wrong:")
}

// call invokes an export through a fresh api.Function; Go panics escaping the API are caught and reported.
func (w *world) call(x int, fn string, args ...uint64) (res []uint64, out string) {
	defer func() {
		if r := recover(); r != nil {
			res, out = nil, "panic:"+firstLine(fmt.Sprint(r))
		}
	}()
	f := w.inst[x].ExportedFunction(fn)
	if f == nil {
		fw.Fatalf("no export %s.%s", modNames[x], fn)
	}
	r, err := f.Call(bgctx, args...)
	return r, outcome(r, err)
}

var hexRe = regexp.MustCompile(`0x[0-9a-fA-F]+`)

// probe calls an exported (mode i32) -> i32 function. For mode 1 (trap probe) a wasm trap is reported with its FULL
// error text (wasm stack trace with module.function names; hex numbers stripped, newlines folded).
func (w *world) probe(x int, fn string, mode uint64) (out string) {
	defer func() {
		if r := recover(); r != nil {
			out = "panic:" + firstLine(fmt.Sprint(r))
		}
	}()
	f := w.inst[x].ExportedFunction(fn)
	if f == nil {
		fw.Fatalf("no export %s.%s", modNames[x], fn)
	}
	r, err := f.Call(bgctx, mode)
	out = outcome(r, err)
	if mode != 0 && strings.HasPrefix(out, "trap:") {
		t := hexRe.ReplaceAllString(err.Error(), "0x?")
		t = strings.ReplaceAll(strings.ReplaceAll(t, "\n\t", " | "), "\n", " | ")
		out = "T:" + t
	}
	return out
}

// do executes one operation. It returns the canonical outcome ("ok", "v:..", an error class).
func (w *world) do(o op) (out string) {
	defer func() {
		if r := recover(); r != nil {
			out = "panic:" + firstLine(fmt.Sprint(r))
		}
	}()
	errOut := func(err error) string {
		if err == nil {
			return "ok"
		}
		return outcome(nil, err)
	}
	switch o.K {
	case kInst:
		if o.X == mH && w.hostVia {
			m, err := w.hbuilder.Instantiate(bgctx)
			if err != nil {
				return outcome(nil, err)
			}
			w.inst[o.X] = m
			return "ok"
		}
		cm := w.comp[o.X]
		if o.X == mR && !w.test && w.shape != shFull {
			// the twin world lives as long as the child process: R's other shapes are compiled on first use
			if w.compR[w.shape] == nil {
				c, err := w.rt.CompileModule(bgctx, rBins[w.shape])
				if err != nil {
					fw.Fatalf("twin: compile R shape %d: %v", w.shape, err)
				}
				w.compR[w.shape] = c
			}
			cm = w.compR[w.shape]
		}
		m, err := w.rt.InstantiateModule(bgctx, cm, wazero.NewModuleConfig().WithName(modNames[o.X]))
		if err != nil {
			return outcome(nil, err)
		}
		w.inst[o.X] = m
		return "ok"
	case kFresh:
		// enough fresh modules to overwrite every stale slot that deletions can have left in the engine's bookkeeping
		for i := 0; i < 4; i++ {
			w.freshN++
			m, err := w.rt.InstantiateWithConfig(bgctx, freshBin(w.freshN), wazero.NewModuleConfig().WithName(""))
			if err != nil {
				return outcome(nil, err)
			}
			w.fresh = append(w.fresh, m)
			r, err := m.ExportedFunction("v").Call(bgctx)
			if o := outcome(r, err); o != fmt.Sprintf("v:%d", 7000+w.freshN) {
				return "wrong:fresh module returned " + o
			}
		}
		return "ok"
	case kCloseInst:
		return errOut(w.closeAction(aCloseInst, o.X))
	case kCloseComp:
		return errOut(w.closeAction(aCloseComp, o.X))
	case kCloseCache:
		return errOut(w.closeAction(aCloseCache, 0))
	case kCloseRt:
		return errOut(w.closeAction(aCloseRt, 0))
	case kDrop:
		w.inst[o.X] = nil
		w.comp[o.X] = nil
		if o.X == mH {
			w.hbuilder, w.hstate = nil, nil
		}
		return "ok"
	case kGC:
		w.collect()
		return "ok"
	case kHostReenter:
		w.pendingH = o.A
		_, out := w.call(mG, "call_f1", 0)
		if w.test && w.pendingH >= 0 {
			w.pendingH = -1
			return "err:H.f1's closure was not invoked (" + out + ")"
		}
		w.pendingH = -1
		return out
	case kGrowGuest:
		_, out := w.call(mN, "grow")
		return out
	case kGrowHost:
		h := w.inst[mN]
		if h == nil {
			h = w.inst[mM]
		}
		if _, ok := h.Memory().Grow(1); !ok {
			return "err:api.Memory.Grow(1) refused"
		}
		return "ok"
	case kMemWrite:
		_, out := w.call(mN, "wr")
		return out
	case kCloseFiller:
		if w.fill[o.X] == nil {
			return "ok" // the twin has no fillers
		}
		return errOut(w.fill[o.X].Close(bgctx))
	case kReenter:
		w.pending, w.pendX, w.hookRan = o.A, o.X, false
		_, out := w.call(o.X, "reenter", uint64(o.A))
		w.pending = -1
		if !w.hookRan {
			return "err:host function was not invoked (" + out + ")"
		}
		return out
	case kFailInst:
		var err error
		var m api.Module
		if o.A == viaKeptCompiled {
			if w.failC[o.X] == nil {
				if w.failC[o.X], err = w.rt.CompileModule(bgctx, failBins[o.X][o.A]); err != nil {
					return "inst-failed:compile:" + outcome(nil, err)
				}
			}
			m, err = w.rt.InstantiateModule(bgctx, w.failC[o.X], wazero.NewModuleConfig().WithName(""))
		} else {
			m, err = w.rt.InstantiateWithConfig(bgctx, failBins[o.X][o.A], wazero.NewModuleConfig().WithName(""))
		}
		if err == nil {
			_ = m
			return "wrong:the instantiation that must fail succeeded"
		}
		return "inst-failed:" + outcome(nil, err)
	case kRefMake:
		switch o.X {
		case rmHost:
			r, out := w.call(mR, "getref")
			if !strings.HasPrefix(out, "v:") {
				return out
			}
			if len(r) != 1 || r[0] == 0 {
				return "err:getref returned no reference (" + out + ")"
			}
			_, out = w.call(mT, "put2", r[0])
			return out
		case rmClear0:
			_, out := w.call(mT, "clr0")
			return out
		}
		_, out := w.call(mR, [...]string{rmSet: "mk", rmBurst: "burst", rmInit: "init", rmGlobal: "mkg"}[o.X])
		return out
	case kStore:
		d := storeDefs[o.X]
		if d.Guest {
			_, out := w.call(d.Exec, d.Put)
			return out
		}
		r, out := w.call(d.Src, d.Get)
		if !strings.HasPrefix(out, "v:") {
			return out
		}
		if len(r) != 1 || r[0] == 0 {
			return "err:getref returned no reference (" + out + ")"
		}
		_, out = w.call(slotHolder[d.Slot], d.Put, r[0])
		return out
	}
	return "err:unknown op"
}

// teardown releases what is still open (test worlds are per history).
func (w *world) teardown() {
	defer func() { recover() }()
	if w.rt != nil {
		w.rt.Close(bgctx)
	}
	if w.cache != nil {
		w.cache.Close(bgctx)
	}
	*w = world{}
}

// ---------------------------------------------------------------- forced GC

const sentinelByte = 0xEE

// collect = forced GC, then allocate and fill blocks of the size class of a linear memory, so that a memory buffer
// freed by this collection is handed out again at once (reuse is certain also without clobberfree): a stale pointer
// into it now reads 0xEE.. instead of the marker pattern, and a write through it damages a sentinel.
func (w *world) collect() {
	forcedGC()
	if len(w.sentinels) >= 12 {
		return
	}
	for i := 0; i < 3; i++ {
		w.sentinels = append(w.sentinels, append(make([]byte, 0, 65536), sentinelRef...))
	}
}

var sentinelRef = func() []byte {
	b := make([]byte, 65536)
	for j := range b {
		b[j] = sentinelByte
	}
	return b
}()

func (w *world) checkSentinels() string {
	for i, b := range w.sentinels {
		if bytes.Equal(b, sentinelRef) {
			continue
		}
		for j, v := range b {
			if v != sentinelByte {
				return fmt.Sprintf("sentinel block %d byte %d is %#x: something wrote into a collected and reused allocation", i, j, v)
			}
		}
	}
	return ""
}

type barrier struct {
	p   *int
	pad [6]uint64
}

//go:noinline
func armBarrier() chan struct{} {
	done := make(chan struct{})
	b := &barrier{p: new(int)}
	runtime.SetFinalizer(b, func(*barrier) { close(done) })
	return done
}

// forcedGC = 3 x (runtime.GC + wait until a finalizer armed just before that cycle has run). The finalizer
// goroutine runs queued finalizers strictly in batches, so after round k every finalizer queued by round k-1
// has finished; objects with finalizers are freed one cycle after their finalizer ran.
func forcedGC() {
	for i := 0; i < 3; i++ {
		done := armBarrier()
		runtime.GC()
		t := time.NewTimer(10 * time.Minute)
	wait:
		for {
			select {
			case <-done:
				break wait
			case <-time.After(5 * time.Second):
				runtime.GC() // the barrier may have been kept by a stale stack slot of this cycle; collect again
			case <-t.C:
				fw.Fatalf("finalizer barrier did not run within 10 minutes")
			}
		}
		t.Stop()
	}
}
