// C09 — closing and collecting modules never endangers live ones.
//
// Explicit-state BFS (by replay on a fresh world per history) over histories of lifecycle operations on a
// 3-module world, both engines, every history in a supervised child process started with GODEBUG=clobberfree=1.
// Oracle: the process survives, and every call answers like a TWIN world that executed the same history with
// every close / drop / collection removed, or with an ordinary error. See NOTES.md.
package main

import (
	"bufio"
	"bytes"
	"crypto/sha256"
	"encoding/json"
	"fmt"
	"os"
	"os/exec"
	"path/filepath"
	"runtime"
	"sort"
	"strconv"
	"strings"
	"time"

	"github.com/tetratelabs/wazero/verif/fw"
)

type tierCfg struct {
	Depth      int      // maximal number of operations in a history
	MaxNonNull int      // states with more non-null slots are outside the explored space
	Inits      []string // initial module graphs
	NoCache    []bool   // runtime configurations
	Full       bool     // full alphabet (thorough); quick leaves out 7 of the 15 store operations, close-cache-from-a-host-function and 2 of the 4 close-filler operations
}

// store operations of the quick alphabet: one per (edge class, slot kind) — see NOTES.md
var quickStores = map[int]bool{0: true, 1: true, 3: true, 6: true, 7: true, 8: true, 10: true, 11: true}

func (c tierCfg) alphabet() []op {
	var out []op
	for _, o := range allOps() {
		if !c.Full && ((o.K == kStore && !quickStores[o.X]) || (o.K == kReenter && o.A == aCloseCache) || (o.K == kCloseFiller && o.X != 0 && o.X != 3) || (o.K == kRefMake && (o.X == rmGlobal || o.X == rmClear0))) {
			continue
		}
		out = append(out, o)
	}
	return out
}

func cfgFor(run *fw.Run) tierCfg {
	c := tierCfg{Depth: 5, MaxNonNull: 1, Inits: []string{"A", "AB", "AC", "ABC", "MN", "HG", "TR"}, NoCache: []bool{false}}
	if run.Thorough() {
		c = tierCfg{Depth: 6, MaxNonNull: 2, Inits: []string{"", "A", "C", "AB", "AC", "ABC", "MN", "HG", "TR"}, NoCache: []bool{false, true}, Full: true}
	}
	if os.Getenv("C09_FULL") == "1" {
		c.Full = true
	}
	keyFillers = c.Full
	if v := os.Getenv("C09_DEPTH"); v != "" {
		c.Depth, _ = strconv.Atoi(v)
	}
	if v := os.Getenv("C09_INITS"); v != "" { // development aid: explore only these initial graphs, e.g. C09_INITS=TR
		c.Inits = strings.Split(v, ",")
	}
	if v := os.Getenv("C09_MAXNN"); v != "" {
		c.MaxNonNull, _ = strconv.Atoi(v)
	}
	return c
}

func (s state) nonNull() int {
	n := 0
	for _, f := range s.Slots[:nABCSlots] { // the bound concerns the A/B/C graphs; graph TR starts with 3 non-null slots
		if f != fNull {
			n++
		}
	}
	return n
}

// ---------------------------------------------------------------- child side

// The frontier of a layer is a file of fixed-size records so that a child reads only its own cases and keeps no
// large live heap (forced collections are part of every case).
const maxOps = 8
const recSize = 4 + 3*maxOps

func encodeHistory(h history) []byte {
	b := make([]byte, recSize)
	for i := 0; i < len(h.Init.Mods); i++ {
		if x := modIndex(h.Init.Mods[i]); x < 8 {
			b[3] |= 1 << x
		} else {
			b[0] |= 1 << (x - 8)
		}
	}
	if h.Init.NoCache {
		b[1] |= 1
	}
	if h.Init.HostVia {
		b[1] |= 2
	}
	b[1] |= byte(h.Init.Shape) << 2
	b[2] = byte(len(h.Ops))
	for i, o := range h.Ops {
		b[4+3*i], b[5+3*i], b[6+3*i] = byte(o.K), byte(o.X), byte(o.A)
	}
	return b
}

func decodeHistory(b []byte) history {
	var h history
	for x := 0; x < nMods; x++ {
		if (x < 8 && b[3]&(1<<x) != 0) || (x >= 8 && b[0]&(1<<(x-8)) != 0) {
			h.Init.Mods += modNames[x]
		}
	}
	h.Init.NoCache = b[1]&1 != 0
	h.Init.HostVia = b[1]&2 != 0
	h.Init.Shape = int(b[1] >> 2)
	for i := 0; i < int(b[2]); i++ {
		h.Ops = append(h.Ops, op{K: opKind(b[4+3*i]), X: int(b[5+3*i]), A: int(b[6+3*i])})
	}
	return h
}

func childMain() {
	ff, err := os.Open(os.Getenv("C09_FRONTIER"))
	if err != nil {
		fw.Fatalf("frontier: %v", err)
	}
	start, _ := strconv.Atoi(os.Getenv("VERIF_CHILD_START"))
	stride, _ := strconv.Atoi(os.Getenv("VERIF_CHILD_STRIDE"))
	if stride < 1 {
		stride = 1
	}
	mf, err := os.OpenFile(filepath.Join(os.Getenv("C09_MARKDIR"), fmt.Sprintf("w%d", start%stride)), os.O_CREATE|os.O_WRONLY, 0o644)
	if err != nil {
		fw.Fatalf("mark file: %v", err)
	}
	buf := make([]byte, 128)
	rec := make([]byte, recSize)
	deadline, _ := strconv.ParseInt(os.Getenv("C09_DEADLINE"), 10, 64)
	fw.ChildLoop(func(i int) string {
		if deadline > 0 && time.Now().UnixNano() > deadline {
			return `{"status":"skipped"}` // budget used up: fw.Supervise only stops feeding at process restarts
		}
		if _, err := ff.ReadAt(rec, int64(i/2)*recSize); err != nil {
			fw.Fatalf("frontier record %d: %v", i/2, err)
		}
		h, eng := decodeHistory(rec), i%2
		res := execHistory(h, eng, func(step int, site, phase string) {
			for k := range buf {
				buf[k] = ' '
			}
			copy(buf, fmt.Sprintf("%d %d %s %s", i, step, site, phase))
			buf[len(buf)-1] = '\n'
			mf.WriteAt(buf, 0)
		})
		out, _ := json.Marshal(res)
		return string(out)
	})
}

type oneCase struct {
	H   history `json:"history"`
	Eng int     `json:"engine"`
}

// runOne executes a single history in this process (used for re-runs and replay); marks go to stdout.
func runOne() {
	var c oneCase
	if err := json.Unmarshal([]byte(os.Getenv("C09_RUNONE")), &c); err != nil {
		fw.Fatalf("runone: %v", err)
	}
	w := bufio.NewWriter(os.Stdout)
	res := execHistory(c.H, c.Eng, func(step int, site, phase string) {
		fmt.Fprintf(w, "MARK %d %s %s\n", step, site, phase)
		w.Flush()
	})
	out, _ := json.Marshal(res)
	fmt.Fprintf(w, "RESULT %s\n", out)
	w.Flush()
	os.Exit(0)
}

// GOMAXPROCS=1: a forced collection on one P needs no cross-thread hand-offs (20x cheaper on a loaded machine);
// the 16 worker processes supply the parallelism.
// GOGC=off: the only collections are the forced ones, so WHEN memory is reclaimed is owned by the history.
var childEnv = []string{"GODEBUG=clobberfree=1", "GOMAXPROCS=1", "GOGC=off"}

// rerun executes one case in a dedicated fresh process.
func rerun(h history, eng int) (res caseResult, crash *fw.Crash) {
	self, _ := os.Executable()
	js, _ := json.Marshal(oneCase{h, eng})
	cmd := exec.Command(self, "runone")
	env := childEnv
	if os.Getenv("C09_NOCLOBBER") == "1" { // demonstration only: freed records keep their contents until reused
		env = []string{"GOMAXPROCS=1", "GOGC=off"}
	}
	cmd.Env = append(append(os.Environ(), env...), "C09_RUNONE="+string(js), failWritesEnv())
	var stdout, stderr bytes.Buffer
	cmd.Stdout, cmd.Stderr = &stdout, &stderr
	if err := cmd.Start(); err != nil {
		fw.Fatalf("rerun: %v", err)
	}
	done := make(chan error, 1)
	go func() { done <- cmd.Wait() }()
	var werr error
	timedOut := false
	select {
	case werr = <-done:
	case <-time.After(10 * time.Minute):
		cmd.Process.Kill()
		werr = <-done
		timedOut = true
	}
	var lastMark string
	for _, l := range strings.Split(stdout.String(), "\n") {
		if strings.HasPrefix(l, "MARK ") {
			lastMark = l[5:]
		}
		if strings.HasPrefix(l, "RESULT ") {
			if err := json.Unmarshal([]byte(l[7:]), &res); err == nil {
				return res, nil
			}
		}
	}
	kind := "crash"
	if timedOut {
		kind = "timeout"
	}
	res.Status = "fail"
	res.Fail = failFromMark(lastMark, kind)
	return res, &fw.Crash{Kind: kind, Stderr: fmt.Sprintf("%v\n%s", werr, fw.FirstLines(stderr.String(), 6))}
}

func failFromMark(m, kind string) *stepFail {
	p := strings.Fields(m)
	f := &stepFail{Step: -1, Site: "unknown", Phase: "unknown", Kind: kind}
	if len(p) >= 3 {
		f.Step, _ = strconv.Atoi(p[0])
		f.Site, f.Phase = p[1], p[2]
	}
	return f
}

// failState is the model state in which the failing step ran.
func failState(h history, f *stepFail) state {
	s := h.Init.state()
	for k, o := range h.Ops {
		if k > f.Step {
			break
		}
		s = s.apply(o) // for an operation: the state right after it (the close inside a reenter has happened)
	}
	return s
}

// ---------------------------------------------------------------- parent side

type explorer struct {
	run      *fw.Run
	cfg      tierCfg
	ops      []op
	tmp      string
	workers  int
	outcomes *fw.Counter
	samples  *fw.Sampler

	seen         map[string]bool
	statesByInit map[string]int
	cases        int64 // (history, engine) executed
	transitions  int64 // cases with at least one operation
	probes       int64
	nontrivial   int64
	danglingSt   int64
	errorSt      int64
	reruns       int64
	unrepro      []string
	sigSeen      map[string]int
	perDepth     []map[string]any
	knownEx      map[string]any
}

func (e *explorer) runLayer(depth int, hs []history) (results [][2]*caseResult, complete bool) {
	results = make([][2]*caseResult, len(hs))
	if len(hs) == 0 {
		return results, true
	}
	fpath := filepath.Join(e.tmp, fmt.Sprintf("frontier-%d.bin", depth))
	var b []byte
	for _, h := range hs {
		b = append(b, encodeHistory(h)...)
	}
	if err := os.WriteFile(fpath, b, 0o644); err != nil {
		fw.Fatalf("frontier: %v", err)
	}
	markdir := filepath.Join(e.tmp, fmt.Sprintf("marks-%d", depth))
	os.MkdirAll(markdir, 0o755)
	n := 2 * len(hs)
	workers := e.workers
	if workers > n {
		workers = n
	}
	skipped := false
	done := fw.Supervise(fw.SupOpts{N: n, Workers: workers, CaseTimeout: 5 * time.Minute, Mode: "layer",
		Env:  append([]string{"C09_FRONTIER=" + fpath, "C09_MARKDIR=" + markdir, fmt.Sprintf("C09_DEADLINE=%d", e.run.Deadline.UnixNano()), failWritesEnv()}, childEnv...),
		Stop: func() bool { return e.run.Expired() }},
		func(i int, res string, crash *fw.Crash) {
			if crash != nil {
				// attribute the crash to the step the child had announced
				mb, _ := os.ReadFile(filepath.Join(markdir, fmt.Sprintf("w%d", i%workers)))
				m := strings.TrimSpace(string(mb))
				r := &caseResult{Status: "fail"}
				if p := strings.SplitN(m, " ", 2); len(p) == 2 && p[0] == strconv.Itoa(i) {
					r.Fail = failFromMark(p[1], crash.Kind)
				} else {
					r.Fail = failFromMark("", crash.Kind)
				}
				r.Fail.Test = fw.FirstLines(crash.Stderr, 3)
				results[i/2][i%2] = r
				return
			}
			var r caseResult
			if err := json.Unmarshal([]byte(res), &r); err != nil {
				fw.Fatalf("child result %q: %v", res, err)
			}
			// aggregate right away; a thorough layer has > 10^6 cases
			e.probes += int64(r.Probes)
			for k, v := range r.Outs {
				e.outcomes.AddN(k, int64(v))
			}
			r.Outs = nil
			if r.Status == "skipped" {
				skipped = true
				return
			}
			results[i/2][i%2] = &r
		})
	os.Remove(fpath)
	os.RemoveAll(markdir)
	return results, done == n && !skipped
}

// report handles one failing case: classification, re-runs in fresh processes, violation / known finding.
func (e *explorer) report(h history, eng int, r *caseResult) {
	f := r.Fail
	if f.Kind == "prefix-error" {
		e.outcomes.Inc("nondeterministic-prefix")
		e.unrepro = append(e.unrepro, fmt.Sprintf("prefix operation failed on replay: %s (%s) in %s", f.Site, f.Test, h))
		return
	}
	s := failState(h, f)
	sig, known := classify(s, eng, *f)
	e.sigSeen[sig]++
	what := fmt.Sprintf("%s engine, history %s: at %s (%s) the world under test answered %q, the twin %q [%s]; model state: %s",
		engineNames[eng], h, f.Site, f.Phase, f.Test, f.Twin, f.Kind, s)
	replay := map[string]any{"history": h, "engine": eng, "readable": h.String()}
	if known {
		e.outcomes.Inc("known-defect:" + f.Kind)
		if e.knownEx == nil {
			e.knownEx = map[string]any{"replay": replay, "what": what}
		}
		e.run.Violation(sig, what, replay)
		return
	}
	if e.sigSeen[sig] > 2 || e.reruns >= 60 {
		// same minimal failing step already reported with reproductions
		e.outcomes.Inc("violation:" + f.Kind)
		e.run.Violation(sig, what, replay)
		return
	}
	// §1.6: re-run in fresh processes before reporting
	same := 0
	const tries = 5
	for t := 0; t < tries; t++ {
		e.reruns++
		rr, _ := rerun(h, eng)
		if rr.Status == "fail" && rr.Fail != nil {
			s2 := failState(h, rr.Fail)
			if sg, _ := classify(s2, eng, *rr.Fail); sg == sig {
				same++
			}
		}
	}
	if same >= 1 {
		// code addresses (mmap) differ between processes, and some divergences depend on the address order of the
		// compiled modules: whenever one shows, it IS a difference from the twin, so one reproduction suffices
		e.outcomes.Inc("violation:" + f.Kind)
		e.run.Violation(sig, fmt.Sprintf("%s (reproduced %d/%d in fresh processes)", what, same, tries), replay)
		return
	}
	if f.Kind == "timeout" {
		e.outcomes.Inc("timeout-not-reproduced")
		e.run.Note("watchdog expiry not reproduced in %d fresh runs (machine load): %s", tries, h)
		return
	}
	if strings.HasSuffix(f.Site, "!trap") && f.Kind == "diverged" {
		// layout dependent trap-text difference seen once in a long-lived child and in none of the fresh processes
		e.outcomes.Inc("trap-text-divergence-not-reproduced")
		e.run.Note("trap text divergence seen once, reproduced 0/%d in fresh processes: %s", tries, what)
		return
	}
	e.outcomes.Inc("unreproducible-failure")
	e.unrepro = append(e.unrepro, fmt.Sprintf("%s reproduced only %d/%d: %s", sig, same, tries, what))
}

func hasLifetimeOp(h history) bool {
	for _, o := range h.Ops {
		switch o.K {
		case kCloseInst, kCloseComp, kCloseCache, kCloseRt, kDrop, kGC, kReenter, kFailInst, kCloseFiller, kGrowGuest, kGrowHost, kHostReenter:
			return true
		}
	}
	return false
}

func (e *explorer) explore() {
	type node struct {
		h history
		s state
	}
	var layer []history
	for _, nc := range e.cfg.NoCache {
		for _, m := range e.cfg.Inits {
			layer = append(layer, history{Init: initial{Mods: m, NoCache: nc}})
			if m == "HG" {
				layer = append(layer, history{Init: initial{Mods: m, NoCache: nc, HostVia: true}})
			}
			if m == "TR" {
				// every module shape of the importer is an initial state of its own
				n := nQuickShapes
				if e.cfg.Full {
					n = nShapes
				}
				for sh := 1; sh < n; sh++ {
					layer = append(layer, history{Init: initial{Mods: m, NoCache: nc, Shape: sh}})
				}
			}
		}
	}
	for depth := 0; depth <= e.cfg.Depth; depth++ {
		t0 := time.Now()
		results, complete := e.runLayer(depth, layer)
		var expand []node
		var newStates, okCases, failCases, operrCases int64
		for i, h := range layer {
			r0, r1 := results[i][0], results[i][1]
			if r0 == nil || r1 == nil {
				continue // budget expired before this case
			}
			good := true
			for eng, r := range []*caseResult{r0, r1} {
				e.cases++
				if len(h.Ops) > 0 {
					e.transitions++
				}
				if hasLifetimeOp(h) {
					e.nontrivial++
				}
				if r.Known2 > 0 {
					e.sigSeen[knownSig2]++
					e.run.Violation(knownSig2, fmt.Sprintf("%s engine, history %s: %d trap probes, e.g. %s; model state: %s", engineNames[eng], h, r.Known2, r.Known2Ex, h.final()),
						map[string]any{"history": h, "engine": eng, "readable": h.String()})
				}
				switch r.Status {
				case "ok":
					okCases++
				case "operr":
					operrCases++
					good = false
					e.outcomes.Inc("history-ends-in-ordinary-error")
				default:
					failCases++
					good = false
					e.report(h, eng, r)
				}
			}
			s := h.final()
			if len(s.dangling()) > 0 {
				// the model says the known defect's precondition holds: never expanded, whatever was observed
				e.danglingSt++
				if good {
					// no failure observed: expected only when the host has no handle left to call through the slot
					callable := false
					for _, sl := range s.dangling() {
						if !s.Drop[slotHolder[sl]] {
							callable = true
						}
					}
					if callable {
						e.outcomes.Inc("dangling-reference-called-without-observable-failure")
						if os.Getenv("C09_DEBUG") != "" {
							fmt.Fprintf(os.Stderr, "c09: dangling but no failure: %s => %s\n", h, s)
						}
					} else {
						e.outcomes.Inc("dangling-reference-not-callable-by-host")
					}
				}
				good = false
			} else if !good {
				e.errorSt++
			}
			if !good {
				continue
			}
			k := s.key()
			if e.seen[k] {
				continue
			}
			e.seen[k] = true
			newStates++
			e.statesByInit[h.Init.Mods]++
			e.samples.Add(map[string]any{"history": h.String(), "state": s.String()})
			expand = append(expand, node{h, s})
		}
		e.perDepth = append(e.perDepth, map[string]any{"depth": depth, "histories": len(layer), "cases": 2 * len(layer), "ok": okCases, "ordinary_error": operrCases,
			"failed": failCases, "new_states": newStates, "wall_s": float64(int(time.Since(t0).Seconds()*10)) / 10})
		fmt.Fprintf(os.Stderr, "c09: depth %d: %d histories x 2 engines, ok=%d operr=%d fail=%d, %d new states, %.1fs\n", depth, len(layer), okCases, operrCases, failCases, newStates, time.Since(t0).Seconds())
		if !complete || e.run.Expired() {
			e.run.Capped(fmt.Sprintf("budget expired at depth %d", depth))
			return
		}
		if depth == e.cfg.Depth {
			return
		}
		if e.run.Violations() > 0 {
			// the verdict is settled; deeper layers of a broken implementation only multiply the same failures
			e.run.Capped(fmt.Sprintf("stopped after depth %d because violations were found", depth))
			return
		}
		layer = layer[:0]
		var next []history
		for _, n := range expand {
			for _, o := range e.ops {
				if !n.s.enabled(o) {
					continue
				}
				if !e.cfg.Full && n.s.Inst[mH] != instNone {
					// quick, host-module graph HG: lifecycle of the host module H, cache/runtime close, collections
					switch {
					case o.K == kFresh, o.K == kCloseFiller:
						continue
					case (o.K == kCloseInst || o.K == kCloseComp || o.K == kDrop) && o.X == mG:
						continue
					}
				}
				if !e.cfg.Full && n.s.Inst[mT] != instNone {
					// quick, many-references graph TR: lifecycle of the referencer R, cache/runtime close, collections, reference making
					switch {
					case o.K == kFresh, o.K == kCloseFiller:
						continue
					case (o.K == kCloseInst || o.K == kCloseComp || o.K == kDrop) && o.X == mT:
						continue
					}
				}
				if !e.cfg.Full && n.s.Inst[mM] != instNone {
					// quick, shared-memory graph MN: lifecycle of the owner M, cache/runtime close, collections, growth, writes
					switch {
					case o.K == kFresh, o.K == kCloseFiller:
						continue
					case (o.K == kCloseInst || o.K == kCloseComp || o.K == kDrop) && o.X == mN:
						continue
					}
				}
				if n.s.apply(o).nonNull() > e.cfg.MaxNonNull {
					continue
				}
				ops := append(append([]op{}, n.h.Ops...), o)
				next = append(next, history{Init: n.h.Init, Ops: ops})
			}
		}
		layer = next
	}
}

// calibrate finds out, on the tree under test, whether D's element segment takes effect before each kind of failure
// (a world in which nothing is ever closed or collected: safe to run in this process). The model needs it only to
// name the content of A.tab[0]; verdicts always come from the comparison with the twin.
func calibrate() {
	for k := 0; k < nFailKinds; k++ {
		w := newWorld(false, 1, false, [nMods]bool{true}, 0, false, 0)
		if r := w.do(op{K: kInst, X: mA}); r != "ok" {
			fw.Fatalf("calibration: instantiate A: %s", r)
		}
		if r := w.do(op{K: kFailInst, X: k, A: viaKeptCompiled}); !strings.HasPrefix(r, "inst-failed:") || strings.HasPrefix(r, "inst-failed:compile") {
			fw.Fatalf("calibration: failing instantiation %s: %s", failKindNames[k], r)
		}
		_, out := w.call(mA, "call_t", 0)
		switch out {
		case fmt.Sprintf("v:%d", valD):
			failWrites[k] = true
		case "trap:invalid table access":
			failWrites[k] = false
		default:
			fw.Fatalf("calibration: A.call_t after failing instantiation %s: %s", failKindNames[k], out)
		}
		w.teardown()
	}
}

func failWritesEnv() string {
	b := []byte("C09_FAILWRITES=")
	for _, v := range failWrites {
		if v {
			b = append(b, '1')
		} else {
			b = append(b, '0')
		}
	}
	return string(b)
}

func loadFailWrites() {
	v := os.Getenv("C09_FAILWRITES")
	if len(v) != nFailKinds {
		fw.Fatalf("C09_FAILWRITES missing")
	}
	for i := range failWrites {
		failWrites[i] = v[i] == '1'
	}
}

func main() {
	if len(os.Args) > 1 && os.Args[1] == "runone" {
		loadFailWrites()
		runOne()
		return
	}
	if fw.IsChild() {
		loadFailWrites()
		childMain()
		return
	}
	run := fw.Start("C09", "model_checking")
	calibrate()
	if len(os.Args) > 2 && os.Args[1] == "replay" {
		replayFile(os.Args[2])
		return
	}
	tmp, err := os.MkdirTemp("", "c09-")
	if err != nil {
		fw.Fatalf("tmp: %v", err)
	}
	e := &explorer{run: run, cfg: cfgFor(run), tmp: tmp, workers: runtime.NumCPU(), outcomes: fw.NewCounter(), samples: fw.NewSampler(14),
		seen: map[string]bool{}, sigSeen: map[string]int{}, statesByInit: map[string]int{}}
	e.ops = e.cfg.alphabet()
	e.explore()
	os.RemoveAll(tmp)
	if len(e.unrepro) > 0 && run.Violations() == 0 {
		fw.Fatalf("failures that did not reproduce in fresh processes (harness nondeterminism, never a verdict):\n  %s", strings.Join(e.unrepro, "\n  "))
	}
	var sigs []string
	for s, n := range e.sigSeen {
		sigs = append(sigs, fmt.Sprintf("%s x%d", s, n))
	}
	sort.Strings(sigs)
	// digest of every measured count (no wall times): lets consecutive runs be compared even when the evidence file goes
	// to a private directory (VERIF_PATCHES runs)
	{
		var pd []map[string]any
		for _, d := range e.perDepth {
			c := map[string]any{}
			for k, v := range d {
				if k != "wall_s" {
					c[k] = v
				}
			}
			pd = append(pd, c)
		}
		b, _ := json.Marshal([]any{pd, e.outcomes.Map(), e.probes, sigs, len(e.seen), e.cases, e.danglingSt, e.errorSt})
		fmt.Printf("c09: coverage-digest=%x states-by-initial-graph=%v\n", sha256.Sum256(b), e.statesByInit)
	}
	extra := map[string]any{
		"per_depth": e.perDepth, "states_first_reached_from_initial_graph": e.statesByInit, "probe_calls_compared_with_twin": e.probes, "states_not_expanded_dangling_reference": e.danglingSt,
		"states_not_expanded_error": e.errorSt, "fresh_process_reruns": e.reruns, "failure_signatures": sigs,
	}
	if e.knownEx != nil {
		extra["known_finding_example"] = e.knownEx
	}
	run.Finish(fw.Coverage{
		Evaluations: e.cases, DistinctNontriv: e.nontrivial, States: int64(len(e.seen)), Transitions: e.transitions, TracesValidated: e.transitions,
		Rule: "a case = one history (initial module graph + sequence of operations) replayed on a fresh real world on one engine, in lockstep with the twin world; " +
			"non-trivial = distinct (history, engine) cases containing at least one close / drop / collection / close-from-inside-a-call operation (so the world under test differs from the twin); " +
			"states = distinct canonical keys (open/closed instances and compiled modules, dropped handles, slot contents, engine closed, stale engine slot, just-collected) reached without error on both engines; " +
			"transitions = executed (history, engine) cases with >= 1 operation, each executes the implementation; in every reached state all probe calls (self-loops) are executed twice (before/after a forced collection)",
		Samples: e.samples.List(), Exhaustive: true, Outcomes: e.outcomes.Map(),
		Bounds: map[string]any{"max_operations": e.cfg.Depth, "alphabet": len(e.ops), "alphabet_ops": opNames(e.ops), "max_non_null_slots": e.cfg.MaxNonNull, "initial_graphs": e.cfg.Inits,
			"runtime_without_cache": e.cfg.NoCache, "engines": engineNames, "modules": "A,B,C + M,N + H,G + T,R (+ failing D, fillers)", "slots": slotNames, "function_values": fnNames,
			"element_segment_applied_before_failure(calibrated)": map[string]bool{failKindNames[0]: failWrites[0], failKindNames[1]: failWrites[1], failKindNames[2]: failWrites[2]}},
		Extra: extra,
	}, []string{
		"each named module is instantiated at most once per history (re-instantiation under the same name is not explored); the initial graphs supply already-instantiated modules",
		"error states (ordinary error of the last operation, any failure, and states in which the model says a raw reference dangles) are not expanded",
		"the twin world runs in the same process as the world under test; it is rebuilt after every failing history",
		"GODEBUG=clobberfree=1 and 3x(runtime.GC + finalizer barrier) make collection deterministic enough that counts are identical between runs; without a forced collection nothing is asserted about WHEN memory is reused",
		"single goroutine: concurrency between close and call is C07/C10's subject; 'calls outstanding' = close issued from a host function called by the instance",
	})
}

func opNames(ops []op) []string {
	var n []string
	for _, o := range ops {
		n = append(n, o.String())
	}
	return n
}

func replayFile(path string) {
	b, err := os.ReadFile(path)
	if err != nil {
		fw.Fatalf("replay: %v", err)
	}
	var doc struct {
		Signature string  `json:"signature"`
		Replay    oneCase `json:"replay"`
	}
	if err := json.Unmarshal(b, &doc); err != nil {
		fw.Fatalf("replay: %v", err)
	}
	h, eng := doc.Replay.H, doc.Replay.Eng
	fmt.Printf("replaying on the %s engine: %s\n", engineNames[eng], h)
	res, crash := rerun(h, eng)
	if crash != nil {
		fmt.Printf("child process %s:\n%s\n", crash.Kind, crash.Stderr)
	}
	if res.Status != "fail" {
		fmt.Printf("history completed: status=%s, %d probe calls agreed with the twin (outcomes %v)\n", res.Status, res.Probes, res.Outs)
		os.Exit(0)
	}
	s := failState(h, res.Fail)
	sig, known := classify(s, eng, *res.Fail)
	fmt.Printf("FAILS at %s (%s): kind=%s test=%q twin=%q\n  model state: %s\n  signature: %s (known finding: %v)\n", res.Fail.Site, res.Fail.Phase, res.Fail.Kind, res.Fail.Test, res.Fail.Twin, s, sig, known)
	os.Exit(1)
}
