package main

// Abstract model of the 3-module world: which instances / compiled modules / host handles exist and
// which function every funcref slot holds. It is pure Go and engine independent; the explorer uses it
// to (a) enumerate the enabled operations of a state, (b) compute the canonical state key for
// deduplication, and (c) classify a failing step (retention edges, collectable owners).
//
// The model does NOT predict results of calls: results come from the twin world.

import (
	"fmt"
	"strings"
)

const (
	mA = 0
	mB = 1
	mC = 2
	mM = 3 // defines and EXPORTS a growable memory (1..3 pages, default capacity: growth reallocates) and ld(addr)
	mN = 4 // imports M's memory and M.ld; grows the memory, writes into it, calls ld through the import and through a table slot
	mH = 5 // HOST module (NewHostModuleBuilder): three Go closures over one heap-allocated state object
	mG = 6 // guest importing H's functions; calls them directly and through a table slot
	mT = 7 // table owner: exports a 3-slot funcref table and calls through every slot; the LIVE instance of graph TR
	mR = 8 // referencer: imports T's table and makes MANY references to its one function r (duplicate element-segment entries, repeated ref.func, table.init, funcref global)
	mD = 9 // pseudo module: an instance of D whose instantiation FAILED after it had written into A's table

	nMods = 9
)

var modNames = [nMods]string{"A", "B", "C", "M", "N", "H", "G", "T", "R"}

func modIndex(c byte) int { return strings.IndexByte("ABCMNHGTR", c) }

// function values a slot can hold
const (
	fNull = iota
	fAg   // A's function g, reference created by A (A.getref / ref.func g inside A)
	fBk   // B's function k, reference created by B
	fBimp // reference created by B to its IMPORT of A.g (wazevo: pointer into B's module context; interpreter: B's copy of the record)
	fCc   // C's function c
	fDd   // function d of D, written into A.tab[0] by D's ACTIVE element segment before D's instantiation failed
	fRr   // R's function r (graph TR): every reference to it is a separate record made by R
	nFns
)

var fnNames = [nFns]string{"null", "A.g", "B.k", "B.imp(A.g)", "C.c", "D.d(failed instantiation)", "R.r"}

// owner of the memory of a reference (the instance whose module engine allocated the record)
var fnOwner = [nFns]int{-1, mA, mB, mB, mC, mD, mR}

// slots
const (
	sAt       = iota // A's exported table [0] (imported by B)
	sAg              // A's funcref global
	sBt              // B's private table [0]
	sBg              // B's funcref global
	sCt              // C's private table [0]
	nABCSlots        // the slots above belong to the A/B/C graphs (bounded by MaxNonNull)
	// graph TR: T's exported table (imported by R) and R's funcref global
	sTt0 = iota - 1 // filled by R's ACTIVE element segment [r, r] at instantiation
	sTt1            // (the duplicate entry)
	sTt2            // null until R (or the host with a reference from R) stores into it
	sRg             // R's funcref global, initialised with ref.func r
	nSlots
)

var slotNames = [nSlots]string{"A.tab[0]", "A.glob", "B.ptab[0]", "B.glob", "C.ptab[0]", "T.tab[0]", "T.tab[1]", "T.tab[2]", "R.glob"}
var slotHolder = [nSlots]int{mA, mA, mB, mB, mC, mT, mT, mT, mR}

const (
	instNone = iota
	instOpen
	instClosed
)

type state struct {
	HostVia     bool // H was instantiated with HostModuleBuilder.Instantiate (its anonymous CompiledModule is closed with the instance) instead of Compile + InstantiateModule
	NoCache     bool // runtime created without a CompilationCache (Runtime.Close closes the engine)
	RtClosed    bool
	CacheClosed bool // engine closed (cache closed, or runtime closed in no-cache mode)
	Inst        [nMods]uint8
	Comp        [nMods]bool // compiled module closed
	Drop        [nMods]bool // host dropped every reference (instance handle, compiled-module handle)
	MemGrown    uint8       // how often M's exported memory was grown by one page (at most 2)
	MemWrote    uint8       // 0: N never wrote; else 1 + MemGrown at the time of N's last write (first and last page)
	Shape       uint8       // graph TR: module shape of the importer R (which sections it declares) — see shapeDefs
	RefsMade    uint8       // graph TR: references R created AFTER its instantiation: 0 none, 1 a few (< 8), 2 a burst (>= 64)
	Slots       [nSlots]uint8
	Fill        uint8 // bit i: filler compiled module Fi was closed
	Stale       bool  // a compiled module was deleted from the live engine and no fresh modules were added since
	GCClean     bool  // nothing happened since the last forced GC
}

// keyFillers: whether "some filler was closed" is part of the canonical key (thorough). In quick it is not: closing a
// filler is then a transition executed from every state (followed by all probes) whose successor is not expanded.
var keyFillers = false

func (s state) key() string {
	var b strings.Builder
	bit := func(v bool) {
		if v {
			b.WriteByte('1')
		} else {
			b.WriteByte('0')
		}
	}
	bit(s.NoCache)
	bit(s.HostVia)
	bit(s.RtClosed)
	bit(s.CacheClosed)
	b.WriteByte('|')
	for i := 0; i < nMods; i++ {
		b.WriteByte('0' + s.Inst[i])
		bit(s.Comp[i])
		bit(s.Drop[i])
	}
	b.WriteByte('|')
	for i := 0; i < nSlots; i++ {
		b.WriteByte('0' + s.Slots[i])
	}
	b.WriteByte('|')
	b.WriteByte('0' + s.MemGrown)
	b.WriteByte('0' + s.MemWrote)
	b.WriteByte('0' + s.RefsMade)
	b.WriteByte('0' + s.Shape)
	bit(s.Stale)
	bit(s.GCClean)
	if keyFillers {
		bit(s.Fill != 0)
	}
	return b.String()
}

func (s state) String() string {
	var p []string
	for i := 0; i < nMods; i++ {
		if i >= mM && s.Inst[i] == instNone {
			continue
		}
		st := [...]string{"none", "open", "closed"}[s.Inst[i]]
		if s.Comp[i] {
			st += "+code-closed"
		}
		if s.Drop[i] {
			st += "+dropped"
		}
		p = append(p, modNames[i]+":"+st)
	}
	for i := 0; i < nSlots; i++ {
		if s.Slots[i] != fNull {
			p = append(p, slotNames[i]+"="+fnNames[s.Slots[i]])
		}
	}
	if s.RtClosed {
		p = append(p, "runtime-closed")
	}
	if s.CacheClosed {
		p = append(p, "engine-closed")
	}
	if s.HostVia {
		p = append(p, "H-via-builder.Instantiate")
	}
	if s.NoCache {
		p = append(p, "no-cache")
	}
	if s.MemGrown != 0 || s.MemWrote != 0 {
		p = append(p, fmt.Sprintf("M.mem grown x%d, N wrote at size %d", s.MemGrown, s.MemWrote))
	}
	if s.Shape != 0 {
		p = append(p, "R's module shape: "+shapeDefs[s.Shape].Name)
	}
	if s.RefsMade != 0 {
		p = append(p, "R made "+[...]string{"", "a few", "a burst of"}[s.RefsMade]+" more references to r")
	}
	if s.Fill != 0 {
		p = append(p, fmt.Sprintf("fillers-closed=%04b", s.Fill))
	}
	if s.Stale {
		p = append(p, "stale-engine-slot")
	}
	if s.GCClean {
		p = append(p, "just-collected")
	}
	return strings.Join(p, " ")
}

// ---------------------------------------------------------------- operations

type opKind uint8

const (
	kInst opKind = iota
	kFresh
	kCloseInst
	kCloseComp
	kCloseCache
	kCloseRt
	kDrop
	kGC
	kReenter // call X.reenter: the host function it calls performs a close while X's call is outstanding
	kStore
	kHostReenter // G calls H.f1 whose Go closure closes H's instance (A=0) or H's CompiledModule (A=1) and forces a collection while the call is outstanding
	kGrowGuest   // N executes memory.grow 1 on the memory it imports from M
	kGrowHost    // the host grows M's memory by one page through api.Memory.Grow
	kMemWrite    // N stores marker values at address 100 and at offset 100 of the last page
	kCloseFiller // CompiledModule.Close of filler Fi: a compiled module with code that nobody ever instantiates
	kFailInst    // instantiate a module D that imports A.tab, writes its own function into it with an active element segment, and then FAILS
	kRefMake     // graph TR: R creates further references to its one function r (op.X: how), or T overwrites one of the duplicates
)

// how further references to R.r are made (op.X of kRefMake)
const (
	rmSet    = iota // R: T.tab[2] = ref.func r (one new reference, guest table.set)
	rmBurst         // R: refBurst x (T.tab[2] = ref.func r) in a guest loop: many references made by one live instance
	rmInit          // R: table.init T.tab[1..2] from its passive segment (duplicates of r): overwrites one duplicate, keeps T.tab[0]
	rmHost          // host: ref = R.getref() (ref.func r) ; T.put2(ref)
	rmGlobal        // R: glob = ref.func r
	rmClear0        // T: T.tab[0] = null (one of the duplicate entries is overwritten; the other must stay callable)
	nRefMakes
)

const refBurst = 64

// Module shapes of the importer R (graph TR): WHICH SECTIONS the instance that writes into the shared table declares.
// Liveness bookkeeping is attached at link time from what the module declares, but references are also made at run
// time (ref.func of an exported function + table.set / table.init), so every shape must be retained by T's table alike.
type shapeDef struct {
	Name     string
	Active   bool // active element segment T.tab[0..1] = [r, r]
	Passive  bool // passive segment of refBurst duplicates of r (table.init letter)
	Decl     bool // declarative segment [r]
	OwnTable bool // a private table of its own (index 1)
	Global   bool // funcref global initialised with ref.func r (needs OwnTable for the call_glob probe)
	Mem      bool // private linear memory (r counts calls and checks markers); without it r is a constant function
	// thorough-only shapes
	ActiveOwn  bool // an active segment that targets R's OWN table only ([r] -> ptab[0]): an element section exists, but nothing of it concerns the imported table
	GlobalNull bool // with Global: the global is initialised with ref.null (references reach it only by global.set at run time)
}

const (
	shFull           = iota     // the original R: active + passive segments, own table, funcref global, memory
	shNoElem                    // NO element section at all: ref.func r is legal because r is exported; no table of its own, no global
	shDeclOnly                  // only a DECLARATIVE segment; own table and a funcref global initialised with ref.func r
	shPassiveOnly               // only a PASSIVE segment (never applied at instantiation); no table of its own, no global
	shNoElemNoMem               // no element section, no table, no global AND no memory: nothing but an imported table, two types and code
	nQuickShapes                // the shapes above are initial states of both tiers, the ones below of thorough only
	shOwnActiveOnly  = iota - 1 // element section present, but its only (active) segment fills R's own table; the shared table is written at run time only
	shNoElemNullGlob            // no element section; own table and a funcref global initialised with ref.null
	nShapes
)

var shapeDefs = [nShapes]shapeDef{
	{Name: "active+passive segments, own table, funcref global, memory", Active: true, Passive: true, OwnTable: true, Global: true, Mem: true},
	{Name: "no-element-section,no-own-table,no-global", Mem: true},
	{Name: "declarative-segment-only,own-table,global=ref.func", Decl: true, OwnTable: true, Global: true, Mem: true},
	{Name: "passive-segment-only,no-own-table,no-global", Passive: true, Mem: true},
	{Name: "no-element-section,no-own-table,no-global,no-memory"},
	{Name: "active-segment-into-own-table-only,no-global", ActiveOwn: true, OwnTable: true, Mem: true},
	{Name: "no-element-section,own-table,global=ref.null", OwnTable: true, Global: true, GlobalNull: true, Mem: true},
}

// probes of module x in state s (R's depend on its shape: call_glob needs the global)
func probesOf(s state, x int) []string {
	if x == mR && !shapeDefs[s.Shape].Global {
		return probeFns[x][:2]
	}
	return probeFns[x]
}

var refMakeNames = [nRefMakes]string{
	"R: T.tab[2] = ref.func r (guest table.set)",
	fmt.Sprintf("R: %d x (T.tab[2] = ref.func r) (guest loop)", refBurst),
	"R: table.init T.tab[1..2] from passive segment [r x64]",
	"host: R.getref() -> T.put2(ref)",
	"R: glob = ref.func r",
	"T: T.tab[0] = null",
}

// how the instantiation of D fails (op.X) and through which API it is attempted (op.A)
const (
	failStartTrap = iota // start function executes unreachable
	failDataOOB          // an active data segment is out of bounds
	failStartExit        // start function calls a host function that closes the module with an exit code and panics with sys.ExitError (what proc_exit does)
	nFailKinds
)

const (
	viaKeptCompiled = iota // Runtime.InstantiateModule on a CompiledModule the host keeps (code stays registered)
	viaInstantiate         // Runtime.InstantiateWithConfig: wazero closes the compiled module itself when instantiation fails
	nVias
)

var failKindNames = [nFailKinds]string{"start-function-traps", "data-segment-out-of-bounds", "start-function-exits"}
var viaNames = [nVias]string{"InstantiateModule(kept CompiledModule)", "InstantiateWithConfig(bytes)"}

// failWrites[kind]: does the element segment take effect before that failure? Calibrated against the tree at start-up
// (the spec says yes for all three; this tree applies data segments before element segments).
var failWrites = [nFailKinds]bool{true, true, true}

// close actions usable from inside a host function
const (
	aCloseInst = iota
	aCloseComp
	aCloseRt
	aCloseCache
	nActions
)

var actionNames = [nActions]string{"close-instance", "close-compiled", "close-runtime", "close-cache"}

type storeDef struct {
	Fn    uint8
	Slot  uint8
	Guest bool // performed entirely by guest code of Exec (an import edge exists); otherwise host-mediated: Src.getref*() -> host -> Dst.put_*()
	Exec  int  // guest path: executing module
	Src   int  // host path: module whose export returns the reference
	Get   string
	Put   string // guest path: exported function of Exec doing everything; host path: exported setter of the holder
}

// guest path where an import exists, host-mediated otherwise.
var storeDefs = []storeDef{
	{Fn: fAg, Slot: sAt, Guest: true, Exec: mA, Put: "self_t"},       // A puts its own g into its exported table
	{Fn: fBk, Slot: sAt, Guest: true, Exec: mB, Put: "put_at_k"},     // B puts its k into A's table through the table import
	{Fn: fBimp, Slot: sAt, Guest: true, Exec: mB, Put: "put_at_imp"}, // B puts ref.func(import A.g) into A's table
	{Fn: fBimp, Slot: sBt, Guest: true, Exec: mB, Put: "put_pt_imp"}, // ... into its private table
	{Fn: fBimp, Slot: sBg, Guest: true, Exec: mB, Put: "put_g_imp"},  // ... into its global
	{Fn: fAg, Slot: sBt, Src: mA, Get: "getref", Put: "put_pt"},      // raw A reference into B (B imports A)
	{Fn: fAg, Slot: sBg, Src: mA, Get: "getref", Put: "put_g"},
	{Fn: fBk, Slot: sAg, Src: mB, Get: "getref", Put: "put_g"},  // raw B reference into A's global
	{Fn: fAg, Slot: sCt, Src: mA, Get: "getref", Put: "put_pt"}, // no import edge between C and A/B
	{Fn: fBk, Slot: sCt, Src: mB, Get: "getref", Put: "put_pt"},
	{Fn: fBimp, Slot: sCt, Src: mB, Get: "getref_imp", Put: "put_pt"},
	{Fn: fCc, Slot: sAt, Src: mC, Get: "getref", Put: "put_t"},
	{Fn: fCc, Slot: sAg, Src: mC, Get: "getref", Put: "put_g"},
	{Fn: fCc, Slot: sBt, Src: mC, Get: "getref", Put: "put_pt"},
	{Fn: fCc, Slot: sBg, Src: mC, Get: "getref", Put: "put_g"},
}

type op struct {
	K opKind `json:"k"`
	X int    `json:"x"` // module, or store index
	A int    `json:"a"` // action for kReenter
}

func (o op) String() string {
	switch o.K {
	case kInst:
		return "instantiate " + modNames[o.X]
	case kFresh:
		return "instantiate-fresh-modules"
	case kCloseInst:
		return "close-instance " + modNames[o.X]
	case kCloseComp:
		return "close-compiled " + modNames[o.X]
	case kCloseCache:
		return "close-cache"
	case kCloseRt:
		return "close-runtime"
	case kDrop:
		return "drop-host-refs " + modNames[o.X]
	case kGC:
		return "forced-gc"
	case kReenter:
		return fmt.Sprintf("call %s.reenter{host function: %s%s; forced-gc}", modNames[o.X], actionNames[o.A],
			map[bool]string{true: " " + modNames[o.X], false: ""}[o.A <= aCloseComp])
	case kStore:
		d := storeDefs[o.X]
		if d.Guest {
			return fmt.Sprintf("store %s -> %s (guest: %s.%s)", fnNames[d.Fn], slotNames[d.Slot], modNames[d.Exec], d.Put)
		}
		return fmt.Sprintf("store %s -> %s (host: %s.%s() -> %s.%s(ref))", fnNames[d.Fn], slotNames[d.Slot], modNames[d.Src], d.Get, modNames[slotHolder[d.Slot]], d.Put)
	case kHostReenter:
		return fmt.Sprintf("call G.call_f1{H's Go closure: %s H; forced-gc}", actionNames[o.A])
	case kGrowGuest:
		return "N: memory.grow 1 (memory imported from M)"
	case kGrowHost:
		return "host: api.Memory.Grow(1) on M's exported memory"
	case kMemWrite:
		return "N: store markers at first and last page of the shared memory"
	case kCloseFiller:
		return fmt.Sprintf("close-compiled filler F%d (unused module)", o.X+1)
	case kFailInst:
		return fmt.Sprintf("instantiate-failing D{elem A.tab[0]=d; %s} via %s", failKindNames[o.X], viaNames[o.A])
	case kRefMake:
		return refMakeNames[o.X]
	}
	return "?"
}

func allOps() []op {
	var o []op
	for x := 0; x < 3; x++ {
		o = append(o, op{K: kInst, X: x})
	}
	o = append(o, op{K: kFresh})
	for x := 0; x < nMods; x++ {
		o = append(o, op{K: kCloseInst, X: x})
	}
	for x := 0; x < nMods; x++ {
		o = append(o, op{K: kCloseComp, X: x})
	}
	o = append(o, op{K: kCloseCache}, op{K: kCloseRt})
	for x := 0; x < nMods; x++ {
		o = append(o, op{K: kDrop, X: x})
	}
	o = append(o, op{K: kGC})
	for x := 0; x < 3; x++ {
		for a := 0; a < nActions; a++ {
			o = append(o, op{K: kReenter, X: x, A: a})
		}
	}
	for i := range storeDefs {
		o = append(o, op{K: kStore, X: i})
	}
	for k := 0; k < nFailKinds; k++ {
		for v := 0; v < nVias; v++ {
			o = append(o, op{K: kFailInst, X: k, A: v})
		}
	}
	for i := 0; i < 4; i++ {
		o = append(o, op{K: kCloseFiller, X: i})
	}
	o = append(o, op{K: kGrowGuest}, op{K: kGrowHost}, op{K: kMemWrite})
	o = append(o, op{K: kHostReenter, A: aCloseInst}, op{K: kHostReenter, A: aCloseComp})
	for x := 0; x < nRefMakes; x++ {
		o = append(o, op{K: kRefMake, X: x})
	}
	return o
}

// usable: the host holds a handle to an open instance of x.
func (s state) usable(x int) bool { return s.Inst[x] == instOpen && !s.Drop[x] }

func (s state) actionEnabled(a, x int) bool {
	switch a {
	case aCloseInst:
		return s.usable(x)
	case aCloseComp:
		if x == mH && s.HostVia {
			return false // the host has no handle to the anonymous CompiledModule
		}
		// closing the code of a module that was never instantiated cannot concern any instance
		return !s.Comp[x] && !s.Drop[x] && s.Inst[x] != instNone
	case aCloseRt:
		return !s.RtClosed
	case aCloseCache:
		return !s.CacheClosed && !s.NoCache
	}
	return false
}

// enabled reports whether o is part of the alphabet in s. Operations that need a host handle are disabled once the
// handle was dropped; operations that execute guest code as their means (stores, reenter) need an open executor.
func (s state) enabled(o op) bool {
	switch o.K {
	case kInst:
		// each named module is instantiated at most once per history (see NOTES: limits); the attempt may fail
		// with an ordinary error (compiled module closed, runtime closed, import target closed).
		// (the shared-memory graph MN is a world of its own: A, B, C are not added to it)
		return s.Inst[o.X] == instNone && !s.Drop[o.X] && s.Inst[mM] == instNone && s.Inst[mH] == instNone && s.Inst[mT] == instNone
	case kFresh:
		return true
	case kCloseInst:
		return s.actionEnabled(aCloseInst, o.X)
	case kCloseComp:
		return s.actionEnabled(aCloseComp, o.X)
	case kCloseCache:
		return s.actionEnabled(aCloseCache, 0)
	case kCloseRt:
		return s.actionEnabled(aCloseRt, 0)
	case kDrop:
		return !s.Drop[o.X] && s.Inst[o.X] != instNone
	case kGC:
		return !s.GCClean
	case kReenter:
		return s.usable(o.X) && s.actionEnabled(o.A, o.X)
	case kStore:
		d := storeDefs[o.X]
		if d.Guest {
			return s.usable(d.Exec)
		}
		return s.usable(d.Src) && s.usable(slotHolder[d.Slot])
	case kHostReenter:
		return s.usable(mG) && s.actionEnabled(o.A, mH)
	case kGrowGuest:
		return s.Inst[mM] != instNone && s.usable(mN) && s.MemGrown < 2
	case kGrowHost:
		// through whichever handle the host still has (the importer's Memory() is the same MemoryInstance)
		return s.Inst[mM] != instNone && (!s.Drop[mM] || (s.Inst[mN] != instNone && !s.Drop[mN])) && s.MemGrown < 2
	case kMemWrite:
		return s.usable(mN) && s.MemWrote != s.MemGrown+1
	case kCloseFiller:
		return s.Fill&(1<<o.X) == 0 && !s.RtClosed && !s.CacheClosed
	case kFailInst:
		// A must be registered (the import resolves), runtime and engine must be open: then the instantiation fails
		// for the designed reason, after the import of A.tab was resolved
		return s.Inst[mA] == instOpen && !s.RtClosed && !s.CacheClosed
	case kRefMake:
		// guest code of an open executor the host has a handle to (T's table lives as long as T's instance object)
		switch o.X {
		case rmHost:
			return s.usable(mR) && s.usable(mT)
		case rmClear0:
			return s.usable(mT) && s.Slots[sTt0] != fNull
		case rmInit:
			if !shapeDefs[s.Shape].Passive {
				return false
			}
		case rmGlobal:
			if !shapeDefs[s.Shape].Global {
				return false
			}
		}
		return s.usable(mR) && s.Inst[mT] != instNone
	}
	return false
}

func (s *state) applyAction(a, x int) {
	switch a {
	case aCloseInst:
		s.Inst[x] = instClosed
		if x == mH && s.HostVia && !s.Comp[x] {
			s.Comp[x] = true // closed together with the instance
			if !s.CacheClosed {
				s.Stale = true
			}
		}
	case aCloseComp:
		s.Comp[x] = true
		if !s.CacheClosed {
			s.Stale = true
		}
	case aCloseRt:
		s.RtClosed = true
		for i := range s.Inst {
			if s.Inst[i] == instOpen {
				s.Inst[i] = instClosed
				if i == mH && s.HostVia {
					s.Comp[i] = true // the anonymous CompiledModule is closed with the instance
				}
			}
		}
		if s.NoCache {
			s.CacheClosed = true
			s.Stale = false
		}
	case aCloseCache:
		s.CacheClosed = true
		s.Stale = false
	}
}

// apply returns the successor assuming the operation succeeded.
func (s state) apply(o op) state {
	n := s
	n.GCClean = false
	switch o.K {
	case kInst:
		n.Inst[o.X] = instOpen
	case kFresh:
		n.Stale = false
	case kCloseInst:
		n.applyAction(aCloseInst, o.X)
	case kCloseComp:
		n.applyAction(aCloseComp, o.X)
	case kCloseCache:
		n.applyAction(aCloseCache, 0)
	case kCloseRt:
		n.applyAction(aCloseRt, 0)
	case kDrop:
		n.Drop[o.X] = true
	case kGC:
		n.GCClean = true
	case kReenter:
		n.applyAction(o.A, o.X)
	case kStore:
		d := storeDefs[o.X]
		n.Slots[d.Slot] = d.Fn
	case kHostReenter:
		n.applyAction(o.A, mH)
	case kGrowGuest, kGrowHost:
		n.MemGrown++
	case kMemWrite:
		n.MemWrote = n.MemGrown + 1
	case kCloseFiller:
		n.Fill |= 1 << o.X // (not tracked in the "stale engine slot" bit; see keyFillers)
	case kFailInst:
		if failWrites[o.X] {
			n.Slots[sAt] = fDd
		}
	case kRefMake:
		made := uint8(1)
		switch o.X {
		case rmSet, rmHost:
			n.Slots[sTt2] = fRr
		case rmBurst:
			n.Slots[sTt2] = fRr
			made = 2
		case rmInit:
			n.Slots[sTt1], n.Slots[sTt2] = fRr, fRr
			made = 0 // copies references made at instantiation (the passive segment's), creates none
		case rmGlobal:
			n.Slots[sRg] = fRr
		case rmClear0:
			n.Slots[sTt0] = fNull
			made = 0
		}
		if made > n.RefsMade {
			n.RefsMade = made
		}
		// (with viaInstantiate wazero deletes D's compiled module from the engine; this is deliberately not tracked in
		// the "stale engine slot" bit: "..., instantiate-fresh-modules" is still executed after it as a transition,
		// and freed records are clobbered regardless of whether the code is still mapped)
	}
	return n
}

// ---------------------------------------------------------------- retention (for classification only)

// reachable computes which instances the collector can still reach from roots the API contract gives:
// the runtime's module list (open instances while the runtime is open... an open instance stays registered),
// host handles (not dropped), and the retention edges wazero maintains: B -> A (function import, table import),
// A -> B (B is registered in the exported table's involvingModuleInstances). Raw references in slots are NOT edges.
func (s state) reachable() [nMods + 1]bool {
	var r [nMods + 1]bool
	for x := 0; x < nMods; x++ {
		if s.Inst[x] == instNone {
			continue
		}
		if s.Inst[x] == instOpen || !s.Drop[x] {
			r[x] = true
		}
	}
	if s.Inst[mB] != instNone && (r[mA] || r[mB]) {
		r[mA], r[mB] = true, true
	}
	// a failed importer of A.tab stays registered in the table's involvingModuleInstances (an import edge exists):
	// it lives as long as the table, i.e. as long as A
	r[mD] = r[mA]
	if s.Inst[mN] != instNone && r[mN] {
		r[mM] = true // N imports M's function and memory
	}
	if s.Inst[mG] != instNone && r[mG] {
		r[mH] = true // G imports H's functions
	}
	if s.Inst[mR] != instNone && (r[mT] || r[mR]) {
		r[mT], r[mR] = true, true // R imports T's table; T's table lists R in involvingModuleInstances
	}
	return r
}

// dangling lists the slots whose holder is reachable while the owner of the referenced record is not:
// "reference held only as a raw table/global slot of an instance with no import edge to the owner;
// owner closed and collected" (DESIGN §6 #16).
func (s state) dangling() []int {
	r := s.reachable()
	var d []int
	for i := 0; i < nSlots; i++ {
		f := s.Slots[i]
		if f == fNull {
			continue
		}
		if r[slotHolder[i]] && !r[fnOwner[f]] {
			d = append(d, i)
		}
	}
	return d
}

type initial struct {
	Mods    string `json:"mods"` // subset of "ABC" instantiated (in this order) before the history starts
	NoCache bool   `json:"nocache"`
	HostVia bool   `json:"host_via_builder_instantiate,omitempty"`
	Shape   int    `json:"importer_shape,omitempty"` // graph TR: module shape of R (index into shapeDefs)
}

func (in initial) state() state {
	var s state
	s.NoCache = in.NoCache
	s.HostVia = in.HostVia
	s.Shape = uint8(in.Shape)
	for _, c := range in.Mods {
		s.Inst[modIndex(byte(c))] = instOpen
	}
	if s.Inst[mR] == instOpen {
		// R's instantiation: active element segment T.tab[0..1] = [r, r], global initialiser ref.func r
		// (as far as R's module shape has them)
		if shapeDefs[s.Shape].Active {
			s.Slots[sTt0], s.Slots[sTt1] = fRr, fRr
		}
		if shapeDefs[s.Shape].Global && !shapeDefs[s.Shape].GlobalNull {
			s.Slots[sRg] = fRr
		}
	}
	return s
}

type history struct {
	Init initial `json:"init"`
	Ops  []op    `json:"ops"`
}

func (h history) String() string {
	var p []string
	for _, o := range h.Ops {
		p = append(p, o.String())
	}
	c := "cache"
	if h.Init.NoCache {
		c = "no-cache"
	}
	if h.Init.HostVia {
		c += ";H via builder.Instantiate"
	}
	if h.Init.Shape != 0 {
		c += ";R's module shape: " + shapeDefs[h.Init.Shape].Name
	}
	return fmt.Sprintf("[%s;%s] %s", h.Init.Mods, c, strings.Join(p, " ; "))
}

// compileOrder: which of the two compile orders (see newWorld) the world under test of this history uses — a
// deterministic function of the history, so that both orders occur throughout the explored space at no extra cost.
func (h history) compileOrder() int {
	n := len(h.Init.Mods)
	for _, o := range h.Ops {
		n += 3*int(o.K) + o.X + o.A + 1
	}
	return n & 1
}

func (h history) final() state {
	s := h.Init.state()
	for _, o := range h.Ops {
		s = s.apply(o)
	}
	return s
}
