// C19, family "sockuse": USING a socket configuration must not change it.
//
// A sock.Config is used by registering it in a context (sock.WithConfig) and by instantiating a module with
// that context. The tree explorations of main.go only ever register a configuration in context.Background();
// this family makes the CONTEXT a dimension of its own. A state is a set of configurations and a set of
// contexts; a transition is one of
//
//	WithTCPListener(cfg i)      derive a configuration with one fresh address from ANY existing configuration
//	WithConfig(ctx j, cfg i)    register ANY existing configuration in ANY existing context (context 0 is
//	                            Background: j>0 gives nested scopes, the same configuration twice, a
//	                            configuration nested in itself, an empty configuration, ...)
//	WithValue(ctx j)            wrap ANY existing context with an unrelated value (a layer between two scopes)
//	Instantiate(ctx j)          instantiate a WASI guest with ANY existing context (real listeners on loopback)
//
// and every history up to the depth bound is executed on the real code. Decided after every transition:
//   - every configuration still has the deep snapshot it had when it was created and, read the way the runtime
//     reads it (through a fresh context), lists exactly the addresses of its own derivation chain;
//   - every context created earlier still carries what it carried when it was created;
//   - a configuration registered in Background is carried unchanged by the new context;
//   - the same invariant holds when evaluated from inside the instantiation (guest start function -> host probe);
//   - the guest sees exactly as many pre-opened sockets as the configuration carried by its context lists.
//
// What a NESTED registration makes the new context carry (innermost wins today) is not part of the property and
// is only recorded in the outcome histogram.
package main

import (
	"context"
	"fmt"
	"runtime"
	"strings"
	"sync/atomic"

	"github.com/tetratelabs/wazero"
	"github.com/tetratelabs/wazero/experimental"
	"github.com/tetratelabs/wazero/experimental/sock"
	internalsock "github.com/tetratelabs/wazero/internal/sock"
	"github.com/tetratelabs/wazero/verif/fw"
)

type sstep struct {
	Op  string `json:"op"`
	Ctx int    `json:"ctx"`
	Cfg int    `json:"cfg"`
}

func (s sstep) String() string {
	switch s.Op {
	case "WithTCPListener":
		return fmt.Sprintf("WithTCPListener(cfg%d)", s.Cfg)
	case "WithConfig":
		return fmt.Sprintf("WithConfig(ctx%d,cfg%d)", s.Ctx, s.Cfg)
	default:
		return fmt.Sprintf("%s(ctx%d)", s.Op, s.Ctx)
	}
}

type sCfg struct {
	cfg   sock.Config
	model []string // addresses of the node's own derivation chain (the functional reference)
	snap  string
}

type sCtx struct {
	ctx     context.Context
	carries []int  // non-empty configurations registered along the chain, outermost first (labels only)
	read    string // what the context carried when it was created
}

type sworld struct {
	cfgs []sCfg
	ctxs []sCtx
	g    *guestRT
}

type unrelatedKey struct{}

type sockUse struct {
	run      *fw.Run
	depth    int
	outcomes *fw.Counter
	samples  *fw.Sampler
	states   atomic.Int64
	trans    atomic.Int64
	insts    atomic.Int64
}

// readCtx: the address list a runtime would find in ctx.
func readCtx(ctx context.Context) string {
	ic, _ := ctx.Value(internalsock.ConfigKey{}).(*internalsock.Config)
	var o []string
	if ic != nil {
		for _, a := range ic.TCPAddresses {
			o = append(o, fmt.Sprintf("%s:%d", a.Host, a.Port))
		}
	}
	return fmt.Sprint(o)
}

func readCfg(c sock.Config) string { return readCtx(sock.WithConfig(context.Background(), c)) }

func modelStr(m []string) string { return fmt.Sprint(append([]string{}, m...)) }

func newSWorld(g *guestRT) *sworld {
	w := &sworld{g: g}
	c := sock.NewConfig()
	w.cfgs = []sCfg{{cfg: c, snap: fw.DeepSnap(c, follow)}}
	w.ctxs = []sCtx{{ctx: context.Background(), read: readCtx(context.Background())}}
	return w
}

// socketsSeen instantiates the observation guest with ctx and returns how many pre-opened descriptors of file
// type socket_stream it finds (or a negative number and the error text when the instantiation fails).
func (w *sworld) socketsSeen(ctx context.Context) (int, string) {
	g := w.g
	ctx = experimental.WithMemoryAllocator(ctx, reuseMem{g})
	mod, err := g.rt.InstantiateModule(ctx, g.code, wazero.NewModuleConfig())
	if err != nil {
		return -1, err.Error()
	}
	defer mod.Close(ctx)
	n := 0
	for fd := uint64(3); fd < 64; fd++ {
		r, err := mod.ExportedFunction("fd_fdstat_get").Call(ctx, fd, 0)
		if err != nil {
			return -1, "fd_fdstat_get: " + err.Error()
		}
		if r[0] != 0 {
			break
		}
		if t, _ := mod.Memory().ReadByte(0); t == 6 { // FILETYPE_SOCKET_STREAM
			n++
		}
	}
	return n, ""
}

func contains(l []int, k int) bool {
	for _, x := range l {
		if x == k {
			return true
		}
	}
	return false
}

// invariant returns a description of every configuration / earlier context that no longer is what it was.
// The first element of each pair is the relation label used in the signature.
func (w *sworld) invariant(s sstep, nCfg, nCtx int) (out [][2]string) {
	carries := w.ctxs[s.Ctx].carries
	for k := 0; k < nCfg; k++ {
		c := w.cfgs[k]
		cur, rd := fw.DeepSnap(c.cfg, follow), readCfg(c.cfg)
		if cur == c.snap && rd == modelStr(c.model) {
			continue
		}
		rel := "unrelated-configuration"
		switch s.Op {
		case "WithTCPListener":
			if k == s.Cfg {
				rel = "receiver"
			} else {
				rel = "earlier-derived-configuration"
			}
		case "WithConfig":
			if contains(carries, k) {
				rel = "configuration-already-registered-in-the-context"
			} else if k == s.Cfg {
				rel = "registered-configuration"
			}
		default:
			if len(carries) > 0 && carries[len(carries)-1] == k {
				rel = "configuration-in-use"
			} else if contains(carries, k) {
				rel = "configuration-of-an-outer-scope"
			}
		}
		out = append(out, [2]string{rel, fmt.Sprintf("configuration %d should list %s but lists %s (%s)", k, modelStr(c.model), rd, fw.SnapDiff(c.snap, cur))})
	}
	for j := 0; j < nCtx; j++ {
		if rd := readCtx(w.ctxs[j].ctx); rd != w.ctxs[j].read {
			out = append(out, [2]string{"what-an-earlier-context-carries", fmt.Sprintf("context %d carried %s when it was created and now carries %s", j, w.ctxs[j].read, rd)})
		}
	}
	return
}

func (u *sockUse) opLabel(w *sworld, s sstep) string {
	if s.Op == "WithConfig" && len(w.ctxs[s.Ctx].carries) > 0 {
		return "WithConfig(nested)"
	}
	if s.Op == "Instantiate" && len(w.ctxs[s.Ctx].carries) > 1 {
		return "Instantiate(nested)"
	}
	return s.Op
}

// exec performs one transition; with check it counts it and evaluates every oracle. Returns false when an
// oracle failed (the world may then hold changed objects and must be rebuilt).
func (u *sockUse) exec(w *sworld, path []sstep, s sstep, check bool) bool {
	nCfg, nCtx := len(w.cfgs), len(w.ctxs)
	ok := true
	viol := func(sig, what string) {
		ok = false
		u.outcomes.Inc("sockuse:violation")
		u.run.Violation(sig, fmt.Sprintf("history %v then %v: %s", path, s, what),
			map[string]any{"kind": "sockuse", "steps": append(append([]sstep{}, path...), s)})
	}
	opl := u.opLabel(w, s)
	switch s.Op {
	case "WithTCPListener":
		addr := fmt.Sprintf("127.0.0.%d", nCfg) // fresh, distinguishable, listenable (loopback /8), ephemeral port
		c := w.cfgs[s.Cfg].cfg.WithTCPListener(addr, 0)
		m := append(append([]string{}, w.cfgs[s.Cfg].model...), addr+":0")
		w.cfgs = append(w.cfgs, sCfg{cfg: c, model: m, snap: fw.DeepSnap(c, follow)})
		if check {
			if rd := readCfg(c); rd != modelStr(m) {
				viol("sockuse:WithTCPListener-new-configuration-wrong", fmt.Sprintf("new configuration should list %s but lists %s", modelStr(m), rd))
			}
		}
	case "WithConfig":
		parent := w.ctxs[s.Ctx]
		nc := sock.WithConfig(parent.ctx, w.cfgs[s.Cfg].cfg)
		carries := append([]int{}, parent.carries...)
		if len(w.cfgs[s.Cfg].model) > 0 {
			carries = append(carries, s.Cfg)
		}
		rd := readCtx(nc)
		w.ctxs = append(w.ctxs, sCtx{ctx: nc, carries: carries, read: rd})
		if check {
			own := modelStr(w.cfgs[s.Cfg].model)
			switch {
			case len(w.cfgs[s.Cfg].model) == 0:
				u.outcomes.Inc("sockuse:register-empty-configuration")
			case len(parent.carries) == 0:
				u.outcomes.Inc("sockuse:register-in-plain-context")
				if rd != own { // decided: nothing else is registered, the context must carry the configuration as it is
					viol("sockuse:WithConfig-context-does-not-carry-the-registered-configuration", fmt.Sprintf("configuration %d lists %s but the new context carries %s", s.Cfg, own, rd))
				}
			case rd == own:
				u.outcomes.Inc("sockuse:register-nested:innermost-wins")
			case rd == parent.read:
				u.outcomes.Inc("sockuse:register-nested:outer-wins")
			default:
				u.outcomes.Inc("sockuse:register-nested:other")
			}
		}
	case "WithValue":
		parent := w.ctxs[s.Ctx]
		nc := context.WithValue(parent.ctx, unrelatedKey{}, nCtx)
		w.ctxs = append(w.ctxs, sCtx{ctx: nc, carries: parent.carries, read: readCtx(nc)})
	case "Instantiate":
		c := w.ctxs[s.Ctx]
		var during [][2]string
		if check {
			w.g.probeFn = func() { during = append(during, w.invariant(s, nCfg, nCtx)...) }
		}
		n, errs := w.socketsSeen(c.ctx)
		w.g.probeFn = nil
		if check {
			u.insts.Add(1)
			for _, d := range during {
				viol(fmt.Sprintf("sockuse:%s-changes-%s-while-the-call-is-in-progress", opl, d[0]), "seen from the guest's start function: "+d[1])
			}
			want := 0
			if c.read != "[]" {
				want = strings.Count(c.read, " ") + 1
			}
			if errs != "" {
				u.outcomes.Inc("sockuse:instantiate-error")
				viol("sockuse:"+opl+"-fails", fmt.Sprintf("instantiating with a context that carries %s failed: %s", c.read, errs))
			} else {
				u.outcomes.Inc(fmt.Sprintf("sockuse:guest-sees-%d-sockets", n))
				if n != want {
					viol("sockuse:"+opl+"-guest-sees-other-sockets-than-configured", fmt.Sprintf("the context carries %s but the guest sees %d pre-opened sockets", c.read, n))
				}
			}
		}
	default:
		fw.Fatalf("sockuse: unknown op %q", s.Op)
	}
	if !check {
		return true
	}
	u.trans.Add(1)
	for _, d := range w.invariant(s, nCfg, nCtx) {
		viol(fmt.Sprintf("sockuse:%s-changes-%s", opl, d[0]), d[1])
	}
	if ok {
		u.states.Add(1)
	}
	return ok
}

func (u *sockUse) rebuild(g *guestRT, path []sstep) *sworld {
	w := newSWorld(g)
	for i, s := range path {
		u.exec(w, path[:i], s, false)
	}
	// a rebuilt prefix may contain a step that was already reported: judge what follows against the state after it
	for k := range w.cfgs {
		w.cfgs[k].snap = fw.DeepSnap(w.cfgs[k].cfg, follow)
	}
	for j := range w.ctxs {
		w.ctxs[j].read = readCtx(w.ctxs[j].ctx)
	}
	return w
}

func (u *sockUse) options(w *sworld) (out []sstep) {
	for i := range w.cfgs {
		out = append(out, sstep{Op: "WithTCPListener", Cfg: i})
	}
	for j := range w.ctxs {
		for i := range w.cfgs {
			out = append(out, sstep{Op: "WithConfig", Ctx: j, Cfg: i})
		}
	}
	for j := range w.ctxs {
		out = append(out, sstep{Op: "WithValue", Ctx: j})
	}
	for j := range w.ctxs {
		out = append(out, sstep{Op: "Instantiate", Ctx: j})
	}
	return
}

// dfs explores every history below path (depth-limited); at depth == stop the path is handed to leafFn instead.
func (u *sockUse) dfs(w *sworld, path []sstep, stop int, leafFn func(path []sstep)) *sworld {
	if u.run.Expired() {
		u.run.Capped("budget")
		return w
	}
	if len(path) == stop {
		if leafFn != nil {
			leafFn(append([]sstep{}, path...))
		} else {
			u.samples.Add(map[string]any{"kind": "sockuse", "history": fmt.Sprint(path)})
			u.outcomes.Inc("sockuse:history-complete")
		}
		return w
	}
	nCfg, nCtx := len(w.cfgs), len(w.ctxs)
	for _, s := range u.options(w) {
		if u.exec(w, path, s, true) {
			w = u.dfs(w, append(append([]sstep{}, path...), s), stop, leafFn)
			w.cfgs, w.ctxs = w.cfgs[:nCfg], w.ctxs[:nCtx]
		} else {
			w = u.rebuild(w.g, path) // do not explore below a broken state; continue with fresh objects
		}
	}
	return w
}

func (u *sockUse) explore() {
	const shardDepth = 3 // the shortest histories are judged first, sequentially, so that a minimal counterexample is reported first
	var shards [][]sstep
	sd := shardDepth
	if u.depth < sd {
		sd = u.depth
	}
	g := newGuestRT()
	u.states.Add(1)
	u.dfs(newSWorld(g), nil, sd, func(p []sstep) { shards = append(shards, p) })
	g.rt.Close(context.Background())
	fw.Parallel(len(shards), runtime.NumCPU(), func(i int) {
		g := newGuestRT()
		defer g.rt.Close(context.Background())
		u.dfs(u.rebuild(g, shards[i]), shards[i], u.depth, nil)
	})
}

// replaySockUse re-executes one recorded history with every oracle on.
func replaySockUse(run *fw.Run, steps []sstep, outcomes *fw.Counter) int64 {
	u := &sockUse{run: run, depth: len(steps), outcomes: outcomes, samples: fw.NewSampler(1)}
	g := newGuestRT()
	defer g.rt.Close(context.Background())
	w := newSWorld(g)
	for i, s := range steps {
		if s.Ctx >= len(w.ctxs) || s.Cfg >= len(w.cfgs) {
			fw.Fatalf("replay: step %d (%v) refers to an object that does not exist", i+1, s)
		}
		ok := u.exec(w, steps[:i], s, true)
		fmt.Printf("  step %d: %v -> oracles %v\n", i+1, s, ok)
		if !ok { // judge the following steps against the state after the failing one
			for k := range w.cfgs {
				w.cfgs[k].snap, w.cfgs[k].model = fw.DeepSnap(w.cfgs[k].cfg, follow), strings.Fields(strings.Trim(readCfg(w.cfgs[k].cfg), "[]"))
			}
			for j := range w.ctxs {
				w.ctxs[j].read = readCtx(w.ctxs[j].ctx)
			}
		}
	}
	return u.trans.Load()
}
