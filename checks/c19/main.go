// C19 — configuration values are immutable.
//
// Explicit-state exploration of derivation trees on the real configuration types: a state is
// the set of configuration nodes created so far; a transition picks ANY existing node and applies
// one With... call (or instantiates a module with it). Invariant in every state: the deep
// structural snapshot of every existing node equals the snapshot taken when it was created.
// At the leaves, a WASI guest is instantiated with every node and what it observes (args,
// environ, module name, start functions, preopens) must equal a pure functional reference.
package main

import (
	"bytes"
	"context"
	"encoding/json"
	"fmt"
	"io"
	"os"
	"runtime"
	"runtime/debug"
	"strings"
	"sync"
	"sync/atomic"
	"testing/fstest"
	"time"

	"github.com/tetratelabs/wazero"
	"github.com/tetratelabs/wazero/api"
	"github.com/tetratelabs/wazero/experimental"
	"github.com/tetratelabs/wazero/experimental/sock"
	"github.com/tetratelabs/wazero/imports/wasi_snapshot_preview1"
	internalsock "github.com/tetratelabs/wazero/internal/sock"
	wsys "github.com/tetratelabs/wazero/sys"
	"github.com/tetratelabs/wazero/verif/fw"
	"github.com/tetratelabs/wazero/verif/wb"
)

const follow = "github.com/tetratelabs/wazero"

// ---------------------------------------------------------------- reference model (persistent)

type mcModel struct {
	name    string
	nameSet bool
	starts  []string
	args    []string
	envK    []string          // insertion order
	envV    map[string]string // copied on write
	fs      *fsModel
}

func (m mcModel) withEnv(k, v string) mcModel {
	n := m
	n.envV = map[string]string{}
	for a, b := range m.envV {
		n.envV[a] = b
	}
	if _, ok := m.envV[k]; !ok {
		n.envK = append(append([]string{}, m.envK...), k)
	}
	n.envV[k] = v
	return n
}

func (m mcModel) environ() []string {
	var o []string
	for _, k := range m.envK {
		o = append(o, k+"="+m.envV[k])
	}
	return o
}

type fsModel struct {
	paths []string // guest paths in preopen order
	kinds []string
}

func (f *fsModel) with(kind, guest string) *fsModel {
	n := &fsModel{}
	if f != nil {
		n.paths = append([]string{}, f.paths...)
		n.kinds = append([]string{}, f.kinds...)
	}
	cl := strings.TrimSuffix(strings.TrimPrefix(guest, "/"), "/")
	for i, p := range n.paths {
		if strings.TrimSuffix(strings.TrimPrefix(p, "/"), "/") == cl {
			n.paths[i] = guest
			n.kinds[i] = kind
			return n
		}
	}
	n.paths = append(n.paths, guest)
	n.kinds = append(n.kinds, kind)
	return n
}

// unmount models WithFSMount(nil, guest): an existing guest path keeps its place with no file system behind
// it, an unknown one is ignored.
func (f *fsModel) unmount(guest string) *fsModel {
	cl := strings.TrimSuffix(strings.TrimPrefix(guest, "/"), "/")
	if f != nil {
		for _, p := range f.paths {
			if strings.TrimSuffix(strings.TrimPrefix(p, "/"), "/") == cl {
				return f.with("nil", guest)
			}
		}
	}
	n := &fsModel{}
	if f != nil {
		n.paths = append([]string{}, f.paths...)
		n.kinds = append([]string{}, f.kinds...)
	}
	return n
}

// ---------------------------------------------------------------- nodes and ops

type node struct {
	mc    wazero.ModuleConfig
	fc    wazero.FSConfig
	rc    wazero.RuntimeConfig
	snap  string
	model any
	born  string // op that created it
}

type op struct {
	name  string
	apply func(w *world, n *node) *node // nil result = "use" op, creates no node
}

type world struct {
	kind        string
	nodes       []*node
	hostA       string
	hostB       string
	out1        *bytes.Buffer
	in1         io.Reader
	mapfs       fstest.MapFS
	cache       wazero.CompilationCache
	guest       *guestRT
	fsAtom      [2]wazero.FSConfig
	fsAtomModel [2]*fsModel
	// sockCfg is ONE socket configuration (ephemeral port) reused by every Instantiate+sock of the world,
	// sockDerived a configuration derived from it; instantiating must not change either of them.
	sockCfg, sockDerived  sock.Config
	sockSnap, sockDerSnap string
}

var wallFn = func() (int64, int32) { return 42, 0 }
var nanoFn = func() int64 { return 7 }
var sleepFn = func(int64) {}
var yieldFn = func() {}

func mcOps() []op {
	var ops []op
	mk := func(name string, f func(w *world, c wazero.ModuleConfig) wazero.ModuleConfig, mf func(w *world, m mcModel) mcModel) {
		ops = append(ops, op{name, func(w *world, n *node) *node {
			m := n.model.(mcModel)
			if mf != nil {
				m = mf(w, m)
			}
			return &node{mc: f(w, n.mc), model: m, born: name}
		}})
	}
	for _, k := range []string{"A", "B", "C"} {
		for _, v := range []string{"1", "2"} {
			k, v := k, v
			mk("WithEnv("+k+","+v+")", func(w *world, c wazero.ModuleConfig) wazero.ModuleConfig { return c.WithEnv(k, v) },
				func(w *world, m mcModel) mcModel { return m.withEnv(k, v) })
		}
	}
	for _, a := range [][]string{{}, {"x"}, {"x", "y"}} {
		a := a
		mk(fmt.Sprintf("WithArgs(%s)", strings.Join(a, ",")), func(w *world, c wazero.ModuleConfig) wazero.ModuleConfig { return c.WithArgs(a...) },
			func(w *world, m mcModel) mcModel { m.args = a; return m })
	}
	for _, nm := range []string{"n1", ""} {
		nm := nm
		mk("WithName("+nm+")", func(w *world, c wazero.ModuleConfig) wazero.ModuleConfig { return c.WithName(nm) },
			func(w *world, m mcModel) mcModel { m.name = nm; m.nameSet = true; return m })
	}
	for _, s := range [][]string{{"s1"}, {"s2", "s1"}, {}} {
		s := s
		mk(fmt.Sprintf("WithStartFunctions(%s)", strings.Join(s, ",")), func(w *world, c wazero.ModuleConfig) wazero.ModuleConfig {
			return c.WithStartFunctions(append([]string{}, s...)...)
		}, func(w *world, m mcModel) mcModel { m.starts = s; return m })
	}
	mk("WithStdout", func(w *world, c wazero.ModuleConfig) wazero.ModuleConfig { return c.WithStdout(w.out1) }, nil)
	mk("WithStderr", func(w *world, c wazero.ModuleConfig) wazero.ModuleConfig { return c.WithStderr(w.out1) }, nil)
	mk("WithStdin", func(w *world, c wazero.ModuleConfig) wazero.ModuleConfig { return c.WithStdin(w.in1) }, nil)
	for i := 0; i < 2; i++ {
		i := i
		mk(fmt.Sprintf("WithFSConfig(fs%d)", i), func(w *world, c wazero.ModuleConfig) wazero.ModuleConfig { return c.WithFSConfig(w.fsAtom[i]) },
			func(w *world, m mcModel) mcModel { m.fs = w.fsAtomModel[i]; return m })
	}
	mk("WithFS(mapfs)", func(w *world, c wazero.ModuleConfig) wazero.ModuleConfig { return c.WithFS(w.mapfs) },
		func(w *world, m mcModel) mcModel { m.fs = (*fsModel)(nil).with("fs", "/"); return m })
	mk("WithWalltime", func(w *world, c wazero.ModuleConfig) wazero.ModuleConfig { return c.WithWalltime(wallFn, 1) }, nil)
	mk("WithSysWalltime", func(w *world, c wazero.ModuleConfig) wazero.ModuleConfig { return c.WithSysWalltime() }, nil)
	mk("WithNanotime", func(w *world, c wazero.ModuleConfig) wazero.ModuleConfig { return c.WithNanotime(nanoFn, 1) }, nil)
	mk("WithSysNanotime", func(w *world, c wazero.ModuleConfig) wazero.ModuleConfig { return c.WithSysNanotime() }, nil)
	mk("WithNanosleep", func(w *world, c wazero.ModuleConfig) wazero.ModuleConfig { return c.WithNanosleep(sleepFn) }, nil)
	mk("WithSysNanosleep", func(w *world, c wazero.ModuleConfig) wazero.ModuleConfig { return c.WithSysNanosleep() }, nil)
	mk("WithOsyield", func(w *world, c wazero.ModuleConfig) wazero.ModuleConfig { return c.WithOsyield(yieldFn) }, nil)
	mk("WithRandSource", func(w *world, c wazero.ModuleConfig) wazero.ModuleConfig { return c.WithRandSource(w.in1) }, nil)
	ops = append(ops, op{"Instantiate", func(w *world, n *node) *node {
		w.guest.observe(context.Background(), n.mc)
		return nil
	}})
	ops = append(ops, op{"Instantiate(named-binary)", func(w *world, n *node) *node {
		w.guest.observeBin(context.Background(), n.mc, true)
		return nil
	}})
	ops = append(ops, op{"Instantiate+sock", func(w *world, n *node) *node {
		ctx := sock.WithConfig(context.Background(), w.sockCfg) // the SAME socket configuration every time
		w.guest.observe(ctx, n.mc)
		return nil
	}})
	ops = append(ops, op{"Instantiate+sock(derived)", func(w *world, n *node) *node {
		ctx := sock.WithConfig(context.Background(), w.sockDerived)
		w.guest.observe(ctx, n.mc)
		return nil
	}})
	return ops
}

func fsOps() []op {
	var ops []op
	add := func(name, kind, guest string, f func(w *world, c wazero.FSConfig) wazero.FSConfig) {
		ops = append(ops, op{name, func(w *world, n *node) *node {
			return &node{fc: f(w, n.fc), model: n.model.(*fsModel).with(kind, guest), born: name}
		}})
	}
	for _, g := range []string{"/", "/a", "/b"} {
		g := g
		add("WithDirMount(A,"+g+")", "dirA", g, func(w *world, c wazero.FSConfig) wazero.FSConfig { return c.WithDirMount(w.hostA, g) })
		add("WithDirMount(B,"+g+")", "dirB", g, func(w *world, c wazero.FSConfig) wazero.FSConfig { return c.WithDirMount(w.hostB, g) })
	}
	for _, g := range []string{"/", "/a"} {
		g := g
		add("WithReadOnlyDirMount(A,"+g+")", "roA", g, func(w *world, c wazero.FSConfig) wazero.FSConfig { return c.WithReadOnlyDirMount(w.hostA, g) })
	}
	for _, g := range []string{"/", "/b/"} {
		g := g
		add("WithFSMount(map,"+g+")", "fs", g, func(w *world, c wazero.FSConfig) wazero.FSConfig { return c.WithFSMount(w.mapfs, g) })
	}
	for _, g := range []string{"/", "/a"} {
		g := g
		name := "WithFSMount(nil," + g + ")"
		ops = append(ops, op{name, func(w *world, n *node) *node {
			return &node{fc: n.fc.WithFSMount(nil, g), model: n.model.(*fsModel).unmount(g), born: name}
		}})
	}
	ops = append(ops, op{"UseInModuleConfig+Instantiate", func(w *world, n *node) *node {
		w.guest.observe(context.Background(), wazero.NewModuleConfig().WithFSConfig(n.fc))
		return nil
	}})
	return ops
}

type rcModel struct {
	v1, term, capMax, dwarfOff, custom bool
	limit                              uint32
	cache                              bool
}

func rcOps() []op {
	var ops []op
	add := func(name string, f func(w *world, c wazero.RuntimeConfig) wazero.RuntimeConfig, mf func(m rcModel) rcModel) {
		ops = append(ops, op{name, func(w *world, n *node) *node {
			return &node{rc: f(w, n.rc), model: mf(n.model.(rcModel)), born: name}
		}})
	}
	add("WithCoreFeatures(V1)", func(w *world, c wazero.RuntimeConfig) wazero.RuntimeConfig {
		return c.WithCoreFeatures(api.CoreFeaturesV1)
	}, func(m rcModel) rcModel { m.v1 = true; return m })
	add("WithCoreFeatures(V2)", func(w *world, c wazero.RuntimeConfig) wazero.RuntimeConfig {
		return c.WithCoreFeatures(api.CoreFeaturesV2)
	}, func(m rcModel) rcModel { m.v1 = false; return m })
	for _, b := range []bool{true, false} {
		b := b
		add(fmt.Sprintf("WithCloseOnContextDone(%v)", b), func(w *world, c wazero.RuntimeConfig) wazero.RuntimeConfig { return c.WithCloseOnContextDone(b) }, func(m rcModel) rcModel { m.term = b; return m })
		add(fmt.Sprintf("WithMemoryCapacityFromMax(%v)", b), func(w *world, c wazero.RuntimeConfig) wazero.RuntimeConfig { return c.WithMemoryCapacityFromMax(b) }, func(m rcModel) rcModel { m.capMax = b; return m })
		add(fmt.Sprintf("WithDebugInfoEnabled(%v)", b), func(w *world, c wazero.RuntimeConfig) wazero.RuntimeConfig { return c.WithDebugInfoEnabled(b) }, func(m rcModel) rcModel { m.dwarfOff = !b; return m })
		add(fmt.Sprintf("WithCustomSections(%v)", b), func(w *world, c wazero.RuntimeConfig) wazero.RuntimeConfig { return c.WithCustomSections(b) }, func(m rcModel) rcModel { m.custom = b; return m })
	}
	for _, l := range []uint32{1, 10} {
		l := l
		add(fmt.Sprintf("WithMemoryLimitPages(%d)", l), func(w *world, c wazero.RuntimeConfig) wazero.RuntimeConfig { return c.WithMemoryLimitPages(l) }, func(m rcModel) rcModel { m.limit = l; return m })
	}
	add("WithCompilationCache(c1)", func(w *world, c wazero.RuntimeConfig) wazero.RuntimeConfig { return c.WithCompilationCache(w.cache) }, func(m rcModel) rcModel { m.cache = true; return m })
	add("WithCompilationCache(nil)", func(w *world, c wazero.RuntimeConfig) wazero.RuntimeConfig { return c.WithCompilationCache(nil) }, func(m rcModel) rcModel { m.cache = false; return m })
	ops = append(ops, op{"NewRuntimeWithConfig+Compile+Close", func(w *world, n *node) *node {
		observeRC(n.rc)
		return nil
	}})
	return ops
}

// ---------------------------------------------------------------- guest observation

// buildGuest builds the observation guest; moduleName != "" adds a name section with that module name.
func buildGuest(moduleName string) []byte {
	m := &wb.Module{ModuleName: moduleName}
	i32 := wb.I32
	w := "wasi_snapshot_preview1"
	f1 := m.ImportFunc(w, "args_sizes_get", []byte{i32, i32}, []byte{i32})
	f2 := m.ImportFunc(w, "args_get", []byte{i32, i32}, []byte{i32})
	f3 := m.ImportFunc(w, "environ_sizes_get", []byte{i32, i32}, []byte{i32})
	f4 := m.ImportFunc(w, "environ_get", []byte{i32, i32}, []byte{i32})
	f5 := m.ImportFunc(w, "fd_prestat_get", []byte{i32, i32}, []byte{i32})
	f6 := m.ImportFunc(w, "fd_prestat_dir_name", []byte{i32, i32, i32}, []byte{i32})
	f7 := m.ImportFunc(w, "path_create_directory", []byte{i32, i32, i32}, []byte{i32})
	f8 := m.ImportFunc(w, "path_remove_directory", []byte{i32, i32, i32}, []byte{i32})
	f9 := m.ImportFunc(w, "fd_fdstat_get", []byte{i32, i32}, []byte{i32}) // file type of a descriptor: counts pre-opened sockets
	// probe: a host function that evaluates the immutability invariant WHILE the instantiation is in progress
	// (called by every start function); a configuration changed for the duration of the call only is caught here.
	probe := m.ImportFunc("c19host", "probe", nil, nil)
	m.Mem = &wb.Limits{Min: 1}
	g := m.AddGlobal(wb.I32, true, wb.CI32(0))
	wrap2 := func(nm string, f uint32) {
		idx := m.AddFunc([]byte{i32, i32}, []byte{i32}, nil, (&wb.Asm{}).LocalGet(0).LocalGet(1).Call(f).B)
		m.ExportFunc(nm, idx)
	}
	wrap2("args_sizes_get", f1)
	wrap2("args_get", f2)
	wrap2("environ_sizes_get", f3)
	wrap2("environ_get", f4)
	wrap2("fd_prestat_get", f5)
	wrap2("fd_fdstat_get", f9)
	idx := m.AddFunc([]byte{i32, i32, i32}, []byte{i32}, nil, (&wb.Asm{}).LocalGet(0).LocalGet(1).LocalGet(2).Call(f6).B)
	m.ExportFunc("fd_prestat_dir_name", idx)
	for nm, f := range map[string]uint32{"path_create_directory": f7, "path_remove_directory": f8} {
		m.ExportFunc(nm, m.AddFunc([]byte{i32, i32, i32}, []byte{i32}, nil, (&wb.Asm{}).LocalGet(0).LocalGet(1).LocalGet(2).Call(f).B))
	}
	// start functions: s1 => g = g*10+1 ; s2 => g = g*10+2
	for k, nm := range []string{"s1", "s2"} {
		b := (&wb.Asm{}).Call(probe).GlobalGet(g).I32Const(10).Op(0x6c).I32Const(int32(k + 1)).Op(0x6a).GlobalSet(g).B
		m.ExportFunc(nm, m.AddFunc(nil, nil, nil, b))
	}
	m.ExportFunc("_start", m.AddFunc(nil, nil, nil, (&wb.Asm{}).Call(probe).B)) // the default start function
	m.ExportFunc("g", m.AddFunc(nil, []byte{i32}, nil, (&wb.Asm{}).GlobalGet(g).B))
	m.Exports = append(m.Exports, wb.Export{Name: "memory", Kind: wb.KindMemory, Idx: 0})
	return m.Encode()
}

var guestBin, guestBinNamed = buildGuest(""), buildGuest("gm")

type guestRT struct {
	rt        wazero.Runtime
	code      wazero.CompiledModule
	codeNamed wazero.CompiledModule // same guest with module name "gm" in its name section
	buf       []byte                // the observation guest's single memory page, reused by this worker (see reuseMem)
	id        int64                 // distinguishes the probe directory names of concurrently running workers
	cur       *world                // the world whose configurations the in-flight probe checks
	during    []string              // invariant failures seen by the probe while an instantiation was in progress
	probeFn   func()                // sockuse family: its own in-flight invariant (set only while it instantiates)
}

// probe runs inside InstantiateModule (from the guest's start function): every configuration of the current world
// must look exactly as it did when it was created, also while it is being used.
func (g *guestRT) probe() {
	if g.probeFn != nil {
		g.probeFn()
	}
	w := g.cur
	if w == nil {
		return
	}
	for i, n := range w.nodes {
		if n.snap != "" && snapOf(n) != n.snap {
			g.during = append(g.during, fmt.Sprintf("node %d (%s): %s", i, n.born, fw.SnapDiff(n.snap, snapOf(n))))
		}
	}
	if w.sockCfg != nil {
		if cur := fw.DeepSnap(w.sockCfg, follow); cur != w.sockSnap {
			g.during = append(g.during, "socket configuration: "+fw.SnapDiff(w.sockSnap, cur))
		}
	}
}

var guestIDs atomic.Int64

// reuseMem is a per-worker experimental.MemoryAllocator that hands every observation guest the same
// 64 KiB buffer and clears only the part the guest uses (argument/result areas below 8 KiB). Allocating
// and zeroing a fresh page per instantiation made the exploration allocator-bound (2-3 busy cores of 16).
// Memory contents are not part of what this check observes beyond the cleared area.
type reuseMem struct{ g *guestRT }

func (a reuseMem) Allocate(cap, max uint64) experimental.LinearMemory { return a }
func (a reuseMem) Reallocate(size uint64) []byte {
	if a.g.buf == nil {
		a.g.buf = make([]byte, 65536)
	}
	if size > uint64(len(a.g.buf)) {
		return nil
	}
	clear(a.g.buf[:8192])
	return a.g.buf[:size]
}
func (a reuseMem) Free() {}

func newGuestRT() *guestRT {
	ctx := context.Background()
	rt := wazero.NewRuntimeWithConfig(ctx, wazero.NewRuntimeConfigInterpreter())
	if _, err := wasi_snapshot_preview1.Instantiate(ctx, rt); err != nil {
		fw.Fatalf("wasi: %v", err)
	}
	g := &guestRT{rt: rt, id: guestIDs.Add(1)}
	if _, err := rt.NewHostModuleBuilder("c19host").NewFunctionBuilder().WithFunc(func() { g.probe() }).Export("probe").Instantiate(ctx); err != nil {
		fw.Fatalf("probe host module: %v", err)
	}
	code, err := rt.CompileModule(ctx, guestBin)
	if err != nil {
		fw.Fatalf("guest module rejected: %v", err)
	}
	codeNamed, err := rt.CompileModule(ctx, guestBinNamed)
	if err != nil {
		fw.Fatalf("named guest module rejected: %v", err)
	}
	g.code, g.codeNamed = code, codeNamed
	return g
}

type observation struct {
	Err      string
	Name     string
	Args     []string
	Env      []string
	Starts   uint64
	Preopens []string
	Mk       []string // per preopen: outcome of creating (and removing again) a probe directory below it
}

func (o observation) String() string {
	return fmt.Sprintf("err=%q name=%q args=%q env=%q starts=%d preopens=%q mkdir=%q", o.Err, o.Name, o.Args, o.Env, o.Starts, o.Preopens, o.Mk)
}

func (g *guestRT) observe(ctx context.Context, mc wazero.ModuleConfig) (o observation) {
	return g.observeBin(ctx, mc, false)
}

// observeBin instantiates the unnamed or the named ("gm") guest binary with mc and records what it sees.
func (g *guestRT) observeBin(ctx context.Context, mc wazero.ModuleConfig, named bool) (o observation) {
	ctx = experimental.WithMemoryAllocator(ctx, reuseMem{g})
	code := g.code
	if named {
		code = g.codeNamed
	}
	mod, err := g.rt.InstantiateModule(ctx, code, mc)
	if err != nil {
		o.Err = err.Error()
		return
	}
	defer mod.Close(ctx)
	o.Name = mod.Name()
	mem := mod.Memory()
	call := func(fn string, a ...uint64) uint64 {
		r, err := mod.ExportedFunction(fn).Call(ctx, a...)
		if err != nil {
			o.Err = fn + ": " + err.Error()
			return 1 << 40
		}
		return r[0]
	}
	readList := func(sizes, get string) []string {
		if call(sizes, 0, 4) != 0 {
			return nil
		}
		n, _ := mem.ReadUint32Le(0)
		sz, _ := mem.ReadUint32Le(4)
		if n == 0 {
			return nil
		}
		if call(get, 1024, 2048) != 0 {
			return nil
		}
		buf, _ := mem.Read(2048, sz)
		var out []string
		for _, s := range bytes.Split(bytes.TrimSuffix(buf, []byte{0}), []byte{0}) {
			out = append(out, string(s))
		}
		return out
	}
	o.Args = readList("args_sizes_get", "args_get")
	o.Env = readList("environ_sizes_get", "environ_get")
	o.Starts = call("g")
	for fd := uint64(3); fd < 48; fd++ {
		if call("fd_prestat_get", fd, 0) != 0 {
			break
		}
		l, _ := mem.ReadUint32Le(4)
		if call("fd_prestat_dir_name", fd, 4096, uint64(l)) != 0 {
			break
		}
		b, _ := mem.Read(4096, l)
		o.Preopens = append(o.Preopens, string(b))
	}
	// writability of every preopen: create and remove a probe directory (the name is unique per worker)
	probe := fmt.Sprintf("zz%d", g.id)
	for i := range o.Preopens {
		fd := uint64(3 + i)
		mem.Write(8192-64, []byte(probe))
		o.Mk = append(o.Mk, func() (out string) {
			defer func() {
				if r := recover(); r != nil {
					out = "panic"
				}
			}()
			r, err := mod.ExportedFunction("path_create_directory").Call(ctx, fd, 8192-64, uint64(len(probe)))
			if err != nil {
				return "error"
			}
			if r[0] == 0 {
				if r2, err := mod.ExportedFunction("path_remove_directory").Call(ctx, fd, 8192-64, uint64(len(probe))); err != nil || r2[0] != 0 {
					return "created-but-not-removable"
				}
				return "rw"
			}
			return fmt.Sprintf("errno%d", r[0])
		}())
	}
	return
}

func predictMC(m mcModel) observation {
	var o observation
	o.Name = m.name
	o.Args = m.args
	if len(o.Args) == 0 {
		o.Args = nil
	}
	o.Env = m.environ()
	for _, s := range m.starts {
		o.Starts = o.Starts*10 + uint64(s[1]-'0')
	}
	if m.fs != nil {
		o.Preopens = append([]string{}, m.fs.paths...)
		for _, k := range m.fs.kinds {
			o.Mk = append(o.Mk, mkOutcome[k])
		}
	}
	return o
}

// mkOutcome: what creating a directory below a mount of each kind gives (dirA/dirB: writable host directory; roA:
// read-only mount, EROFS=69; fs: an fs.FS mount cannot create, ENOSYS=52; nil: a guest path whose mount was removed).
var mkOutcome = map[string]string{"dirA": "rw", "dirB": "rw", "roA": "errno69", "roB": "errno69", "fs": "errno52", "nil": "?nil"}

// runtime-config observation: behaviour of a runtime created from the node.
var (
	memBin  = func() []byte { m := &wb.Module{Mem: &wb.Limits{Min: 5}}; return m.Encode() }()
	sextBin = func() []byte {
		m := &wb.Module{}
		m.ExportFunc("f", m.AddFunc([]byte{wb.I32}, []byte{wb.I32}, nil, (&wb.Asm{}).LocalGet(0).Op(0xc0).B))
		m.Customs = []wb.Custom{{Name: "meta", Data: []byte{1, 2, 3}}}
		return m.Encode()
	}()
)

func observeRC(rc wazero.RuntimeConfig) string {
	ctx := context.Background()
	rt := wazero.NewRuntimeWithConfig(ctx, rc)
	defer rt.Close(ctx)
	_, e1 := rt.CompileModule(ctx, memBin)
	c2, e2 := rt.CompileModule(ctx, sextBin)
	custom := false
	if e2 == nil {
		custom = len(c2.CustomSections()) > 0
	}
	return fmt.Sprintf("mem5ok=%v sextok=%v custom=%v", e1 == nil, e2 == nil, custom)
}

func predictRC(m rcModel) string {
	return fmt.Sprintf("mem5ok=%v sextok=%v custom=%v", m.limit >= 5, !m.v1, (m.custom || !m.dwarfOff) && !m.v1)
}

// ---------------------------------------------------------------- exploration

type step struct {
	Parent int    `json:"parent"`
	Op     string `json:"op"`
}

type explorer struct {
	run           *fw.Run
	kind          string
	ops           []op
	depth         int
	observeLeaves bool
	states        atomic.Int64
	trans         atomic.Int64
	obs           atomic.Int64
	outcomes      *fw.Counter
	samples       *fw.Sampler
	distinct      sync.Map
}

func newWorld(kind string, g *guestRT, hostA, hostB string, cache wazero.CompilationCache) *world {
	w := &world{kind: kind, hostA: hostA, hostB: hostB, out1: &bytes.Buffer{}, in1: strings.NewReader(""), guest: g, cache: cache,
		mapfs: fstest.MapFS{"f.txt": &fstest.MapFile{Data: []byte("x")}}}
	w.fsAtom[0] = wazero.NewFSConfig().WithDirMount(hostA, "/")
	w.fsAtomModel[0] = (*fsModel)(nil).with("dirA", "/")
	w.fsAtom[1] = wazero.NewFSConfig().WithDirMount(hostA, "/a").WithReadOnlyDirMount(hostB, "/b")
	w.fsAtomModel[1] = (*fsModel)(nil).with("dirA", "/a").with("roB", "/b")
	w.sockCfg = sock.NewConfig().WithTCPListener("127.0.0.1", 0)
	w.sockDerived = w.sockCfg.WithTCPListener("127.0.0.1", 0)
	w.sockSnap, w.sockDerSnap = fw.DeepSnap(w.sockCfg, follow), fw.DeepSnap(w.sockDerived, follow)
	return w
}

func (w *world) root() *node {
	var n *node
	switch w.kind {
	case "module":
		n = &node{mc: wazero.NewModuleConfig(), model: mcModel{}, born: "NewModuleConfig"}
	case "fs":
		n = &node{fc: wazero.NewFSConfig(), model: (*fsModel)(nil).with("", "")}
		n.model = &fsModel{}
		n.born = "NewFSConfig"
	case "runtime":
		n = &node{rc: wazero.NewRuntimeConfigInterpreter(), model: rcModel{limit: 65536}, born: "NewRuntimeConfigInterpreter"}
	}
	n.snap = snapOf(n)
	return n
}

func snapOf(n *node) string {
	switch {
	case n.mc != nil:
		return fw.DeepSnap(n.mc, follow)
	case n.fc != nil:
		return fw.DeepSnap(n.fc, follow)
	default:
		return fw.DeepSnap(n.rc, follow, "wazero.cache") // a CompilationCache is a shared resource, compared by identity
	}
}

// apply performs one transition and evaluates the invariant on every node. Returns false if violated.
func (e *explorer) apply(w *world, path []step, s step) bool {
	o := e.opByName(s.Op)
	parent := w.nodes[s.Parent]
	if w.guest != nil {
		w.guest.cur, w.guest.during = w, nil
	}
	nn := o.apply(w, parent)
	e.trans.Add(1)
	ok := true
	if w.guest != nil {
		if len(w.guest.during) > 0 {
			opn := s.Op
			if k := strings.IndexByte(opn, '('); k > 0 {
				opn = opn[:k]
			}
			e.run.Violation(fmt.Sprintf("%s:%s-changes-a-configuration-while-the-call-is-in-progress", e.kind, opn),
				fmt.Sprintf("%s applied to node %d: seen from the guest's start function, %s", s.Op, s.Parent, w.guest.during[0]),
				map[string]any{"kind": e.kind, "path": append(append([]step{}, path...), s)})
			e.outcomes.Inc("mutated-during-call")
			ok = false
		}
		w.guest.cur, w.guest.during = nil, nil
	}
	for i, n := range w.nodes {
		if cur := snapOf(n); cur != n.snap {
			rel := "earlier-derived configuration"
			if i == s.Parent {
				rel = "receiver"
			} else if i == 0 {
				rel = "root"
			}
			opn := s.Op
			if k := strings.IndexByte(opn, '('); k > 0 {
				opn = opn[:k]
			}
			e.run.Violation(fmt.Sprintf("%s:%s-changes-%s", e.kind, opn, strings.ReplaceAll(rel, " ", "-")),
				fmt.Sprintf("%s applied to node %d changed node %d (%s): %s", s.Op, s.Parent, i, rel, fw.SnapDiff(n.snap, cur)),
				map[string]any{"kind": e.kind, "path": append(append([]step{}, path...), s)})
			e.outcomes.Inc("mutated")
			ok = false
		}
	}
	if w.sockCfg != nil {
		for _, sc := range []struct {
			name string
			cfg  sock.Config
			snap *string
		}{{"socket configuration", w.sockCfg, &w.sockSnap}, {"derived socket configuration", w.sockDerived, &w.sockDerSnap}} {
			if cur := fw.DeepSnap(sc.cfg, follow); cur != *sc.snap {
				opn := s.Op
				if k := strings.IndexByte(opn, '('); k > 0 {
					opn = opn[:k]
				}
				e.run.Violation(fmt.Sprintf("%s:%s-changes-%s", e.kind, opn, strings.ReplaceAll(sc.name, " ", "-")),
					fmt.Sprintf("%s applied to node %d changed the %s passed through the context: %s", s.Op, s.Parent, sc.name, fw.SnapDiff(*sc.snap, cur)),
					map[string]any{"kind": e.kind, "path": append(append([]step{}, path...), s)})
				e.outcomes.Inc("mutated")
				*sc.snap = cur // report once per change, then continue from the new value
				ok = false
			}
		}
	}
	if nn != nil {
		nn.snap = snapOf(nn)
		w.nodes = append(w.nodes, nn)
		e.states.Add(1)
	}
	return ok
}

func (e *explorer) opByName(n string) *op {
	for i := range e.ops {
		if e.ops[i].name == n {
			return &e.ops[i]
		}
	}
	fw.Fatalf("unknown op %q", n)
	return nil
}

func (e *explorer) leaf(w *world, path []step) {
	key := fmt.Sprint(path)
	e.samples.Add(map[string]any{"kind": e.kind, "derivation": append([]step{}, path...)})
	_ = key
	if !e.observeLeaves {
		return
	}
	for i, n := range w.nodes {
		// Deep trees (depth >= 4): every node was already observed as a leaf of the shallower trees and
		// is guarded by the snapshot invariant afterwards; only the two newest nodes are observed again.
		if len(path) >= 4 && i < len(w.nodes)-2 {
			continue
		}
		e.observeNode(w, path, i, n)
	}
}

// observeNode compares what a guest (or a runtime) built from node n observes with the functional reference.
func (e *explorer) observeNode(w *world, path []step, i int, n *node) {
	// A guest path whose mount was removed with WithFSMount(nil, path) is not documented input: what a guest
	// sees of it is not defined (today the first WASI call on it fails), so such nodes are held to the snapshot
	// invariant only.
	if fm, ok := n.model.(*fsModel); ok && fm != nil {
		for _, k := range fm.kinds {
			if k == "nil" {
				e.outcomes.Inc("observation-skipped:nil-mount")
				return
			}
		}
	}
	{
		var got, want string
		switch e.kind {
		case "module":
			// first the binary that carries a module name, then the one that does not: a name leaking from the
			// first instantiation into the configuration would show in the second.
			mm := n.model.(mcModel)
			wn := predictMC(mm)
			if !mm.nameSet {
				wn.Name = "gm"
			}
			got = w.guest.observeBin(context.Background(), n.mc, true).String() + " | " + w.guest.observe(context.Background(), n.mc).String()
			want = wn.String() + " | " + predictMC(mm).String()
		case "fs":
			mm := mcModel{fs: n.model.(*fsModel)}
			if len(mm.fs.paths) == 0 {
				mm.fs = nil
			}
			got, want = w.guest.observe(context.Background(), wazero.NewModuleConfig().WithFSConfig(n.fc)).String(), predictMC(mm).String()
		case "runtime":
			got, want = observeRC(n.rc), predictRC(n.model.(rcModel))
		}
		e.obs.Add(1)
		e.outcomes.Inc("obs:" + got)
		if got != want {
			e.run.Violation(e.kind+":observation-differs-from-functional-reference:"+n.born,
				fmt.Sprintf("node %d (created by %s): guest observes %s, reference predicts %s", i, n.born, got, want),
				map[string]any{"kind": e.kind, "path": append([]step{}, path...), "node": i})
		}
	}
}

func (e *explorer) rebuild(w *world, path []step) {
	w.nodes = []*node{w.root()}
	for i, s := range path {
		// replay without re-reporting
		o := e.opByName(s.Op)
		if nn := o.apply(w, w.nodes[s.Parent]); nn != nil {
			nn.snap = snapOf(nn)
			w.nodes = append(w.nodes, nn)
		}
		_ = i
	}
	// re-baseline mutated snapshots: a rebuilt prefix may itself contain a violating step that
	// has already been reported; further steps are judged against the state after the prefix.
	for _, n := range w.nodes {
		n.snap = snapOf(n)
	}
}

func (e *explorer) dfs(w *world, path []step) {
	if e.run.Expired() {
		e.run.Capped("budget")
		return
	}
	if len(path) == e.depth {
		e.leaf(w, path)
		return
	}
	nn := len(w.nodes)
	for p := 0; p < nn; p++ {
		for oi := range e.ops {
			s := step{p, e.ops[oi].name}
			ok := e.apply(w, path, s)
			np := append(path, s)
			if ok {
				if len(np) >= 3 && len(np) < e.depth {
					e.leaf(w, np) // interior states of deep explorations are observed too
				}
				e.dfs(w, np)
			} else {
				e.leaf(w, np)
			}
			// undo: drop nodes created below; rebuild from scratch if anything was mutated
			if !ok {
				e.rebuild(w, path)
			} else {
				w.nodes = w.nodes[:nn]
			}
		}
	}
	if len(path) < e.depth {
		// shorter derivations are leaves too (every prefix is a state)
	}
}

func (e *explorer) exploreAll(hostA, hostB string) {
	cache := wazero.NewCompilationCache()
	// Level 1 (sequential, cheap): apply every op to the root once, with counting and invariant
	// checks, and remember how many nodes exist afterwards.
	type shard struct{ s1, s2 step }
	var shards []shard
	{
		g := newGuestRT()
		for oi := range e.ops {
			w := newWorld(e.kind, g, hostA, hostB, cache)
			w.nodes = []*node{w.root()}
			if oi == 0 {
				e.states.Add(1)
			}
			s1 := step{0, e.ops[oi].name}
			if !e.apply(w, nil, s1) {
				e.leaf(w, []step{s1})
				e.rebuild(w, []step{s1})
			}
			for p := 0; p < len(w.nodes); p++ {
				for oj := range e.ops {
					shards = append(shards, shard{s1, step{p, e.ops[oj].name}})
				}
			}
		}
		g.rt.Close(context.Background())
	}
	// Level 2 shards (parallel, well balanced): silently rebuild the one-step prefix, then apply
	// the second step with counting and checks and explore everything below it.
	fw.Parallel(len(shards), runtime.NumCPU(), func(i int) {
		g := newGuestRT()
		defer g.rt.Close(context.Background())
		w := newWorld(e.kind, g, hostA, hostB, cache)
		sh := shards[i]
		e.rebuild(w, []step{sh.s1})
		path := []step{sh.s1}
		ok := e.apply(w, path, sh.s2)
		np := []step{sh.s1, sh.s2}
		if !ok {
			e.leaf(w, np)
			return
		}
		e.dfs(w, np)
	})
}

// ---------------------------------------------------------------- capacity combs and socket trees

// combOps returns the generated "appending" operations of a kind: each adds one NEW element (a fresh
// environment key, a fresh guest path) so that chains of them walk a backing slice through every
// length/capacity relation; an implementation that appends to a shared backing array is only wrong when
// the receiver has spare capacity, which the small alphabet of the tree exploration never reaches.
func combOp(kind string, i int, tag string) op {
	switch kind {
	case "module":
		k, v := fmt.Sprintf("%s%d", tag, i), fmt.Sprintf("v%s%d", tag, i)
		name := "WithEnv(" + k + "," + v + ")"
		return op{name, func(w *world, n *node) *node {
			return &node{mc: n.mc.WithEnv(k, v), model: n.model.(mcModel).withEnv(k, v), born: name}
		}}
	case "fs":
		g := fmt.Sprintf("/%s%d", tag, i)
		name := "WithDirMount(A," + g + ")"
		return op{name, func(w *world, n *node) *node {
			return &node{fc: n.fc.WithDirMount(w.hostA, g), model: n.model.(*fsModel).with("dirA", g), born: name}
		}}
	}
	return op{}
}

func (e *explorer) unmountOp(g string) op {
	name := "WithFSMount(nil," + g + ")"
	return op{name, func(w *world, n *node) *node {
		return &node{fc: n.fc.WithFSMount(nil, g), model: n.model.(*fsModel).unmount(g), born: name}
	}}
}

// exploreCombs: for every chain length K' <= K and both orders (siblings after the chain is complete /
// sibling derived from a node before the chain is extended from it), derive two siblings from EVERY
// chain node; the snapshot invariant is evaluated on every node after every derivation and every node is
// observed through a guest at the end.
func (e *explorer) exploreCombs(hostA, hostB string, K int) {
	if e.kind != "module" && e.kind != "fs" {
		return
	}
	for i := 0; i <= K; i++ {
		e.ops = append(e.ops, combOp(e.kind, i, "K"), combOp(e.kind, i, "S"), combOp(e.kind, i, "T"))
	}
	if e.kind == "fs" {
		e.ops = append(e.ops, e.unmountOp("/K0"))
	}
	type job struct {
		k     int
		order string
	}
	var jobs []job
	for k := 0; k <= K; k++ {
		jobs = append(jobs, job{k, "siblings-last"}, job{k, "sibling-first"})
	}
	cache := wazero.NewCompilationCache()
	fw.Parallel(len(jobs), runtime.NumCPU(), func(ji int) {
		j := jobs[ji]
		g := newGuestRT()
		defer g.rt.Close(context.Background())
		w := newWorld(e.kind, g, hostA, hostB, cache)
		w.nodes = []*node{w.root()}
		var path []step
		do := func(parent int, o op) {
			s := step{parent, o.name}
			e.apply(w, path, s)
			path = append(path, s)
		}
		chain := []int{0} // node indices of the chain
		switch j.order {
		case "siblings-last":
			for i := 0; i < j.k; i++ {
				do(chain[len(chain)-1], combOp(e.kind, i, "K"))
				chain = append(chain, len(w.nodes)-1)
			}
			for i, c := range chain {
				do(c, combOp(e.kind, i, "S"))
				do(c, combOp(e.kind, i, "T"))
			}
		case "sibling-first":
			for i := 0; i < j.k; i++ {
				c := chain[len(chain)-1]
				do(c, combOp(e.kind, i, "S"))
				do(c, combOp(e.kind, i, "K"))
				chain = append(chain, len(w.nodes)-1)
				do(c, combOp(e.kind, i, "T"))
			}
		}
		if e.kind == "fs" {
			// unmount the FIRST chain element from every longer chain node: a nil entry that is not the last one
			for i, c := range chain {
				if i >= 1 {
					do(c, e.unmountOp("/K0"))
				}
			}
		}
		// use every node once (instantiate a guest with it): using a configuration must not change any of them
		use := "Instantiate"
		if e.kind == "fs" {
			use = "UseInModuleConfig+Instantiate"
		}
		for i := range w.nodes {
			do(i, *e.opByName(use))
		}
		e.samples.Add(map[string]any{"kind": e.kind, "comb": j.order, "chain": j.k, "derivations": len(path)})
		for i, n := range w.nodes {
			e.observeNode(w, path, i, n)
		}
		e.outcomes.Inc("comb:" + e.kind + ":" + j.order)
	})
}

// sockTrees enumerates EVERY derivation tree of sock.Config with up to N WithTCPListener derivations
// (derivation i picks any of the i existing configurations as its receiver: N! trees) and checks after
// every derivation that each configuration still holds exactly its own address list.
func sockTrees(run *fw.Run, N int, outcomes *fw.Counter) (states, trans int64) {
	type snode struct {
		cfg   sock.Config
		model []string
	}
	// read goes the way the runtime does: through the context, to the internal address list.
	read := func(c sock.Config) string {
		ic, _ := sock.WithConfig(context.Background(), c).Value(internalsock.ConfigKey{}).(*internalsock.Config)
		var o []string
		if ic != nil {
			for _, a := range ic.TCPAddresses {
				o = append(o, fmt.Sprintf("%s:%d", a.Host, a.Port))
			}
		}
		return fmt.Sprint(o)
	}
	snapOfModel := func(m []string) string { return fmt.Sprint(append([]string{}, m...)) }
	var rec func(nodes []snode, parents []int)
	rec = func(nodes []snode, parents []int) {
		if len(parents) == N {
			outcomes.Inc("socktree:complete")
			return
		}
		for p := range nodes {
			port := 1000 + len(parents)
			nn := snode{nodes[p].cfg.WithTCPListener("h", port), append(append([]string{}, nodes[p].model...), fmt.Sprintf("h:%d", port))}
			trans++
			all := append(append([]snode{}, nodes...), nn)
			for i, n := range all {
				// reference: the same address list built as one fresh chain (chains are checked by the model below)
				if got, want := read(n.cfg), snapOfModel(n.model); got != want {
					rel := "earlier-derived"
					if i == p {
						rel = "receiver"
					} else if i == len(all)-1 {
						rel = "new"
					}
					run.Violation("sock:WithTCPListener-changes-"+rel+"-configuration",
						fmt.Sprintf("sock.Config tree with receivers %v + derivation from node %d: node %d (%s) should list %s but lists %s", parents, p, i, rel, want, got),
						map[string]any{"kind": "sock", "parents": append(append([]int{}, parents...), p)})
					outcomes.Inc("socktree:mutated")
					return // do not explore below a broken state
				}
			}
			states++
			rec(all, append(append([]int{}, parents...), p))
		}
	}
	rec([]snode{{sock.NewConfig(), nil}}, nil)
	return
}

// replay re-executes the derivation recorded in a replay file on a fresh world, with every check on, and
// exits 1 if a violation shows again. Evidence and artefacts of the replay go to a temporary root.
func replay(path string) {
	b, err := os.ReadFile(path)
	if err != nil {
		fw.Fatalf("%v", err)
	}
	var doc struct {
		Signature string `json:"signature"`
		Replay    struct {
			Kind    string  `json:"kind"`
			Path    []step  `json:"path"`
			Parents []int   `json:"parents"`
			Steps   []sstep `json:"steps"`
		} `json:"replay"`
	}
	if err := json.Unmarshal(b, &doc); err != nil {
		fw.Fatalf("%v", err)
	}
	tmp, _ := os.MkdirTemp("", "c19replay")
	fw.Root = tmp
	run := fw.Start("C19", "model_checking")
	hostA, _ := os.MkdirTemp("", "c19a")
	hostB, _ := os.MkdirTemp("", "c19b")
	outcomes := fw.NewCounter()
	fmt.Printf("replaying %s: kind=%s path=%v parents=%v\n", doc.Signature, doc.Replay.Kind, doc.Replay.Path, doc.Replay.Parents)
	var trans int64
	if doc.Replay.Kind == "sockuse" {
		fmt.Printf("history: %v\n", doc.Replay.Steps)
		trans = replaySockUse(run, doc.Replay.Steps, outcomes)
	} else if doc.Replay.Kind == "sock" {
		// the recorded receivers select one branch; the enumeration below visits it (and its siblings)
		_, trans = sockTrees(run, len(doc.Replay.Parents), outcomes)
	} else {
		e := &explorer{run: run, kind: doc.Replay.Kind, observeLeaves: true, outcomes: outcomes, samples: fw.NewSampler(1)}
		switch e.kind {
		case "module":
			e.ops = mcOps()
		case "fs":
			e.ops = fsOps()
		case "runtime":
			e.ops = rcOps()
		}
		for i := 0; i <= 17; i++ {
			e.ops = append(e.ops, combOp(e.kind, i, "K"), combOp(e.kind, i, "S"), combOp(e.kind, i, "T"))
		}
		if e.kind == "fs" {
			e.ops = append(e.ops, e.unmountOp("/K0"))
		}
		g := newGuestRT()
		w := newWorld(e.kind, g, hostA, hostB, wazero.NewCompilationCache())
		w.nodes = []*node{w.root()}
		for i, s := range doc.Replay.Path {
			ok := e.apply(w, doc.Replay.Path[:i], s)
			fmt.Printf("  step %d: %s on node %d -> invariant %v\n", i+1, s.Op, s.Parent, ok)
		}
		for i, n := range w.nodes {
			e.observeNode(w, doc.Replay.Path, i, n)
		}
		trans = e.trans.Load()
	}
	os.RemoveAll(hostA)
	os.RemoveAll(hostB)
	defer os.RemoveAll(tmp)
	run.Finish(fw.Coverage{Evaluations: trans, DistinctNontriv: trans, Transitions: trans, Exhaustive: true, Rule: "replay of one recorded derivation", Outcomes: outcomes.Map()}, nil)
}

func main() {
	if len(os.Args) > 2 && os.Args[1] == "replay" {
		replay(os.Args[2])
		return
	}
	run := fw.Start("C19", "model_checking")
	// The live heap is tiny while the allocation rate is high: with the default GOGC the collector runs
	// thousands of cycles per second and its stop-the-world phases leave most cores idle.
	debug.SetGCPercent(4000)
	debug.SetMemoryLimit(3 << 30) // ... but never let the heap grow past 3 GiB: the limit makes the collector run earlier
	hostA, _ := os.MkdirTemp("", "c19a")
	hostB, _ := os.MkdirTemp("", "c19b")
	defer os.RemoveAll(hostA)
	defer os.RemoveAll(hostB)

	if len(os.Args) > 2 && os.Args[2] == "race" {
		racePass(hostA)
		return
	}

	depths := map[string]int{"module": 3, "fs": 3, "runtime": 3}
	if run.Thorough() {
		depths = map[string]int{"module": 4, "fs": 5, "runtime": 4}
	}
	outcomes := fw.NewCounter()
	samples := fw.NewSampler(12)
	var states, trans, obs int64
	bounds := map[string]any{}
	// thorough: the fs tree is explored twice, to depth 5 without the two unmount operations and to depth 4 with
	// them (with them the depth-5 tree no longer fits the budget); quick explores depth 3 with all operations.
	passes := []string{"module", "fs", "runtime"}
	if run.Thorough() {
		passes = []string{"module", "fs", "fs+unmount", "runtime"}
	}
	// development aid: `scripts/check.sh c19 quick sockuse` runs only the sockuse family (use with VERIF_PATCHES so
	// that the real evidence is not overwritten)
	onlySockUse := len(os.Args) > 2 && os.Args[2] == "sockuse"
	if onlySockUse {
		passes = nil
	}
	for _, label := range passes {
		kind := strings.TrimSuffix(label, "+unmount")
		e := &explorer{run: run, kind: kind, depth: depths[kind], observeLeaves: true, outcomes: outcomes, samples: samples}
		switch kind {
		case "module":
			e.ops = mcOps()
		case "fs":
			e.ops = fsOps()
			if run.Thorough() && label == "fs" { // depth 5: without WithFSMount(nil, ...)
				var keep []op
				for _, o := range e.ops {
					if !strings.HasPrefix(o.name, "WithFSMount(nil,") {
						keep = append(keep, o)
					}
				}
				e.ops = keep
			}
			if label == "fs+unmount" {
				e.depth = 4
			}
		case "runtime":
			e.ops = rcOps()
		}
		t0 := time.Now()
		e.exploreAll(hostA, hostB)
		combK := 9
		if run.Thorough() {
			combK = 17
		}
		if label != "fs+unmount" {
			e.exploreCombs(hostA, hostB, combK)
		}
		states += e.states.Load()
		trans += e.trans.Load()
		obs += e.obs.Load()
		bounds[label] = map[string]any{"alphabet": len(e.ops), "depth": e.depth, "states": e.states.Load(), "transitions": e.trans.Load(), "wall_s": time.Since(t0).Seconds()}
		outcomes.AddN("explored:"+label, e.trans.Load())
	}
	sockN := 7
	if run.Thorough() {
		sockN = 9
	}
	ss, st := sockTrees(run, sockN, outcomes)
	states += ss
	trans += st
	bounds["sock"] = map[string]any{"derivations": sockN, "states": ss, "transitions": st, "trees": "every choice of receiver per derivation (N! trees)"}
	// sockuse: the context a configuration is registered in is a dimension of its own (see sockuse.go)
	su := &sockUse{run: run, depth: 6, outcomes: outcomes, samples: samples}
	if run.Thorough() {
		su.depth = 7
	}
	t0su := time.Now()
	su.explore()
	states += su.states.Load()
	trans += su.trans.Load()
	bounds["sockuse"] = map[string]any{"depth": su.depth, "states": su.states.Load(), "transitions": su.trans.Load(), "instantiations": su.insts.Load(), "wall_s": time.Since(t0su).Seconds(),
		"alphabet": "WithTCPListener(any cfg) | WithConfig(any ctx, any cfg) | WithValue(any ctx) | Instantiate(any ctx); context 0 = Background, configuration 0 = empty"}
	bounds["combs"] = "module and fs: chains of 0..9 (thorough 0..17) fresh-element derivations with two siblings from every chain node, in two orders"
	om := outcomes.Map()
	// compress observation outcomes into a count
	distinctObs := int64(0)
	comp := map[string]int64{}
	for k, v := range om {
		if strings.HasPrefix(k, "obs:") {
			distinctObs++
			comp["guest_observations"] += v
		} else {
			comp[k] = v
		}
	}
	comp["distinct_guest_observations"] = distinctObs
	if onlySockUse {
		b, _ := json.MarshalIndent(map[string]any{"bounds": bounds["sockuse"], "outcomes": comp}, "", " ")
		fmt.Println(string(b))
	}
	os.RemoveAll(hostA) // Finish exits the process, so deferred removals would not run
	os.RemoveAll(hostB)
	run.Finish(fw.Coverage{
		Evaluations: trans, DistinctNontriv: states, States: states, Transitions: trans, TracesValidated: trans,
		Rule:    "state = derivation tree (set of configuration nodes, each with the history that produced it); transition = With.../Instantiate applied to ANY existing node; every transition executes the real method; a state is non-trivial when it has >=2 nodes (all but the roots); distinct = distinct derivation histories (stateless enumeration, no merging)",
		Samples: samples.List(), Exhaustive: true, Outcomes: comp, Bounds: bounds,
		Extra: map[string]any{"leaf_observations_vs_reference": obs},
	}, []string{
		"deep snapshot follows pointers only into wazero packages; io.Reader/Writer, fs.FS values from other packages and funcs are compared by identity",
		"caller-side mutation of slices passed to With... after the call is outside the statement and not exercised",
		"concurrent derivation is covered by a separate free-running -race pass (scripts/race.sh c19), reported as secondary monitor",
	})
}

func racePass(hostA string) {
	base := wazero.NewModuleConfig().WithEnv("A", "1").WithEnv("B", "1").WithEnv("C", "1").WithArgs("x")
	fsb := wazero.NewFSConfig().WithDirMount(hostA, "/")
	rcb := wazero.NewRuntimeConfigInterpreter()
	var wg sync.WaitGroup
	for g := 0; g < 4; g++ {
		wg.Add(1)
		go func(g int) {
			defer wg.Done()
			for i := 0; i < 2000; i++ {
				_ = base.WithEnv("D", fmt.Sprint(g)).WithEnv("A", "2").WithArgs("y").WithName("n").WithStartFunctions("s")
				_ = fsb.WithDirMount(hostA, "/a").WithFSMount(fstest.MapFS{}, "/b")
				_ = rcb.WithMemoryLimitPages(uint32(g + 1)).WithCloseOnContextDone(true)
			}
		}(g)
	}
	wg.Wait()
	fmt.Println("race pass done")
}

var _ = wsys.NewExitError
