package main

import (
	"fmt"
	"strings"
)

// event is one listener notification in canonical form.
type event struct {
	K     byte     // 'B' before, 'A' after, 'X' abort
	Fn    int      // node
	Vals  []uint64 // params (B) / results (A), masked to the value type's width
	Stack []int    // B only: nodes listed by the StackIterator, callee first
	Any   bool     // model only: the values of this event are not specified
	Extra int      // recorded only: slots the slice had beyond the function type's count
	PCs   []uint64 // recorded only: StackIterator.ProgramCounter per listed frame (compared between
	//                the component listeners of one MultiFunctionListenerFactory, not with the model)
}

func eventsEqual(got, want []event) bool {
	if len(got) != len(want) {
		return false
	}
	for i := range got {
		if !eventEqual(got[i], want[i]) {
			return false
		}
	}
	return true
}

func eventEqual(g, w event) bool {
	if g.K != w.K || g.Fn != w.Fn || len(g.Stack) != len(w.Stack) {
		return false
	}
	for i := range g.Stack {
		if g.Stack[i] != w.Stack[i] {
			return false
		}
	}
	if w.Any {
		return true
	}
	if len(g.Vals) != len(w.Vals) {
		return false
	}
	for i := range g.Vals {
		if g.Vals[i] != w.Vals[i] {
			return false
		}
	}
	return true
}

func (e event) String() string {
	var sb strings.Builder
	fmt.Fprintf(&sb, "%c%d", e.K, e.Fn)
	if e.Any {
		sb.WriteString("(*)")
	} else if e.K != 'X' {
		sb.WriteByte('(')
		for i, v := range e.Vals {
			if i > 0 {
				sb.WriteByte(' ')
			}
			fmt.Fprintf(&sb, "%x", v)
		}
		sb.WriteByte(')')
	}
	if e.K == 'B' {
		sb.WriteByte('[')
		for i, s := range e.Stack {
			if i > 0 {
				sb.WriteByte('<')
			}
			fmt.Fprintf(&sb, "%d", s)
		}
		sb.WriteByte(']')
	}
	return sb.String()
}

func streamString(ev []event) string {
	s := make([]string, len(ev))
	for i, e := range ev {
		s[i] = e.String()
	}
	return strings.Join(s, " ")
}

// outcome of the whole run as the embedder sees it.
type outcome struct {
	Err     string   // "" | "trap" | "panic:<node>" | "exit:<code>" | "other:..."
	Results []uint64 // masked
}

func (o outcome) String() string {
	if o.Err != "" {
		return "err=" + o.Err
	}
	return fmt.Sprintf("ok=%x", o.Results)
}

// modelOpts selects the reading of each tail call and, for classifying known defects only, the
// frame caps of the implementation.
//
// Tail modes (key = the tail-called node):
//
//	'n' plain nested call: before(F) before(G) after(G) after(F); F is on G's stack
//	'f' return-then-call: before(F) after(F) before(G) after(G); F is not on G's stack; F's
//	    after-event has no results of its own, its values are not compared
//	'j' (defect reading, compiler) jump: as 'f' but F's before-event is never closed
//	'k' (defect reading, compiler) return_call lowered to a plain call (stack arguments): nested, F's
//	    frame exists and is aborted on unwinding, but F gets no after-event when G returns
//	'x' (defect reading, interpreter) G runs unnotified in F's frame: no before/after for G; F's
//	    after-event fires when G returns; if the frame is unwound the abort goes to G's listener
//
// 'n' and 'f' satisfy the statement (call depth of tail calls is implementation-defined).
type modelOpts struct {
	tail     map[int]byte
	abortCap int // >0: only the innermost abortCap frames of one unwinding are notified
	stackCap int // >0: the stack iterator lists at most stackCap frames
	// Defect readings for instances that outlive their CompiledModule (compiler only; used ONLY to
	// give those findings a precise signature). lifecycle names the history, which determines WHEN a
	// module's code is deleted from the engine: "closedcm" all before the call, "hostclose" all when
	// the first host function is entered, "rtinst" the calling module of an exit leaf.
	lifecycle string
	lcStack   bool // the stack iterator stops at the first frame whose module was deleted
	// multiOuter (defect reading, compiler): functions with two or more listeners combined by
	// MultiFunctionListenerFactory see every frame of their stack as the outermost listed function
	multiOuter func(int) bool
	lcAbort    bool // a frame of a deleted module is aborted only if that module is the entry module
	//              of the current Call or directly imported by it
}

type model struct {
	lvl        []int
	allDeleted bool
	deleted    map[string]bool
	t          Tree
	sigs       []sig
	listen     func(i int) bool
	o          modelOpts
	ev         []event
}

type failure struct {
	kind string // "trap" | "panic:<n>" | "exit:<code>"
}

func exitCode(node int) uint32 { return uint32(10 + node) }

// call evaluates node i called with its constant parameters. chain = frames of the current
// api.Function.Call outward from the caller (nearest first). unw collects the frames unwound by a
// failure inside the current call boundary (innermost first). alias >= 0: i runs in the frame of
// a tail-caller whose listener is still waiting for its after-event (mode 'x').
func (m *model) call(i int, chain []int, unw *[]int, alias int) ([]uint64, *failure) {
	s := m.sigs[i]
	p := params(i, s)
	mine := append([]int{i}, chain...)
	if alias < 0 && m.listen(i) {
		st := mine
		if m.o.stackCap > 0 && len(st) > m.o.stackCap {
			st = st[:m.o.stackCap]
		}
		if m.o.lcStack {
			for k, fr := range st {
				if m.isDeleted(fr) {
					st = st[:k]
					break
				}
			}
		}
		st = append([]int{}, st...)
		if m.o.multiOuter != nil && m.o.multiOuter(i) && len(st) > 0 {
			for k := range st {
				st[k] = st[len(st)-1]
			}
		}
		m.ev = append(m.ev, event{K: 'B', Fn: i, Vals: append([]uint64{}, p...), Stack: st})
	}
	if m.o.lifecycle == "hostclose" && m.t.isHost(i) {
		m.allDeleted = true // the hook runs at the entry of the Go function, after the before-event
	}
	closer := i
	if alias >= 0 {
		closer = alias
	}
	after := func(r []uint64, any bool) {
		if m.listen(closer) {
			m.ev = append(m.ev, event{K: 'A', Fn: closer, Vals: append([]uint64{}, r...), Any: any})
		}
	}
	acc := foldParams(s, p)
	fail := func(f *failure) ([]uint64, *failure) {
		*unw = append(*unw, i)
		return nil, f
	}
	for _, c := range m.t.children(i) {
		k := m.t[c].Kind
		if isTailKind(k) {
			k = 't'
		}
		switch k {
		case 'c':
			// second call site of an earlier function: its whole subtree runs again below this caller
			r, f := m.call(m.t.target(c), mine, unw, -1)
			if f != nil {
				return fail(f)
			}
			acc = foldResults(acc, m.sigs[c], r)
		case 'r':
			// fresh call boundary: own stack, own unwinding
			var inner []int
			r, f := m.call(c, nil, &inner, -1)
			if f != nil {
				m.flushAborts(inner, c)
				if m.t[i].Out == 'S' && !strings.HasPrefix(f.kind, "exit") {
					acc = acc*31 + swallowMark
					continue
				}
				return fail(f)
			}
			acc = foldResults(acc, m.sigs[c], r)
		case 't':
			switch m.o.tail[c] {
			case 'f':
				after(nil, true)
				return m.call(c, chain, unw, -1)
			case 'j':
				return m.call(c, chain, unw, -1)
			case 'x':
				return m.call(c, chain, unw, closer)
			case 'k':
				r, f := m.call(c, mine, unw, -1)
				if f != nil {
					return fail(f)
				}
				return r, nil
			default:
				r, f := m.call(c, mine, unw, -1)
				if f != nil {
					return fail(f)
				}
				after(r, false)
				return r, nil
			}
		default:
			r, f := m.call(c, mine, unw, -1)
			if f != nil {
				return fail(f)
			}
			acc = foldResults(acc, m.sigs[c], r)
		}
	}
	switch m.t[i].Out {
	case 'T':
		return fail(&failure{"trap"})
	case 'P':
		return fail(&failure{fmt.Sprintf("panic:%d", i)})
	case 'E':
		if m.o.lifecycle == "rtinst" {
			m.deleted[fmt.Sprintf("m%d", m.lvl[i])] = true // closing the calling module closes its code
		}
		return fail(&failure{fmt.Sprintf("exit:%d", exitCode(i))})
	}
	r := makeResults(i, s, acc)
	after(r, false)
	return r, nil
}

func (m *model) moduleOf(i int) string {
	if m.t.isHost(i) {
		return "env"
	}
	return fmt.Sprintf("m%d", m.lvl[i])
}

func (m *model) isDeleted(i int) bool { return m.allDeleted || m.deleted[m.moduleOf(i)] }

// reachableAfterDelete: modules whose frames the compiler's abort walk still resolves after their
// code was deleted from the engine: the module of the function the current Call entered and the
// modules it imports functions from directly.
func (m *model) reachableAfterDelete(entry int) map[string]bool {
	r := map[string]bool{m.moduleOf(entry): true}
	l := m.lvl[entry]
	for c := 1; c < len(m.t); c++ {
		par := m.t[c].Parent
		if m.t.isHost(par) || m.lvl[par] != l {
			continue
		}
		switch m.t[c].Kind {
		case 'm', 'v':
			r[fmt.Sprintf("m%d", l+1)] = true
		case 'h', 'w':
			r["env"] = true
		}
	}
	return r
}

// flushAborts emits the abort events of one unwinding (frames innermost first). entry = the
// function the current api.Function.Call entered.
func (m *model) flushAborts(frames []int, entry int) {
	var reach map[string]bool
	if m.o.lcAbort {
		reach = m.reachableAfterDelete(entry)
	}
	for k, i := range frames {
		if m.o.abortCap > 0 && k >= m.o.abortCap {
			break
		}
		if m.o.lcAbort && m.isDeleted(i) && !reach[m.moduleOf(i)] {
			continue
		}
		if m.listen(i) {
			m.ev = append(m.ev, event{K: 'X', Fn: i})
		}
	}
}

func runModel(t Tree, sigs []sig, listen func(int) bool, o modelOpts) ([]event, outcome) {
	m := &model{t: t, sigs: sigs, listen: listen, o: o, lvl: t.levels(), deleted: map[string]bool{}}
	m.allDeleted = o.lifecycle == "closedcm"
	var unw []int
	r, f := m.call(0, nil, &unw, -1)
	if f != nil {
		m.flushAborts(unw, 0)
		return m.ev, outcome{Err: f.kind}
	}
	out := outcome{Results: []uint64{}}
	for k, ty := range sigs[0].R {
		out.Results = append(out.Results, mask(ty, r[k]))
	}
	return m.ev, out
}

func (t Tree) tailNodes() []int {
	var o []int
	for i := range t {
		if isTailKind(t[i].Kind) {
			o = append(o, i)
		}
	}
	return o
}
