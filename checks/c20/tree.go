package main

import (
	"fmt"
	"strconv"
	"strings"

	"github.com/tetratelabs/wazero/verif/wb"
)

// A call tree. Node i is ONE function (and, because every function is called from exactly one
// call site, one call). Nodes are in DFS pre-order; children are called in index order.
//
// Edge kinds (how the parent reaches the node):
//
//	'-' root: called by the embedder through ExportedFunction (or run as the start function)
//	'd' direct call            'i' call_indirect through table 0
//	'm' imported guest function of another instance (module level + 1)
//	'h' host function (Go) imported from "env"
//	't' tail call (return_call) to a function of the same module; only as last child
//	'u' tail call through the table (return_call_indirect) to a function of the same module
//	'v' tail call (return_call) to an imported guest function of another instance (level + 1)
//	'w' tail call (return_call) to a host function
//	'c' call again: not a function but a second call site: the parent calls, directly, the function
//	    of an EARLIER node of the same module whose own call has already finished (Out holds the
//	    target index as a digit). The callee runs its whole subtree again, now below another caller.
//	'r' re-entry: the parent is a host function which calls the node through a fresh
//	    mod.ExportedFunction(...).Call on the module that called the host function
//
// Outcomes (what the node does after its children returned):
//
//	'R' return values   'T' guest trap (unreachable)
//	'P' host panic      'E' host exit: mod.CloseWithExitCode + panic(sys.ExitError), as proc_exit does
//	'S' host returns values and swallows trap/panic errors of re-entered children (exits still propagate)
type Node struct {
	Parent int
	Kind   byte
	Out    byte
}

type Tree []Node

func (t Tree) String() string {
	var sb strings.Builder
	for i, n := range t {
		if i > 0 {
			sb.WriteByte(',')
		}
		if i == 0 {
			sb.WriteString("-")
		} else {
			sb.WriteString(strconv.Itoa(n.Parent))
		}
		sb.WriteByte(n.Kind)
		sb.WriteByte(n.Out)
	}
	return sb.String()
}

func ParseTree(s string) (Tree, error) {
	var t Tree
	for i, p := range strings.Split(s, ",") {
		if len(p) < 3 {
			return nil, fmt.Errorf("bad node %q", p)
		}
		n := Node{Kind: p[len(p)-2], Out: p[len(p)-1]}
		ps := p[:len(p)-2]
		if i == 0 {
			if ps != "-" || n.Kind != '-' {
				return nil, fmt.Errorf("bad root %q", p)
			}
			n.Parent = -1
		} else {
			v, err := strconv.Atoi(ps)
			if err != nil || v < 0 || v >= i {
				return nil, fmt.Errorf("bad parent in %q", p)
			}
			n.Parent = v
		}
		t = append(t, n)
	}
	if err := t.validate(); err != nil {
		return nil, err
	}
	return t, nil
}

// isCallAgain: node i is a second call site of function target(i), not a function of its own.
func (t Tree) isCallAgain(i int) bool { return t[i].Kind == 'c' }
func (t Tree) target(i int) int {
	if t[i].Kind == 'c' {
		return int(t[i].Out - '0')
	}
	return i
}

func (t Tree) isHost(i int) bool { return t[i].Kind == 'h' || t[i].Kind == 'w' }

func isTailKind(k byte) bool { return k == 't' || k == 'u' || k == 'v' || k == 'w' }

func (t Tree) children(i int) []int {
	var c []int
	for j := i + 1; j < len(t); j++ {
		if t[j].Parent == i {
			c = append(c, j)
		}
	}
	return c
}

func (t Tree) validate() error {
	for i, n := range t {
		if i == 0 {
			continue
		}
		ph := t.isHost(n.Parent)
		switch n.Kind {
		case 'd', 'i', 'm', 'h', 't', 'u', 'v', 'w':
			if ph {
				return fmt.Errorf("node %d: host parent needs kind r", i)
			}
		case 'r':
			if !ph {
				return fmt.Errorf("node %d: kind r needs a host parent", i)
			}
		case 'c':
			tg := int(n.Out - '0')
			if ph || tg < 1 || tg >= i || t.isHost(tg) || t[tg].Kind == 'c' {
				return fmt.Errorf("node %d: bad call-again target", i)
			}
			lv := t.levels()
			if lv[tg] != lv[n.Parent] {
				return fmt.Errorf("node %d: call-again target lives in another module", i)
			}
			for x := n.Parent; x >= 0; x = t[x].Parent {
				if x == tg {
					return fmt.Errorf("node %d: call-again target is an active caller", i)
				}
			}
		default:
			return fmt.Errorf("node %d: kind %c", i, n.Kind)
		}
		if isTailKind(n.Kind) {
			ch := t.children(n.Parent)
			if ch[len(ch)-1] != i {
				return fmt.Errorf("node %d: tail call must be the last child", i)
			}
		}
	}
	for i, n := range t {
		if n.Kind == 'c' {
			if len(t.children(i)) > 0 {
				return fmt.Errorf("node %d: a call-again site has no children", i)
			}
			continue
		}
		ch := t.children(i)
		ok := false
		switch {
		case t.isHost(i) && len(ch) == 0:
			ok = n.Out == 'R' || n.Out == 'P' || n.Out == 'E'
		case t.isHost(i):
			ok = n.Out == 'R' || n.Out == 'S'
		case len(ch) == 0:
			ok = n.Out == 'R' || n.Out == 'T'
		default:
			ok = n.Out == 'R'
		}
		if !ok {
			return fmt.Errorf("node %d: outcome %c not allowed here", i, n.Out)
		}
	}
	return nil
}

// level = number of 'm' edges on the path from the root: the module instance the function lives
// in (guest) or is called from (host).
func (t Tree) levels() []int {
	l := make([]int, len(t))
	for i := 1; i < len(t); i++ {
		l[i] = l[t[i].Parent]
		if t[i].Kind == 'm' || t[i].Kind == 'v' {
			l[i]++
		}
	}
	return l
}

func (t Tree) maxLevel() int {
	m := 0
	for _, l := range t.levels() {
		if l > m {
			m = l
		}
	}
	return m
}

// ---------------------------------------------------------------- signatures and values

type sig struct{ P, R []byte }

var sigTable = []sig{
	{[]byte{wb.I32}, []byte{wb.I32}},
	{[]byte{wb.I64}, []byte{wb.F64, wb.I64, wb.F32}}, // more results than parameters
	// 9 integer + 2 float parameters: more than the amd64 register arguments, so parameters are
	// passed on the native stack and return_call falls back to a plain call in the compiler.
	{[]byte{wb.I32, wb.I64, wb.F32, wb.F64, wb.I32, wb.I64, wb.I32, wb.I64, wb.I32, wb.I64, wb.I32}, []byte{wb.I32}},
}

var sigVoid = sig{}

// sigs assigns a signature to every node: rotation of the table by node index; the start function
// is ()->(); a tail-called function has its caller's signature (return_call needs equal results).
func (t Tree) sigs(start bool, rot, shape int) []sig {
	table := sigTable
	if shape > 0 {
		table = shapeSigTable
	}
	s := make([]sig, len(t))
	for i := range t {
		switch {
		case i == 0 && start:
			s[i] = sigVoid
		case isTailKind(t[i].Kind):
			s[i] = s[t[i].Parent]
		case t[i].Kind == 'c':
			s[i] = s[t.target(i)]
		default:
			s[i] = table[(i+rot)%len(table)]
		}
	}
	return s
}

// shapeSigTable is used by the body-shape family: result arities 0, 1, 2 and 3.
var shapeSigTable = []sig{
	{[]byte{wb.I32}, nil},
	{[]byte{wb.I64}, []byte{wb.I32}},
	{[]byte{wb.I32, wb.F32}, []byte{wb.F64, wb.I32}},
	{[]byte{wb.I64}, []byte{wb.F64, wb.I64, wb.F32}},
}

// Body shapes (how a returning function leaves, and what else is on its operand stack when it
// does). Shape 0 is the plain family: exit form by node index, exactly the results on the stack.
// Shape s > 0 gives node i the combination (s-1+7i) mod numShapeCombos of
//
//	exit    1 return | 2 br to the function label | 3 br_if (taken) | 4 br_table indexed | 5 br_table default
//	        6 return inside a block that has the function's results | 7 return inside if{loop{}} with results
//	        8 br out of two nested blocks | 0 fall through the end (only without surplus)
//	surplus 0 none | 1 one operand beneath the results | 2 three operands of mixed types beneath the results
//	        3 two operands inside an enclosing block that has its own results
//	        4 one operand beneath an enclosing block that has its own results
//
// Surplus operands are distinct sentinels of rotating types i32/i64/f32/f64; leaving the function
// discards them, so results and events must be exactly those of the plain body.
const numShapeCombos = 8*5 + 1

func shapeCombo(shape, node int) (exit, surplus int) {
	c := (shape - 1 + 7*node) % numShapeCombos
	if c == 8*5 {
		return 0, 0
	}
	return 1 + c/5, c % 5
}

func sentinelRaw(node, j int, ty byte) uint64 {
	base := uint64(900000 + 100*node + j)
	switch ty {
	case wb.I32:
		return base
	case wb.I64:
		return base<<32 | base
	case wb.F32:
		return uint64(wb.F32Bits(float32(base) + 0.5))
	}
	return wb.F64Bits(float64(base) + 0.25)
}

func paramRaw(node, k int, ty byte) uint64 {
	base := uint64(1000*(node+1) + k + 1)
	switch ty {
	case wb.I32:
		return base
	case wb.I64:
		return base<<32 | base
	case wb.F32:
		return uint64(wb.F32Bits(float32(base) + 0.5))
	case wb.F64:
		return wb.F64Bits(float64(base) + 0.25)
	}
	panic("type")
}

func params(node int, s sig) []uint64 {
	p := make([]uint64, len(s.P))
	for k, ty := range s.P {
		p[k] = paramRaw(node, k, ty)
	}
	return p
}

func resultConst(node, k int) uint64 { return uint64(7000 + 100*node + k) }

const swallowMark = 0xdead

func toI64(ty byte, raw uint64) uint64 {
	switch ty {
	case wb.I32, wb.F32:
		return raw & 0xffffffff
	}
	return raw
}

func fromI64(ty byte, v uint64) uint64 {
	switch ty {
	case wb.I32:
		return v & 0xffffffff
	case wb.I64:
		return v
	case wb.F32:
		return uint64(wb.F32Bits(float32(int64(v))))
	case wb.F64:
		return wb.F64Bits(float64(int64(v)))
	}
	panic("type")
}

func mask(ty byte, raw uint64) uint64 { return toI64(ty, raw) }

func foldParams(s sig, p []uint64) uint64 {
	acc := uint64(0)
	for k, ty := range s.P {
		acc = acc*31 + toI64(ty, p[k])
	}
	return acc
}

// foldResults folds a callee's results into the accumulator, last result first (the order in
// which the guest pops them).
func foldResults(acc uint64, s sig, r []uint64) uint64 {
	for k := len(s.R) - 1; k >= 0; k-- {
		acc = acc*31 + toI64(s.R[k], r[k])
	}
	return acc
}

func makeResults(node int, s sig, acc uint64) []uint64 {
	r := make([]uint64, len(s.R))
	for k, ty := range s.R {
		r[k] = fromI64(ty, acc+resultConst(node, k))
	}
	return r
}

// ---------------------------------------------------------------- enumeration

// enumTrees returns every valid tree with exactly n nodes, in a fixed order.
func enumTrees(n int) []Tree { return enumTreesKinds(n, "dimht") }

// enumTreesKinds: as enumTrees with the given edge kinds for guest parents.
func enumTreesKinds(n int, guestKinds string) []Tree {
	var out []Tree
	var rec func(t Tree)
	rec = func(t Tree) {
		if len(t) == n {
			// choose outcomes
			var outs func(i int, u Tree)
			outs = func(i int, u Tree) {
				if i == len(u) {
					if u.validate() == nil {
						out = append(out, append(Tree{}, u...))
					}
					return
				}
				ch := u.children(i)
				var opts string
				switch {
				case u.isHost(i) && len(ch) == 0:
					opts = "RPE"
				case u.isHost(i):
					opts = "RS"
				case len(ch) == 0:
					opts = "RT"
				default:
					opts = "R"
				}
				for _, o := range []byte(opts) {
					u[i].Out = o
					outs(i+1, u)
				}
			}
			// tail edges must be last children
			for i := 1; i < len(t); i++ {
				if isTailKind(t[i].Kind) {
					ch := t.children(t[i].Parent)
					if ch[len(ch)-1] != i {
						return
					}
				}
			}
			outs(0, append(Tree{}, t...))
			return
		}
		// the new node attaches to a node on the rightmost path (pre-order numbering)
		for p := len(t) - 1; p >= 0; p = t[p].Parent {
			kinds := guestKinds
			if t.isHost(p) {
				kinds = "r"
			}
			for _, k := range []byte(kinds) {
				rec(append(append(Tree{}, t...), Node{Parent: p, Kind: k, Out: 'R'}))
			}
			if p == 0 {
				break
			}
		}
	}
	rec(Tree{{Parent: -1, Kind: '-', Out: 'R'}})
	return out
}

// chainTree builds a path-shaped tree of depth guest frames following the kind pattern, ending in
// the given leaf: 'R'/'T' guest leaf, 'P'/'E' host leaf appended below the last guest frame.
func chainTree(depth int, pattern string, leaf byte) Tree {
	t := Tree{{Parent: -1, Kind: '-', Out: 'R'}}
	for i := 1; i < depth; i++ {
		k := pattern[(i-1)%len(pattern)]
		if k == 'r' || t.isHost(i-1) {
			k = 'r'
		}
		t = append(t, Node{Parent: i - 1, Kind: k, Out: 'R'})
	}
	last := len(t) - 1
	switch leaf {
	case 'R', 'T':
		if t.isHost(last) {
			t = append(t, Node{Parent: last, Kind: 'r', Out: leaf})
		} else {
			t[last].Out = leaf
		}
	case 'P', 'E':
		if t.isHost(last) {
			t[last].Out = leaf
		} else {
			t = append(t, Node{Parent: last, Kind: 'h', Out: leaf})
		}
	}
	return t
}

// enumCallAgain returns every tree made of a base tree with exactly n nodes plus one call-again
// site: for every guest node p on the right-most path (no tail call below it) and every earlier
// guest function of the same module that is not an active caller of p.
func enumCallAgain(n int) []Tree {
	var out []Tree
	for _, base := range enumTrees(n) {
		for p := len(base) - 1; p >= 0; p = base[p].Parent {
			if base.isHost(p) {
				continue
			}
			for tg := 1; tg < len(base); tg++ {
				t := append(append(Tree{}, base...), Node{Parent: p, Kind: 'c', Out: byte('0' + tg)})
				if t.validate() == nil {
					out = append(out, t)
				}
			}
		}
	}
	return out
}
