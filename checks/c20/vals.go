package main

import (
	"context"
	"fmt"
	"strings"

	"github.com/tetratelabs/wazero"
	"github.com/tetratelabs/wazero/api"
	"github.com/tetratelabs/wazero/experimental"
	"github.com/tetratelabs/wazero/verif/wb"
)

// Typed-values family: "carrying the actual parameters and results" for every value-type mix.
//
// The tree families use three fixed signatures. Here the FUNCTION TYPE is the enumerated object:
// every type (P)->(R) over {i32, i64, externref (, funcref), f32, f64, v128} up to a length bound,
// and - because engines keep per-type artefacts (listener trampolines, entry preambles, type ids) that
// may be shared between types - every ORDERED PAIR (A, B) of types that use the same register class
// (integer / float / vector) position by position, A compiled before B, either as two functions of
// one module or as two modules of one runtime. A second sub-family ("long") does the same with 12
// parameters and 12 results (register- and stack-passed positions): all-narrow, all-wide and every
// type with exactly one parameter or one result position widened, in every order.
//
// For every type k of a case the module holds f<k> (computes its results from its parameters, see
// valsResult) and w<k> (same type, passes its parameters to f<k> and returns its results), both
// exported and listened to; if the type has no v128/funcref (not expressible for host functions in the
// public API) also a host function h<k> of that type (module env, Go implementation of the same
// computation, listened to) and a guest function g<k> calling it. Each is called twice from Go with values whose halves are all non-zero and
// whose bits 31 and 63 are set (second round: other values). Oracle (Go model, no wazero code):
// B(w)[w] B(f)[f<w] A(f) A(w) resp. B(f)[f] A(f) resp. B(g)[g] B(h)[h<g] A(h) A(g) with exactly the typed values (v128 = two slots),
// the values returned by Call equal the model, on both engines.

type valsCase struct {
	Types []string `json:"types"` // e.g. "i32,i64>f32" in compilation order
	Place string   `json:"place"` // "one": one module; "two": one module per type, compiled in order
}

var valsNames = map[byte]string{wb.I32: "i32", wb.I64: "i64", wb.F32: "f32", wb.F64: "f64", wb.V128: "v128", wb.FuncRef: "funcref", wb.ExternRef: "externref"}

func valsTypeString(s sig) string {
	l := func(ts []byte) string {
		n := make([]string, len(ts))
		for i, t := range ts {
			n[i] = valsNames[t]
		}
		return strings.Join(n, ",")
	}
	return l(s.P) + ">" + l(s.R)
}

func valsParseType(str string) sig {
	var s sig
	parts := strings.SplitN(str, ">", 2)
	for pi, p := range parts {
		for _, n := range strings.Split(p, ",") {
			for t, nm := range valsNames {
				if nm == n {
					if pi == 0 {
						s.P = append(s.P, t)
					} else {
						s.R = append(s.R, t)
					}
				}
			}
		}
	}
	return s
}

func valsSlots(t byte) int {
	if t == wb.V128 {
		return 2
	}
	return 1
}

func is32(t byte) bool { return t == wb.I32 || t == wb.F32 }

// valsWord: deterministic 64-bit pattern, bits 63 and 31 set, both halves non-zero and different.
func valsWord(seed uint64) uint64 {
	z := seed*0x9e3779b97f4a7c15 + 0x632be59bd9b4e019
	z = (z ^ (z >> 30)) * 0xbf58476d1ce4e5b9
	z = (z ^ (z >> 27)) * 0x94d049bb133111eb
	z ^= z >> 31
	return z | 1<<63 | 1<<31 | 1<<32 | 1
}

// valsCanon brings a raw 64-bit pattern into the value space of the type as the API carries it.
func valsCanon(t byte, w uint64) uint64 {
	switch t {
	case wb.I32:
		return w & 0xffffffff
	case wb.F32:
		return w & 0xffffffff &^ 0x40000000 // never a NaN/Inf: exponent not all ones
	case wb.F64:
		return w &^ (1 << 62)
	case wb.FuncRef:
		return 0 // only the null reference can be made up by the embedder
	}
	return w
}

// valsArgs: the API-level argument slots for a parameter list.
func valsArgs(ts []byte, fn, round int) []uint64 {
	var o []uint64
	for i, t := range ts {
		for s := 0; s < valsSlots(t); s++ {
			o = append(o, valsCanon(t, valsWord(uint64(fn*1000+round*100+i*2+s))))
		}
	}
	return o
}

func valsConst(t byte, j, s int) uint64 { return valsCanon(t, valsWord(uint64(900000+j*2+s))) }

const valsXor32, valsXor64 = 0x80010003, 0x8001000380050007

// valsSource: which parameter feeds result j (-1: a constant).
func valsSource(s sig, j int) int {
	var same []int
	for i, t := range s.P {
		if t == s.R[j] {
			same = append(same, i)
		}
	}
	if len(same) == 0 {
		return -1
	}
	return same[j%len(same)]
}

// valsResult: the model of f's body on API-level slots.
func valsResult(s sig, args []uint64) []uint64 {
	off := make([]int, len(s.P))
	n := 0
	for i, t := range s.P {
		off[i] = n
		n += valsSlots(t)
	}
	var o []uint64
	for j, t := range s.R {
		src := valsSource(s, j)
		for sl := 0; sl < valsSlots(t); sl++ {
			if src < 0 {
				o = append(o, valsConst(t, j, sl))
				continue
			}
			v := args[off[src]+sl]
			switch t {
			case wb.I32:
				v = (v ^ valsXor32) & 0xffffffff
			case wb.I64:
				v ^= valsXor64
			case wb.F32:
				v = (v ^ 0x80000000) & 0xffffffff
			case wb.F64:
				v ^= 1 << 63
			case wb.V128:
				v = ^v
			}
			o = append(o, v)
		}
	}
	return o
}

func valsEmitBody(a *wb.Asm, s sig) {
	for j, t := range s.R {
		src := valsSource(s, j)
		if src < 0 {
			switch t {
			case wb.V128:
				a.V128Const(valsConst(t, j, 0), valsConst(t, j, 1))
			case wb.FuncRef, wb.ExternRef:
				a.RefNull(t)
			default:
				a.Const(t, valsConst(t, j, 0))
			}
			continue
		}
		a.LocalGet(uint32(src))
		switch t {
		case wb.I32:
			v := uint32(valsXor32)
			a.I32Const(int32(v)).Op(0x73)
		case wb.I64:
			v := uint64(valsXor64)
			a.I64Const(int64(v)).Op(0x85)
		case wb.F32:
			a.Op(0x8c)
		case wb.F64:
			a.Op(0x9a)
		case wb.V128:
			a.Simd(77)
		}
	}
}

// a constant result of reference type is the null reference
func valsFixRefConst(s sig, res []uint64) []uint64 {
	n := 0
	for j, t := range s.R {
		if (t == wb.FuncRef || t == wb.ExternRef) && valsSource(s, j) < 0 {
			res[n] = 0
		}
		n += valsSlots(t)
	}
	return res
}

// valsHostable: the public API can declare host functions over these value types only.
func valsHostable(s sig) bool {
	for _, t := range append(append([]byte(nil), s.P...), s.R...) {
		if t == wb.V128 || t == wb.FuncRef {
			return false
		}
	}
	return true
}

func valsAPITypes(ts []byte) []api.ValueType {
	o := make([]api.ValueType, len(ts))
	for i, t := range ts {
		o[i] = api.ValueType(t)
	}
	return o
}

// valsModules: the binaries of a case; function ids: f<k> = 4k, w<k> = 4k+1, g<k> = 4k+2 (guest
// function calling the host function h<k> of the same type), h<k> = 4k+3 (module env).
func valsModules(types []sig, place string) [][]byte {
	var out [][]byte
	groups := [][]int{}
	if place == "two" {
		for k := range types {
			groups = append(groups, []int{k})
		}
	} else {
		all := []int{}
		for k := range types {
			all = append(all, k)
		}
		groups = append(groups, all)
	}
	for _, grp := range groups {
		m := &wb.Module{}
		imp := map[int]uint32{}
		for _, k := range grp {
			if valsHostable(types[k]) {
				imp[k] = m.ImportFunc("env", fmt.Sprintf("h%d", k), types[k].P, types[k].R)
			}
		}
		for _, k := range grp {
			s := types[k]
			a := &wb.Asm{}
			valsEmitBody(a, s)
			f := m.AddFunc(s.P, s.R, nil, a.B)
			m.ExportFunc(fmt.Sprintf("f%d", k), f)
			for _, callee := range []struct {
				name string
				idx  uint32
				ok   bool
			}{{"w", f, true}, {"g", imp[k], valsHostable(s)}} {
				if !callee.ok {
					continue
				}
				b := &wb.Asm{}
				for i := range s.P {
					b.LocalGet(uint32(i))
				}
				b.Call(callee.idx)
				w := m.AddFunc(s.P, s.R, nil, b.B)
				m.ExportFunc(fmt.Sprintf("%s%d", callee.name, k), w)
			}
		}
		out = append(out, m.Encode())
	}
	return out
}

type valsRecorder struct {
	types  []sig
	ev     []event
	faults []string
}

func valsFnOf(def api.FunctionDefinition) int {
	if def == nil || len(def.ExportNames()) != 1 {
		return -1000
	}
	var c byte
	var k int
	if n, _ := fmt.Sscanf(def.ExportNames()[0], "%c%d", &c, &k); n != 2 {
		return -1000
	}
	return 4*k + strings.IndexByte("fwgh", c)
}

type valsListener struct {
	r  *valsRecorder
	fn int
}

// valsMask canonicalises a slice: 32-bit values masked (the upper half of a 32-bit slot is not part of
// the value); the length is kept as delivered.
func valsMask(ts []byte, v []uint64) []uint64 {
	o := append([]uint64(nil), v...)
	n := 0
	for _, t := range ts {
		if n < len(o) && is32(t) {
			o[n] &= 0xffffffff
		}
		n += valsSlots(t)
	}
	return o
}

func (l *valsListener) Before(_ context.Context, _ api.Module, def api.FunctionDefinition, params []uint64, si experimental.StackIterator) {
	if valsFnOf(def) != l.fn {
		l.r.faults = append(l.r.faults, fmt.Sprintf("before: listener of function %d notified with the definition of %d", l.fn, valsFnOf(def)))
	}
	e := event{K: 'B', Fn: l.fn, Vals: valsMask(l.r.types[l.fn/4].P, params)}
	for si.Next() && len(e.Stack) < 8 {
		e.Stack = append(e.Stack, valsFnOf(si.Function().Definition()))
	}
	l.r.ev = append(l.r.ev, e)
}

func (l *valsListener) After(_ context.Context, _ api.Module, def api.FunctionDefinition, results []uint64) {
	if valsFnOf(def) != l.fn {
		l.r.faults = append(l.r.faults, fmt.Sprintf("after: listener of function %d notified with the definition of %d", l.fn, valsFnOf(def)))
	}
	l.r.ev = append(l.r.ev, event{K: 'A', Fn: l.fn, Vals: valsMask(l.r.types[l.fn/4].R, results)})
}

func (l *valsListener) Abort(context.Context, api.Module, api.FunctionDefinition, error) {
	l.r.ev = append(l.r.ev, event{K: 'X', Fn: l.fn})
}

func (r *valsRecorder) NewFunctionListener(def api.FunctionDefinition) experimental.FunctionListener {
	fn := valsFnOf(def)
	if fn < 0 || fn/4 >= len(r.types) {
		r.faults = append(r.faults, "factory: asked for an unknown function")
		return nil
	}
	return &valsListener{r, fn}
}

// one call of the model
type valsCall struct {
	fn   int
	args []uint64
	res  []uint64
	ev   []event
}

func valsPlan(types []sig) []valsCall {
	var cs []valsCall
	for round := 0; round < 2; round++ {
		for k, s := range types {
			for _, wrap := range []int{0, 1, 2} {
				if wrap == 2 && !valsHostable(s) {
					continue
				}
				fn := 4*k + wrap
				args := valsArgs(s.P, fn, round)
				res := valsFixRefConst(s, valsResult(s, args))
				c := valsCall{fn: fn, args: args, res: res}
				if wrap > 0 {
					callee := 4*k + map[int]int{1: 0, 2: 3}[wrap]
					c.ev = []event{{K: 'B', Fn: fn, Vals: args, Stack: []int{fn}}, {K: 'B', Fn: callee, Vals: args, Stack: []int{callee, fn}},
						{K: 'A', Fn: callee, Vals: res}, {K: 'A', Fn: fn, Vals: res}}
				} else {
					c.ev = []event{{K: 'B', Fn: fn, Vals: args, Stack: []int{fn}}, {K: 'A', Fn: fn, Vals: res}}
				}
				cs = append(cs, c)
			}
		}
	}
	return cs
}

func valsTypes(c valsCase) []sig {
	ts := make([]sig, len(c.Types))
	for i, s := range c.Types {
		ts[i] = valsParseType(s)
	}
	return ts
}

// judgeVals runs one case on one engine and applies the oracle.
func judgeVals(engine string, c valsCase, verbose bool) []viol {
	types := valsTypes(c)
	ctx := context.Background()
	rec := &valsRecorder{types: types}
	lctx := experimental.WithFunctionListenerFactory(ctx, rec)
	rt := wazero.NewRuntimeWithConfig(ctx, rtConfig(engine))
	defer rt.Close(ctx)
	var mods []api.Module
	hb := rt.NewHostModuleBuilder("env")
	anyHost := false
	for k, s := range types {
		if !valsHostable(s) {
			continue
		}
		s := s
		anyHost = true
		hb.NewFunctionBuilder().WithGoModuleFunction(api.GoModuleFunc(func(_ context.Context, _ api.Module, stack []uint64) {
			n := 0
			for _, t := range s.P {
				n += valsSlots(t)
			}
			res := valsFixRefConst(s, valsResult(s, valsMask(s.P, stack[:n])))
			copy(stack, res)
		}), valsAPITypes(s.P), valsAPITypes(s.R)).Export(fmt.Sprintf("h%d", k))
	}
	if anyHost {
		hcm, err := hb.Compile(lctx)
		if err != nil {
			panic(fmt.Errorf("harness: typed-values host module %v rejected: %w", c.Types, err))
		}
		if _, err := rt.InstantiateModule(ctx, hcm, wazero.NewModuleConfig()); err != nil {
			panic(fmt.Errorf("harness: typed-values host module %v: instantiate: %w", c.Types, err))
		}
	}
	for i, bin := range valsModules(types, c.Place) {
		cm, err := rt.CompileModule(lctx, bin)
		if err != nil {
			panic(fmt.Errorf("harness: typed-values module %v rejected: %w", c.Types, err))
		}
		mod, err := rt.InstantiateModule(ctx, cm, wazero.NewModuleConfig().WithName(fmt.Sprintf("v%d", i)))
		if err != nil {
			panic(fmt.Errorf("harness: typed-values module %v: instantiate: %w", c.Types, err))
		}
		mods = append(mods, mod)
	}
	ctxt := fmt.Sprintf("types compiled in this order: %s (%s)", strings.Join(c.Types, " ; "), map[string]string{"one": "two functions of one module", "two": "one module each, one runtime"}[c.Place])
	var vs []viol
	add := func(sig, what string) {
		for _, v := range vs {
			if v.Sig == sig {
				return
			}
		}
		vs = append(vs, viol{sig, what + "; " + ctxt})
	}
	for _, call := range valsPlan(types) {
		k := call.fn / 4
		s := types[k]
		mod := mods[0]
		if c.Place == "two" {
			mod = mods[k]
		}
		name := fmt.Sprintf("%c%d", "fwg"[call.fn%4], k)
		rec.ev = nil
		res, err := mod.ExportedFunction(name).Call(ctx, call.args...)
		got := rec.ev
		if verbose {
			fmt.Printf("  %s %s(%x) = %x err=%v\n    events %s\n    model  %s -> %x\n", engine, name, call.args, res, err, streamString(got), streamString(call.ev), call.res)
		}
		tyS := valsTypeString(s)
		if err != nil {
			add("results:"+engine+":typed:call-failed", fmt.Sprintf("%s of type %s: %v", name, tyS, err))
			continue
		}
		if d := valsDiff(s.R, valsMask(s.R, res), call.res); d != "" {
			add("results:"+engine+":typed:call-result("+d+")", fmt.Sprintf("%s of type %s returned %x, model %x", name, tyS, res, call.res))
		}
		if eventsEqual(got, call.ev) {
			continue
		}
		what := fmt.Sprintf("%s of type %s called with %x: recorded %s, model %s", name, tyS, call.args, clip(streamString(got)), clip(streamString(call.ev)))
		if len(got) != len(call.ev) {
			add("sequence:"+engine+":typed:event-count-differs", what)
			continue
		}
		for i := range got {
			g, w := got[i], call.ev[i]
			if g.K != w.K || g.Fn != w.Fn {
				add("sequence:"+engine+":typed:event-order-differs", what)
				break
			}
			if !sameStack(g.Stack, w.Stack) {
				add("stack:"+engine+":typed:stack-of-before-event-differs", what)
				break
			}
			ts, step := s.P, "before-param"
			if g.K == 'A' {
				ts, step = s.R, "after-result"
			}
			role := "function-entered-from-go"
			if g.Fn != call.fn {
				role = "function-called-by-guest"
				if g.Fn%4 == 3 {
					role = "host-function-called-by-guest"
				}
			}
			if d := valsDiff(ts, g.Vals, w.Vals); d != "" {
				add(fmt.Sprintf("values:%s:typed:%s(%s):%s", engine, step, d, role), fmt.Sprintf("event %d: ", i)+what)
				break
			}
		}
	}
	for _, f := range rec.faults {
		add("listener-fault:"+engine+":typed:"+strings.SplitN(f, ":", 2)[0], f)
	}
	return vs
}

// valsDiff names the first slot at which two typed slices differ: "<type>:upper-half" / "lower-half" /
// "both-halves" / "slot-count".
func valsDiff(ts []byte, got, want []uint64) string {
	if len(got) != len(want) {
		return "slot-count"
	}
	n := 0
	for _, t := range ts {
		for s := 0; s < valsSlots(t); s++ {
			g, w := got[n], want[n]
			n++
			if g == w {
				continue
			}
			half := "both-halves"
			if g&0xffffffff == w&0xffffffff {
				half = "upper-half"
			} else if g>>32 == w>>32 {
				half = "lower-half"
			}
			nm := valsNames[t]
			if t == wb.V128 {
				nm += []string{".lo", ".hi"}[s]
			}
			return nm + ":" + half
		}
	}
	return ""
}

// ---------------------------------------------------------------- enumeration

// register classes and their value types; quick leaves funcref (same class and width as externref,
// and only its null value can be passed in by the embedder) to the long sub-family.
func valsClassTypes(class byte, withFuncref bool) []byte {
	switch class {
	case 'I':
		if withFuncref {
			return []byte{wb.I32, wb.I64, wb.ExternRef, wb.FuncRef}
		}
		return []byte{wb.I32, wb.I64, wb.ExternRef}
	case 'F':
		return []byte{wb.F32, wb.F64}
	}
	return []byte{wb.V128}
}

// all type lists of a class string
func valsLists(classes string, withFuncref bool) [][]byte {
	out := [][]byte{nil}
	for i := 0; i < len(classes); i++ {
		var next [][]byte
		for _, pre := range out {
			for _, t := range valsClassTypes(classes[i], withFuncref) {
				next = append(next, append(append([]byte(nil), pre...), t))
			}
		}
		out = next
	}
	return out
}

func valsClassStrings(maxLen int) []string {
	out := []string{""}
	frontier := []string{""}
	for l := 1; l <= maxLen; l++ {
		var next []string
		for _, p := range frontier {
			for _, c := range "IFV" {
				next = append(next, p+string(c))
			}
		}
		out = append(out, next...)
		frontier = next
	}
	return out
}

// types of one shape "P_R"
func valsShapeTypes(shape string, withFuncref bool) []sig {
	pr := strings.SplitN(shape, "_", 2)
	var out []sig
	for _, p := range valsLists(pr[0], withFuncref) {
		for _, r := range valsLists(pr[1], withFuncref) {
			out = append(out, sig{P: p, R: r})
		}
	}
	return out
}

// valsUnits: one unit per (shape, first type); plus the long sub-family.
func valsUnits(maxP, maxR int, withFuncref bool) []unit {
	var us []unit
	for _, p := range valsClassStrings(maxP) {
		for _, r := range valsClassStrings(maxR) {
			shape := p + "_" + r
			for i := range valsShapeTypes(shape, withFuncref) {
				us = append(us, unit{Fam: "vals", Tree: fmt.Sprintf("vals:pair:%s:%d:%v", shape, i, withFuncref)})
			}
		}
	}
	for _, pat := range valsLongPatterns {
		us = append(us, unit{Fam: "vals", Tree: "vals:long:" + pat})
	}
	return us
}

var valsLongPatterns = []string{"IIIIIIIIIIII", "FFFFFFFFFFFF", "IFVIFIFVIFIF", "VIIFFVIIFFII"}

func valsNarrow(class byte) byte {
	switch class {
	case 'I':
		return wb.I32
	case 'F':
		return wb.F32
	}
	return wb.V128
}

func valsWide(class byte, k int) byte {
	switch class {
	case 'I':
		return []byte{wb.I64, wb.ExternRef, wb.FuncRef}[k%3]
	case 'F':
		return wb.F64
	}
	return wb.V128
}

// valsLongCases: ordered pairs over {all narrow, all wide, one parameter / one result position widened}.
func valsLongCases(pat string) []valsCase {
	n := len(pat)
	list := func(wideAt func(k int) bool) []byte {
		o := make([]byte, n)
		for k := 0; k < n; k++ {
			if wideAt(k) {
				o[k] = valsWide(pat[k], k)
			} else {
				o[k] = valsNarrow(pat[k])
			}
		}
		return o
	}
	narrow := list(func(int) bool { return false })
	wide := list(func(int) bool { return true })
	N, W := sig{narrow, narrow}, sig{wide, wide}
	variants := []sig{}
	for k := 0; k < n; k++ {
		if pat[k] == 'V' {
			continue
		}
		k := k
		one := list(func(j int) bool { return j == k })
		variants = append(variants, sig{one, narrow}, sig{narrow, one})
	}
	var cs []valsCase
	for _, place := range []string{"one", "two"} {
		two := func(a, b sig) {
			cs = append(cs, valsCase{Types: []string{valsTypeString(a), valsTypeString(b)}, Place: place})
		}
		two(N, W)
		two(W, N)
		for _, v := range variants {
			two(N, v)
			two(v, N)
			two(W, v)
			two(v, W)
		}
	}
	return cs
}

func valsUnitCases(u unit) []valsCase {
	parts := strings.Split(u.Tree, ":")
	if parts[1] == "long" {
		return valsLongCases(parts[2])
	}
	var idx int
	var wf bool
	fmt.Sscan(parts[3], &idx)
	fmt.Sscan(parts[4], &wf)
	ts := valsShapeTypes(parts[2], wf)
	var cs []valsCase
	for _, b := range ts {
		for _, place := range []string{"one", "two"} {
			cs = append(cs, valsCase{Types: []string{valsTypeString(ts[idx]), valsTypeString(b)}, Place: place})
		}
	}
	return cs
}

func runValsUnit(u unit) (res unitResult) {
	res.Outcomes = map[string]int64{}
	cases := valsUnitCases(u)
	seen := map[string]bool{} // one report per signature and unit (the first case in enumeration order)
	for _, c := range cases {
		c := c
		nontrivial := false
		for _, s := range valsTypes(c) {
			nontrivial = nontrivial || len(s.P)+len(s.R) > 0
		}
		if nontrivial {
			res.Distinct++
		}
		for _, eng := range []string{"interpreter", "compiler"} {
			id := caseID{Tree: u.Tree, Engine: eng, History: "once", Listen: true, All: true, Vals: &c}
			vs := judgeVals(eng, c, false)
			res.Evals++
			res.Outcomes["typed-values-runs:"+c.Place+"-module"]++
			if len(vs) == 0 {
				continue
			}
			again := judgeVals(eng, c, false)
			for _, v := range vs {
				rep := false
				for _, w := range again {
					rep = rep || w.Sig == v.Sig
				}
				if seen[v.Sig] {
					continue
				}
				seen[v.Sig] = true
				if rep {
					res.Viols = append(res.Viols, violOut{v.Sig, clip(v.What), id})
				} else {
					res.Unconfirmed = append(res.Unconfirmed, violOut{v.Sig, clip(v.What), id})
				}
			}
		}
	}
	res.Sample = map[string]any{"family": "typed-values", "unit": u.Tree, "cases": len(cases), "first_case": cases[0]}
	return
}
