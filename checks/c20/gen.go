package main

import (
	"fmt"

	"github.com/tetratelabs/wazero/verif/wb"
)

// program is everything generated from a tree: one wasm binary per module level ("m0" is the
// entry module, "m<l>" imports its 'm' callees from "m<l+1>" and its host callees from "env").
type program struct {
	tree  Tree
	start bool
	sigs  []sig
	lvl   []int
	bins  [][]byte // per level
}

func fname(i int) string { return fmt.Sprintf("f%d", i) }
func hname(i int) string { return fmt.Sprintf("h%d", i) }

func emitToI64(a *wb.Asm, ty byte) {
	switch ty {
	case wb.I32:
		a.Op(0xad) // i64.extend_i32_u
	case wb.I64:
	case wb.F32:
		a.Op(0xbc).Op(0xad) // i32.reinterpret_f32, i64.extend_i32_u
	case wb.F64:
		a.Op(0xbd) // i64.reinterpret_f64
	}
}

func emitFromI64(a *wb.Asm, ty byte) {
	switch ty {
	case wb.I32:
		a.Op(0xa7) // i32.wrap_i64
	case wb.I64:
	case wb.F32:
		a.Op(0xb4) // f32.convert_i64_s
	case wb.F64:
		a.Op(0xb9) // f64.convert_i64_s
	}
}

func buildProgram(t Tree, start bool, rot, shape int) *program {
	p := &program{tree: t, start: start, sigs: t.sigs(start, rot, shape), lvl: t.levels()}
	maxL := t.maxLevel()
	for l := 0; l <= maxL; l++ {
		m := &wb.Module{}
		fidx := map[int]uint32{} // node -> function index inside this module (callee view)
		// imports: 'm' children and host children of functions living in this module
		for c := 1; c < len(t); c++ {
			par := t[c].Parent
			if t.isHost(par) || p.lvl[par] != l {
				continue
			}
			switch t[c].Kind {
			case 'm', 'v':
				fidx[c] = m.ImportFunc(fmt.Sprintf("m%d", l+1), fname(c), p.sigs[c].P, p.sigs[c].R)
			case 'h', 'w':
				fidx[c] = m.ImportFunc("env", hname(c), p.sigs[c].P, p.sigs[c].R)
			}
		}
		// local functions: guest nodes of this level, index order
		var locals []int
		next := m.NumImportedFuncs()
		for i := range t {
			if !t.isHost(i) && !t.isCallAgain(i) && p.lvl[i] == l {
				fidx[i] = next
				next++
				locals = append(locals, i)
			}
		}
		// table slots for call_indirect callees
		slot := map[int]int32{}
		var elems []uint32
		for _, i := range locals {
			if t[i].Kind == 'i' || t[i].Kind == 'u' {
				slot[i] = int32(len(elems)) + 1 // slot 0 stays null
				elems = append(elems, fidx[i])
			}
		}
		if len(elems) > 0 {
			m.Tables = []wb.Table{{Elem: wb.FuncRef, Lim: wb.Limits{Min: uint32(len(elems)) + 1}}}
			m.Elems = []wb.Elem{{Mode: 0, Offset: wb.CI32(1), Funcs: elems}}
		}
		// intern all types first so that call_indirect type indexes are stable
		for _, i := range locals {
			m.Type(p.sigs[i].P, p.sigs[i].R)
		}
		for _, i := range locals {
			s := p.sigs[i]
			np := uint32(len(s.P))
			acc, tmp := np, np+1
			a := &wb.Asm{}
			for k, ty := range s.P {
				a.LocalGet(acc).I64Const(31).Op(0x7e).LocalGet(uint32(k))
				emitToI64(a, ty)
				a.Op(0x7c).LocalSet(acc)
			}
			tailed := false
			for _, c := range t.children(i) {
				cs := p.sigs[c]
				for k, ty := range cs.P {
					a.Const(ty, paramRaw(t.target(c), k, ty))
				}
				switch t[c].Kind {
				case 'c':
					a.Call(fidx[t.target(c)])
				case 'd', 'm', 'h':
					a.Call(fidx[c])
				case 'i':
					a.I32Const(slot[c]).CallIndirect(m.Type(cs.P, cs.R), 0)
				case 't', 'v', 'w':
					a.ReturnCall(fidx[c])
					tailed = true
				case 'u':
					a.I32Const(slot[c]).ReturnCallIndirect(m.Type(cs.P, cs.R), 0)
					tailed = true
				}
				if tailed {
					break
				}
				for k := len(cs.R) - 1; k >= 0; k-- {
					emitToI64(a, cs.R[k])
					a.LocalSet(tmp).LocalGet(acc).I64Const(31).Op(0x7e).LocalGet(tmp).Op(0x7c).LocalSet(acc)
				}
			}
			if !tailed {
				switch t[i].Out {
				case 'R':
					pushResults := func() {
						for k, ty := range s.R {
							a.LocalGet(acc).I64Const(int64(resultConst(i, k))).Op(0x7c)
							emitFromI64(a, ty)
						}
					}
					if shape > 0 {
						emitShapedExit(m, a, shape, i, s, pushResults)
						break
					}
					pushResults()
					// every way of leaving a function (each is lowered separately by the compiler,
					// and each needs its own after-listener call)
					switch (i + rot) % 5 {
					case 0: // fall through the end
					case 1:
						a.Return()
					case 2:
						a.Br(0)
					case 3:
						a.I32Const(1).BrIf(0)
					case 4:
						a.I32Const(0).BrTable([]uint32{0}, 0)
					}
				case 'T':
					a.Unreachable()
				}
			}
			idx := m.AddFunc(s.P, s.R, []byte{wb.I64, wb.I64}, a.B)
			if idx != fidx[i] {
				panic("function index mismatch")
			}
			m.ExportFunc(fname(i), idx)
		}
		if l == 0 && start {
			s := fidx[0]
			m.Start = &s
		}
		p.bins = append(p.bins, m.Encode())
	}
	return p
}

// blockOf opens a block/loop/if (op 0x02/0x03/0x04) whose type is ()->results.
func blockOf(m *wb.Module, a *wb.Asm, op byte, results []byte) {
	switch len(results) {
	case 0:
		a.Op(op).Op(wb.Void)
	case 1:
		a.Op(op).Op(results[0])
	default:
		a.Op(op).S(int64(m.Type(nil, results)))
	}
}

// emitShapedExit emits the end of a returning function for body shape > 0 (see shapeCombo).
func emitShapedExit(m *wb.Module, a *wb.Asm, shape, node int, s sig, pushResults func()) {
	exit, surplus := shapeCombo(shape, node)
	types := []byte{wb.I32, wb.I64, wb.F32, wb.F64}
	pushSurplus := func(n int) {
		for j := 0; j < n; j++ {
			ty := types[(node+j)%4]
			a.Const(ty, sentinelRaw(node, j, ty))
		}
	}
	nest := uint32(0)
	switch surplus {
	case 1:
		pushSurplus(1)
	case 2:
		pushSurplus(3)
	case 3:
		blockOf(m, a, 0x02, s.R)
		nest++
		pushSurplus(2)
	case 4:
		pushSurplus(1)
		blockOf(m, a, 0x02, s.R)
		nest++
	}
	switch exit {
	case 0:
		pushResults()
		return // plain fall through, no surplus
	case 1:
		pushResults()
		a.Return()
	case 2:
		pushResults()
		a.Br(nest)
	case 3:
		pushResults()
		a.I32Const(1).BrIf(nest).Unreachable()
	case 4:
		pushResults()
		a.I32Const(1).BrTable([]uint32{nest, nest}, nest)
	case 5:
		pushResults()
		a.I32Const(9).BrTable([]uint32{nest, nest}, nest)
	case 6:
		blockOf(m, a, 0x02, s.R)
		pushResults()
		a.Return().End()
	case 7:
		a.I32Const(1)
		blockOf(m, a, 0x04, s.R)
		blockOf(m, a, 0x03, s.R)
		pushResults()
		a.Return().End().Else().Unreachable().End()
	case 8:
		a.Block(wb.Void).Block(wb.Void)
		pushResults()
		a.Br(nest + 2).End().End()
	}
	if nest > 0 {
		a.Unreachable() // the rest of the enclosing block is dead; keep it valid whatever is on the stack
	}
	for ; nest > 0; nest-- {
		a.End()
	}
	// whatever is left on the stack (surplus and/or block results) is dead: keep the body valid
	a.Unreachable()
}
