// C20 — function listeners see every call, correctly bracketed.
//
// Exhaustive enumeration of call trees (every shape with <= 4/5 nodes x every edge kind x every
// leaf outcome), each compiled into real wasm modules with wb and executed on both engines with
// every subset of the functions listened to, under several compilation histories. The oracle is
// a reference model computed from the tree (model.go): the exact stream of before/after/abort
// events with parameter/result values and the stack-iterator contents. A chain family unwinds
// traps/exits/panics through up to 40 frames.
package main

import (
	"encoding/base64"
	"encoding/json"
	"fmt"
	"os"
	"os/exec"
	"runtime"
	"sort"
	"strings"
	"time"

	"github.com/tetratelabs/wazero/verif/fw"
)

// ---------------------------------------------------------------- units of work

type unit struct {
	Fam  string `json:"fam"` // "tree" | "chain"
	Tree string `json:"tree"`
	Rot  int    `json:"rot"`
	// Shape > 0: body-shape family (exit form x surplus operands x result arity, see tree.go);
	// such units run the history "once" only.
	Shape int `json:"shape,omitempty"`
}

type bounds struct {
	maxNodes     int
	rotUpTo      int // trees with <= rotUpTo nodes are run with all 3 signature rotations
	chainDepths  []int
	chainPattern []string
	histories    []string
	// trees with more nodes run the histories other than "once" only with the all-functions
	// factory, the full set and the singleton sets
	fullHistoryUpTo    int
	tailFormNodes      int // bound of the family over the extended tail-call forms
	callAgainBase      int // base-tree size of the call-again family
	shapeAllUpTo       int // trees up to this size run every body shape; the next size one shape per tree
	valsMaxP, valsMaxR int // typed-values family: bound on parameter / result count of the all-pairs part
	valsFuncref        bool
	mixedAllUpTo       int // programs with up to this many modules run every factory / no-factory assignment per module
}

func tierBounds(thorough bool) bounds {
	b := bounds{maxNodes: 4, rotUpTo: 3, histories: []string{"once", "twice", "cache", "reopen", "other", "closedcm", "closedmid", "hostclose", "rtinst"}, fullHistoryUpTo: 3, tailFormNodes: 3, shapeAllUpTo: 2, callAgainBase: 3, mixedAllUpTo: 4,
		chainPattern: []string{"d", "i", "dim", "dhr"}, valsMaxP: 2, valsMaxR: 1}
	for d := 1; d <= 40; d++ {
		b.chainDepths = append(b.chainDepths, d)
	}
	if thorough {
		b.maxNodes, b.rotUpTo, b.fullHistoryUpTo, b.tailFormNodes, b.shapeAllUpTo, b.callAgainBase = 5, 4, 4, 4, 3, 4
		b.mixedAllUpTo = 6
		b.valsMaxR, b.valsFuncref = 2, true
	}
	return b
}

func buildUnits(b bounds) []unit {
	var us []unit
	// chains first: they are cheap and must not be the part a budget cap cuts off
	for _, pat := range b.chainPattern {
		for _, d := range b.chainDepths {
			for _, leaf := range []byte("RTPE") {
				us = append(us, unit{Fam: "chain", Tree: chainTree(d, pat, leaf).String()})
			}
		}
	}
	for n := 1; n <= b.maxNodes; n++ {
		for _, t := range enumTrees(n) {
			rots := 1
			if n <= b.rotUpTo {
				rots = 3
			}
			for r := 0; r < rots; r++ {
				us = append(us, unit{Fam: "tree", Tree: t.String(), Rot: r})
			}
		}
	}
	// every tail-call form (return_call_indirect, return_call to an imported / host function):
	// smaller trees over the extended edge alphabet, only those using one of the extra forms
	for n := 2; n <= b.tailFormNodes; n++ {
		for _, t := range enumTreesKinds(n, "dimhtuvw") {
			if strings.ContainsAny(t.String(), "uvw") {
				us = append(us, unit{Fam: "tree", Tree: t.String(), Rot: n % 3})
			}
		}
	}
	// wide modules: different listener sets must never share a compilation (wide.go)
	for _, w := range [][2]int{{66, 0}, {70, 0}, {70, 2}, {130, 0}, {130, 1}} {
		us = append(us, unit{Fam: "wide", Tree: fmt.Sprintf("wide:%d:%d", w[0], w[1])})
	}
	// typed values: every function type up to a length bound, every ordered pair of types with the same
	// register-class shape, one module or two (vals.go)
	us = append(us, valsUnits(b.valsMaxP, b.valsMaxR, b.valsFuncref)...)
	// a function reached through two call sites (needed to see stale per-function listener state),
	// run with every factory composition
	for n := 2; n <= b.callAgainBase; n++ {
		for _, t := range enumCallAgain(n) {
			us = append(us, unit{Fam: "tree", Tree: t.String(), Rot: n % 3})
		}
	}
	// body shapes: every (exit form, surplus operands) combination x 4 signature rotations (result
	// arity 0..3 at every node) on all small trees; one rotating combination per tree on the next size
	for n := 1; n <= b.shapeAllUpTo; n++ {
		for _, t := range enumTrees(n) {
			for r := 0; r < len(shapeSigTable); r++ {
				for sh := 1; sh <= numShapeCombos; sh++ {
					us = append(us, unit{Fam: "tree", Tree: t.String(), Rot: r, Shape: sh})
				}
			}
		}
	}
	for k, t := range enumTrees(b.shapeAllUpTo + 1) {
		us = append(us, unit{Fam: "tree", Tree: t.String(), Rot: k % len(shapeSigTable), Shape: 1 + (k*11)%numShapeCombos})
	}
	return us
}

// ---------------------------------------------------------------- one case

type caseID struct {
	Tree    string    `json:"tree"`
	Rot     int       `json:"rot"`
	Shape   int       `json:"shape,omitempty"`
	Comp    int       `json:"comp,omitempty"` // factory composition (exec.go compose)
	Start   bool      `json:"start"`
	Engine  string    `json:"engine"`
	History string    `json:"history"`
	Listen  bool      `json:"listen"`
	Mask    uint64    `json:"mask"`
	All     bool      `json:"all"`
	Wide    *wideCase `json:"wide,omitempty"`  // wide-module family (wide.go)
	Vals    *valsCase `json:"vals,omitempty"`  // typed-values family (vals.go)
	NoFac   uint64    `json:"nofac,omitempty"` // modules compiled without any factory (bit 0 env, bit l+1 m<l>)
	Decoy   bool      `json:"decoy,omitempty"` // instantiate/call context carries a factory no compilation saw
}

type violOut struct {
	Sig    string `json:"sig"`
	What   string `json:"what"`
	Replay caseID `json:"replay"`
}

type unitResult struct {
	Evals    int64            `json:"evals"`
	Distinct int64            `json:"distinct"`
	Outcomes map[string]int64 `json:"outcomes"`
	Viols    []violOut        `json:"viols"`
	Harness  string           `json:"harness,omitempty"`
	// verdicts that did not repeat when the case was evaluated a second time in the same process;
	// the supervisor decides about them after re-running the unit in fresh processes
	Unconfirmed []violOut `json:"unconfirmed,omitempty"`
	Sample      any       `json:"sample,omitempty"`
}

type caseVerdict struct {
	res   runResult
	tail  string // accepted tail reading
	viols []viol
	clean bool // stream accepted by the statement's readings
}

// evalCase runs one case and judges everything that can be judged from it alone.
func evalCase(p *program, id caseID, base *outcome) caseVerdict {
	spec := runSpec{Engine: id.Engine, History: id.History, Listen: id.Listen, Mask: id.Mask, All: id.All, Comp: id.Comp, NoFac: id.NoFac, Decoy: id.Decoy}
	v := caseVerdict{res: runCase(p, spec)}
	_, mout := runModel(p.tree, p.sigs, func(int) bool { return false }, modelOpts{})
	if !id.Listen {
		if v.res.Out.String() != mout.String() {
			v.viols = append(v.viols, viol{"results:" + id.Engine + ":without-listeners-differ-from-model",
				fmt.Sprintf("got %v, model %v", v.res.Out, mout)})
		}
		v.clean = len(v.viols) == 0
		return v
	}
	if base != nil && v.res.Out.String() != base.String() {
		v.viols = append(v.viols, viol{"results:" + id.Engine + ":listeners-change-the-result",
			fmt.Sprintf("with listeners %v, without %v", v.res.Out, *base)})
	}
	for _, f := range v.res.Faults {
		cls := f
		if k := strings.IndexByte(cls, ':'); k > 0 {
			cls = cls[:k]
		}
		v.viols = append(v.viols, viol{"listener-fault:" + id.Engine + ":" + strings.ReplaceAll(cls, " ", "-"), f})
		break
	}
	set := effectiveSet(p.tree, spec.set(), id.NoFac)
	ev := v.res.Ev
	if id.History != "once" {
		want, _ := runModel(p.tree, p.sigs, set, modelOpts{})
		if len(want) > 0 && len(v.res.EvA) > 0 {
			// DESIGN §6 #21 reading: the guest functions' events go to the listeners of the FIRST
			// compilation of the binary; host functions (compiled once, no binary) stay with the second.
			guest := func(i int) bool { return set(i) && !p.tree.isHost(i) }
			host := func(i int) bool { return set(i) && p.tree.isHost(i) }
			_, va := judgeStream(p, id.Engine, id.History, guest, nil, v.res.EvA)
			_, vb := judgeStream(p, id.Engine, id.History, host, nil, v.res.Ev)
			if onlyKnownShape(va) && onlyKnownShape(vb) {
				v.viols = append(v.viols, viol{"history:" + id.History + ":" + id.Engine + ":second-factory-ignored-first-notified",
					fmt.Sprintf("the binary was compiled a second time with another listener factory; the instance of the second CompiledModule sent all %d guest-function events to the first factory's listeners and none to the second's", len(v.res.EvA))})
				for _, w := range append(va, vb...) {
					v.viols = append(v.viols, w)
				}
				return v
			}
		}
		if len(v.res.EvA) > 0 {
			v.viols = append(v.viols, viol{"history:" + id.History + ":" + id.Engine + ":first-factory-also-notified",
				fmt.Sprintf("listeners of the earlier compilation received %d events: %s", len(v.res.EvA), clip(streamString(v.res.EvA)))})
		}
	}
	var multi func(int) bool
	if id.Comp > 0 {
		multi = set // in every composition exactly the functions of the set have two or more listeners
	}
	tail, vs := judgeStream(p, id.Engine, id.History, set, multi, ev)
	v.tail = tail
	v.clean = len(vs) == 0
	// every other component listener of a composed factory: its own stream against the model for
	// its own set (the adapter component sees before-events only: against its sibling's)
	if n := len(v.res.Comps); n > 1 {
		prim := v.res.Comps[n-1]
		for _, c := range v.res.Comps[:n-1] {
			if c.BeforeOnly {
				if !eventsEqual(onlyK(c.rec.ev, 'B'), onlyK(prim.rec.ev, 'B')) {
					vs = append(vs, viol{"values:" + id.Engine + ":before-events-of-the-FunctionListenerFunc-adapter-differ-from-its-sibling-listener",
						fmt.Sprintf("adapter %s | sibling %s", clip(streamString(c.rec.ev)), clip(streamString(onlyK(prim.rec.ev, 'B'))))})
				}
			} else {
				_, cv := judgeStream(p, id.Engine, id.History, c.set, multi, c.rec.ev)
				for _, w := range cv {
					dup := false
					for _, x := range vs {
						dup = dup || x.Sig == w.Sig
					}
					if !dup {
						vs = append(vs, w)
					}
				}
				v.clean = v.clean && len(cv) == 0
			}
			// the components were shown the same frames: identical program counters
			if sameSetName(c.Name) && !samePCs(c.rec.ev, prim.rec.ev) {
				vs = append(vs, viol{"values:" + id.Engine + ":program-counters-differ-between-component-listeners", fmt.Sprintf("component %s and %s of one MultiFunctionListenerFactory saw different StackIterator.ProgramCounter values for the same before-event", c.Name, prim.Name)})
			}
		}
	}
	if id.Comp > 0 {
		// model mismatches under a composed factory are their own class
		for i := range vs {
			if genericFamilies[sigFamily(vs[i].Sig)] {
				vs[i].Sig = fmt.Sprintf("multi-factory(%d):%s", id.Comp, vs[i].Sig)
			}
		}
	}
	if id.NoFac != 0 {
		// model mismatches in a mixed configuration (some modules compiled without a factory) are their own class
		for i := range vs {
			if genericFamilies[sigFamily(vs[i].Sig)] {
				vs[i].Sig = "mixed-factory:" + vs[i].Sig
				vs[i].What = fmt.Sprintf("modules compiled without any listener factory: %s; %s", strings.Join(noFacNames(id.NoFac), ","), vs[i].What)
			}
		}
	}
	v.viols = append(v.viols, vs...)
	return v
}

func noFacNames(nofac uint64) []string {
	var o []string
	for k := 0; k < 64; k++ {
		if nofac>>uint(k)&1 == 1 {
			o = append(o, modName(k))
		}
	}
	return o
}

// presentModules: bit positions (exec.go modIdx) of the modules the program consists of.
func presentModules(t Tree) []int {
	seen := map[int]bool{}
	lvl := t.levels()
	for i := range t {
		if !t.isCallAgain(i) {
			seen[modIdx(t, lvl, i)] = true
		}
	}
	var o []int
	for k := 0; k <= len(t)+1; k++ {
		if seen[k] {
			o = append(o, k)
		}
	}
	return o
}

// noFacMasks: the per-module factory-presence dimension. With at most maxAll modules: every
// assignment factory / no factory per module except "all with" (the plain families) and "all
// without" (the no-listener baseline). Programs with more modules (chains over many instances):
// the entry module alone without; everything but the entry module without; modules at even / odd
// positions of the import chain without; the host module alone without; all guest modules without.
func noFacMasks(t Tree, maxAll int) []uint64 {
	mods := presentModules(t)
	if len(mods) < 2 {
		return nil
	}
	var full uint64
	for _, k := range mods {
		full |= 1 << uint(k)
	}
	var out []uint64
	add := func(m uint64) {
		m &= full
		if m == 0 || m == full {
			return
		}
		for _, x := range out {
			if x == m {
				return
			}
		}
		out = append(out, m)
	}
	if len(mods) <= maxAll {
		for sub := uint64(1); sub < 1<<uint(len(mods)); sub++ {
			var m uint64
			for j, k := range mods {
				if sub>>uint(j)&1 == 1 {
					m |= 1 << uint(k)
				}
			}
			add(m)
		}
		return out
	}
	var even, odd uint64
	for j, k := range mods {
		if j%2 == 0 {
			even |= 1 << uint(k)
		} else {
			odd |= 1 << uint(k)
		}
	}
	add(2)         // m0, the module entered from Go
	add(full &^ 2) // everything the entry module imports from, directly or not
	add(even)
	add(odd)
	add(1)         // env
	add(full &^ 1) // all guest modules
	return out
}

func onlyK(ev []event, k byte) []event {
	var o []event
	for _, e := range ev {
		if e.K == k {
			o = append(o, e)
		}
	}
	return o
}

func sameSetName(n string) bool { return n != "every-function" }

func samePCs(a, b []event) bool {
	a, b = onlyK(a, 'B'), onlyK(b, 'B')
	if len(a) != len(b) {
		return true // stream differences are reported by the stream comparison
	}
	for i := range a {
		if len(a[i].PCs) != len(b[i].PCs) {
			return false
		}
		for k := range a[i].PCs {
			if a[i].PCs[k] != b[i].PCs[k] {
				return false
			}
		}
	}
	return true
}

// onlyKnownShape: the first factory's stream deviates from the model only by the separately
// classified defect readings (caps / tail calls), so the history finding is still the history one.
func onlyKnownShape(vs []viol) bool {
	for _, v := range vs {
		if !(strings.HasPrefix(v.Sig, "abort-capped") || strings.HasPrefix(v.Sig, "stack-iterator-capped") || strings.HasPrefix(v.Sig, "tail-call:") || strings.HasPrefix(v.Sig, "slice-length:")) {
			return false
		}
	}
	return true
}

func clip(s string) string {
	if len(s) > 600 {
		return s[:600] + "…"
	}
	return s
}

// ---------------------------------------------------------------- one unit

func setsFor(u unit, n int) []caseID {
	var out []caseID
	if t, err := ParseTree(u.Tree); err == nil && u.Fam == "tree" && t.isCallAgain(len(t)-1) {
		// all-functions factory, every function, only the function that is called twice
		full := uint64(1)<<uint(n-1) - 1
		return []caseID{{Listen: true, All: true}, {Listen: true, Mask: full}, {Listen: true, Mask: 1 << uint(t.target(len(t)-1))}}
	}
	if u.Fam == "tree" {
		for m := uint64(0); m < 1<<uint(n); m++ {
			out = append(out, caseID{Listen: true, Mask: m})
		}
		out = append(out, caseID{Listen: true, All: true})
		return out
	}
	full := uint64(1)<<uint(n) - 1
	even := uint64(0x5555555555555555) & full
	for _, m := range []uint64{full, even, full &^ even, 1, 1 << uint(n-1)} {
		out = append(out, caseID{Listen: true, Mask: m})
	}
	out = append(out, caseID{Listen: true, All: true})
	return out
}

func runUnit(u unit, b bounds) (res unitResult) {
	if u.Fam == "wide" {
		return runWideUnit(u)
	}
	if u.Fam == "vals" {
		return runValsUnit(u)
	}
	res.Outcomes = map[string]int64{}
	t, err := ParseTree(u.Tree)
	if err != nil {
		res.Harness = err.Error()
		return
	}
	addViol := func(id caseID, p *program, v viol) {
		// confirm in-process before reporting; a verdict that does not repeat goes to the supervisor,
		// which re-runs the unit in fresh processes (see confirmIntermittent)
		var base *outcome
		if id.Listen {
			bo := runCase(p, runSpec{Engine: id.Engine, History: "once"}).Out
			base = &bo
		}
		again := evalCase(p, id, base)
		found := false
		for _, w := range again.viols {
			if w.Sig == v.Sig {
				found = true
			}
		}
		if !found && !strings.HasPrefix(v.Sig, "engines-differ") {
			res.Unconfirmed = append(res.Unconfirmed, violOut{v.Sig, clip(v.What), id})
			return
		}
		res.Viols = append(res.Viols, violOut{v.Sig, clip(v.What), id})
	}
	starts := []bool{false, true}
	if u.Fam == "chain" && len(t)%8 != 0 {
		starts = []bool{false}
	}
	histories := b.histories
	againTree := u.Fam == "tree" && t.isCallAgain(len(t)-1)
	hasHost, hasExit := false, false
	for i := range t {
		hasHost = hasHost || t.isHost(i)
		hasExit = hasExit || t[i].Out == 'E'
	}
	for _, start := range starts {
		p := buildProgram(t, start, u.Rot, u.Shape)
		sets := setsFor(u, len(t))
		type key struct {
			mask  uint64
			all   bool
			nofac uint64
			decoy bool
		}
		var keys []key // in the order of the first engine's runs
		streams := map[string]map[key]caseVerdict{}
		mixedMasks := noFacMasks(t, b.mixedAllUpTo)
		if u.Shape > 0 || againTree {
			mixedMasks = nil
		}
		for _, eng := range []string{"interpreter", "compiler"} {
			streams[eng] = map[key]caseVerdict{}
			bid := caseID{Tree: u.Tree, Rot: u.Rot, Shape: u.Shape, Start: start, Engine: eng, History: "once"}
			bv := evalCase(p, bid, nil)
			res.Evals++
			res.Outcomes["result:"+errClass(bv.res.Out)]++
			for _, v := range bv.viols {
				addViol(bid, p, v)
			}
			base := bv.res.Out
			for _, s := range sets {
				for _, h := range histories {
					if u.Fam == "chain" && h != "once" && !(s.All && len(t)%8 == 0) {
						continue
					}
					if u.Fam == "tree" && h != "once" && len(t) > b.fullHistoryUpTo && !s.All && s.Mask != 1<<uint(len(t))-1 && s.Mask&(s.Mask-1) != 0 {
						continue
					}
					// "cache" and "reopen" exercise the same engine-level map as "twice": on the larger
					// trees they run with the all-functions factory only
					if u.Fam == "tree" && (h == "cache" || h == "reopen") && len(t) > b.fullHistoryUpTo && !s.All {
						continue
					}
					// "other" and "reopen" are positive controls (expected to work): on the larger trees
					// "other" runs with the all-functions factory and the full set, "reopen" not at all
					if u.Fam == "tree" && len(t) > b.fullHistoryUpTo && (h == "reopen" || (h == "other" && !s.All && s.Mask != 1<<uint(len(t))-1)) {
						continue
					}
					if u.Shape > 0 && h != "once" {
						continue
					}
					// the state of the engine's module index does not depend on the listener set
					if h == "closedmid" && !s.All {
						continue
					}
					// lifecycle histories only where they can differ from "once"
					if (h == "hostclose" && !hasHost) || (h == "rtinst" && !hasExit) || (h == "closedcm" && start) {
						continue
					}
					id := caseID{Tree: u.Tree, Rot: u.Rot, Shape: u.Shape, Start: start, Engine: eng, History: h, Listen: true, Mask: s.Mask, All: s.All}
					v := evalCase(p, id, &base)
					res.Evals++
					for _, w := range v.viols {
						addViol(id, p, w)
					}
					// factory compositions: call-again trees (every set) and chains (all-functions factory)
					if h == "once" && (againTree || (u.Fam == "chain" && s.All && len(t)%4 == 0)) {
						for comp := 1; comp <= 4; comp++ {
							cid := id
							cid.Comp = comp
							cv := evalCase(p, cid, &base)
							res.Evals++
							res.Outcomes["composed-factory-runs"]++
							for _, w := range cv.viols {
								addViol(cid, p, w)
							}
						}
					}
					if h == "once" {
						if eng == "interpreter" {
							keys = append(keys, key{mask: s.Mask, all: s.All})
						}
						streams[eng][key{mask: s.Mask, all: s.All}] = v
						res.Outcomes[fmt.Sprintf("events:%s", bucket(len(v.res.Ev)))]++
						if countK(v.res.Ev, 'X') > 0 {
							res.Outcomes["streams-with-abort"]++
						}
						for _, m := range []byte(v.tail) {
							res.Outcomes["tail-reading:"+string(m)]++
						}
					}
					if res.Harness != "" {
						return
					}
				}
				// mixed configurations: per module, compiled with the factory or without any factory
				fullSet := !s.All && s.Mask == 1<<uint(len(t))-1
				if (u.Fam == "chain" && !s.All) || (u.Fam == "tree" && len(t) > b.fullHistoryUpTo && !s.All && !fullSet) {
					continue
				}
				for _, nf := range mixedMasks {
					type variant struct {
						h     string
						decoy bool
					}
					vars := []variant{{"once", false}}
					if s.All {
						vars = append(vars, variant{"once", true})
					}
					// the other way of handing the factory to a compilation: Runtime.InstantiateWithConfig /
					// HostModuleBuilder.Instantiate with the factory in their context
					if (u.Fam == "tree" && len(t) <= b.fullHistoryUpTo && (s.All || fullSet)) || (u.Fam == "chain" && len(t)%8 == 0) {
						vars = append(vars, variant{"rtinst", false})
					}
					for _, va := range vars {
						id := caseID{Tree: u.Tree, Rot: u.Rot, Start: start, Engine: eng, History: va.h, Listen: true, Mask: s.Mask, All: s.All, NoFac: nf, Decoy: va.decoy}
						v := evalCase(p, id, &base)
						res.Evals++
						res.Outcomes["mixed-factory-runs"]++
						if countK(v.res.Ev, 'X') > 0 {
							res.Outcomes["mixed-factory-streams-with-abort"]++
						}
						for _, w := range v.viols {
							addViol(id, p, w)
						}
						if va.h == "once" {
							k := key{s.Mask, s.All, nf, va.decoy}
							if eng == "interpreter" {
								keys = append(keys, k)
							}
							streams[eng][k] = v
						}
					}
				}
			}
		}
		// the two engines against each other (only streams that satisfied the statement: a stream
		// already reported against the model is not reported a second time)
		for _, k := range keys {
			a, c := streams["interpreter"][k], streams["compiler"][k]
			want, _ := runModel(t, p.sigs, effectiveSet(t, runSpec{Mask: k.mask, All: k.all}.set(), k.nofac), modelOpts{})
			if len(want) > 0 && !k.decoy {
				res.Distinct++
			}
			if !a.clean || !c.clean {
				continue
			}
			sa, sc := normalizeForEngines(t, a.res.Ev), normalizeForEngines(t, c.res.Ev)
			id := caseID{Tree: u.Tree, Rot: u.Rot, Shape: u.Shape, Start: start, Engine: "both", History: "once", Listen: true, Mask: k.mask, All: k.all, NoFac: k.nofac, Decoy: k.decoy}
			if sa != sc {
				addViol(id, p, viol{"engines-differ:event-stream", fmt.Sprintf("interpreter %s | compiler %s", clip(sa), clip(sc))})
			}
			if a.res.Out.String() != c.res.Out.String() {
				addViol(id, p, viol{"engines-differ:result", fmt.Sprintf("interpreter %v | compiler %v", a.res.Out, c.res.Out)})
			}
		}
	}
	{
		p := buildProgram(t, false, u.Rot, u.Shape)
		ev, out := runModel(t, p.sigs, func(int) bool { return true }, modelOpts{})
		res.Sample = map[string]any{"tree": u.Tree, "rot": u.Rot, "shape": u.Shape, "family": u.Fam, "reference_result": out.String(), "reference_stream_all_listened": clip(streamString(ev))}
	}
	return
}

func errClass(o outcome) string {
	if o.Err == "" {
		return "ok"
	}
	if k := strings.IndexByte(o.Err, ':'); k > 0 {
		return o.Err[:k]
	}
	return o.Err
}

func bucket(n int) string {
	switch {
	case n == 0:
		return "0"
	case n <= 2:
		return "1-2"
	case n <= 4:
		return "3-4"
	case n <= 10:
		return "5-10"
	case n <= 40:
		return "11-40"
	}
	return ">40"
}

// ---------------------------------------------------------------- main

func main() {
	if len(os.Args) > 2 && os.Args[1] == "show" {
		show(os.Args[2:])
		return
	}
	run := fw.Start("C20", "exploration")
	b := tierBounds(run.Thorough())
	if v := os.Getenv("C20_MAXNODES"); v != "" { // debugging aid only; evidence records the bound used
		fmt.Sscan(v, &b.maxNodes)
	}
	units := buildUnits(b)

	if len(os.Args) > 3 && os.Args[2] == "recheck-unit" {
		// one unit in a fresh process, for the supervisor's intermittency decision
		var idx int
		fmt.Sscan(os.Args[3], &idx)
		if idx < 0 || idx >= len(units) {
			fw.Fatalf("recheck-unit: index %d out of range", idx)
		}
		out, _ := json.Marshal(runUnit(units[idx], b))
		fmt.Println("RESULT " + base64.StdEncoding.EncodeToString(out))
		return
	}
	if fw.IsChild() {
		var deadline time.Time
		if v := os.Getenv("C20_DEADLINE_UNIX"); v != "" {
			var sec int64
			fmt.Sscan(v, &sec)
			deadline = time.Unix(sec, 0)
		}
		fw.ChildLoop(func(i int) string {
			// the supervisor polls its Stop function only when it (re)starts a child, so the internal
			// budget is enforced here: units that would start after the deadline are skipped and
			// reported as such (=> exhaustive:false, exit 0)
			if !deadline.IsZero() && time.Now().After(deadline) {
				return "SKIPPED"
			}
			r := runUnit(units[i], b)
			out, _ := json.Marshal(r)
			// base64: the supervisor protocol rewrites "\\n" sequences, which would corrupt JSON escapes
			return base64.StdEncoding.EncodeToString(out)
		})
		return
	}
	if len(os.Args) > 2 && os.Args[1] == "replay" {
		replay(os.Args[2])
		return
	}

	outcomes := fw.NewCounter()
	samples := fw.NewSampler(16)
	var evals, distinct int64
	var nTree, nChain, nWide, nVals, skipped int64
	var pending []pendingVerdict
	t0 := time.Now()
	done := fw.Supervise(fw.SupOpts{N: len(units), Workers: runtime.NumCPU(), CaseTimeout: 300 * time.Second, Mode: run.Tier,
		Env: []string{"GOMAXPROCS=1", "GOGC=400", fmt.Sprintf("C20_DEADLINE_UNIX=%d", run.Deadline.Unix())}, Stop: run.Expired},
		func(i int, res string, crash *fw.Crash) {
			u := units[i]
			if crash != nil {
				outcomes.Inc("unit-" + crash.Kind)
				run.Violation("process-"+crash.Kind+":"+u.Fam, "the process running all cases of this tree died: "+fw.FirstLines(crash.Stderr, 6),
					caseID{Tree: u.Tree, Rot: u.Rot, Shape: u.Shape, Engine: "both", History: "all"})
				return
			}
			if res == "SKIPPED" {
				skipped++
				return
			}
			var r unitResult
			raw, err := base64.StdEncoding.DecodeString(res)
			if err != nil {
				fw.Fatalf("child result of unit %d: %v", i, err)
			}
			if err := json.Unmarshal(raw, &r); err != nil {
				fw.Fatalf("child result of unit %d: %v", i, err)
			}
			if r.Harness != "" {
				fw.Fatalf("unit %d (%s): %s", i, u.Tree, r.Harness)
			}
			evals += r.Evals
			distinct += r.Distinct
			switch u.Fam {
			case "tree":
				nTree++
			case "chain":
				nChain++
			case "vals":
				nVals++
			default:
				nWide++
			}
			for k, v := range r.Outcomes {
				outcomes.AddN(k, v)
			}
			for _, v := range r.Viols {
				run.Violation(v.Sig, v.What, v.Replay)
			}
			for _, v := range r.Unconfirmed {
				pending = append(pending, pendingVerdict{i, v})
			}
			samples.Add(r.Sample)
		})
	unrepeatable := confirmIntermittent(run, units, pending)
	if done < len(units) || skipped > 0 {
		run.Capped("budget")
	}
	byN := map[string]int{}
	for _, u := range units {
		if u.Fam == "tree" {
			byN[fmt.Sprintf("tree-units-with-%d-nodes", strings.Count(u.Tree, ",")+1)]++
		}
	}
	keys := make([]string, 0, len(byN))
	for k := range byN {
		keys = append(keys, k)
	}
	sort.Strings(keys)
	run.Finish(fw.Coverage{
		Evaluations: evals, DistinctNontriv: distinct,
		Rule:    "evaluation = one execution of a generated program on one engine under one compilation history with one listener set (or none); distinct non-trivial = distinct (tree, signature rotation, start-variant, listener set) whose reference event stream is non-empty, counted once across engines and histories; mixed configurations count as (tree, rotation, start-variant, listener set, modules without factory) with a non-empty reference stream",
		Samples: samples.List(), Exhaustive: true, Outcomes: outcomes.Map(),
		Bounds: map[string]any{"max_nodes": b.maxNodes, "typed_values": fmt.Sprintf("every function type over {i32,i64,externref%s | f32,f64 | v128} with <= %d params and <= %d results; every ordered pair (A,B) of such types with the same register class at every position, A compiled before B, as two functions of one module and as two modules of one runtime; long sub-family: 12 params and 12 results over the class patterns %v, pairs over {all narrow, all wide, exactly one param or result position widened (i64/externref/funcref by position, f64)} in both orders; every function called from Go and from a guest wrapper, twice, with values whose halves are non-zero and bits 31/63 set; both engines", map[bool]string{true: ",funcref", false: ""}[b.valsFuncref], b.valsMaxP, b.valsMaxR, valsLongPatterns), "edge_kinds": "d,i,m,h,t,r", "wide_modules": "66, 70 (0 and 2 imports), 130 (0 and 1 import) local functions; run calls the locals at 0,1,31,32,62,63,64,65,66,127,128,129 that exist; (S1,S2) = same set (control), differing in exactly one of those indexes (both directions), in two indexes 64 apart, and high-only sets; histories twice and cache; both engines", "factory_compositions": fmt.Sprintf("single; Multi(set,set); Multi(every function,set); Multi(set,nil,set); Multi(FunctionListenerFunc adapter,set) - on the call-again family (base trees with <= %d nodes + a second call site of an earlier function; sets: all-functions, full, the twice-called function) and on the chains whose length is a multiple of 4 (all-functions factory); history once", b.callAgainBase), "body_shapes": fmt.Sprintf("%d (exit form x surplus operands) combinations x 4 signature rotations on every tree with <= %d nodes, one combination per tree with %d nodes; history once", numShapeCombos, b.shapeAllUpTo, b.shapeAllUpTo+1), "tail_form_family": fmt.Sprintf("edge kinds d,i,m,h,t,u,v,w,r; trees with <= %d nodes using u, v or w", b.tailFormNodes), "mixed_factories": fmt.Sprintf("per module (env, m0, m1, ...) compiled with its own factory object or with a context without any factory: every assignment except all-with / all-without for programs with <= %d modules, else {entry module, all but the entry module, even, odd positions of the import chain, env, all guest modules} without; on every plain and tail-form tree (all listener sets up to %d nodes, above: all-functions factory and full set) and every chain (all-functions factory); history once, plus once with a decoy factory in the instantiate/call context (all-functions factory), plus rtinst (trees up to %d nodes with the all-functions factory / full set, chains of length 8k)", b.mixedAllUpTo, b.fullHistoryUpTo, b.fullHistoryUpTo),
			"outcomes": "R,T,P,E,S", "signature_rotations_up_to_nodes": b.rotUpTo,
			"chain_depths": "1..40", "chain_patterns": b.chainPattern, "chain_leaves": "R,T,P,E", "histories": b.histories, "all_listener_sets_under_every_history_up_to_nodes": b.fullHistoryUpTo, "engines": []string{"interpreter", "compiler"},
			"listener_sets": "every subset of the nodes + all-functions factory (trees); full/even/odd/root/leaf/all-functions (chains)"},
		Extra: map[string]any{"units": len(units), "units_done": int64(done) - skipped, "tree_units": nTree, "chain_units": nChain, "wide_module_units": nWide, "typed_values_units": nVals, "units_by_size": byN, "explore_wall_s": time.Since(t0).Seconds(), "unrepeatable_mismatches": unrepeatable},
	}, []string{
		"the stack iterator is expected to list the frames of the current api.Function.Call only (a host function that re-enters the guest starts a new call boundary), on both engines",
		"values are compared after masking to the value type's width (upper bits of 32-bit slots are not part of the value)",
		"the module/context/error arguments of listener methods are outside the statement and not compared",
		"a tail call may be notified as a nested call or as return-then-call; any other shape is a violation",
		"a module compiled with a context that carries no listener factory has no listened functions; a factory that is only in the context of InstantiateModule / Call (never of a compilation) is never notified",
		"one function per call site: recursion and repeated calls of the same function are not enumerated",
	})
}

// ---------------------------------------------------------------- verdicts that did not repeat

type pendingVerdict struct {
	unit int
	v    violOut
}

func sigFamily(sig string) string {
	if k := strings.IndexByte(sig, ':'); k > 0 {
		return sig[:k]
	}
	return sig
}

// genericFamilies are the model-mismatch signature families built by firstDiff and the result /
// engine comparisons: their remaining segments depend on which event happened to differ, so an
// address- or timing-dependent defect may show under another signature of the same family.
var genericFamilies = map[string]bool{"stack": true, "values": true, "sequence": true, "slice-length": true,
	"listener-fault": true, "results": true, "engines-differ": true, "multi-factory(1)": true, "multi-factory(2)": true, "multi-factory(3)": true, "multi-factory(4)": true, "mixed-factory": true}

// confirmIntermittent decides about verdicts that showed once in a child and did not repeat when
// the case was evaluated again in the same process (runs 1 and 2). The unit is run 4 more times,
// each in a fresh process. A model mismatch of the same family showing in >= 2 of the 6 runs is
// reported as a violation "<signature>:intermittent"; one that showed only once is recorded in the
// evidence (unrepeatable_mismatches) and does not affect the exit code. Never a harness error.
func confirmIntermittent(run *fw.Run, units []unit, pending []pendingVerdict) []any {
	notes := []any{}
	self, err := os.Executable()
	if err != nil {
		fw.Fatalf("os.Executable: %v", err)
	}
	const maxUnits = 60
	done := map[int][]unitResult{}
	for _, pv := range pending {
		fam := sigFamily(pv.v.Sig)
		reruns, seen := done[pv.unit]
		if !seen {
			if len(done) >= maxUnits {
				notes = append(notes, map[string]any{"unit": units[pv.unit], "signature": pv.v.Sig, "case": pv.v.Replay, "shown": "1/2", "note": "not re-run in fresh processes: more than 60 units had unrepeatable verdicts"})
				continue
			}
			for k := 0; k < 4; k++ {
				cmd := exec.Command(self, run.Tier, "recheck-unit", fmt.Sprint(pv.unit))
				cmd.Env = append(os.Environ(), "GOMAXPROCS=1", "GOGC=400")
				out, err := cmd.Output()
				var r unitResult
				ok := false
				for _, l := range strings.Split(string(out), "\n") {
					if strings.HasPrefix(l, "RESULT ") {
						if raw, e := base64.StdEncoding.DecodeString(strings.TrimSpace(l[7:])); e == nil && json.Unmarshal(raw, &r) == nil {
							ok = true
						}
					}
				}
				if !ok {
					// a crash of the fresh process is itself a (non-model) observation: keep it visible
					r = unitResult{Harness: fmt.Sprintf("fresh process failed: %v", err)}
				}
				reruns = append(reruns, r)
			}
			done[pv.unit] = reruns
		}
		shown, crashed := 1, 0
		for _, r := range reruns {
			if r.Harness != "" {
				crashed++
				continue
			}
			hit := false
			for _, w := range append(append([]violOut{}, r.Viols...), r.Unconfirmed...) {
				if w.Sig == pv.v.Sig || (genericFamilies[fam] && sigFamily(w.Sig) == fam) {
					hit = true
				}
			}
			if hit {
				shown++
			}
		}
		ratio := fmt.Sprintf("%d/6", shown)
		if shown >= 2 {
			what := fmt.Sprintf("intermittent: a %q model mismatch showed in %s runs of this tree (1 in the exploring process, 0 when the case was repeated in that process, %d in 4 fresh processes", fam, ratio, shown-1)
			if crashed > 0 {
				what += fmt.Sprintf("; %d fresh processes died", crashed)
			}
			run.Violation(pv.v.Sig+":intermittent", what+"): "+pv.v.What, pv.v.Replay)
			continue
		}
		notes = append(notes, map[string]any{"unit": units[pv.unit], "signature": pv.v.Sig, "case": pv.v.Replay, "shown": ratio, "fresh_processes_died": crashed, "what": pv.v.What})
	}
	return notes
}

// ---------------------------------------------------------------- replay / show

func runOne(id caseID, verbose bool) []viol {
	if id.Vals != nil {
		var all []viol
		engines := []string{id.Engine}
		if id.Engine == "both" || id.Engine == "" {
			engines = []string{"interpreter", "compiler"}
		}
		for _, eng := range engines {
			if verbose {
				fmt.Printf("typed-values case %+v engine %s\n", *id.Vals, eng)
			}
			vs := judgeVals(eng, *id.Vals, verbose)
			if verbose {
				for _, w := range vs {
					fmt.Printf("  FAIL %s: %s\n", w.Sig, w.What)
				}
				if len(vs) == 0 {
					fmt.Println("  holds")
				}
			}
			all = append(all, vs...)
		}
		return all
	}
	if id.Wide != nil {
		var all []viol
		engines := []string{id.Engine}
		if id.Engine == "both" || id.Engine == "" {
			engines = []string{"interpreter", "compiler"}
		}
		for _, eng := range engines {
			ev1, ev2, faults, result := runWide(eng, id.History, *id.Wide)
			vs := judgeWide(eng, id.History, *id.Wide)
			if verbose {
				fmt.Printf("wide case %+v engine %s history %s\n  result %s\n  second factory (S2) got: %s\n  first factory (S1) got: %s\n  faults %v\n", *id.Wide, eng, id.History, result, streamString(ev2), streamString(ev1), faults)
				for _, w := range vs {
					fmt.Printf("  FAIL %s\n", w.Sig)
				}
				if len(vs) == 0 {
					fmt.Println("  holds")
				}
			}
			all = append(all, vs...)
		}
		return all
	}
	t, err := ParseTree(id.Tree)
	if err != nil {
		fw.Fatalf("replay: %v", err)
	}
	p := buildProgram(t, id.Start, id.Rot, id.Shape)
	engines := []string{id.Engine}
	if id.Engine == "both" || id.Engine == "" {
		engines = []string{"interpreter", "compiler"}
	}
	hist := []string{id.History}
	if id.History == "all" || id.History == "" {
		hist = []string{"once"}
	}
	var all []viol
	for _, eng := range engines {
		for _, h := range hist {
			c := id
			c.Engine, c.History = eng, h
			base := runCase(p, runSpec{Engine: eng, History: "once"}).Out
			v := evalCase(p, c, &base)
			want, mout := runModel(t, p.sigs, effectiveSet(t, runSpec{Mask: c.Mask, All: c.All, Listen: c.Listen}.set(), c.NoFac), modelOpts{})
			if !c.Listen {
				want = nil
			}
			if verbose {
				fmt.Printf("case %+v\n  model (nested reading): %v %s\n  without listeners: %v\n  got: %v %s\n", c, mout, streamString(want), base, v.res.Out, streamString(v.res.Ev))
				if len(v.res.EvA) > 0 {
					fmt.Printf("  first factory got: %s\n", streamString(v.res.EvA))
				}
				for _, w := range v.viols {
					fmt.Printf("  FAIL %s: %s\n", w.Sig, w.What)
				}
				if len(v.viols) == 0 {
					fmt.Printf("  holds (tail reading %q)\n", v.tail)
				}
			}
			all = append(all, v.viols...)
		}
	}
	return all
}

func replay(file string) {
	b, err := os.ReadFile(file)
	if err != nil {
		fw.Fatalf("replay: %v", err)
	}
	var doc struct {
		Signature string `json:"signature"`
		Replay    caseID `json:"replay"`
	}
	if err := json.Unmarshal(b, &doc); err != nil {
		fw.Fatalf("replay: %v", err)
	}
	fmt.Printf("replaying %s (recorded signature %s)\n", file, doc.Signature)
	vs := runOne(doc.Replay, true)
	if len(vs) > 0 {
		fmt.Println("REPLAY: still fails")
		os.Exit(1)
	}
	fmt.Println("REPLAY: holds now")
}

// show <tree> [start] [rot=N] [mask=N] [hist=H]: debugging aid, prints both engines for one tree.
func show(args []string) {
	id := caseID{Tree: args[0], Engine: "both", History: "once", Listen: true, All: true}
	for _, a := range args[1:] {
		switch {
		case a == "start":
			id.Start = true
		case a == "decoy":
			id.Decoy = true
		case strings.HasPrefix(a, "nofac="):
			fmt.Sscan(a[6:], &id.NoFac)
		case strings.HasPrefix(a, "comp="):
			fmt.Sscan(a[5:], &id.Comp)
		case strings.HasPrefix(a, "shape="):
			fmt.Sscan(a[6:], &id.Shape)
		case strings.HasPrefix(a, "rot="):
			fmt.Sscan(a[4:], &id.Rot)
		case strings.HasPrefix(a, "mask="):
			fmt.Sscan(a[5:], &id.Mask)
			id.All = false
		case strings.HasPrefix(a, "hist="):
			id.History = a[5:]
		case strings.HasPrefix(a, "chain="):
			var d int
			var pat string
			var leaf string
			fmt.Sscanf(a[6:], "%d:%s", &d, &pat)
			if k := strings.IndexByte(pat, ':'); k > 0 {
				leaf, pat = pat[k+1:], pat[:k]
			}
			id.Tree = chainTree(d, pat, leaf[0]).String()
		}
	}
	if len(runOne(id, true)) > 0 {
		os.Exit(1)
	}
}
