package main

import (
	"fmt"
	"strings"
)

type viol struct {
	Sig  string `json:"sig"`
	What string `json:"what"`
}

// frame caps observed in the implementation; used ONLY to give the known findings (DESIGN §6 #18)
// a precise signature. A stream that equals the model under these caps is still a violation.
const (
	implAbortCap       = 30 // wasmdebug.MaxFrames
	implStackCapWazevo = 29 // UnwindStack stops after MaxFrames addresses, the last one is dropped
)

func defectTailModes(engine string) string {
	if engine == "compiler" {
		return "jk"
	}
	return "x"
}

// tailAssignments enumerates every assignment of modes to the tail-called nodes.
func tailAssignments(tails []int, modes string) []map[int]byte {
	out := []map[int]byte{{}}
	for _, c := range tails {
		var nx []map[int]byte
		for _, a := range out {
			for _, m := range []byte(modes) {
				b := map[int]byte{}
				for k, v := range a {
					b[k] = v
				}
				b[c] = m
				nx = append(nx, b)
			}
		}
		out = nx
	}
	return out
}

func modesString(tails []int, a map[int]byte) string {
	var sb strings.Builder
	for _, c := range tails {
		sb.WriteByte(a[c])
	}
	return sb.String()
}

// judgeStream compares one recorded event stream with the reference model.
// Returns the accepted tail reading ("" if no tail edges) and the violations.
// multi != nil: the stream was recorded by a component of a MultiFunctionListenerFactory; multi(i) = function i
// has two or more component listeners.
func judgeStream(p *program, engine, hist string, listen, multi func(int) bool, got []event) (string, []viol) {
	tail, vs := judgeStreamValues(p, engine, hist, listen, multi, got)
	// slice lengths: params/results must be exactly the function type's values
	for _, e := range got {
		if e.Extra > 0 {
			who := "guest"
			if e.Fn >= 0 && e.Fn < len(p.tree) && p.tree.isHost(e.Fn) {
				who = "host"
			}
			what := "params"
			if e.K == 'A' {
				what = "results"
			}
			s := p.sigs[e.Fn]
			vs = append(vs, viol{fmt.Sprintf("slice-length:%s:%s-function-%s-%s-slice-longer-than-the-type", engine, who, kindName(e.K), what),
				fmt.Sprintf("%s-event of a %s function with %d params / %d results carries %d surplus slots after the %s", kindName(e.K), who, len(s.P), len(s.R), e.Extra, what)})
			break
		}
	}
	return tail, vs
}

func judgeStreamValues(p *program, engine, hist string, listen, multi func(int) bool, got []event) (string, []viol) {
	t := p.tree
	tails := t.tailNodes()
	// 1. the statement: some reading with every tail call nested or return-then-call
	for _, a := range tailAssignments(tails, "nf") {
		want, _ := runModel(t, p.sigs, listen, modelOpts{tail: a})
		if eventsEqual(got, want) {
			return modesString(tails, a), nil
		}
	}
	// 2. known defect readings, least deviation first
	deep := len(t) >= implStackCapWazevo
	type capOpt struct {
		abort, stack     int
		lcStack, lcAbort bool
		mo               bool
	}
	caps := []capOpt{{}}
	if deep {
		caps = append(caps, capOpt{abort: implAbortCap})
		if engine == "compiler" {
			caps = append(caps, capOpt{stack: implStackCapWazevo}, capOpt{abort: implAbortCap, stack: implStackCapWazevo})
		}
	}
	// instance outliving its CompiledModule (compiler): stack walk / abort walk lose deleted modules
	if engine == "compiler" && (hist == "closedcm" || hist == "hostclose" || hist == "rtinst") {
		for _, c := range append([]capOpt{}, caps...) {
			for _, lc := range [][2]bool{{true, false}, {false, true}, {true, true}} {
				c2 := c
				c2.lcStack, c2.lcAbort = lc[0], lc[1]
				caps = append(caps, c2)
			}
		}
	}
	if engine == "compiler" && multi != nil {
		for _, c := range append([]capOpt{}, caps...) {
			c.mo = true
			caps = append(caps, c)
		}
	}
	d := defectTailModes(engine)
	best := -1
	var bestV []viol
	for _, c := range caps {
		for _, a := range tailAssignments(tails, "nf"+d) {
			nd := 0
			for _, m := range a {
				if strings.IndexByte(d, m) >= 0 {
					nd++
				}
			}
			if nd == 0 && c.abort == 0 && c.stack == 0 && !c.lcStack && !c.lcAbort && !c.mo {
				continue
			}
			mo := modelOpts{tail: a, abortCap: c.abort, stackCap: c.stack, lifecycle: hist, lcStack: c.lcStack, lcAbort: c.lcAbort}
			if c.mo {
				mo.multiOuter = multi
			}
			want, _ := runModel(t, p.sigs, listen, mo)
			if !eventsEqual(got, want) {
				continue
			}
			score := nd
			if c.abort > 0 {
				score += 100
			}
			if c.stack > 0 {
				score += 100
			}
			if c.lcStack {
				score += 100
			}
			if c.lcAbort {
				score += 100
			}
			if c.mo {
				score += 100
			}
			if best >= 0 && score >= best {
				continue
			}
			best = score
			bestV = nil
			if nd > 0 {
				ref, _ := runModel(t, p.sigs, listen, modelOpts{})
				if engine == "compiler" {
					bestV = append(bestV, viol{"tail-call:compiler:caller-before-never-closed",
						fmt.Sprintf("return_call in a listened function: the tail-calling function's before-event is never followed by after/abort; got %s; nested reading %s", streamString(got), streamString(ref))})
				} else {
					bestV = append(bestV, viol{"tail-call:interpreter:callee-runs-unnotified-in-callers-frame",
						fmt.Sprintf("return_call to a function of the same module replaces the frame without notifying the callee's listener (no before/after; an abort goes to the callee's listener and the caller's before-event stays open); got %s; nested reading %s", streamString(got), streamString(ref))})
				}
			}
			if c.abort > 0 {
				bestV = append(bestV, viol{"abort-capped-at-30-frames:" + engine,
					fmt.Sprintf("unwinding through %d frames notifies only the innermost %d: %d before-events, %d abort-events", len(t), implAbortCap, countK(got, 'B'), countK(got, 'X'))})
			}
			if c.stack > 0 {
				bestV = append(bestV, viol{"stack-iterator-capped-at-29-frames:" + engine,
					fmt.Sprintf("the stack iterator lists at most %d frames: deepest before-event of a %d-frame chain lists %d", implStackCapWazevo, len(t), maxStack(got))})
			}
			if c.mo {
				bestV = append(bestV, viol{"multi-factory:compiler:stack-iterator-frames-all-report-the-outermost-function",
					fmt.Sprintf("functions with two or more listeners combined by MultiFunctionListenerFactory: every frame of the StackIterator given to Before has the definition of the outermost function; got %s", clipS(streamString(got)))})
			}
			if c.lcStack {
				bestV = append(bestV, viol{"closed-compiled-module:compiler:stack-iterator-stops-at-deleted-module",
					fmt.Sprintf("history %s: once the CompiledModule of a live instance is closed, the stack iterator of before-events stops at the first frame of that module (not even the callee is listed); got %s", hist, clipS(streamString(got)))})
			}
			if c.lcAbort {
				bestV = append(bestV, viol{"closed-compiled-module:compiler:no-abort-for-frames-of-modules-not-imported-by-the-entry-module",
					fmt.Sprintf("history %s: once the CompiledModules are closed, unwinding notifies only frames of the entered module and of modules it imports directly; frames of modules further down the import chain (or host functions imported by them) get no abort; got %s", hist, clipS(streamString(got)))})
			}
		}
	}
	if best >= 0 {
		return "", bestV
	}
	// 3. anything else: classify the first difference against the nested reading
	want, _ := runModel(t, p.sigs, listen, modelOpts{})
	return "", []viol{firstDiff(t, engine, got, want)}
}

func countK(ev []event, k byte) int {
	n := 0
	for _, e := range ev {
		if e.K == k {
			n++
		}
	}
	return n
}

func maxStack(ev []event) int {
	n := 0
	for _, e := range ev {
		if len(e.Stack) > n {
			n = len(e.Stack)
		}
	}
	return n
}

func nodeClass(t Tree, i int) string {
	if i < 0 || i >= len(t) {
		return "unknown-function"
	}
	c := string([]byte{t[i].Kind, t[i].Out})
	for _, ch := range t.children(i) {
		if isTailKind(t[ch].Kind) {
			c += "+tailcaller"
		}
	}
	return c
}

func kindName(k byte) string {
	switch k {
	case 'B':
		return "before"
	case 'A':
		return "after"
	}
	return "abort"
}

// firstDiff builds the signature of the minimal failing step: the first event at which the
// recorded stream leaves the reference stream, described by event kind and the class of the
// function concerned (edge kind + outcome), not by the concrete tree.
func firstDiff(t Tree, engine string, got, want []event) viol {
	n := len(got)
	if len(want) < n {
		n = len(want)
	}
	ctx := func(i int) string {
		lo := i - 2
		if lo < 0 {
			lo = 0
		}
		hg, hw := i+2, i+2
		if hg > len(got) {
			hg = len(got)
		}
		if hw > len(want) {
			hw = len(want)
		}
		return fmt.Sprintf("at event %d: got …%s… want …%s… (got %d events, want %d)", i, streamString(got[lo:hg]), streamString(want[lo:hw]), len(got), len(want))
	}
	for i := 0; i < n; i++ {
		g, w := got[i], want[i]
		if eventEqual(g, w) {
			continue
		}
		switch {
		case g.K != w.K || g.Fn != w.Fn:
			return viol{fmt.Sprintf("sequence:%s:want-%s(%s):got-%s(%s:%s)", engine, kindName(w.K), nodeClass(t, w.Fn), kindName(g.K), nodeClass(t, g.Fn), relation(t, g.Fn, w.Fn)), ctx(i)}
		case !sameStack(g.Stack, w.Stack):
			what := "extra-frame"
			for k := range w.Stack {
				if k >= len(g.Stack) {
					what = "missing-frame(" + nodeClass(t, w.Stack[k]) + ")"
					break
				}
				if g.Stack[k] != w.Stack[k] {
					what = "wrong-frame-want(" + nodeClass(t, w.Stack[k]) + ")-got(" + nodeClass(t, g.Stack[k]) + ")"
					break
				}
			}
			return viol{fmt.Sprintf("stack:%s:callee(%s):%s", engine, nodeClass(t, w.Fn), what), ctx(i)}
		default:
			return viol{fmt.Sprintf("values:%s:%s(%s)", engine, kindName(w.K), nodeClass(t, w.Fn)), ctx(i)}
		}
	}
	if len(got) < len(want) {
		w := want[n]
		return viol{fmt.Sprintf("sequence:%s:missing-%s(%s)", engine, kindName(w.K), nodeClass(t, w.Fn)), ctx(n)}
	}
	g := got[n]
	return viol{fmt.Sprintf("sequence:%s:extra-%s(%s)", engine, kindName(g.K), nodeClass(t, g.Fn)), ctx(n)}
}

func sameStack(a, b []int) bool {
	if len(a) != len(b) {
		return false
	}
	for i := range a {
		if a[i] != b[i] {
			return false
		}
	}
	return true
}

// normalizeForEngines removes what the statement leaves implementation-defined for tail calls
// (the tail-caller's frame depth and the position/values of its closing event) so that the two
// engines' streams can be compared with each other.
func normalizeForEngines(t Tree, ev []event) string {
	caller := map[int]bool{}
	for _, c := range t.tailNodes() {
		caller[t[c].Parent] = true
	}
	var out []event
	for _, e := range ev {
		if caller[e.Fn] && e.K != 'B' {
			continue
		}
		f := event{K: e.K, Fn: e.Fn, Vals: e.Vals}
		for _, s := range e.Stack {
			if !caller[s] || s == e.Fn {
				f.Stack = append(f.Stack, s)
			}
		}
		out = append(out, f)
	}
	return streamString(out)
}

// relation of node a to node b in the call tree (part of sequence signatures).
func relation(t Tree, a, b int) string {
	if a < 0 || a >= len(t) || b < 0 || b >= len(t) {
		return "unknown"
	}
	if a == b {
		return "same-function"
	}
	for x := t[b].Parent; x >= 0; x = t[x].Parent {
		if x == a {
			return "its-caller"
		}
	}
	for x := t[a].Parent; x >= 0; x = t[x].Parent {
		if x == b {
			return "its-callee"
		}
	}
	return "other-branch"
}

func clipS(s string) string {
	if len(s) > 400 {
		return s[:400] + "…"
	}
	return s
}
