package main

import (
	"context"
	"fmt"
	"sort"
	"strings"

	"github.com/tetratelabs/wazero"
	"github.com/tetratelabs/wazero/api"
	"github.com/tetratelabs/wazero/experimental"
	"github.com/tetratelabs/wazero/verif/wb"
)

// Wide-module family: DIFFERENT listener sets must never share a compilation.
//
// A module with N local functions (optionally K imported host functions in front, so that the local
// index differs from the function index). Local function 2 is the exported "run"; it calls, in
// ascending order, the local functions at the indexes around the 32/64/128 boundaries that exist
// in the module, then the imports. The same bytes are compiled twice — in one runtime ("twice") or
// in two runtimes sharing a CompilationCache ("cache") — with factory F1 listening to S1 and then
// F2 listening to S2; the second compilation is instantiated and run. F2's listeners must see
// exactly the events of the functions in S2, F1's nothing.

const wideRun = 2

var wideBoundary = []int{0, 1, 31, 32, 62, 63, 64, 65, 66, 127, 128, 129}

type wideCase struct {
	N  int   `json:"n"`
	K  int   `json:"k"`
	S1 []int `json:"s1"`
	S2 []int `json:"s2"`
}

func wideCallees(n int) []int {
	var c []int
	for _, i := range wideBoundary {
		if i < n && i != wideRun {
			c = append(c, i)
		}
	}
	return c
}

func wideParam(i int) uint32  { return uint32(1000 + i) }
func wideResult(i int) uint32 { return wideParam(i)*3 + uint32(i) }
func wideHost(j int, x uint32) uint32 {
	return x + 7 + uint32(j)
}

const wideRunParam = 77

func wideRunResult(n, k int) uint32 {
	acc := uint32(wideRunParam)
	for _, c := range wideCallees(n) {
		acc = acc*31 + wideResult(c)
	}
	for j := 0; j < k; j++ {
		acc = acc*31 + wideHost(j, uint32(500+j))
	}
	return acc
}

func wideBinary(n, k int) []byte {
	m := &wb.Module{}
	i32 := []byte{wb.I32}
	for j := 0; j < k; j++ {
		m.ImportFunc("env", fmt.Sprintf("wh%d", j), i32, i32)
	}
	for i := 0; i < n; i++ {
		a := &wb.Asm{}
		if i == wideRun {
			// local 1 = accumulator
			a.LocalGet(0).LocalSet(1)
			for _, c := range wideCallees(n) {
				a.LocalGet(1).I32Const(31).Op(0x6c).I32Const(int32(wideParam(c))).Call(uint32(k + c)).Op(0x6a).LocalSet(1)
			}
			for j := 0; j < k; j++ {
				a.LocalGet(1).I32Const(31).Op(0x6c).I32Const(int32(500 + j)).Call(uint32(j)).Op(0x6a).LocalSet(1)
			}
			a.LocalGet(1)
			idx := m.AddFunc(i32, i32, i32, a.B)
			m.ExportFunc("run", idx)
			continue
		}
		a.LocalGet(0).I32Const(3).Op(0x6c).I32Const(int32(i)).Op(0x6a)
		m.AddFunc(i32, i32, nil, a.B)
	}
	return m.Encode()
}

// wideModel: the event stream a factory listening to set must record.
func wideModel(n int, set map[int]bool) []event {
	var ev []event
	if set[wideRun] {
		ev = append(ev, event{K: 'B', Fn: wideRun, Vals: []uint64{wideRunParam}, Stack: []int{wideRun}})
	}
	for _, c := range wideCallees(n) {
		if set[c] {
			ev = append(ev, event{K: 'B', Fn: c, Vals: []uint64{uint64(wideParam(c))}, Stack: []int{c, wideRun}},
				event{K: 'A', Fn: c, Vals: []uint64{uint64(wideResult(c))}})
		}
	}
	if set[wideRun] {
		ev = append(ev, event{K: 'A', Fn: wideRun, Vals: []uint64{uint64(wideRunResult(n, 0))}})
	}
	return ev
}

type wideRecorder struct {
	k      int
	ev     []event
	faults []string
}

type wideListener struct {
	r   *wideRecorder
	idx int
}

func (r *wideRecorder) local(def api.FunctionDefinition) int {
	if def == nil || def.ModuleName() == "env" || def.GoFunction() != nil {
		return -1000
	}
	return int(def.Index()) - r.k
}

func (l *wideListener) Before(_ context.Context, _ api.Module, def api.FunctionDefinition, params []uint64, si experimental.StackIterator) {
	if l.r.local(def) != l.idx {
		l.r.faults = append(l.r.faults, fmt.Sprintf("before: listener of local function %d notified with definition of %d", l.idx, l.r.local(def)))
	}
	e := event{K: 'B', Fn: l.idx}
	for _, v := range params {
		e.Vals = append(e.Vals, v&0xffffffff)
	}
	for si.Next() && len(e.Stack) < 10 {
		e.Stack = append(e.Stack, l.r.local(si.Function().Definition()))
	}
	l.r.ev = append(l.r.ev, e)
}

func (l *wideListener) After(_ context.Context, _ api.Module, def api.FunctionDefinition, results []uint64) {
	if l.r.local(def) != l.idx {
		l.r.faults = append(l.r.faults, fmt.Sprintf("after: listener of local function %d notified with definition of %d", l.idx, l.r.local(def)))
	}
	e := event{K: 'A', Fn: l.idx}
	for _, v := range results {
		e.Vals = append(e.Vals, v&0xffffffff)
	}
	l.r.ev = append(l.r.ev, e)
}

func (l *wideListener) Abort(context.Context, api.Module, api.FunctionDefinition, error) {
	l.r.ev = append(l.r.ev, event{K: 'X', Fn: l.idx})
}

func (r *wideRecorder) factory(set map[int]bool) experimental.FunctionListenerFactory {
	return experimental.FunctionListenerFactoryFunc(func(def api.FunctionDefinition) experimental.FunctionListener {
		if i := r.local(def); set[i] {
			return &wideListener{r, i}
		}
		return nil
	})
}

func toSet(s []int) map[int]bool {
	m := map[int]bool{}
	for _, i := range s {
		m[i] = true
	}
	return m
}

// runWide executes one case. Returns F1's and F2's recorded streams, faults and the result of run.
func runWide(engine, history string, c wideCase) (ev1, ev2 []event, faults []string, result string) {
	ctx := context.Background()
	bin := wideBinary(c.N, c.K)
	r1, r2 := &wideRecorder{k: c.K}, &wideRecorder{k: c.K}
	ctx1 := experimental.WithFunctionListenerFactory(ctx, r1.factory(toSet(c.S1)))
	ctx2 := experimental.WithFunctionListenerFactory(ctx, r2.factory(toSet(c.S2)))
	cfg := rtConfig(engine)
	if history == "cache" {
		cache := wazero.NewCompilationCache()
		defer cache.Close(ctx)
		cfg = cfg.WithCompilationCache(cache)
		rt1 := wazero.NewRuntimeWithConfig(ctx, cfg)
		defer rt1.Close(ctx)
		if _, err := rt1.CompileModule(ctx1, bin); err != nil {
			panic(fmt.Errorf("harness: wide module rejected: %w", err))
		}
	}
	rt := wazero.NewRuntimeWithConfig(ctx, cfg)
	defer rt.Close(ctx)
	if c.K > 0 {
		hb := rt.NewHostModuleBuilder("env")
		for j := 0; j < c.K; j++ {
			j := j
			hb.NewFunctionBuilder().WithFunc(func(x uint32) uint32 { return wideHost(j, x) }).Export(fmt.Sprintf("wh%d", j))
		}
		if _, err := hb.Instantiate(ctx); err != nil {
			panic(fmt.Errorf("harness: wide host module: %w", err))
		}
	}
	if history == "twice" {
		if _, err := rt.CompileModule(ctx1, bin); err != nil {
			panic(fmt.Errorf("harness: wide module rejected: %w", err))
		}
	}
	cm, err := rt.CompileModule(ctx2, bin)
	if err != nil {
		panic(fmt.Errorf("harness: wide module rejected: %w", err))
	}
	mod, err := rt.InstantiateModule(ctx, cm, wazero.NewModuleConfig().WithName("wide"))
	if err != nil {
		return nil, nil, nil, "other:instantiate: " + err.Error()
	}
	res, err := mod.ExportedFunction("run").Call(ctx, wideRunParam)
	if err != nil {
		result = "err=" + classifyErr(err)
	} else {
		result = fmt.Sprintf("ok=%x", res[0]&0xffffffff)
	}
	return r1.ev, r2.ev, append(r1.faults, r2.faults...), result
}

func sameSet(a, b []int) bool {
	if len(a) != len(b) {
		return false
	}
	for i := range a {
		if a[i] != b[i] {
			return false
		}
	}
	return true
}

// judgeWide applies the oracle to one case.
func judgeWide(engine, history string, c wideCase) []viol {
	ev1, ev2, faults, result := runWide(engine, history, c)
	var vs []viol
	wantRes := fmt.Sprintf("ok=%x", wideRunResult(c.N, c.K))
	if result != wantRes {
		vs = append(vs, viol{"results:" + engine + ":wide-module-result", fmt.Sprintf("run returned %s, expected %s", result, wantRes)})
	}
	for _, f := range faults {
		vs = append(vs, viol{"listener-fault:" + engine + ":wide:" + strings.SplitN(f, ":", 2)[0], f})
		break
	}
	want2 := wideModel(c.N, toSet(c.S2))
	// the after-event of run carries the real result (imports included)
	for i := range want2 {
		if want2[i].K == 'A' && want2[i].Fn == wideRun {
			want2[i].Vals = []uint64{uint64(wideRunResult(c.N, c.K))}
		}
	}
	if eventsEqual(ev2, want2) && len(ev1) == 0 {
		return vs
	}
	desc := fmt.Sprintf("module with %d local functions and %d imports, S1=%v S2=%v: second factory recorded %s (expected %s); first factory recorded %s",
		c.N, c.K, c.S1, c.S2, clip(streamString(ev2)), clip(streamString(want2)), clip(streamString(ev1)))
	if sameSet(c.S1, c.S2) {
		want1 := wideModel(c.N, toSet(c.S1))
		for i := range want1 {
			if want1[i].K == 'A' && want1[i].Fn == wideRun {
				want1[i].Vals = []uint64{uint64(wideRunResult(c.N, c.K))}
			}
		}
		if len(ev2) == 0 && eventsEqual(ev1, want1) {
			// DESIGN §6 #21, the known finding: SAME set, the first compilation is reused
			return append(vs, viol{"history:" + history + ":" + engine + ":second-factory-ignored-first-notified", desc})
		}
	}
	if len(ev1) > 0 {
		return append(vs, viol{"history:" + history + ":" + engine + ":wide:compilations-with-different-listener-sets-are-shared", desc})
	}
	return append(vs, viol{"sequence:" + engine + ":wide:second-factory-stream-differs-from-model", desc})
}

// wideCases enumerates the (S1, S2) pairs for one module.
func wideCases(n, k int) []wideCase {
	full := append([]int{wideRun}, wideCallees(n)...)
	sort.Ints(full)
	without := func(drop ...int) []int {
		var o []int
		for _, i := range full {
			keep := true
			for _, d := range drop {
				keep = keep && i != d
			}
			if keep {
				o = append(o, i)
			}
		}
		return o
	}
	in := func(i int) bool {
		for _, c := range wideCallees(n) {
			if c == i {
				return true
			}
		}
		return false
	}
	cs := []wideCase{{n, k, full, full}} // control: same set
	for _, i := range wideCallees(n) {
		cs = append(cs, wideCase{n, k, full, without(i)}, wideCase{n, k, without(i), full})
		if in(i + 64) {
			cs = append(cs, wideCase{n, k, full, without(i, i+64)}, wideCase{n, k, without(i, i+64), full})
		}
	}
	// only functions at or above the word boundary listened to
	var high []int
	for _, i := range wideCallees(n) {
		if i >= 64 {
			high = append(high, i)
		}
	}
	if len(high) > 1 {
		cs = append(cs, wideCase{n, k, high, high[1:]}, wideCase{n, k, high[1:], high})
	}
	return cs
}

func parseWideUnit(s string) (n, k int) {
	fmt.Sscanf(s, "wide:%d:%d", &n, &k)
	return
}

func runWideUnit(u unit) (res unitResult) {
	res.Outcomes = map[string]int64{}
	n, k := parseWideUnit(u.Tree)
	for _, c := range wideCases(n, k) {
		c := c
		if len(wideModel(n, toSet(c.S2))) > 0 {
			res.Distinct++
		}
		for _, eng := range []string{"interpreter", "compiler"} {
			for _, h := range []string{"twice", "cache"} {
				id := caseID{Tree: u.Tree, Engine: eng, History: h, Listen: true, Wide: &c}
				vs := judgeWide(eng, h, c)
				res.Evals++
				res.Outcomes["wide-module-runs"]++
				if len(vs) == 0 {
					continue
				}
				again := judgeWide(eng, h, c)
				for _, v := range vs {
					rep := false
					for _, w := range again {
						rep = rep || w.Sig == v.Sig
					}
					if rep {
						res.Viols = append(res.Viols, violOut{v.Sig, clip(v.What), id})
					} else {
						res.Unconfirmed = append(res.Unconfirmed, violOut{v.Sig, clip(v.What), id})
					}
				}
			}
		}
	}
	res.Sample = map[string]any{"family": "wide", "module": u.Tree, "cases": len(wideCases(n, k)), "called_local_indexes": wideCallees(n)}
	return
}
