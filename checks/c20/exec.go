package main

import (
	"context"
	"errors"
	"fmt"
	"strconv"

	"github.com/tetratelabs/wazero"
	"github.com/tetratelabs/wazero/api"
	"github.com/tetratelabs/wazero/experimental"
	"github.com/tetratelabs/wazero/internal/wasmruntime"
	"github.com/tetratelabs/wazero/sys"
	"github.com/tetratelabs/wazero/verif/wb"
)

// ---------------------------------------------------------------- recorder

type recorder struct {
	probePC bool // also call InternalFunction.SourceOffsetForPC with the iterator's own program counter
	p       *program
	ev      []event
	faults  []string // things a listener saw that cannot be expressed as an event
}

func nodeOfDef(def api.FunctionDefinition) int {
	if def == nil {
		return -1
	}
	for _, n := range def.ExportNames() {
		if len(n) >= 2 && (n[0] == 'f' || n[0] == 'h') {
			if v, err := strconv.Atoi(n[1:]); err == nil {
				return v
			}
		}
	}
	return -1
}

type nodeListener struct {
	rec  *recorder
	node int
}

func (l *nodeListener) check(def api.FunctionDefinition, what string) {
	if n := nodeOfDef(def); n != l.node {
		l.rec.faults = append(l.rec.faults, fmt.Sprintf("%s: listener of node %d notified with definition of node %d", what, l.node, n))
	}
}

// maskVals canonicalises a params/results slice: values masked to their type's width. A slice
// longer than the function type is cut to the typed prefix; the number of surplus slots is
// reported separately (event.Extra) so that it cannot hide a difference in the values.
func maskVals(tys []byte, v []uint64) ([]uint64, int) {
	o := make([]uint64, 0, len(v))
	for i := range v {
		if i < len(tys) {
			o = append(o, mask(tys[i], v[i]))
		}
	}
	extra := 0
	if len(v) > len(tys) {
		extra = len(v) - len(tys)
	}
	return o, extra
}

func (l *nodeListener) Before(_ context.Context, _ api.Module, def api.FunctionDefinition, params []uint64, si experimental.StackIterator) {
	l.check(def, "before")
	e := event{K: 'B', Fn: l.node}
	e.Vals, e.Extra = maskVals(l.rec.p.sigs[l.node].P, params)
	for si.Next() {
		fn := si.Function()
		e.Stack = append(e.Stack, nodeOfDef(fn.Definition()))
		pc := si.ProgramCounter()
		e.PCs = append(e.PCs, uint64(pc))
		if l.rec.probePC {
			func() {
				defer func() {
					if r := recover(); r != nil {
						l.rec.faults = append(l.rec.faults, fmt.Sprintf("SourceOffsetForPC panics: with the program counter the iterator reported itself: %v", r))
					}
				}()
				_ = fn.SourceOffsetForPC(pc)
			}()
		}
		if len(e.Stack) > 200 {
			l.rec.faults = append(l.rec.faults, "stack iterator does not terminate")
			break
		}
	}
	l.rec.ev = append(l.rec.ev, e)
}

func (l *nodeListener) After(_ context.Context, _ api.Module, def api.FunctionDefinition, results []uint64) {
	l.check(def, "after")
	e := event{K: 'A', Fn: l.node}
	e.Vals, e.Extra = maskVals(l.rec.p.sigs[l.node].R, results)
	l.rec.ev = append(l.rec.ev, e)
}

func (l *nodeListener) Abort(_ context.Context, _ api.Module, def api.FunctionDefinition, err error) {
	l.check(def, "abort")
	if err == nil {
		l.rec.faults = append(l.rec.faults, "abort with nil error")
	}
	l.rec.ev = append(l.rec.ev, event{K: 'X', Fn: l.node})
}

// factory: listens to the nodes in set; all=true is the factory that returns a listener for
// every definition without looking at it.
func (r *recorder) factory(set func(int) bool, all bool) experimental.FunctionListenerFactory {
	return experimental.FunctionListenerFactoryFunc(func(def api.FunctionDefinition) experimental.FunctionListener {
		n := nodeOfDef(def)
		if all || (n >= 0 && set(n)) {
			return &nodeListener{rec: r, node: n}
		}
		return nil
	})
}

// ---------------------------------------------------------------- factory compositions

// component is one listener factory inside the factory under test, with its own recorder.
type component struct {
	Name       string
	rec        *recorder
	set        func(int) bool
	BeforeOnly bool // built from the FunctionListenerFunc adapter: sees before-events only
}

type everyDef struct {
	f func(api.FunctionDefinition) experimental.FunctionListener
}

func (e everyDef) NewFunctionListener(d api.FunctionDefinition) experimental.FunctionListener {
	return e.f(d)
}

// compose builds the factory under test. comp:
//
//	0 single factory for the set (all=true: the factory that does not look at the definition)
//	1 MultiFunctionListenerFactory(set, set)
//	2 MultiFunctionListenerFactory(every function, set)
//	3 MultiFunctionListenerFactory(set, factory returning nil everywhere, set)
//	4 MultiFunctionListenerFactory(FunctionListenerFactoryFunc -> FunctionListenerFunc adapter on set, set)
//
// The last component is the "primary" one (its stream is runResult.Ev).
func compose(p *program, comp int, set func(int) bool, all bool, probePC bool) (experimental.FunctionListenerFactory, []*component) {
	mk := func(name string, s func(int) bool) *component {
		return &component{Name: name, rec: &recorder{p: p, probePC: probePC}, set: s}
	}
	full := func(int) bool { return true }
	nilF := experimental.FunctionListenerFactoryFunc(func(api.FunctionDefinition) experimental.FunctionListener { return nil })
	switch comp {
	case 1:
		a, b := mk("first-of-two", set), mk("second-of-two", set)
		return experimental.MultiFunctionListenerFactory(a.rec.factory(set, all), b.rec.factory(set, all)), []*component{a, b}
	case 2:
		a, b := mk("every-function", full), mk("subset", set)
		return experimental.MultiFunctionListenerFactory(everyDef{a.rec.factory(full, false).NewFunctionListener}, b.rec.factory(set, all)), []*component{a, b}
	case 3:
		a, b := mk("first-of-three", set), mk("third-of-three", set)
		return experimental.MultiFunctionListenerFactory(a.rec.factory(set, all), nilF, b.rec.factory(set, all)), []*component{a, b}
	case 4:
		a, b := mk("listener-func-adapter", set), mk("beside-adapter", set)
		a.BeforeOnly = true
		af := experimental.FunctionListenerFactoryFunc(func(def api.FunctionDefinition) experimental.FunctionListener {
			n := nodeOfDef(def)
			if all || (n >= 0 && set(n)) {
				return experimental.FunctionListenerFunc((&nodeListener{rec: a.rec, node: n}).Before)
			}
			return nil
		})
		return experimental.MultiFunctionListenerFactory(af, b.rec.factory(set, all)), []*component{a, b}
	}
	c := mk("single", set)
	return c.rec.factory(set, all), []*component{c}
}

// ---------------------------------------------------------------- host functions

type hostPanic struct{ node int }

func (h *hostPanic) Error() string { return fmt.Sprintf("host panic of node %d", h.node) }

// hooks lets one run inject an action at the entry of every host function (history "hostclose").
type hooks struct{ onHostEntry func() }

func (p *program) hostFunc(i int, hk *hooks) api.GoModuleFunction {
	t, s := p.tree, p.sigs[i]
	children := t.children(i)
	return api.GoModuleFunc(func(ctx context.Context, mod api.Module, stack []uint64) {
		if hk.onHostEntry != nil {
			hk.onHostEntry()
		}
		par := make([]uint64, len(s.P))
		copy(par, stack[:len(s.P)])
		acc := foldParams(s, par)
		for _, c := range children {
			fn := mod.ExportedFunction(fname(c)) // fresh api.Function for every nested call
			if fn == nil {
				panic(fmt.Errorf("harness: export %s not found in calling module %q", fname(c), mod.Name()))
			}
			r, err := fn.Call(ctx, params(c, p.sigs[c])...)
			if err != nil {
				var ee *sys.ExitError
				if t[i].Out == 'S' && !errors.As(err, &ee) {
					acc = acc*31 + swallowMark
					continue
				}
				panic(err)
			}
			acc = foldResults(acc, p.sigs[c], r)
		}
		switch t[i].Out {
		case 'P':
			panic(&hostPanic{i})
		case 'E':
			_ = mod.CloseWithExitCode(ctx, exitCode(i))
			panic(sys.NewExitError(exitCode(i)))
		}
		copy(stack, makeResults(i, s, acc))
	})
}

func apiTypes(b []byte) []api.ValueType {
	o := make([]api.ValueType, len(b))
	for i, t := range b {
		switch t {
		case wb.I32:
			o[i] = api.ValueTypeI32
		case wb.I64:
			o[i] = api.ValueTypeI64
		case wb.F32:
			o[i] = api.ValueTypeF32
		case wb.F64:
			o[i] = api.ValueTypeF64
		}
	}
	return o
}

// ---------------------------------------------------------------- running one case

type runSpec struct {
	Engine string // "compiler" | "interpreter"
	// "once": compiled once with the factory under test.
	// "twice": the same bytes were compiled before, in the same runtime, with another factory
	//          listening to the same set; "other": ... listening to the complementary set;
	// "cache": ... by another runtime sharing the compilation cache;
	// "reopen": ... and that first CompiledModule was closed before the second compilation.
	// Lifecycle histories (one compilation; the instance outlives its CompiledModule, which is
	// documented as allowed):
	// "closedcm": every CompiledModule (guest and host) is closed after instantiation, then the call runs;
	// "hostclose": every CompiledModule is closed from inside the first host function entered during the call;
	// "closedmid": four unrelated modules are compiled around the program's modules (two before,
	//          two after), then the first and the third of them are closed while everything else
	//          stays live (>= 5 compiled modules in the engine, a non-last one is removed), then
	//          the tree is instantiated and run;
	// "rtinst": modules are created with Runtime.InstantiateWithConfig / HostModuleBuilder.Instantiate
	//          (no separate CompiledModule: closing the module, e.g. by an exit leaf, closes its code mid-call).
	History string
	Listen  bool   // false = no factory installed at all (baseline)
	Mask    uint64 // listened nodes
	All     bool   // all-functions factory
	Comp    int    // factory composition, see compose
	// NoFac: per-module factory presence. Bit 0 = the host module "env", bit l+1 = guest module
	// "m<l>". A set bit means: that module is compiled with a context that carries NO listener
	// factory at all (which differs from a factory that answers nil: the engine then has no listener
	// table for the module). Every other module gets its own factory object (moduleFactory) feeding
	// the shared recorder. 0 = every module is compiled with the one factory (all older families).
	NoFac uint64
	// Decoy: the context handed to InstantiateModule and to Call carries another factory that no
	// compilation ever saw; its listeners must never be notified.
	Decoy bool
}

// modIdx is the bit position of node i's module in runSpec.NoFac.
func modIdx(t Tree, lvl []int, i int) int {
	if t.isHost(i) {
		return 0
	}
	return lvl[i] + 1
}

func modName(k int) string {
	if k == 0 {
		return "env"
	}
	return fmt.Sprintf("m%d", k-1)
}

// effectiveSet: the functions that must be notified = asked-for set restricted to the modules
// whose compilation saw a factory.
func effectiveSet(t Tree, set func(int) bool, nofac uint64) func(int) bool {
	if nofac == 0 {
		return set
	}
	lvl := t.levels()
	return func(i int) bool { return set(i) && nofac>>uint(modIdx(t, lvl, i))&1 == 0 }
}

// moduleFactory is the factory object of ONE module in a mixed configuration: it forwards to the
// factory under test and records a fault when the runtime consults it for a function of a module
// it was not installed for.
type moduleFactory struct {
	inner experimental.FunctionListenerFactory
	rec   *recorder
	mod   int
}

func (f *moduleFactory) NewFunctionListener(def api.FunctionDefinition) experimental.FunctionListener {
	t := f.rec.p.tree
	if n := nodeOfDef(def); n >= 0 && n < len(t) && !t.isCallAgain(n) {
		if k := modIdx(t, f.rec.p.lvl, n); k != f.mod {
			f.rec.faults = append(f.rec.faults, fmt.Sprintf("factory of one module consulted for a function of another module: factory installed for the compilation of %s was asked about function %d of %s", modName(f.mod), n, modName(k)))
		}
	}
	return f.inner.NewFunctionListener(def)
}

func (s runSpec) set() func(int) bool {
	return func(i int) bool { return s.All || s.Mask>>uint(i)&1 == 1 }
}

type runResult struct {
	Out    outcome
	Ev     []event // events seen by the factory installed for the compilation that is instantiated
	EvA    []event // events seen by the factory of the earlier compilation (histories twice/cache/reopen)
	Faults []string
	Comps  []*component // every component listener's own stream (the last one is Ev)
}

func rtConfig(engine string) wazero.RuntimeConfig {
	var c wazero.RuntimeConfig
	if engine == "compiler" {
		c = wazero.NewRuntimeConfigCompiler()
	} else {
		c = wazero.NewRuntimeConfigInterpreter()
	}
	return c.WithCoreFeatures(api.CoreFeaturesV2 | experimental.CoreFeaturesTailCall)
}

func classifyErr(err error) string {
	var ee *sys.ExitError
	var hp *hostPanic
	switch {
	case errors.As(err, &ee):
		return fmt.Sprintf("exit:%d", ee.ExitCode())
	case errors.As(err, &hp):
		return fmt.Sprintf("panic:%d", hp.node)
	case errors.Is(err, wasmruntime.ErrRuntimeUnreachable):
		return "trap"
	}
	s := err.Error()
	if len(s) > 160 {
		s = s[:160]
	}
	return "other:" + s
}

func runCase(p *program, spec runSpec) (res runResult) {
	ctx := context.Background()
	recA, recB := &recorder{p: p}, &recorder{p: p}
	ctxA, ctxB := ctx, ctx
	var underTest experimental.FunctionListenerFactory
	if spec.Listen {
		setA, allA := spec.set(), spec.All
		if spec.History == "other" {
			// the earlier compilation listens to the complementary set of functions
			inner := spec.set()
			setA, allA = func(i int) bool { return !inner(i) }, false
		}
		ctxA = experimental.WithFunctionListenerFactory(ctx, recA.factory(setA, allA))
		fB, comps := compose(p, spec.Comp, spec.set(), spec.All, spec.History == "once")
		res.Comps = comps
		recB = comps[len(comps)-1].rec
		ctxB = experimental.WithFunctionListenerFactory(ctx, fB)
		underTest = fB
	}
	// ctxFor: the context of the compilation of module k (0 = env, l+1 = m<l>)
	ctxFor := func(k int) context.Context {
		switch {
		case !spec.Listen || spec.NoFac == 0:
			return ctxB
		case spec.NoFac>>uint(k)&1 == 1:
			return ctx
		}
		return experimental.WithFunctionListenerFactory(ctx, &moduleFactory{inner: underTest, rec: recB, mod: k})
	}
	// runCtx: the context of instantiation (of an already compiled module) and of the call
	runCtx := ctx
	recD := &recorder{p: p}
	if spec.Decoy {
		runCtx = experimental.WithFunctionListenerFactory(ctx, recD.factory(nil, true))
	}
	cfg := rtConfig(spec.Engine)
	var cache wazero.CompilationCache
	if spec.History == "cache" {
		cache = wazero.NewCompilationCache()
		defer cache.Close(ctx)
		cfg = cfg.WithCompilationCache(cache)
		// first runtime: compiles every binary with factory A and stays open
		rt1 := wazero.NewRuntimeWithConfig(ctx, cfg)
		defer rt1.Close(ctx)
		for _, b := range p.bins {
			if _, err := rt1.CompileModule(ctxA, b); err != nil {
				panic(fmt.Errorf("harness: generated module rejected: %w", err))
			}
		}
	}
	rt := wazero.NewRuntimeWithConfig(ctx, cfg)
	defer rt.Close(ctx)

	fail := func(err error) runResult {
		res.Out = outcome{Err: "other:setup: " + err.Error()}
		return res
	}

	hk := &hooks{}
	var compiled []wazero.CompiledModule
	closeAll := func() {
		for _, c := range compiled {
			c.Close(ctx)
		}
		compiled = nil
	}
	if spec.History == "hostclose" {
		hk.onHostEntry = closeAll
	}

	// host module
	hb := rt.NewHostModuleBuilder("env")
	nhost := 0
	for i := range p.tree {
		if p.tree.isHost(i) {
			hb.NewFunctionBuilder().WithGoModuleFunction(p.hostFunc(i, hk), apiTypes(p.sigs[i].P), apiTypes(p.sigs[i].R)).Export(hname(i))
			nhost++
		}
	}
	if nhost > 0 && spec.History == "rtinst" {
		if _, err := hb.Instantiate(ctxFor(0)); err != nil {
			return fail(err)
		}
	} else if nhost > 0 {
		hc, err := hb.Compile(ctxFor(0))
		if err != nil {
			return fail(err)
		}
		compiled = append(compiled, hc)
		if _, err = rt.InstantiateModule(runCtx, hc, wazero.NewModuleConfig().WithName("env")); err != nil {
			return fail(err)
		}
	}
	var fillers []wazero.CompiledModule
	compileFiller := func(k int) {
		c, err := rt.CompileModule(ctx, fillerBins[k])
		if err != nil {
			panic(fmt.Errorf("harness: filler module rejected: %w", err))
		}
		fillers = append(fillers, c)
	}
	if spec.History == "closedmid" {
		compileFiller(0)
		compileFiller(1)
	}
	var startErr error
	var m0 api.Module
	for l := len(p.bins) - 1; l >= 0; l-- {
		switch spec.History {
		case "twice", "other":
			if _, err := rt.CompileModule(ctxA, p.bins[l]); err != nil {
				return fail(err)
			}
		case "reopen":
			ca, err := rt.CompileModule(ctxA, p.bins[l])
			if err != nil {
				return fail(err)
			}
			ca.Close(ctx)
		}
		var mod api.Module
		var err error
		if spec.History == "rtinst" {
			// the context carries the factory: compilation happens inside
			mod, err = rt.InstantiateWithConfig(ctxFor(l+1), p.bins[l], wazero.NewModuleConfig().WithName(fmt.Sprintf("m%d", l)))
		} else {
			var cm wazero.CompiledModule
			cm, err = rt.CompileModule(ctxFor(l+1), p.bins[l])
			if err != nil {
				panic(fmt.Errorf("harness: generated module rejected: %w", err))
			}
			compiled = append(compiled, cm)
			if l == 0 && spec.History == "closedmid" {
				// every module of the program is in the engine now; nothing of the tree has run yet
				compileFiller(2)
				compileFiller(3)
				fillers[0].Close(ctx)
				fillers[2].Close(ctx)
			}
			mod, err = rt.InstantiateModule(runCtx, cm, wazero.NewModuleConfig().WithName(fmt.Sprintf("m%d", l)))
		}
		if l == 0 && p.start {
			startErr = err
		} else if err != nil {
			return fail(err)
		}
		if l == 0 {
			m0 = mod
		}
	}
	if spec.History == "closedcm" {
		closeAll()
	}
	switch {
	case p.start && startErr != nil:
		res.Out = outcome{Err: classifyErr(startErr)}
	case p.start:
		res.Out = outcome{Results: []uint64{}}
	default:
		r, err := m0.ExportedFunction(fname(0)).Call(runCtx, params(0, p.sigs[0])...)
		if err != nil {
			res.Out = outcome{Err: classifyErr(err)}
		} else {
			mv, _ := maskVals(p.sigs[0].R, r)
			res.Out = outcome{Results: mv}
		}
	}
	res.Ev, res.EvA = recB.ev, recA.ev
	res.Faults = append(recA.faults, recB.faults...)
	if len(recD.ev) > 0 {
		res.Faults = append(res.Faults, fmt.Sprintf("call-context factory notified: a factory that was only in the context of InstantiateModule/Call (no compilation saw it) received %d events: %s", len(recD.ev), clip(streamString(recD.ev))))
	}
	for _, c := range res.Comps[:max(len(res.Comps)-1, 0)] {
		res.Faults = append(res.Faults, c.rec.faults...)
	}
	return res
}

// fillerBins: four unrelated modules of different code sizes (history "closedmid").
var fillerBins = func() [][]byte {
	var out [][]byte
	for k := 0; k < 4; k++ {
		m := &wb.Module{}
		a := &wb.Asm{}
		for j := 0; j < 40*k; j++ {
			a.I32Const(int32(j)).Drop()
		}
		a.I32Const(int32(100 + k))
		m.ExportFunc(fmt.Sprintf("filler%d", k), m.AddFunc(nil, []byte{wb.I32}, nil, a.B))
		out = append(out, m.Encode())
	}
	return out
}()
