package main

import (
	"fmt"
	"strings"

	"github.com/tetratelabs/wazero"
	"github.com/tetratelabs/wazero/api"
	"github.com/tetratelabs/wazero/verif/wb"
)

// xseq (second half of the xmod family): call SEQUENCES inside one function body of module m1 that mix calls to a
// function imported from another wasm instance (m2.f) with calls to an imported host function, in one basic block and
// with a block / if boundary between the calls as control. m1's memory shape is one of {own, none, shared, imported};
// m2.f itself does {a host call, a call_indirect, memory.grow, nothing} and m2 has {its own memory, no memory}.
// The host function hn() only records api.Module.Name() of the caller it is handed (usable by memory-less callers);
// h(ptr) additionally reads and writes the caller's memory (shapes with a memory only).
// Reference for EVERY logged host call: the caller is the module whose code contains the call instruction.

var xsShapes = []string{"own-memory", "no-memory", "shared-memory", "imported-memory"}
var xsSeqs = [][]byte{[]byte("FH"), []byte("HFH"), []byte("FFH"), []byte("HH")}
var xsSeps = []string{"one-block", "block-boundary", "if-boundary"}
var xsM2Kinds = []string{"host-call", "call_indirect", "memory.grow", "nothing"}
var xsM2Shapes = []string{"own-memory", "no-memory"}
var xsHosts = []string{"hn", "h"}

const (
	xsMemOwner  = "c01x_mem"
	xsMemMarker = 0xd4
	xsK         = 3
	xsHnTag     = 7
)

type xsScenario struct {
	shape, seq, sep, m2kind, m2shape, host int
}

func xsScenarios() []xsScenario {
	var out []xsScenario
	for sh := range xsShapes {
		for sq := range xsSeqs {
			for sp := range xsSeps {
				for k := range xsM2Kinds {
					for ms := range xsM2Shapes {
						if xsM2Kinds[k] == "memory.grow" && xsM2Shapes[ms] == "no-memory" {
							continue
						}
						for h := range xsHosts {
							if xsHosts[h] == "h" && xsShapes[sh] == "no-memory" {
								continue
							}
							out = append(out, xsScenario{sh, sq, sp, k, ms, h})
						}
					}
				}
			}
		}
	}
	return out
}

func (s xsScenario) describe() string {
	return fmt.Sprintf("m1(%s) body=[%s] %s host=%s; m2(%s).f does %s", xsShapes[s.shape], strings.Join(strings.Split(string(xsSeqs[s.seq]), ""), ";"),
		xsSeps[s.sep], xsHosts[s.host], xsM2Shapes[s.m2shape], xsM2Kinds[s.m2kind])
}

func xsMemOwnerModule() []byte {
	m := &wb.Module{}
	m.Mem = &wb.Limits{Min: 1, Max: 1, HasMax: true}
	m.Datas = []wb.Data{{Offset: wb.CI32(16), Bytes: []byte{xsMemMarker}}}
	m.Exports = append(m.Exports, wb.Export{Name: "mem", Kind: wb.KindMemory, Idx: 0})
	return m.Encode()
}

func xsM2Module(kind, shape int) []byte {
	m := &wb.Module{}
	var hn uint32
	if xsM2Kinds[kind] == "host-call" {
		hn = m.ImportFunc(xmEnv, "hn", nil, []byte{i32})
	}
	if xsM2Shapes[shape] == "own-memory" {
		m.Mem = &wb.Limits{Min: 1, Max: 2, HasMax: true}
		m.Datas = []wb.Data{{Offset: wb.CI32(16), Bytes: []byte{xmMarkers[1]}}}
	}
	a := &wb.Asm{}
	switch xsM2Kinds[kind] {
	case "host-call":
		a.Call(hn).LocalGet(0).Op(0x6a)
	case "call_indirect":
		id := m.AddFunc([]byte{i32}, []byte{i32}, nil, (&wb.Asm{}).LocalGet(0).I32Const(1).Op(0x6a).B)
		m.Tables = []wb.Table{{Elem: funcref, Lim: wb.Limits{Min: 1}}}
		m.Elems = []wb.Elem{{Mode: 0, Offset: wb.CI32(0), Funcs: []uint32{id}}}
		a.LocalGet(0).I32Const(0).CallIndirect(m.Type([]byte{i32}, []byte{i32}), 0)
	case "memory.grow":
		a.I32Const(0).MemoryGrow().LocalGet(0).Op(0x6a)
	default:
		a.LocalGet(0).I32Const(1).Op(0x6a)
	}
	m.ExportFunc("f", m.AddFunc([]byte{i32}, []byte{i32}, nil, a.B))
	return m.Encode()
}

// value returned by m2.f(xsK)
func xsM2Value(kind int) uint32 {
	switch xsM2Kinds[kind] {
	case "host-call":
		return xsHnTag + xsK
	case "memory.grow":
		return 1 + xsK
	}
	return xsK + 1
}

func xsM1Module(s xsScenario) []byte {
	m := &wb.Module{}
	f := m.ImportFunc(xmName(1), "f", []byte{i32}, []byte{i32})
	var h uint32
	if xsHosts[s.host] == "hn" {
		h = m.ImportFunc(xmEnv, "hn", nil, []byte{i32})
	} else {
		h = m.ImportFunc(xmEnv, "h", []byte{i32}, []byte{i32})
	}
	switch xsShapes[s.shape] {
	case "own-memory":
		m.Mem = &wb.Limits{Min: 1, Max: 1, HasMax: true}
	case "shared-memory":
		m.Mem = &wb.Limits{Min: 1, Max: 1, HasMax: true, Shared: true}
	case "imported-memory":
		m.Imports = append(m.Imports, wb.Import{Module: xsMemOwner, Name: "mem", Kind: wb.KindMemory, Mem: wb.Limits{Min: 1, Max: 1, HasMax: true}})
	}
	if m.Mem != nil {
		m.Datas = []wb.Data{{Offset: wb.CI32(16), Bytes: []byte{xmMarkers[0]}}}
	}
	a := &wb.Asm{}
	for i, it := range xsSeqs[s.seq] {
		if i > 0 {
			switch xsSeps[s.sep] {
			case "block-boundary":
				a.Block(wb.Void)
			case "if-boundary":
				a.I32Const(1).If(wb.Void)
			}
		}
		if it == 'F' {
			a.I32Const(xsK).Call(f)
		} else if xsHosts[s.host] == "hn" {
			a.Call(h)
		} else {
			a.I32Const(16).Call(h)
		}
		a.LocalGet(0).I32Const(16).Op(0x6c).Op(0x6a).LocalSet(0)
		if i > 0 && xsSeps[s.sep] != "one-block" {
			a.End()
		}
	}
	a.LocalGet(0)
	m.ExportFunc("run", m.AddFunc(nil, []byte{i32}, []byte{i32}, a.B))
	return m.Encode()
}

type xsObs struct {
	outcome string
	result  uint32
	log     string
	mems    string
}

func (o xsObs) String() string {
	return fmt.Sprintf("%s result=0x%x log=[%s] memories=[%s]", o.outcome, o.result, o.log, o.mems)
}

func xsMemString(name string, mod api.Module) string {
	mem := memoryOf(mod)
	if mem == nil {
		return name + ":none"
	}
	b16, _ := mem.ReadByte(16)
	b20, _ := mem.ReadByte(20)
	return fmt.Sprintf("%s:marker=0x%x m[20]=0x%x", name, b16, b20)
}

func xsReference(s xsScenario) xsObs {
	o := xsObs{outcome: "ok"}
	var log []string
	m1 := xmName(0)
	marker := uint32(xmMarkers[0])
	if xsShapes[s.shape] == "imported-memory" {
		marker = xsMemMarker
	}
	usedH := false
	for _, it := range xsSeqs[s.seq] {
		var r uint32
		if it == 'F' {
			if xsM2Kinds[s.m2kind] == "host-call" {
				log = append(log, "hn caller="+xmName(1))
			}
			r = xsM2Value(s.m2kind)
		} else if xsHosts[s.host] == "hn" {
			log = append(log, "hn caller="+m1)
			r = xsHnTag
		} else {
			log = append(log, fmt.Sprintf("caller=%s read=0x%x", m1, marker))
			r = marker
			usedH = true
		}
		o.result = o.result*16 + r
	}
	o.log = strings.Join(log, "; ")
	w := 0
	if usedH {
		w = 0x77
	}
	var ms []string
	switch xsShapes[s.shape] {
	case "no-memory":
		ms = append(ms, "m1:none")
	case "imported-memory":
		ms = append(ms, fmt.Sprintf("m1:marker=0x%x m[20]=0x%x", xsMemMarker, w))
	default:
		ms = append(ms, fmt.Sprintf("m1:marker=0x%x m[20]=0x%x", xmMarkers[0], w))
	}
	if xsM2Shapes[s.m2shape] == "own-memory" {
		ms = append(ms, fmt.Sprintf("m2:marker=0x%x m[20]=0x0", xmMarkers[1]))
	} else {
		ms = append(ms, "m2:none")
	}
	if xsShapes[s.shape] == "imported-memory" {
		ms = append(ms, fmt.Sprintf("mem:marker=0x%x m[20]=0x%x", xsMemMarker, w))
	}
	o.mems = strings.Join(ms, " ")
	return o
}

// xsRun executes one scenario on one runtime.
func xsRun(rt wazero.Runtime, log *xmLog, cache map[string]wazero.CompiledModule, s xsScenario) (o xsObs) {
	defer func() {
		if r := recover(); r != nil {
			o.outcome = "panic:" + fmt.Sprint(r)
		}
	}()
	var mods []api.Module
	defer func() {
		for i := len(mods) - 1; i >= 0; i-- {
			mods[i].Close(bg)
		}
	}()
	inst := func(key, name string, bin func() []byte) api.Module {
		cm := cache[key]
		if cm == nil {
			var err error
			cm, err = rt.CompileModule(bg, bin())
			if err != nil {
				panic("compile " + key + ": " + err.Error())
			}
			cache[key] = cm
		}
		m, err := rt.InstantiateModule(bg, cm, wazero.NewModuleConfig().WithName(name).WithRandSource(zeroReader{}))
		if err != nil {
			panic("instantiate " + key + ": " + err.Error())
		}
		mods = append(mods, m)
		return m
	}
	log.entries = log.entries[:0]
	var memMod api.Module
	if xsShapes[s.shape] == "imported-memory" {
		memMod = inst("mem", xsMemOwner, xsMemOwnerModule)
	}
	m2 := inst(fmt.Sprintf("m2/%d/%d", s.m2kind, s.m2shape), xmName(1), func() []byte { return xsM2Module(s.m2kind, s.m2shape) })
	m1 := inst(fmt.Sprintf("m1/%v", s), xmName(0), func() []byte { return xsM1Module(s) })
	stack := []uint64{0}
	o.outcome = trapClass(m1.ExportedFunction("run").CallWithStack(bg, stack))
	if o.outcome == "ok" {
		o.result = uint32(stack[0])
	}
	o.log = strings.Join(log.entries, "; ")
	ms := []string{xsMemString("m1", m1), xsMemString("m2", m2)}
	if memMod != nil {
		ms = append(ms, xsMemString("mem", memMod))
	}
	o.mems = strings.Join(ms, " ")
	return
}
